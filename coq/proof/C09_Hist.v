(* C09: FastaIndex.add / reopen / get as a state machine over arbitrary histories: invariant by induction over the operations,
   reopening changes nothing, every answer ever given is the slice of the right record of the right file. *)
From Coq Require Import List Arith Lia ZArith NArith Bool Sorted Permutation.
From Coq.Strings Require Import Byte.
Import ListNotations.
From SV Require Import Text C09_Model C09_Lemmas C09_Extract C09_Record C09_Unterm C09_Box C09_Scan C09_Parse C09_Get C09_GetAll C09_Header C09_Store C09_Sort C09_Layout.

(* ------------------------------------------------------------------ small facts *)
Lemma index_of_some x : forall l k, index_of x l = Some k -> nth_error l k = Some x.
Proof.
  induction l as [|y l IH]; intros k H; [discriminate|]. cbn [index_of] in H. destruct (str_eqb y x) eqn:E.
  - inversion H; subst. apply str_eqb_eq in E. subst. reflexivity.
  - destruct (index_of x l) as [k'|]; [|discriminate]. cbn in H. inversion H; subst. cbn. apply IH. reflexivity.
Qed.

Lemma index_of_none x : forall l, index_of x l = None -> ~ In x l.
Proof.
  induction l as [|y l IH]; intros H I; [destruct I|]. cbn [index_of] in H. destruct (str_eqb y x) eqn:E; [discriminate|].
  destruct (index_of x l); [discriminate|]. destruct I as [->|I]; [rewrite str_eqb_refl in E; discriminate|exact (IH eq_refl I)].
Qed.

Lemma str_in_dec (x : str) : forall l, In x l \/ ~ In x l.
Proof.
  induction l as [|y l [IH|IH]]; [right; intros []|left; right; exact IH|].
  destruct (str_eqb y x) eqn:E; [apply str_eqb_eq in E; left; left; exact E|].
  right. intros [->|I]; [rewrite str_eqb_refl in E; discriminate|exact (IH I)].
Qed.

Lemma expected_in nl fn : forall rs pos e, In e (expected_from nl fn pos rs) ->
  exists rs1 r rs2, rs = rs1 ++ r :: rs2
    /\ e = Entry (rid r) fn (if length (rseq r) <=? rw r then 0 else rw r + length nl) (pos + length (render_recs nl rs1)).
Proof.
  induction rs as [|r rs IH]; intros pos e H; [destruct H|]. cbn [expected_from] in H. destruct H as [<-|H].
  - exists [], r, rs. split; [reflexivity|]. cbn. rewrite Nat.add_0_r. reflexivity.
  - destruct (IH _ _ H) as [rs1 [r' [rs2 [-> ->]]]]. exists (r :: rs1), r', rs2. split; [reflexivity|].
    rewrite render_recs_cons, app_length. f_equal. lia.
Qed.

(* a record of a well-formed file, at the offsets the scanner stores for it *)
Lemma rec_ok_gfile mode crlf final rs1 r rs2 :
  wf_gfile mode (crlf, final, rs1 ++ r :: rs2) ->
  rec_ok (gfile_bytes (crlf, final, rs1 ++ r :: rs2)) (linelen_of crlf r) (length (render_recs (nl_of crlf) rs1)) crlf r
         (rhline crlf final rs2 r) (rtext crlf final rs2 r).
Proof.
  intros [_ Hrs]. cbn [g_strip g_crlf g_recs fst snd] in Hrs. rewrite Forall_forall in Hrs.
  assert (Hr: wf_rec mode (length (nl_of crlf)) r = true) by (apply Hrs, in_or_app; right; left; reflexivity).
  unfold gfile_bytes. cbn [g_crlf g_final g_recs fst snd].
  destruct (gfile_split crlf final rs1 r rs2) as [post [EF Hpost]]. rewrite EF.
  unfold rhline, rtext. destruct (final || negb (is_nil rs2)) eqn:Eb.
  - cbn [orb]. apply (rec_ok_terminated mode crlf r _ post Hr Hpost).
  - cbn [orb]. destruct (rseq r) as [|c0 s0] eqn:Es.
    + cbn [is_nil negb]. rewrite (unterm_degenerate crlf r Es). apply (rec_ok_degenerate mode crlf r _ Hr Es).
    + cbn [is_nil negb]. apply (rec_ok_unterminated mode crlf r _ Hr). rewrite Es. discriminate.
Qed.

Lemma answer_raw_ok f ll st crlf r hline txt id : rec_ok f ll st crlf r hline txt ->
  (forall rng, answer_raw f ll st (Query 2 id rng) = VS hline)
  /\ answer_raw f ll st (Query 1 id None) = VS txt
  /\ answer_raw f ll st (Query 0 id None) = VL [VS (rid r); VS (hdr crlf r); VS (upper (rseq r))]
  /\ forall oi oj : option nat,
       (match oi, oj with Some i, Some j => i <= j | None, None => False | _, _ => True end) ->
       answer_raw f ll st (Query 0 id (Some (option_map Z.of_nat oi, option_map Z.of_nat oj)))
       = VL [VS (rid r); VS (hdr crlf r); VS (upper (sl (rseq r) oi oj))].
Proof.
  intros [EH [[EF PF] HR]]. unfold answer_raw. split; [|split; [|split]].
  - intros rng. cbn [qkind_of q_api N.eqb Pos.eqb]. rewrite EH. reflexivity.
  - cbn [qkind_of q_api q_rng N.eqb Pos.eqb]. rewrite EF. reflexivity.
  - cbn [qkind_of q_api q_rng N.eqb]. rewrite EF, PF. reflexivity.
  - intros oi oj Hij. cbn [q_api N.eqb].
    assert (Hq: qkind_of (Query 0 id (Some (option_map Z.of_nat oi, option_map Z.of_nat oj)))
                = QRange (option_map Z.of_nat oi) (option_map Z.of_nat oj)).
    { unfold qkind_of. cbn [q_api q_rng N.eqb]. destruct oi, oj; try reflexivity. destruct Hij. }
    rewrite Hq. destruct (HR oi oj ltac:(destruct oi, oj; auto)) as [t [E P]]. rewrite E, P. reflexivity.
Qed.

(* dbm as a map *)
Lemma db_get_set k v : forall d id, db_get id (db_set k v d) = if str_eqb k id then Some v else db_get id d.
Proof.
  induction d as [|[k' v'] d IH]; intros id; cbn [db_set db_get].
  - reflexivity.
  - destruct (str_eqb k' k) eqn:E.
    + apply str_eqb_eq in E. subst k'. cbn [db_get]. destruct (str_eqb k id); reflexivity.
    + cbn [db_get]. destruct (str_eqb k' id) eqn:E2.
      * destruct (str_eqb k id) eqn:E3; [|reflexivity]. apply str_eqb_eq in E2. apply str_eqb_eq in E3. subst.
        rewrite str_eqb_refl in E. discriminate.
      * apply IH.
Qed.

Lemma db_add_all_get : forall es d d', db_add_all es d = Some d' ->
  forall id v, db_get id d' = Some v -> (exists e, In e es /\ e_id e = id /\ pack_entry e = Some v) \/ db_get id d = Some v.
Proof.
  induction es as [|e es IH]; intros d d' H id v G.
  - inversion H; subst. right. exact G.
  - cbn [db_add_all] in H. destruct (pack_entry e) as [pv|] eqn:P; [|discriminate].
    destruct (IH _ _ H id v G) as [[e' [I [E1 E2]]]|G'].
    + left. exists e'. split; [right; exact I|]. split; assumption.
    + rewrite db_get_set in G'. destruct (str_eqb (e_id e) id) eqn:E.
      * apply str_eqb_eq in E. inversion G'; subst. left. exists e. split; [left; reflexivity|]. split; [reflexivity|exact P].
      * right. exact G'.
Qed.

Lemma db_add_all_header : forall es d d', db_add_all es d = Some d' -> (forall e, In e es -> e_id e <> HEADER_KEY) ->
  db_get HEADER_KEY d' = db_get HEADER_KEY d.
Proof.
  induction es as [|e es IH]; intros d d' H Hn; [inversion H; reflexivity|].
  cbn [db_add_all] in H. destruct (pack_entry e) as [pv|]; [|discriminate].
  rewrite (IH _ _ H (fun e' I => Hn e' (or_intror I))), db_get_set.
  destruct (str_eqb (e_id e) HEADER_KEY) eqn:E; [|reflexivity]. apply str_eqb_eq in E. exfalso. exact (Hn e (or_introl eq_refl) E).
Qed.

Section Hist.
Variable mode : N.
Variables hs path : str.
Variable env : list (str * gfile).
Hypothesis Hmode : mode = MODE_BINARY \/ mode = MODE_DB.
Hypothesis Hnd : NoDup (map fst env).
Hypothesis Hwf : Forall (fun nf => wf_gfile mode (snd nf)) env.
Hypothesis Hnames : Forall (fun nf => name_ok (fst nf) = true) env.
Hypothesis Hpath : wf_header mode hs path [] = true.

Definition benv : fenv := map (fun nf => (fst nf, gfile_bytes (snd nf))) env.

Lemma env_bytes_in : forall (ev : list (str * gfile)) nm f, NoDup (map fst ev) -> In (nm, f) ev ->
  env_bytes (map (fun nf => (fst nf, gfile_bytes (snd nf))) ev) nm = gfile_bytes f.
Proof.
  induction ev as [|[n g] ev IH]; intros nm f ND I; [destruct I|]. cbn [map env_bytes fst snd]. inversion ND as [|? ? Hn ND']; subst.
  destruct I as [E|I].
  - inversion E; subst. rewrite str_eqb_refl. reflexivity.
  - destruct (str_eqb n nm) eqn:E.
    + apply str_eqb_eq in E. subst. exfalso. apply Hn. exact (in_map fst _ _ I).
    + apply IH; assumption.
Qed.

Lemma env_bytes_notin : forall (ev : list (str * gfile)) nm, ~ In nm (map fst ev) ->
  env_bytes (map (fun nf => (fst nf, gfile_bytes (snd nf))) ev) nm = [].
Proof.
  induction ev as [|[n g] ev IH]; intros nm Hn; [reflexivity|]. cbn [map env_bytes fst snd].
  destruct (str_eqb n nm) eqn:E; [apply str_eqb_eq in E; exfalso; apply Hn; left; exact E|].
  apply IH. intros I. apply Hn. right. exact I.
Qed.

(* provenance: the record was produced by the scan of the file registered under its file number *)
Definition prov (files : list str) (e : entry) : Prop :=
  exists nm f, nth_error files (e_fn e) = Some nm /\ In (nm, f) env
               /\ In e (expected_from (nl_of (g_crlf f)) (e_fn e) 0 (g_recs f)).

Lemma prov_app files ext e : prov files e -> prov (files ++ ext) e.
Proof.
  intros [nm [f [N [I X]]]]. exists nm, f. split; [|split; assumption].
  rewrite nth_error_app1; [exact N|]. apply nth_error_Some. congruence.
Qed.

Lemma add_files_spec : forall names files acc files' add,
  add_files benv names files acc = Ok (files', add) ->
  NoDup files -> incl files (map fst env) ->
  (exists ext, files' = files ++ ext) /\ NoDup files' /\ incl files' (map fst env)
  /\ exists es, add = acc ++ es /\ Forall (prov files') es.
Proof.
  induction names as [|nm names IH]; intros files acc files' add H ND IN.
  - inversion H; subst. split; [exists []; rewrite app_nil_r; reflexivity|]. split; [exact ND|]. split; [exact IN|].
    exists []. rewrite app_nil_r. split; [reflexivity|constructor].
  - cbn [add_files] in H. destruct (register nm files) as [fn files1] eqn:R.
    destruct (scan_file (env_bytes benv nm) fn) as [es|] eqn:S; [|discriminate].
    destruct (str_in_dec nm (map fst env)) as [Inm|Nnm].
    2: { unfold benv in S. rewrite (env_bytes_notin env nm Nnm) in S. discriminate. }
    apply in_map_iff in Inm. destruct Inm as [[nm' f] [E If]]. cbn in E. subst nm'.
    unfold benv in S. rewrite (env_bytes_in env nm f Hnd If) in S.
    assert (Wf: wf_gfile mode f) by (rewrite Forall_forall in Hwf; exact (Hwf _ If)).
    rewrite (scan_gfile mode f fn Wf) in S. inversion S; subst es. clear S.
    assert (R': (exists ext1, files1 = files ++ ext1) /\ NoDup files1 /\ incl files1 (map fst env) /\ nth_error files1 fn = Some nm).
    { unfold register in R. destruct (index_of nm files) as [k|] eqn:IO; inversion R; subst.
      - split; [exists []; rewrite app_nil_r; reflexivity|]. split; [exact ND|]. split; [exact IN|]. exact (index_of_some _ _ _ IO).
      - split; [exists [nm]; reflexivity|]. split.
        + apply (Permutation_NoDup (Permutation_cons_append files nm)). constructor; [exact (index_of_none _ _ IO)|exact ND].
        + split.
          * intros x Hx. apply in_app_or in Hx. destruct Hx as [Hx|[<-|[]]]; [exact (IN _ Hx)|]. exact (in_map fst _ _ If).
          * rewrite nth_error_app2, Nat.sub_diag; [reflexivity|lia]. }
    destruct R' as [[ext1 E1] [ND1 [IN1 Nth]]].
    destruct (IH _ _ _ _ H ND1 IN1) as [[ext2 E2] [ND2 [IN2 [es2 [Ea Fa]]]]].
    split; [exists (ext1 ++ ext2); rewrite E2, E1, app_assoc; reflexivity|]. split; [exact ND2|]. split; [exact IN2|].
    exists (expected_from (nl_of (g_crlf f)) fn 0 (g_recs f) ++ es2). split; [rewrite Ea, app_assoc; reflexivity|].
    apply Forall_app. split; [|exact Fa]. apply Forall_forall. intros e He. rewrite E2. apply prov_app.
    assert (Fe: e_fn e = fn).
    { destruct (expected_in _ _ _ _ _ He) as [? [? [? [_ ->]]]]. reflexivity. }
    exists nm, f. rewrite Fe. split; [exact Nth|]. split; [exact If|exact He].
Qed.

(* the header is well-formed for every list of registered files *)
Lemma wf_header_files files : incl files (map fst env) -> wf_header mode hs path files = true.
Proof.
  intros IN. unfold wf_header in *. cbn [forallb] in Hpath.
  apply andb_prop in Hpath. destruct Hpath as [H1 Hasc]. apply andb_prop in H1. destruct H1 as [H1 Hhs].
  apply andb_prop in H1. destruct H1 as [H1 _]. apply andb_prop in H1. destruct H1 as [Hm Hp].
  apply andb_prop in Hasc. destruct Hasc as [Hpa _].
  assert (Hf: forall nm, In nm files -> name_ok nm = true).
  { intros nm I. apply IN in I. apply in_map_iff in I. destruct I as [[n f] [E I]]. cbn in E. subst n.
    rewrite Forall_forall in Hnames. exact (Hnames _ I). }
  rewrite Hm, Hp, Hhs. cbn [andb forallb]. rewrite Hpa. cbn [andb].
  assert (A: forallb wf_name files = true).
  { apply forallb_forall. intros nm I. specialize (Hf nm I). unfold name_ok in Hf.
    apply andb_prop in Hf. destruct Hf as [Hf _]. apply andb_prop in Hf. destruct Hf as [Hf _]. exact Hf. }
  assert (B: forallb (forallb (fun c => N.ltb (Byte.to_N c) 128)) files = true).
  { apply forallb_forall. intros nm I. specialize (Hf nm I). unfold name_ok in Hf.
    apply andb_prop in Hf. destruct Hf as [_ Hf]. exact Hf. }
  rewrite A, B. reflexivity.
Qed.

(* ------------------------------------------------------------------ the invariant *)
Definition inv (s : istate) : Prop :=
  st_path s = path /\ NoDup (st_files s) /\ incl (st_files s) (map fst env)
  /\ (forall h recs, st_bin s = Some (h, recs) ->
        h = header_bytes mode path (st_files s) /\ StronglySorted entry_le recs /\ Forall (prov (st_files s)) recs)
  /\ (forall id v, db_get id (st_db s) = Some v -> id <> HEADER_KEY ->
        exists e, prov (st_files s) e /\ e_id e = id /\ pack_entry e = Some v)
  /\ (st_db s = [] \/ db_get HEADER_KEY (st_db s) = Some (header_bytes mode path (st_files s)))
  /\ (mode = MODE_BINARY -> st_db s = []) /\ (mode = MODE_DB -> st_bin s = None).

Lemma inv_init : inv (init_state path).
Proof.
  unfold inv, init_state. cbn. split; [reflexivity|]. split; [constructor|]. split; [intros x []|].
  split; [intros; discriminate|]. split; [intros; discriminate|]. split; [left; reflexivity|]. split; reflexivity.
Qed.

(* reopening: the stored header parses back to the path and the registered files *)
Lemma reopen_reads s h : inv s -> stored_hdr mode hs s = Some h -> read_header mode h = Some (path, st_files s).
Proof.
  intros [Ip [Ind [Iin [Ib [Id [Ih [Imb Imd]]]]]]] H.
  pose proof (header_roundtrip mode hs path (st_files s) (wf_header_files _ Iin)) as RT.
  unfold stored_hdr in H. unfold stored_header in RT. destruct Hmode as [M|M]; subst mode.
  - cbn [N.eqb MODE_BINARY MODE_DB] in *. destruct (st_bin s) as [[h0 recs]|] eqn:B; [|discriminate].
    inversion H; subst h. destruct (Ib _ _ eq_refl) as [-> _]. exact RT.
  - cbn [N.eqb MODE_BINARY MODE_DB Pos.eqb] in *. destruct Ih as [E|E]; [rewrite E in H; discriminate|].
    rewrite E in H. inversion H; subst h. exact RT.
Qed.

Theorem reopen_same s : inv s -> fst (step mode hs benv s OReopen) = s.
Proof.
  intros I. cbn [step]. destruct (stored_hdr mode hs s) as [h|] eqn:H; [|reflexivity].
  rewrite (reopen_reads s h I H). cbn [fst]. destruct I as [Ip _]. rewrite <- Ip. destruct s; reflexivity.
Qed.

Lemma wf_ids_not_header f e : mode = MODE_DB -> wf_gfile mode f -> In e (expected_from (nl_of (g_crlf f)) (e_fn e) 0 (g_recs f)) ->
  e_id e <> HEADER_KEY.
Proof.
  intros M [_ Hrs] He. destruct (expected_in _ _ _ _ _ He) as [rs1 [r [rs2 [Er Ee]]]].
  cbn [g_strip fst snd] in Hrs. rewrite Er in Hrs. rewrite Forall_forall in Hrs.
  assert (Hr: wf_rec mode (length (nl_of (g_crlf f))) r = true) by (apply Hrs, in_or_app; right; left; reflexivity).
  rewrite Ee. cbn [e_id]. subst mode. unfold wf_rec in Hr. cbn [N.eqb MODE_DB Pos.eqb] in Hr.
  apply andb_prop in Hr. destruct Hr as [_ Hr]. apply andb_prop in Hr. destruct Hr as [Hr _].
  intros E. rewrite E, str_eqb_refl in Hr. discriminate.
Qed.

Lemma prov_not_header files e : mode = MODE_DB -> prov files e -> e_id e <> HEADER_KEY.
Proof.
  intros M [nm [f [_ [If He]]]]. apply (wf_ids_not_header f e M); [|exact He]. rewrite Forall_forall in Hwf. exact (Hwf _ If).
Qed.

Theorem inv_step s o : inv s -> inv (fst (step mode hs benv s o)).
Proof.
  intros I. destruct o as [ks force| |q| |]; try exact I.
  - (* add *)
    cbn [step].
    destruct (N.eqb mode MODE_BINARY && negb force && match st_bin s with Some (_, _ :: _) => true | _ => false end); [exact I|].
    destruct (add_files benv (sort_s (map (fun k => fst (nth k benv ([], []))) ks)) (st_files s) []) as [[files' add]|] eqn:A; [|exact I].
    pose proof I as I0. destruct I as [Ip [Ind [Iin [Ib [Id [Ih [Imb Imd]]]]]]].
    destruct (add_files_spec _ _ _ _ _ A Ind Iin) as [[ext Ef] [ND' [IN' [es [Ea Fa]]]]]. cbn [app] in Ea. subst es.
    rewrite Ip.
    assert (Old: forall e, prov (st_files s) e -> prov files' e) by (intros e P; rewrite Ef; apply prov_app; exact P).
    destruct Hmode as [M|M].
    + (* binary *)
      assert (Edb: N.eqb mode MODE_DB = false) by (rewrite M; reflexivity). rewrite Edb.
      destruct force.
      * destruct (st_bin s) as [[h0 old]|] eqn:B; [|exact I0].
        cbn [fst]. unfold inv. cbn [st_path st_files st_bin st_db]. split; [reflexivity|]. split; [exact ND'|]. split; [exact IN'|].
        split.
        { intros h recs E. inversion E; subst. split; [reflexivity|]. split; [apply sort_sorted|].
          apply (Permutation_Forall (Permutation_sym (sort_perm _))). apply Forall_app. split; [|exact Fa].
          destruct (Ib _ _ eq_refl) as [_ [_ Fo]]. eapply Forall_impl; [|exact Fo]. exact Old. }
        rewrite (Imb M). split; [intros; discriminate|]. split; [left; reflexivity|]. split; [reflexivity|intros M'; rewrite M in M'; discriminate].
      * cbn [fst]. unfold inv. cbn [st_path st_files st_bin st_db]. split; [reflexivity|]. split; [exact ND'|]. split; [exact IN'|].
        split.
        { intros h recs E. inversion E; subst. split; [reflexivity|]. split; [apply sort_sorted|].
          apply (Permutation_Forall (Permutation_sym (sort_perm _))). exact Fa. }
        rewrite (Imb M). split; [intros; discriminate|]. split; [left; reflexivity|]. split; [reflexivity|intros M'; rewrite M in M'; discriminate].
    + (* dbm *)
      assert (Edb: N.eqb mode MODE_DB = true) by (rewrite M; reflexivity). rewrite Edb.
      destruct (db_add_all add (st_db s)) as [d|] eqn:D; [|exact I0].
      cbn [fst]. unfold inv. cbn [st_path st_files st_bin st_db]. split; [reflexivity|]. split; [exact ND'|]. split; [exact IN'|].
      rewrite (Imd M). split; [intros; discriminate|]. split.
      { intros id v G Hid. rewrite db_get_set in G. destruct (str_eqb HEADER_KEY id) eqn:E; [apply str_eqb_eq in E; congruence|].
        destruct (db_add_all_get _ _ _ D id v G) as [[e [Ie [E1 E2]]]|G'].
        - exists e. split; [|split; assumption]. rewrite Forall_forall in Fa. exact (Fa _ Ie).
        - destruct (Id _ _ G' Hid) as [e [P [E1 E2]]]. exists e. split; [exact (Old _ P)|]. split; assumption. }
      split; [right; rewrite db_get_set, str_eqb_refl; reflexivity|]. split; [intros M'; rewrite M in M'; discriminate|reflexivity].
  - (* reopen *)
    rewrite (reopen_same s I). exact I.
Qed.

Theorem hist_invariant : forall ops s, inv s -> inv (fst (run_ops mode hs benv s ops)).
Proof.
  induction ops as [|o ops IH]; intros s I; [exact I|].
  cbn [run_ops]. pose proof (inv_step s o I) as I1. destruct (step mode hs benv s o) as [s1 v]. cbn [fst] in I1.
  specialize (IH s1 I1). destruct (run_ops mode hs benv s1 ops) as [s2 vs]. exact IH.
Qed.

(* ------------------------------------------------------------------ every answer is the slice of the right record *)
Hypothesis Hsmall : (N.of_nat (length env) < 65536)%N.

Lemma prov_bounds files e : NoDup files -> incl files (map fst env) -> mode = MODE_DB -> prov files e ->
  (N.of_nat (e_fn e) < 65536)%N /\ (N.of_nat (e_linelen e) < 65536)%N.
Proof.
  intros ND IN M [nm [f [Nth [If He]]]]. split.
  - assert (e_fn e < length files) by (apply nth_error_Some; congruence).
    pose proof (NoDup_incl_length ND IN) as L. rewrite map_length in L. lia.
  - destruct (expected_in _ _ _ _ _ He) as [rs1 [r [rs2 [Er Ee]]]]. rewrite Ee. cbn [e_linelen].
    rewrite Forall_forall in Hwf. pose proof (Hwf _ If) as [_ Hrs]. cbn [g_strip fst snd] in Hrs. rewrite Er in Hrs.
    rewrite Forall_forall in Hrs.
    assert (Hr: wf_rec mode (length (nl_of (g_crlf f))) r = true) by (apply Hrs, in_or_app; right; left; reflexivity).
    subst mode. exact (wf_rec_db_ll (g_crlf f) r Hr).
Qed.

Lemma lookup_prov s id fn ll st : inv s -> id <> [] -> id <> HEADER_KEY ->
  lookup_entry mode s id = Ok (fn, ll, st) -> prov (st_files s) (Entry id fn ll st).
Proof.
  intros [Ip [Ind [Iin [Ib [Id [Ih [Imb Imd]]]]]]] Hne Hnh L. unfold lookup_entry in L. destruct Hmode as [M|M].
  - assert (Edb: N.eqb mode MODE_DB = false) by (rewrite M; reflexivity). rewrite Edb in L.
    destruct (st_bin s) as [[h recs]|] eqn:B; [|discriminate]. destruct (Ib _ _ eq_refl) as [_ [Ss Fp]].
    destruct (bsf_get recs id) as [e|] eqn:G; [|discriminate]. inversion L; subst.
    destruct (bsf_get_min recs id e Ss Hne G) as [Ie [Ee _]]. rewrite Forall_forall in Fp. specialize (Fp _ Ie).
    destruct e; cbn in *. subst. exact Fp.
  - assert (Edb: N.eqb mode MODE_DB = true) by (rewrite M; reflexivity). rewrite Edb in L.
    destruct (db_get id (st_db s)) as [v|] eqn:G; [|discriminate].
    destruct (Id _ _ G Hnh) as [e [P [Ee Pk]]]. destruct (prov_bounds _ e Ind Iin M P) as [B1 B2].
    unfold pack_entry in Pk. destruct (pack_unpack (N.of_nat (e_fn e)) (N.of_nat (e_linelen e)) (N.of_nat (e_start e)) B1 B2) as [b [Pb Ub]].
    rewrite Pb in Pk. inversion Pk; subst v. rewrite Ub in L. rewrite !Nat2N.id in L. inversion L; subst.
    destruct e; cbn in *. exact P.
Qed.

Theorem get_sound s id fn ll st : inv s -> id <> [] -> id <> HEADER_KEY ->
  lookup_entry mode s id = Ok (fn, ll, st) ->
  exists nm crlf final rs1 r rs2,
    nth_error (st_files s) fn = Some nm /\ In (nm, (crlf, final, rs1 ++ r :: rs2)) env /\ rid r = id
    /\ (forall rng, snd (step mode hs benv s (OGet (Query 2 id rng))) = VS (rhline crlf final rs2 r))
    /\ snd (step mode hs benv s (OGet (Query 1 id None))) = VS (rtext crlf final rs2 r)
    /\ snd (step mode hs benv s (OGet (Query 0 id None))) = VL [VS id; VS (hdr crlf r); VS (upper (rseq r))]
    /\ forall oi oj : option nat,
         (match oi, oj with Some i, Some j => i <= j | None, None => False | _, _ => True end) ->
         snd (step mode hs benv s (OGet (Query 0 id (Some (option_map Z.of_nat oi, option_map Z.of_nat oj)))))
         = VL [VS id; VS (hdr crlf r); VS (upper (sl (rseq r) oi oj))].
Proof.
  intros I Hne Hnh L. destruct (lookup_prov s id fn ll st I Hne Hnh L) as [nm [f [Nth [If He]]]]. cbn [e_fn] in *.
  destruct (expected_in _ _ _ _ _ He) as [rs1 [r [rs2 [Er Ee]]]]. injection Ee as Eid Ell Est. cbn [Nat.add] in Est.
  destruct f as [[crlf final] rs]. cbn [g_crlf g_recs fst snd] in *. subst rs.
  exists nm, crlf, final, rs1, r, rs2. split; [exact Nth|]. split; [exact If|]. split; [symmetry; exact Eid|].
  assert (Wf: wf_gfile mode (crlf, final, rs1 ++ r :: rs2)) by (rewrite Forall_forall in Hwf; exact (Hwf _ If)).
  pose proof (rec_ok_gfile mode crlf final rs1 r rs2 Wf) as RO.
  assert (Eb: env_bytes benv nm = gfile_bytes (crlf, final, rs1 ++ r :: rs2)) by (apply (env_bytes_in env nm _ Hnd If)).
  assert (St: forall q, q_id q = id -> snd (step mode hs benv s (OGet q))
                = answer_raw (gfile_bytes (crlf, final, rs1 ++ r :: rs2)) (linelen_of crlf r) (length (render_recs (nl_of crlf) rs1)) q).
  { intros q Hq. cbn [step snd]. rewrite Hq, L, Nth, Eb. unfold linelen_of. rewrite <- Ell, <- Est. reflexivity. }
  destruct (answer_raw_ok _ _ _ _ _ _ _ id RO) as [A1 [A2 [A3 A4]]]. rewrite <- Eid in *.
  split; [intros rng; rewrite St by reflexivity; apply A1|]. split; [rewrite St by reflexivity; exact A2|].
  split; [rewrite St by reflexivity; exact A3|]. intros oi oj Hij. rewrite St by reflexivity. exact (A4 oi oj Hij).
Qed.

(* end to end over histories: after ANY sequence of add / reopen / get / len operations, in either mode, whatever id the
   index finds answers with the header line, the text, the residues and every slice of the record with that id in the file
   that is registered under the stored file number *)
Theorem hist_get_sound : forall ops id fn ll st,
  let s := fst (run_ops mode hs benv (init_state path) ops) in
  id <> [] -> id <> HEADER_KEY -> lookup_entry mode s id = Ok (fn, ll, st) ->
  exists nm crlf final rs1 r rs2,
    nth_error (st_files s) fn = Some nm /\ In (nm, (crlf, final, rs1 ++ r :: rs2)) env /\ rid r = id
    /\ (forall rng, snd (step mode hs benv s (OGet (Query 2 id rng))) = VS (rhline crlf final rs2 r))
    /\ snd (step mode hs benv s (OGet (Query 1 id None))) = VS (rtext crlf final rs2 r)
    /\ snd (step mode hs benv s (OGet (Query 0 id None))) = VL [VS id; VS (hdr crlf r); VS (upper (rseq r))]
    /\ forall oi oj : option nat,
         (match oi, oj with Some i, Some j => i <= j | None, None => False | _, _ => True end) ->
         snd (step mode hs benv s (OGet (Query 0 id (Some (option_map Z.of_nat oi, option_map Z.of_nat oj)))))
         = VL [VS id; VS (hdr crlf r); VS (upper (sl (rseq r) oi oj))].
Proof.
  intros ops id fn ll st s. apply get_sound. apply hist_invariant. apply inv_init.
Qed.
End Hist.

(* non-vacuity: two files whose names sort against their order, one CRLF without final newline; add, reopen, look up *)
Definition ex_env : list (str * gfile) :=
  [(bs "b.fa"%bs, (false, true, [ARec (bs "x"%bs) [] (bs "ACGTAC"%bs) 4]));
   (bs "a 2.fa"%bs, (true, false, [ARec (bs "y"%bs) (bs " d"%bs) (bs "GG"%bs) 3; ARec (bs "B"%bs) [] (bs "TTTTT"%bs) 2]))].
Definition ex_hs : str := bs "SugarFASTAindex v0.1.0, sugar v0.4.1"%bs ++ [LF].
Lemma hist_witness : forall mode, mode = MODE_BINARY \/ mode = MODE_DB ->
  NoDup (map fst ex_env) /\ Forall (fun nf => wf_gfile mode (snd nf)) ex_env
  /\ Forall (fun nf => name_ok (fst nf) = true) ex_env /\ wf_header mode ex_hs (bs "{dbpath}/"%bs) [] = true
  /\ (N.of_nat (length ex_env) < 65536)%N
  /\ lookup_entry mode (fst (run_ops mode ex_hs (benv ex_env) (init_state (bs "{dbpath}/"%bs)) [OAdd [1] false; OAdd [0] true; OReopen]))
                  (bs "B"%bs) = Ok (0, 4, 10).
Proof.
  intros mode [->| ->].
  - split; [repeat constructor; cbn; intuition discriminate|]. split.
    { repeat constructor; cbn; try discriminate. }
    split; [repeat constructor|]. split; [reflexivity|]. split; [reflexivity|]. vm_compute. reflexivity.
  - split; [repeat constructor; cbn; intuition discriminate|]. split.
    { repeat constructor; cbn; try discriminate. }
    split; [repeat constructor|]. split; [reflexivity|]. split; [reflexivity|]. vm_compute. reflexivity.
Qed.

(* ------------------------------------------------------------------ the index file of every reachable state parses back *)
Lemma id_char_nosp c : id_char c = true -> negb (byte_eqb c SP) = true.
Proof. destruct c; vm_compute; intros H; try reflexivity; discriminate. Qed.

Lemma wf_id_nosp s : wf_id s = true -> no_byte SP s = true /\ s <> [].
Proof.
  unfold wf_id. intros H. apply andb_prop in H. destruct H as [H1 H2]. split.
  - unfold no_byte. apply forallb_forall. intros c Hc. rewrite forallb_forall in H2. exact (id_char_nosp c (H2 c Hc)).
  - intros ->. discriminate.
Qed.

Lemma prov_id mode env files e : Forall (fun nf => wf_gfile mode (snd nf)) env -> prov env files e ->
  no_byte SP (e_id e) = true /\ e_id e <> [].
Proof.
  intros Hwf [nm [f [_ [If He]]]]. destruct (expected_in _ _ _ _ _ He) as [rs1 [r [rs2 [Er Ee]]]].
  rewrite Forall_forall in Hwf. pose proof (Hwf _ If) as [_ Hrs]. cbn [g_strip fst snd] in Hrs. rewrite Er in Hrs.
  rewrite Forall_forall in Hrs.
  assert (Hr: wf_rec mode (length (nl_of (g_crlf f))) r = true) by (apply Hrs, in_or_app; right; left; reflexivity).
  rewrite Ee. cbn [e_id]. apply wf_id_nosp. exact (proj1 (wf_rec_id_desc _ _ _ Hr)).
Qed.

(* reopening at the byte level, for every state a history can reach: the bytes of the binary index file (as write() lays them
   out) parse back -- read_header() gives exactly the stored header, read() exactly the records of the state *)
Theorem hist_file_roundtrip mode hs path env s h recs :
  Forall (fun nf => wf_gfile mode (snd nf)) env -> inv mode path env s -> st_bin s = Some (h, recs) ->
  (N.of_nat (length (hs ++ h)) + 22 < 65536)%N -> sizes_small (bsf_sizes recs) ->
  exists f, bsf_file (hs ++ h) recs = Some f /\ bsf_parse f = Some (hs ++ h, bsf_sizes recs, recs).
Proof.
  intros Hwf [_ [_ [_ [Ib _]]]] B Hh Hs. destruct (Ib _ _ B) as [_ [Ss Fp]].
  destruct (file_roundtrip (hs ++ h) recs Hh Hs) as [f [E P]].
  - eapply Forall_impl; [|exact Fp]. intros e Pe. exact (prov_id mode env _ e Hwf Pe).
  - exists f. split; [exact E|]. rewrite P, (sort_idem recs Ss). reflexivity.
Qed.

Lemma layout_witness :
  let data := [Entry (bs "b"%bs) 0 0 300; Entry (bs "ab"%bs) 1 4000 0; Entry (bs "a"%bs) 0 4 20] in
  (N.of_nat (length ex_hs) + 22 < 65536)%N /\ sizes_small (bsf_sizes data) /\ bsf_sizes data = (2, 1, 2, 2)
  /\ Forall (fun e => no_byte SP (e_id e) = true /\ e_id e <> []) data
  /\ option_map (@length byte) (bsf_file ex_hs data) = Some (8 + length ex_hs + 14 + 3 * 7).
Proof.
  cbv zeta. split; [reflexivity|]. split; [vm_compute; repeat split; reflexivity|]. split; [reflexivity|].
  split; [repeat constructor; discriminate|]. vm_compute. reflexivity.
Qed.
