(* C11: computed non-vacuity witnesses for the selection / multi-block / sep=None theorems *)
From Coq Require Import List ZArith NArith Bool Lia.
From Coq.Strings Require Import Byte.
Import ListNotations.
From SV Require Import Text G_tab C11_Model C11_Lemmas C11_TextLemmas C11_FileLemmas C11_Examples C11_IntLemmas C11_RenderLemmas
  C11_SelectLemmas C11_BlocksLemmas.
Local Open Scope Z_scope.

Definition dash (_ : hit) (_ : str) : str := bs "-"%bs.
Definition ex2_hits : list hit :=
  [mkHit (bs "NC_081844.1"%bs) (bs "exon3-AMCR"%bs) 39923568 39922089 1 1480 (bs "0.0"%bs) (bs "2734"%bs);
   mkHit (bs "NC_081844.1"%bs) (bs "exon3-AMCR"%bs) 39891163 39891358 1262 1455 (bs "3.03e-83"%bs) (bs "311"%bs)].
(* a user-chosen BLAST selection with a strand column, in an unusual order *)
Definition ex2_outfmt : str := bs "sseqid qseqid send sstart qend qstart sstrand bitscore evalue slen"%bs.
Definition ex2_hs : list hdr := hs_of (headers_from false Blast (split_ws ex2_outfmt)).
(* a user-chosen MMseqs2 selection *)
Definition ex2_mm_hs : list hdr :=
  hs_of (headers_from false Mmseqs (split_ws (bs "target tend tstart query qend qstart bits evalue qlen"%bs))).
(* single blanks between the tokens of a row *)
Definition mk_wsrow (toks : list str) : wsrow :=
  mkWsrow [] (map (fun t => (t, [" "%byte])) (removelast toks)) (last toks []) [].
Definition inf_hs (n : nat) : list hdr := hs_of (infernal_headers n).
Definition ruler_of (n : nat) : str := "#"%byte :: join " "%byte (repeat (bs "---"%bs) n).

Fixpoint strs_eqb (a b : list str) : bool :=
  match a, b with [], [] => true | x :: a', y :: b' => str_eqb x y && strs_eqb a' b' | _, _ => false end.

Lemma witness_selection :
  headers_from false Blast (split_ws ex2_outfmt) = Ok ex2_hs /\ sel_ok Blast ex2_hs = true /\
  hits_ok Blast dash ex2_hs ex2_hits = true /\ forallb (row_ok Blast x09) (sel_rows Blast dash ex2_hs ex2_hits) = true /\
  ex2_hs <> [] /\ forallb long_ok (map hlong ex2_hs) = true /\ headers_from true Blast (map hlong ex2_hs) = Ok ex2_hs /\
  names_ok x09 ex2_mm_hs = true /\ headers_from false Mmseqs (map hname ex2_mm_hs) = Ok ex2_mm_hs /\
  sel_ok Mmseqs ex2_mm_hs = true /\ hits_ok Mmseqs dash ex2_mm_hs ex2_hits = true /\
  forallb (row_ok Mmseqs x09) (sel_rows Mmseqs dash ex2_mm_hs ex2_hits) = true.
Proof.
  do 4 (split; [vm_compute; reflexivity|]). split; [vm_compute; discriminate|].
  do 6 (split; [vm_compute; reflexivity|]). vm_compute. reflexivity.
Qed.
Lemma witness_infernal_all :
  forallb (fun n =>
    ruler_ok n (ruler_of n) &&
    match infernal_headers n with
    | Ok hs => sel_ok Infernal hs && hits_ok Infernal dash hs ex2_hits &&
               forallb (wsrow_ok n) (map mk_wsrow (sel_rows Infernal dash hs ex2_hits)) &&
               forallb (fun p => strs_eqb (wsrow_toks (mk_wsrow p)) p) (sel_rows Infernal dash hs ex2_hits)
    | Err _ => false
    end) [18; 29; 20; 27]%nat = true.
Proof. vm_compute. reflexivity. Qed.

(* two queries in one BLAST 7 file, each block with its own column list *)
Definition ex2_blocks : list block :=
  [mkBlock ex_blast_pre ex_blast_hs ex_blast_mid ex_blast_rows;
   mkBlock [bs "# BLASTN 2.15.0+"%bs; bs "# Query: second"%bs] ex2_hs [bs "# 2 hits found"%bs] (sel_rows Blast dash ex2_hs ex2_hits)].
Lemma witness_blocks :
  Forall (block_ok x09) ex2_blocks /\ forallb (skip_line Blast true true) ex_blast_post = true /\
  (exists fs, blocks_features None ex2_blocks = Ok fs /\ length fs = 4%nat).
Proof.
  split; [|split; [vm_compute; reflexivity|]].
  - repeat constructor; try (vm_compute; reflexivity); vm_compute; discriminate.
  - vm_compute. eexists. split; reflexivity.
Qed.
(* BLAST default rows separated by blanks, read with sep=None *)
Lemma witness_sep_none :
  forallb (wsrow_simple_ok Blast) (map mk_wsrow ex_blast_rows) = true /\
  forallb (fun p => strs_eqb (wsrow_toks (mk_wsrow p)) p) ex_blast_rows = true /\
  forallb (wsrow_simple_ok Mmseqs) (map mk_wsrow ex_mm_rows) = true.
Proof. repeat split; vm_compute; reflexivity. Qed.

(* every column of the header list is a key of the format metadata, whatever the tokens are (an empty field between two
   separators is the empty string and is kept) *)
Lemma row_keys d ftype hs toks f : nodup_str (map hname hs) = true -> row_feature d ftype hs toks = Ok f ->
  forall hd, In hd hs -> exists v, In v toks /\ assoc (hname hd) (f_fmt f) = Some (conv (htype hd) v).
Proof.
  intros ND R hd I. destruct (row_to_feature d ftype hs toks f ND R) as (L & C & _).
  destruct (In_nth_error _ _ I) as (i & Hi).
  assert (LT : (i < length toks)%nat) by (rewrite L; apply nth_error_Some; congruence).
  destruct (nth_error toks i) as [v|] eqn:Hv; [|apply nth_error_None in Hv; lia].
  exists v. split; [eapply nth_error_In; exact Hv|]. eapply C; eauto.
Qed.
(* the blank-title witness: BLAST outfmt 6 row whose subject title (third of nine columns) is empty *)
Definition ex_blank_hs : list hdr :=
  hs_of (headers_from false Blast (split_ws (bs "qseqid sseqid stitle qstart qend sstart send evalue bitscore"%bs))).
Definition ex_blank_row : list str :=
  [bs "q1"%bs; bs "chr2"%bs; []; bs "5"%bs; bs "80"%bs; bs "2075"%bs; bs "2000"%bs; bs "0.001"%bs; bs "40.1"%bs].
Lemma witness_blank_field :
  row_ok Blast x09 ex_blank_row = true /\
  match row_feature Blast None ex_blank_hs ex_blank_row with
  | Ok f => assoc (bs "stitle"%bs) (f_fmt f) = Some (AStr []) /\ length (f_fmt f) = 9%nat /\
            (f_start f, f_stop f, f_strand f) = (1999%Z, 2075%Z, bs "-"%bs)
  | Err _ => False
  end.
Proof. split; [vm_compute; reflexivity|]. vm_compute. repeat split; reflexivity. Qed.
