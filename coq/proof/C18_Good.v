(* C18 proofs, value-level model: an invariant of every reachable metadata object -- unique keys at every mapping and
   "an Attr/Meta never directly holds a plain dict" (the recursive conversion) -- is established by Meta(d), preserved by
   EVERY modelled operation at every path, and implies that the object compares equal to its plain-dict view. *)
From Coq Require Import List ZArith NArith Bool Lia.
From Coq.Strings Require Import Byte.
Import ListNotations.
From SV Require Import Text G_attr C18_Model C18_Lemmas.

Definition item_ok (g : tag) (good : tree -> bool) (x : tree) : bool :=
  good x && (if is_attr g then negb (plain_dict x) else true).
Fixpoint good (t : tree) : bool :=
  match t with
  | TList l => forallb good l
  | TMap g kvs =>
      nodupb (map fst kvs) &&
      (fix go (l : list (str * tree)) : bool :=
         match l with [] => true | (_, x) :: r => item_ok g good x && go r end) kvs
  | _ => true
  end.
Definition items_ok (g : tag) (kvs : list (str * tree)) : bool := forallb (fun kv => item_ok g good (snd kv)) kvs.
Lemma good_map g kvs : good (TMap g kvs) = nodupb (map fst kvs) && items_ok g kvs.
Proof.
  cbn [good]. f_equal. unfold items_ok. induction kvs as [|[k x] r IH]; [reflexivity|]. cbn [forallb snd]. rewrite IH. reflexivity.
Qed.
Lemma good_map_inv g kvs : good (TMap g kvs) = true -> nodupb (map fst kvs) = true /\ items_ok g kvs = true.
Proof. rewrite good_map. intros H. apply andb_prop in H. exact H. Qed.
Lemma good_map_intro g kvs : nodupb (map fst kvs) = true -> items_ok g kvs = true -> good (TMap g kvs) = true.
Proof. intros A B. rewrite good_map, A, B. reflexivity. Qed.

Lemma items_ok_aset g k v m : items_ok g m = true -> item_ok g good v = true -> items_ok g (aset k v m) = true.
Proof.
  unfold items_ok. intros H P. induction m as [|[k' v'] r IH]; cbn; [rewrite P; reflexivity|].
  cbn in H. apply andb_prop in H. destruct H as [H1 H2]. destruct (str_eqb k' k); cbn; [rewrite P, H2|rewrite H1, IH]; auto.
Qed.
Lemma items_ok_adel g k m m' : items_ok g m = true -> adel k m = Some m' -> items_ok g m' = true.
Proof.
  unfold items_ok. revert m'. induction m as [|[k' v'] r IH]; cbn; intros m' H E; [discriminate|].
  apply andb_prop in H. destruct H as [H1 H2]. destruct (str_eqb k' k); [inversion E; subst; exact H2|].
  destruct (adel k r) as [r'|]; cbn in E; [|discriminate]. inversion E; subst. cbn. rewrite H1, (IH _ H2 eq_refl). reflexivity.
Qed.
Lemma existsb_adel k0 k (m m' : list (str * tree)) : adel k m = Some m' ->
  existsb (str_eqb k0) (map fst m') = true -> existsb (str_eqb k0) (map fst m) = true.
Proof.
  revert m'. induction m as [|[k' v'] r IH]; cbn; intros m' E H; [discriminate|].
  destruct (str_eqb k' k); [inversion E; subst; rewrite H; apply orb_true_r|].
  destruct (adel k r) as [r'|]; cbn in E; [|discriminate]. inversion E; subst. cbn in H.
  destruct (str_eqb k0 k'); [reflexivity|]. cbn in *. eapply IH; eauto.
Qed.
Lemma nodup_adel k (m m' : list (str * tree)) : nodupb (map fst m) = true -> adel k m = Some m' -> nodupb (map fst m') = true.
Proof.
  revert m'. induction m as [|[k' v'] r IH]; cbn; intros m' H E; [discriminate|].
  apply andb_prop in H. destruct H as [H1 H2]. destruct (str_eqb k' k); [inversion E; subst; exact H2|].
  destruct (adel k r) as [r'|] eqn:D; cbn in E; [|discriminate]. inversion E; subst. cbn. rewrite (IH _ H2 eq_refl), andb_true_r.
  apply negb_true_iff. apply negb_true_iff in H1. destruct (existsb (str_eqb k') (map fst r')) eqn:X; [|reflexivity].
  rewrite (existsb_adel _ _ _ _ D X) in H1. discriminate.
Qed.
Lemma nodupb_app_l (a b : list str) : nodupb (a ++ b) = true -> nodupb a = true.
Proof.
  induction a as [|x r IH]; cbn; [reflexivity|]. intros H. apply andb_prop in H. destruct H as [H1 H2].
  rewrite (IH H2), andb_true_r. apply negb_true_iff. apply negb_true_iff in H1. rewrite existsb_app in H1.
  apply orb_false_elim in H1. tauto.
Qed.

(* literals are good, conversion keeps goodness and never yields a plain dict *)
Lemma good_lit t : wf_lit t = true -> good t = true.
Proof.
  induction t as [| | | |l IH|g kvs IH] using tree_ind'; intros W; try reflexivity.
  - cbn in *. induction l as [|x r IHr]; [reflexivity|]. cbn in *. apply andb_prop in W. destruct W as [W1 W2].
    inversion IH; subst. rewrite H1 by exact W1. cbn. auto.
  - apply wf_lit_map in W. destruct W as (-> & ND & _ & W). apply good_map_intro; [exact ND|].
    unfold items_ok, item_ok. cbn [is_attr]. induction kvs as [|[k x] r IHr]; [reflexivity|].
    cbn in *. apply andb_prop in W. destruct W as [W1 W2]. apply andb_prop in ND. destruct ND as [_ ND2].
    inversion IH; subst. cbn in *. rewrite H1 by exact W1. cbn. auto.
Qed.

Lemma attr_update_good g acc kvs : is_attr g = true ->
  nodupb (map fst acc) = true -> items_ok g acc = true ->
  Forall (fun kv => good (conv (snd kv)) = true /\ plain_dict (conv (snd kv)) = false) kvs ->
  nodupb (map fst (attr_update acc kvs)) = true /\ items_ok g (attr_update acc kvs) = true.
Proof.
  intros A. unfold attr_update. revert acc. induction kvs as [|[k x] r IH]; intros acc ND OK F; cbn [fold_left fst snd]; [auto|].
  inversion F as [|? ? [G P] Fr]; subst. cbn in G, P. apply IH; auto.
  - apply (nodup_aset k (conv x) acc). exact ND.
  - apply items_ok_aset; auto. unfold item_ok. rewrite G, A, P. reflexivity.
Qed.
Lemma good_conv t : good t = true -> good (conv t) = true /\ plain_dict (conv t) = false.
Proof.
  induction t as [| | | |l IH|g kvs IH] using tree_ind'; intros G; try (split; [exact G|reflexivity]).
  destruct g; try (split; [exact G|reflexivity]).
  rewrite conv_dict. split; [|reflexivity].
  apply good_map_inv in G. destruct G as [ND OK].
  destruct (attr_update_good TgAttr [] kvs eq_refl eq_refl eq_refl) as [A B].
  - unfold items_ok, item_ok in OK. cbn [is_attr] in OK. rewrite Forall_forall in *. intros kv Hin.
    apply IH; auto. rewrite forallb_forall in OK. specialize (OK kv Hin). rewrite andb_true_r in OK. exact OK.
  - apply good_map_intro; auto.
Qed.
Lemma good_attr_init g kvs : is_attr g = true -> wf_lit (TMap TgDict kvs) = true -> good (attr_init g kvs) = true.
Proof.
  intros A W. apply wf_lit_map in W. destruct W as (_ & _ & _ & W). unfold attr_init.
  destruct (attr_update_good g [] kvs A eq_refl eq_refl) as [X Y].
  - rewrite Forall_forall. intros kv Hin. apply good_conv. apply good_lit. rewrite forallb_forall in W. apply W. exact Hin.
  - apply good_map_intro; auto.
Qed.
Lemma dict_update_good acc kvs :
  nodupb (map fst acc) = true -> items_ok TgDict acc = true -> Forall (fun kv => good (snd kv) = true) kvs ->
  let m := fold_left (fun acc kv => aset (fst kv) (snd kv) acc) kvs acc in
  nodupb (map fst m) = true /\ items_ok TgDict m = true.
Proof.
  cbn zeta. revert acc. induction kvs as [|[k x] r IH]; intros acc ND OK F; cbn [fold_left fst snd]; [auto|].
  inversion F as [|? ? G Fr]; subst. cbn in G. apply IH; auto.
  - apply (nodup_aset k x acc). exact ND.
  - apply items_ok_aset; auto. unfold item_ok. rewrite G. reflexivity.
Qed.

(* children of good objects are good (and fit their parent) *)
Lemma aget_items_ok g k kvs x : items_ok g kvs = true -> aget k kvs = Some x -> item_ok g good x = true.
Proof.
  unfold items_ok. induction kvs as [|[k' v'] r IH]; cbn; [discriminate|]. intros H E.
  apply andb_prop in H. destruct H as [H1 H2]. destruct (str_eqb k' k); [inversion E; subst; exact H1|auto].
Qed.
Lemma item_ok_good g x : item_ok g good x = true -> good x = true.
Proof. unfold item_ok. intros H. apply andb_prop in H. tauto. Qed.
Lemma nth_py_good (l : list tree) i x : forallb good l = true -> nth_py l i = Some x -> good x = true.
Proof.
  intros H E. unfold nth_py in E. destruct (_ || _); [discriminate|]. rewrite forallb_forall in H. apply H. eapply nth_error_In; eauto.
Qed.
Lemma step_good t e c : good t = true -> step t e = inl c -> good c = true.
Proof.
  destruct t as [| | |s|l|g kvs]; destruct e as [k|i]; cbn [step]; try discriminate; intros G E.
  - destruct (nth_py s i); inversion E; reflexivity.
  - destruct (nth_py l i) as [x|] eqn:N; [|discriminate]. inversion E; subst. eapply nth_py_good; eauto.
  - destruct (aget k kvs) as [x|] eqn:A; [|discriminate]. inversion E; subst.
    apply good_map_inv in G. eapply item_ok_good. eapply aget_items_ok; [apply G|exact A].
Qed.
Lemma forallb_set_nth (P : tree -> bool) l : forall n x, forallb P l = true -> P x = true -> forallb P (set_nth l n x) = true.
Proof.
  induction l as [|y r IH]; intros [|n] x H Px; cbn in *; auto; apply andb_prop in H; destruct H as [H1 H2].
  - rewrite Px, H2. reflexivity.
  - rewrite H1, IH; auto.
Qed.
Lemma forallb_set_py (P : tree -> bool) l i x : forallb P l = true -> P x = true -> forallb P (set_py l i x) = true.
Proof. intros H Px. unfold set_py. destruct (_ || _); [exact H|]. apply forallb_set_nth; auto. Qed.

Definition same_kind (a b : tree) : Prop := plain_dict a = plain_dict b.
Lemma put_good t e c c' : good t = true -> step t e = inl c -> good c' = true -> same_kind c c' ->
  good (put t e c') = true /\ same_kind t (put t e c').
Proof.
  intros G S G' K. destruct t as [| | |s|l|g kvs]; destruct e as [k|i]; cbn [step put] in *; try discriminate;
    try (split; [exact G|reflexivity]).
  - split; [|reflexivity]. cbn [good] in *. apply forallb_set_py; auto.
  - destruct (aget k kvs) as [x|] eqn:A; [|discriminate]. inversion S; subst x. split; [|destruct g; reflexivity].
    apply good_map_inv in G. destruct G as [ND OK]. apply good_map_intro; [apply (nodup_aset k c' kvs ND)|].
    apply items_ok_aset; auto. pose proof (aget_items_ok _ _ _ _ OK A) as I. unfold item_ok in *. rewrite G'. cbn.
    apply andb_prop in I. destruct I as [_ I]. unfold same_kind in K. rewrite <- K. exact I.
Qed.

(* the general step: if the operation at the target keeps goodness and the kind, so does the operation at the path *)
Lemma upd_good {R} (f : tree -> (tree * R) + err) :
  (forall t t' r, good t = true -> f t = inl (t', r) -> good t' = true /\ same_kind t t') ->
  forall p t t' r, good t = true -> upd p f t = inl (t', r) -> good t' = true /\ same_kind t t'.
Proof.
  intros Hf. induction p as [|e p IH]; intros t t' r G H; cbn in H; [eapply Hf; eauto|].
  destruct (step t e) as [c|x] eqn:S; [|discriminate]. destruct (upd p f c) as [[c' r']|x] eqn:U; [|discriminate].
  inversion H; subst. destruct (IH _ _ _ (step_good _ _ _ G S) U) as [Gc K]. eapply put_good; eauto.
Qed.

Lemma map_set_good g k v kvs : good (TMap g kvs) = true -> wf_lit v = true -> good (TMap g (map_set g k v kvs)) = true.
Proof.
  intros G W. apply good_map_inv in G. destruct G as [ND OK]. unfold map_set.
  apply good_map_intro; [apply nodup_aset; exact ND|]. apply items_ok_aset; auto. unfold item_ok.
  destruct (is_attr g).
  - destruct (good_conv v (good_lit v W)) as [A B]. rewrite A, B. reflexivity.
  - rewrite (good_lit v W). reflexivity.
Qed.
Lemma kind_map g a b : same_kind (TMap g a) (TMap g b).
Proof. unfold same_kind. destruct g; reflexivity. Qed.

(* EVERY modelled operation, at every path, with well-formed literals, keeps the invariant *)
Theorem apply_op_good o t t' r : wf_op o = true -> good t = true -> apply_op o t = inl (t', r) -> good t' = true /\ same_kind t t'.
Proof.
  intros W G H. unfold wf_op in W. apply andb_prop in W. destruct W as [_ WL].
  destruct o; cbn [apply_op] in H; cbn [op_lits forallb] in WL; try rewrite andb_true_r in WL;
    (eapply upd_good; [|exact G|exact H]); clear H G t t' r; intros t t' r G H; cbn beta in H; unfold ret in H.
  - (* setitem *) destruct t as [| | | | |g kvs]; try discriminate. inversion H; subst. split; [apply map_set_good; auto|apply kind_map].
  - (* setattr *) destruct t as [| | | | |g kvs]; try discriminate. destruct (is_attr g); [|discriminate].
    inversion H; subst. split; [apply map_set_good; auto|apply kind_map].
  - (* delitem *) destruct t as [| | | | |g kvs]; try discriminate. destruct (adel k kvs) as [kvs'|] eqn:D; [|discriminate].
    inversion H; subst. split; [|apply kind_map]. apply good_map_inv in G. destruct G as [ND OK].
    apply good_map_intro; [eapply nodup_adel; eauto|eapply items_ok_adel; eauto].
  - (* delattr *) destruct t as [| | | | |g kvs]; try discriminate. destruct (is_attr g); [|discriminate].
    destruct (adel k kvs) as [kvs'|] eqn:D; [|discriminate].
    inversion H; subst. split; [|apply kind_map]. apply good_map_inv in G. destruct G as [ND OK].
    apply good_map_intro; [eapply nodup_adel; eauto|eapply items_ok_adel; eauto].
  - (* getitem *) destruct (step t (PK k)); inversion H; subst; split; [exact G|reflexivity].
  - (* getattr *) destruct t as [| | | | |g kvs]; try discriminate. destruct (is_attr g); [|discriminate].
    destruct (aget k kvs); inversion H; subst; split; [exact G|reflexivity].
  - (* get *) destruct t as [| | | | |g kvs]; try discriminate. inversion H; subst; split; [exact G|reflexivity].
  - (* pop *) destruct t as [| | | | |g kvs]; try discriminate. destruct (aget k kvs); [|discriminate].
    destruct (adel k kvs) as [kvs'|] eqn:D; [|discriminate].
    inversion H; subst. split; [|apply kind_map]. apply good_map_inv in G. destruct G as [ND OK].
    apply good_map_intro; [eapply nodup_adel; eauto|eapply items_ok_adel; eauto].
  - (* popitem *) destruct t as [| | | | |g kvs]; try discriminate. apply good_map_inv in G. destruct G as [ND OK].
    destruct (is_attr g).
    + destruct kvs as [|[k v] r0]; [discriminate|]. inversion H; subst. split; [|apply kind_map].
      cbn in ND, OK. apply andb_prop in ND. apply andb_prop in OK. apply good_map_intro; tauto.
    + destruct (rev kvs) as [|[k v] r0] eqn:Rv; [discriminate|]. inversion H; subst. split; [|apply kind_map].
      assert (kvs = rev r0 ++ [(k, v)]) as EQ by (rewrite <- (rev_involutive kvs), Rv; reflexivity). subst kvs.
      rewrite map_app in ND. unfold items_ok in OK. rewrite forallb_app in OK. apply andb_prop in OK.
      apply good_map_intro; [eapply nodupb_app_l; eauto|apply OK].
  - (* setdefault *) destruct t as [| | | | |g kvs]; try discriminate. destruct (aget k kvs).
    + inversion H; subst; split; [exact G|reflexivity].
    + inversion H; subst. split; [apply map_set_good; auto|apply kind_map].
  - (* clear *) destruct t as [| | | | |g kvs]; try discriminate. inversion H; subst. split; [reflexivity|apply kind_map].
  - (* update *) destruct t as [| | | | |g kvs]; try discriminate. destruct d as [| | | | |gd dk]; try discriminate.
    apply good_map_inv in G. destruct G as [ND OK].
    pose proof (wf_lit_map _ _ WL) as (-> & _ & _ & Wd).
    destruct (is_attr g) eqn:A; inversion H; subst; (split; [|apply kind_map]).
    + destruct (attr_update_good g kvs dk A ND OK) as [X Y]; [|apply good_map_intro; auto].
      rewrite Forall_forall. intros kv Hin. apply good_conv. apply good_lit. rewrite forallb_forall in Wd. apply Wd. exact Hin.
    + assert (g = TgDict) as -> by (destruct g; cbn in A; congruence).
      destruct (dict_update_good kvs dk ND OK) as [X Y]; [|apply good_map_intro; auto].
      rewrite Forall_forall. intros kv Hin. apply good_lit. rewrite forallb_forall in Wd. apply Wd. exact Hin.
  - (* len *) destruct t as [| | |s|l|g kvs]; try discriminate; inversion H; subst; split; try exact G; reflexivity.
  - (* keys *) destruct t as [| | | | |g kvs]; try discriminate. inversion H; subst; split; [exact G|reflexivity].
  - (* contains *) destruct t as [| | | | |g kvs]; try discriminate. inversion H; subst; split; [exact G|reflexivity].
  - (* eq *) inversion H; subst; split; [exact G|reflexivity].
  - (* list append *) destruct t as [| | | |l|]; try discriminate. inversion H; subst. split; [|reflexivity].
    cbn [good] in *. rewrite forallb_app, G. cbn. rewrite (good_lit v WL). reflexivity.
  - (* list set *) destruct t as [| | | |l|]; try discriminate. destruct (nth_py l i); [|discriminate].
    inversion H; subst. split; [|reflexivity]. cbn [good] in *. apply forallb_set_py; auto. apply good_lit. exact WL.
Qed.

Theorem run_ops_good ops : forall t okd acc, forallb wf_op ops = true -> good t = true -> good (snd (run_ops ops t okd acc)) = true.
Proof.
  induction ops as [|o r IH]; intros t okd acc W G; cbn; [exact G|].
  cbn in W. apply andb_prop in W. destruct W as [W1 W2].
  destruct (apply_op o t) as [[t' v]|e] eqn:E.
  - apply IH; auto. eapply apply_op_good; eauto.
  - destruct e; apply IH; auto.
Qed.

(* ---- a good object equals its plain-dict view, in both operand orders ---- *)
Lemma aget_map_gen (f : tree -> tree) k kvs : aget k (map (fun kv => (fst kv, f (snd kv))) kvs) = option_map f (aget k kvs).
Proof. induction kvs as [|[k' x] r IH]; cbn; [reflexivity|]. destruct (str_eqb k' k); auto. Qed.
Lemma eq_items_mapped_r (f : tree -> tree) ka : forall pre,
  nodupb (map fst (pre ++ ka)) = true ->
  Forall (fun kv => py_eq (snd kv) (f (snd kv)) = true) ka ->
  eq_items ka (map (fun kv => (fst kv, f (snd kv))) (pre ++ ka)) = true.
Proof.
  induction ka as [|[k x] r IH]; intros pre ND HF; [reflexivity|].
  inversion HF as [|? ? Hx Hr]; subst. cbn in Hx.
  unfold eq_items. fold (eq_items r (map (fun kv => (fst kv, f (snd kv))) (pre ++ (k, x) :: r))).
  assert (aget k (map (fun kv => (fst kv, f (snd kv))) (pre ++ (k, x) :: r)) = Some (f x)) as G.
  { rewrite aget_map_gen. replace (aget k (pre ++ (k, x) :: r)) with (Some x); [reflexivity|]. symmetry.
    clear - ND. induction pre as [|[k' v'] p IHp]; cbn.
    - rewrite str_eqb_refl. reflexivity.
    - cbn in ND. apply andb_prop in ND. destruct ND as [N1 N2].
      destruct (str_eqb k' k) eqn:E.
      + apply str_eqb_eq in E. subst k'. apply negb_true_iff in N1.
        rewrite map_app, existsb_app in N1. cbn in N1. rewrite str_eqb_refl in N1. cbn in N1.
        rewrite orb_true_r in N1. discriminate.
      + apply IHp. exact N2. }
  rewrite G, Hx. cbn.
  replace (pre ++ (k, x) :: r) with ((pre ++ [(k, x)]) ++ r) by (rewrite <- app_assoc; reflexivity).
  apply IH; auto. rewrite <- app_assoc. exact ND.
Qed.

Lemma good_nodup_deep t : good t = true ->
  py_eq t (to_dict t) = true /\ py_eq (to_dict t) t = true.
Proof.
  induction t as [|b|z|s|l IH|g kvs IH] using tree_ind'; intros G; cbn [to_dict]; try (split; reflexivity).
  - split; destruct b; reflexivity.
  - split; cbn; apply Z.eqb_refl.
  - split; cbn; apply str_eqb_refl.
  - rewrite !py_eq_list. cbn [good] in G. induction l as [|x r IHr]; [split; reflexivity|].
    cbn in G. apply andb_prop in G. destruct G as [G1 G2]. inversion IH as [|? ? Hx Hr]; subst.
    destruct (Hx G1) as [A B]. destruct (IHr Hr G2) as [C D]. cbn. rewrite A, B. cbn. split; [exact C|exact D].
  - apply good_map_inv in G. destruct G as [ND OK]. rewrite !py_eq_map, map_length, Nat.eqb_refl. cbn [andb].
    assert (Forall (fun kv => py_eq (snd kv) (to_dict (snd kv)) = true /\ py_eq (to_dict (snd kv)) (snd kv) = true) kvs) as F.
    { rewrite Forall_forall in *. intros kv Hin. apply IH; auto. unfold items_ok in OK. rewrite forallb_forall in OK.
      eapply item_ok_good. apply OK. exact Hin. }
    split.
    + apply (eq_items_mapped_r to_dict kvs [] ND). eapply Forall_impl; [|exact F]. intros a H. apply H.
    + apply (eq_items_mapped to_dict kvs [] ND). eapply Forall_impl; [|exact F]. intros a H. apply H.
Qed.

(* the headline: after ANY history of modelled operations with well-formed literals on x = Meta(d), x still has unique
   keys, nested mappings are still converted (an Attr never holds a plain dict directly), and x == dict view == x *)
Theorem reachable_good d kvs ops okd acc : d = TMap TgDict kvs -> wf_lit d = true -> forallb wf_op ops = true ->
  let x := snd (run_ops ops (attr_init TgMeta kvs) okd acc) in
  good x = true /\ py_eq x (to_dict x) = true /\ py_eq (to_dict x) x = true.
Proof.
  intros -> W WO. cbn zeta.
  assert (good (snd (run_ops ops (attr_init TgMeta kvs) okd acc)) = true) as G.
  { apply run_ops_good; auto. apply good_attr_init; auto. }
  split; [exact G|]. apply good_nodup_deep. exact G.
Qed.
(* good implies the one-level statement used before *)
Lemma good_closed t : good t = true -> closed t = true.
Proof.
  induction t as [| | | |l IH|g kvs IH] using tree_ind'; intros G; try reflexivity.
  rewrite closed_map. destruct (is_attr g) eqn:A; [|reflexivity].
  apply good_map_inv in G. destruct G as [_ OK]. unfold items_ok, item_ok in OK. rewrite A in OK. unfold closed_items.
  rewrite forallb_forall in *. intros kv Hin. specialize (OK kv Hin). apply andb_prop in OK. destruct OK as [O1 O2].
  rewrite O2. cbn. rewrite Forall_forall in IH. apply IH; auto.
Qed.

(* non-vacuity *)
Lemma demo_good :
  let d := TMap TgDict [(bs "a"%bs, TMap TgDict [(bs "b"%bs, TInt 1)]); (bs "l"%bs, TList [TMap TgDict []])] in
  let ops := [OSetItem [PK (bs "a"%bs)] (bs "c"%bs) (TMap TgDict [(bs "d"%bs, TMap TgDict [])]);
              OUpdate [] (TMap TgDict [(bs "q"%bs, TMap TgDict [(bs "r"%bs, TInt 2)])]);
              OSetDefault [PK (bs "q"%bs)] (bs "s"%bs) (TMap TgDict []); ODelAttr [PK (bs "a"%bs)] (bs "b"%bs); OPopItem []] in
  wf_lit d = true /\ forallb wf_op ops = true /\
  snd (run_ops ops (attr_init TgMeta [(bs "a"%bs, TMap TgDict [(bs "b"%bs, TInt 1)]); (bs "l"%bs, TList [TMap TgDict []])]) true [])
  = TMap TgMeta [(bs "l"%bs, TList [TMap TgDict []]);
                 (bs "q"%bs, TMap TgAttr [(bs "r"%bs, TInt 2); (bs "s"%bs, TMap TgAttr [])])].
Proof. cbn zeta. split; [vm_compute; reflexivity|]. split; vm_compute; reflexivity. Qed.

(* ---- Mapping equality is equality of finite maps: same key set and equal values; None is a value like any other ---- *)
Lemma nodupb_NoDup (l : list str) : nodupb l = true -> NoDup l.
Proof.
  induction l as [|x r IH]; cbn; intros H; [constructor|]. apply andb_prop in H. destruct H as [H1 H2].
  constructor; [|auto]. intros X. apply negb_true_iff in H1.
  assert (existsb (str_eqb x) r = true) as Y by (apply existsb_exists; exists x; split; [exact X|apply str_eqb_refl]). congruence.
Qed.
Lemma amem_In {A} k (m : list (str * A)) : amem k m = true <-> In k (map fst m).
Proof.
  rewrite amem_inkeys. unfold inkeys. split.
  - intros H. apply existsb_exists in H. destruct H as (x & Hin & E). apply str_eqb_eq in E. subst. exact Hin.
  - intros H. apply existsb_exists. exists k. split; [exact H|apply str_eqb_refl].
Qed.
Lemma eq_items_spec ka kb : eq_items ka kb = true <->
  forall k x, In (k, x) ka -> exists y, aget k kb = Some y /\ py_eq x y = true.
Proof.
  induction ka as [|[k0 x0] r IH]; cbn.
  - split; [intros _ k x []|reflexivity].
  - fold (eq_items r kb). split.
    + intros H. apply andb_prop in H. destruct H as [H1 H2]. intros k x [E|Hin].
      * inversion E; subst. destruct (aget k kb) as [y|]; [eauto|discriminate].
      * apply IH; auto.
    + intros H. apply andb_true_intro. split.
      * destruct (H k0 x0 (or_introl eq_refl)) as (y & -> & E). exact E.
      * apply IH. intros k x Hin. apply H. right. exact Hin.
Qed.
Lemma aget_In_nodup {A} k (x : A) m : nodupb (map fst m) = true -> (aget k m = Some x <-> In (k, x) m).
Proof.
  induction m as [|[k' v'] r IH]; cbn; intros ND; [split; [discriminate|tauto]|].
  apply andb_prop in ND. destruct ND as [N1 N2]. destruct (str_eqb k' k) eqn:E.
  - apply str_eqb_eq in E. subst k'. split.
    + intros H. inversion H; subst. left. reflexivity.
    + intros [H|H]; [inversion H; reflexivity|]. exfalso. apply negb_true_iff in N1.
      assert (existsb (str_eqb k) (map fst r) = true) as Y.
      { apply existsb_exists. exists k. split; [apply in_map_iff; exists (k, x); auto|apply str_eqb_refl]. }
      congruence.
  - rewrite (IH N2). split; [auto|]. intros [H|H]; [|exact H]. inversion H; subst. rewrite str_eqb_refl in E. discriminate.
Qed.

Theorem py_eq_map_iff g1 g2 ka kb : nodupb (map fst ka) = true -> nodupb (map fst kb) = true ->
  (py_eq (TMap g1 ka) (TMap g2 kb) = true <->
   (forall k, amem k ka = amem k kb) /\ (forall k x, aget k ka = Some x -> exists y, aget k kb = Some y /\ py_eq x y = true)).
Proof.
  intros NA NB. rewrite py_eq_map. split.
  - intros H. apply andb_prop in H. destruct H as [HL HI]. apply Nat.eqb_eq in HL. rewrite eq_items_spec in HI.
    assert (forall k x, aget k ka = Some x -> exists y, aget k kb = Some y /\ py_eq x y = true) as V.
    { intros k x A. apply HI. apply aget_In_nodup; auto. }
    split; [|exact V].
    assert (incl (map fst ka) (map fst kb)) as I1.
    { intros k Hin. apply amem_In in Hin. unfold amem in Hin. destruct (aget k ka) as [x|] eqn:A; [|discriminate].
      destruct (V k x A) as (y & B & _). apply amem_In. unfold amem. rewrite B. reflexivity. }
    assert (incl (map fst kb) (map fst ka)) as I2.
    { apply NoDup_length_incl; [apply nodupb_NoDup; exact NA| |exact I1]. rewrite !map_length. lia. }
    intros k. destruct (amem k ka) eqn:A, (amem k kb) eqn:B; auto.
    + apply amem_In in A. apply I1 in A. apply amem_In in A. congruence.
    + apply amem_In in B. apply I2 in B. apply amem_In in B. congruence.
  - intros [K V]. apply andb_true_intro. split.
    + apply Nat.eqb_eq. rewrite <- (map_length fst ka), <- (map_length fst kb).
      apply Nat.le_antisymm; apply NoDup_incl_length; try (apply nodupb_NoDup; assumption);
        intros k Hin; apply amem_In; apply amem_In in Hin; [rewrite <- K|rewrite K]; exact Hin.
    + apply eq_items_spec. intros k x Hin. apply V. apply aget_In_nodup; auto.
Qed.
(* a missing key is NOT a key whose value is None *)
Lemma none_key_witness :
  py_eq (TMap TgMeta [(bs "id"%bs, TStr (bs "s1"%bs)); (bs "name"%bs, TNull)])
        (TMap TgDict [(bs "id"%bs, TStr (bs "s1"%bs)); (bs "gene"%bs, TNull)]) = false /\
  py_eq (TMap TgAttr [(bs "a"%bs, TNull)]) (TMap TgAttr [(bs "b"%bs, TNull)]) = false /\
  py_eq (TMap TgAttr [(bs "a"%bs, TNull)]) (TMap TgDict [(bs "a"%bs, TNull)]) = true.
Proof. vm_compute. repeat split; reflexivity. Qed.
