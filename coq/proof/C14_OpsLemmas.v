(* C14 pre-history: every modelled public operation keeps a basket inside the domain, hence after ANY history write -> read returns
   the basket as it is at the moment of writing (induction over the history). *)
From Coq Require Import List ZArith NArith Bool Lia.
From Coq.Strings Require Import Byte.
Import ListNotations.
From SV Require Import Text G_flags G_sjson C14_Model C14_Lemmas C14_DomainLemmas C14_Ops.

(* ---- flags ------------------------------------------------------------------------------------------------------------------ *)
Definition all_defects : list Z := map Z.of_nat (seq 0 256).
Lemma in_all_defects d : (0 <= d < 256)%Z -> In d all_defects.
Proof. intros H. apply in_map_iff. exists (Z.to_nat d). split; [lia|apply in_seq; lia]. Qed.
Lemma defect_check : forallb (fun d => Z.leb 0 (defect_reverse d) && Z.ltb (defect_reverse d) 256
                                        && Z.eqb (defect_reverse (defect_reverse d)) d) all_defects = true.
Proof. vm_compute. reflexivity. Qed.
Lemma defect_reverse_closed d : (0 <= d < 256)%Z ->
  (0 <= defect_reverse d < 256)%Z /\ defect_reverse (defect_reverse d) = d.
Proof.
  intros H. pose proof defect_check as C. rewrite forallb_forall in C. specialize (C d (in_all_defects d H)).
  apply andb_prop in C. destruct C as [C C3]. apply andb_prop in C. destruct C as [C1 C2].
  apply Z.leb_le in C1. apply Z.ltb_lt in C2. apply Z.eqb_eq in C3. lia.
Qed.
Lemma strand_reverse_closed s : is_strand s = true -> is_strand (strand_reverse s) = true /\ strand_reverse (strand_reverse s) = s.
Proof.
  intros H. unfold strand_reverse.
  destruct (str_eqb s S_plus) eqn:A; [apply str_eqb_eq in A; subst s; split; reflexivity|].
  destruct (str_eqb s S_minus) eqn:B; [apply str_eqb_eq in B; subst s; split; reflexivity|].
  rewrite A, B. split; [exact H|reflexivity].
Qed.
(* MISS_LEFT / MISS_RIGHT marking (FeatureList.slice) stays inside the 8-bit flag set *)
Lemma defect_mark_closed d : (0 <= d < 256)%Z ->
  (0 <= Z.lor d (Z.of_N D_MISS_LEFT) < 256)%Z /\ (0 <= Z.lor d (Z.of_N D_MISS_RIGHT) < 256)%Z.
Proof.
  intros H. assert (C : forallb (fun d => Z.leb 0 (Z.lor d (Z.of_N D_MISS_LEFT)) && Z.ltb (Z.lor d (Z.of_N D_MISS_LEFT)) 256 &&
                                          Z.leb 0 (Z.lor d (Z.of_N D_MISS_RIGHT)) && Z.ltb (Z.lor d (Z.of_N D_MISS_RIGHT)) 256) all_defects = true)
    by (vm_compute; reflexivity).
  rewrite forallb_forall in C. specialize (C d (in_all_defects d H)).
  repeat (apply andb_prop in C; destruct C as [C ?]).
  repeat match goal with X : Z.leb _ _ = true |- _ => apply Z.leb_le in X | X : Z.ltb _ _ = true |- _ => apply Z.ltb_lt in X end. lia.
Qed.

(* ---- Location._reverse keeps a location inside the domain ---------------------------------------------------------------------- *)
Lemma loc_reverse_is_loc L o : is_loc (loc_reverse L o) = is_loc o.
Proof. destruct o; reflexivity. Qed.
Lemma loc_reverse_wf L o : is_loc o = true -> wf o = true -> wf (loc_reverse L o) = true.
Proof.
  destruct o; try discriminate. intros _ H. rewrite wf_loc in H.
  apply andb_prop in H. destruct H as [H Hm]. repeat (apply andb_prop in H; destruct H as [H ?]).
  cbn [loc_reverse]. rewrite wf_loc.
  destruct (strand_reverse_closed strand) as [Hs _]; [assumption|].
  destruct (defect_reverse_closed defect) as [[Hd1 Hd2] _];
    [split; [apply Z.leb_le; assumption|apply Z.ltb_lt; assumption]|].
  replace (Z.ltb (L - stop) (L - start)) with true by (symmetry; apply Z.ltb_lt; apply Z.ltb_lt in H; lia).
  rewrite Hs. replace (Z.leb 0 (defect_reverse defect)) with true by (symmetry; apply Z.leb_le; lia).
  replace (Z.ltb (defect_reverse defect) 256) with true by (symmetry; apply Z.ltb_lt; lia).
  cbn [andb]. destruct meta as [kv|]; [|reflexivity].
  apply andb_prop in Hm. destruct Hm as [Hshape Hw].
  rewrite (conv_kv_id kv (shape_nodict kv Hshape)). rewrite Hshape. exact Hw.
Qed.
Lemma forallb_map_loc_reverse L (P : obj -> bool) l :
  (forall o, is_loc o = true -> wf o = true -> P (loc_reverse L o) = true) ->
  forallb is_loc l = true -> forallb wf l = true -> forallb P (map (loc_reverse L) l) = true.
Proof.
  intros HP. induction l as [|x l IH]; [reflexivity|]. cbn [forallb map]. intros A B.
  apply andb_prop in A. destruct A as [A1 A2]. apply andb_prop in B. destruct B as [B1 B2].
  rewrite (HP x A1 B1), (IH A2 B2). reflexivity.
Qed.

(* whatever ends in LocationTuple(locs) on wf Location objects is a wf location tuple *)
Lemma location_tuple_wf l l' : forallb is_loc l = true -> forallb wf l = true -> location_tuple l = Ok l' ->
  match l' with [] => false | _ => true end && forallb is_loc l' && same_strands l' && sorted_by (loc_order l') l' && forallb wf l' = true.
Proof.
  intros Hl Hw H. destruct (locationtuple_ordered l l' Hl H) as [Hne [Hloc [Hs [Ho _]]]].
  assert (Hw' : forallb wf l' = true).
  { destruct l as [|x r]; [discriminate H|]. rewrite location_tuple_locs in H by (congruence || exact Hl).
    destruct (same_strands (x :: r)); [|discriminate H].
    assert (E : l' = sort_by (loc_order (x :: r)) (x :: r)) by congruence. rewrite E, forallb_sort. exact Hw. }
  rewrite Hloc, Hs, Ho, Hw'. destruct l'; [congruence|reflexivity].
Qed.

Local Opaque ok_attr_shape.
Lemma feat_rc_wf L f f' : wf f = true -> feat_rc L f = Ok f' -> wf f' = true.
Proof.
  destruct f; try discriminate. intros H E. cbn [feat_rc] in E. rewrite wf_feat in H.
  repeat (apply andb_prop in H; destruct H as [H ?]).
  destruct (location_tuple (map (loc_reverse L) locs)) as [ls|] eqn:T; [|discriminate E]. injection E as <-.
  rewrite wf_feat.
  assert (A : forallb is_loc (map (loc_reverse L) locs) = true).
  { apply forallb_map_loc_reverse; try assumption. intros o Ho _. rewrite loc_reverse_is_loc. exact Ho. }
  assert (B : forallb wf (map (loc_reverse L) locs) = true).
  { apply forallb_map_loc_reverse; try assumption. intros o Ho Hw. apply loc_reverse_wf; assumption. }
  pose proof (location_tuple_wf _ _ A B T) as Q.
  repeat (apply andb_prop in Q; destruct Q as [Q ?]).
  repeat (apply andb_true_intro; split); assumption.
Qed.
Lemma feat_set_locs_wf new f f' : forallb is_loc new = true -> forallb wf new = true -> wf f = true -> feat_set_locs new f = Ok f' -> wf f' = true.
Proof.
  destruct f; try discriminate. intros A B H E. cbn [feat_set_locs] in E. rewrite wf_feat in H.
  repeat (apply andb_prop in H; destruct H as [H ?]).
  destruct (location_tuple new) as [ls|] eqn:T; [|discriminate E]. injection E as <-.
  rewrite wf_feat. pose proof (location_tuple_wf _ _ A B T) as Q.
  repeat (apply andb_prop in Q; destruct Q as [Q ?]).
  repeat (apply andb_true_intro; split); assumption.
Qed.
Local Transparent ok_attr_shape.

(* ---- updates inside lists and mappings ------------------------------------------------------------------------------------------ *)
Lemma upd_nth_forallb {A} (P : A -> bool) n (f : A -> res A) l l' :
  (forall x y, P x = true -> f x = Ok y -> P y = true) -> forallb P l = true -> upd_nth n f l = Ok l' -> forallb P l' = true.
Proof.
  intros HP. revert n l'. induction l as [|x r IH]; intros n l' H E; [destruct n; discriminate E|].
  cbn [forallb] in H. apply andb_prop in H. destruct H as [H1 H2]. destruct n as [|n]; cbn [upd_nth] in E.
  - destruct (f x) as [y|] eqn:F; [|discriminate E]. injection E as <-. cbn [forallb]. rewrite (HP x y H1 F), H2. reflexivity.
  - destruct (upd_nth n f r) as [r'|] eqn:U; [|discriminate E]. injection E as <-. cbn [forallb]. rewrite H1, (IH n r' H2 U). reflexivity.
Qed.
Lemma mapM_forallb {A} (P : A -> bool) (f : A -> res A) l l' :
  (forall x y, P x = true -> f x = Ok y -> P y = true) -> forallb P l = true -> mapM f l = Ok l' -> forallb P l' = true.
Proof.
  intros HP. revert l'. induction l as [|x r IH]; intros l' H E; [injection E as <-; reflexivity|].
  cbn [forallb] in H. apply andb_prop in H. destruct H as [H1 H2]. rewrite mapM_cons in E.
  destruct (f x) as [y|] eqn:F; [|discriminate E]. cbn [bind] in E.
  destruct (mapM f r) as [r'|] eqn:U; [|discriminate E]. injection E as <-. cbn [forallb]. rewrite (HP x y H1 F), (IH r' H2 eq_refl). reflexivity.
Qed.

Lemma keys_set_existing {A} k (v : A) l : has_key k l = true -> keys (set_key k v l) = keys l.
Proof.
  intros H. unfold set_key. rewrite H. unfold keys. rewrite map_map. apply map_ext_in. intros [a x] _. cbn [fst].
  destruct (str_eqb a k) eqn:E; [apply str_eqb_eq in E; subst a|]; reflexivity.
Qed.
Lemma mem_str_app k l1 l2 : mem_str k (l1 ++ l2) = mem_str k l1 || mem_str k l2.
Proof. unfold mem_str. apply existsb_app. Qed.
Lemma nodup_keys_app_last l k : nodup_keys l = true -> mem_str k l = false -> nodup_keys (l ++ [k]) = true.
Proof.
  induction l as [|a r IH]; [reflexivity|]. cbn [nodup_keys app]. intros H M. apply andb_prop in H. destruct H as [H1 H2].
  unfold mem_str in M. cbn [existsb] in M. apply orb_false_iff in M. destruct M as [M1 M2]. fold (mem_str k r) in M2.
  assert (E : str_eqb a k = false).
  { destruct (str_eqb a k) eqn:E; [|reflexivity]. apply str_eqb_eq in E. subst a. rewrite str_eqb_refl in M1. discriminate. }
  rewrite mem_str_app. apply negb_true_iff in H1. rewrite H1.
  replace (mem_str a [k]) with (str_eqb a k) by (unfold mem_str; cbn [existsb]; rewrite orb_false_r; reflexivity).
  rewrite E. cbn [orb negb andb]. apply IH; assumption.
Qed.
Lemma has_key_mem {A} k (l : list (str * A)) : has_key k l = mem_str k (keys l).
Proof.
  unfold has_key, mem_str, keys. induction l as [|[a x] r IH]; [reflexivity|]. cbn [existsb map fst]. rewrite IH.
  f_equal. destruct (str_eqb a k) eqn:E.
  - apply str_eqb_eq in E. subst a. symmetry. apply str_eqb_refl.
  - destruct (str_eqb k a) eqn:F; [apply str_eqb_eq in F; subst a; rewrite str_eqb_refl in E; discriminate|reflexivity].
Qed.

(* d[k] = v on an Attr/Meta mapping of the domain, for an admissible key and a wf value that is no plain dict *)
Lemma set_key_shape k v kv :
  ok_attr_key k = true -> is_dict v = false -> wf v = true -> ok_attr_shape kv = true -> wfkv kv = true ->
  ok_attr_shape (set_key k v kv) = true /\ wfkv (set_key k v kv) = true /\ (forall k', has_key k' kv = true -> has_key k' (set_key k v kv) = true).
Proof.
  intros Hk Hd Hw Hs Hkv. unfold ok_attr_shape in *. apply andb_prop in Hs. destruct Hs as [Hs H3]. apply andb_prop in Hs. destruct Hs as [H1 H2].
  destruct (has_key k kv) eqn:E.
  - rewrite (keys_set_existing k v kv E), H1, H2. unfold set_key. rewrite E. split; [|split].
    + cbn [andb]. rewrite forallb_map'. rewrite forallb_forall in *. intros [a x] Hin. specialize (H3 _ Hin). cbn [fst snd] in *.
      destruct (str_eqb a k); cbn [fst snd]; [rewrite Hd; reflexivity|exact H3].
    + unfold wfkv in *. rewrite forallb_map'. rewrite forallb_forall in *. intros [a x] Hin. specialize (Hkv _ Hin). cbn [fst snd] in *.
      destruct (str_eqb a k); cbn [fst snd]; [exact Hw|exact Hkv].
    + intros k' Hk'. unfold has_key in *. rewrite existsb_exists in *. destruct Hk' as [[a x] [Hin Ha]]. cbn [fst] in Ha.
      exists (if str_eqb a k then (k, v) else (a, x)). split.
      * apply in_map_iff. exists (a, x). split; [reflexivity|exact Hin].
      * destruct (str_eqb a k) eqn:F; cbn [fst]; [apply str_eqb_eq in F; subst a|]; exact Ha.
  - unfold set_key. rewrite E. unfold keys. rewrite map_app. cbn [map fst]. fold (keys kv). split; [|split].
    + rewrite nodup_keys_app_last by (try assumption; rewrite <- has_key_mem; exact E).
      rewrite !forallb_app. fold (keys kv). rewrite H2, H3. cbn [forallb snd]. rewrite Hk, Hd. reflexivity.
    + unfold wfkv in *. rewrite forallb_app, Hkv. cbn [forallb snd]. rewrite Hw. reflexivity.
    + intros k' Hk'. unfold has_key in *. rewrite existsb_app, Hk'. reflexivity.
Qed.

Lemma conv_val_nodict v : is_dict (conv_val v) = false.
Proof. destruct v; reflexivity. Qed.

(* ---- every operation keeps the basket inside the domain ------------------------------------------------------------------------ *)
Lemma lookup_has_key {A} k (l : list (str * A)) v : lookup k l = Some v -> has_key k l = true.
Proof.
  induction l as [|[a x] r IH]; [discriminate|]. cbn [lookup has_key existsb fst]. destruct (str_eqb a k); [reflexivity|].
  intros H. apply IH in H. exact H.
Qed.
Lemma lookup_wf k kv v : wfkv kv = true -> lookup k kv = Some v -> wf v = true.
Proof.
  unfold wfkv. induction kv as [|[a x] r IH]; [discriminate|]. cbn [forallb lookup snd]. intros H E. apply andb_prop in H. destruct H as [H1 H2].
  destruct (str_eqb a k); [injection E as <-; exact H1|apply IH; assumption].
Qed.
Lemma ok_key_fts : ok_attr_key K_fts = true.
Proof. vm_compute. reflexivity. Qed.

Definition seq_ok (s : obj) : bool := is_seq s && wf s.
Lemma on_fts_wf f s s' :
  (forall fl fl', forallb wf fl = true -> f fl = Ok fl' -> forallb wf fl' = true) ->
  seq_ok s = true -> on_fts f s = Ok s' -> seq_ok s' = true.
Proof.
  intros Hf H E. unfold seq_ok in *. apply andb_prop in H. destruct H as [Hs H]. destruct s; try discriminate. clear Hs.
  cbn [on_fts] in E. destruct (lookup K_fts meta) as [[]|] eqn:Lk; try discriminate E.
  destruct (f data0) as [fl'|] eqn:F; [|discriminate E]. injection E as <-.
  rewrite wf_seq in H. repeat (apply andb_prop in H; destruct H as [H ?]).
  pose proof (lookup_wf _ _ _ H0 Lk) as W. rewrite wf_fts in W. pose proof (Hf _ _ W F) as W'.
  destruct (set_key_shape K_fts (OFts fl') meta ok_key_fts eq_refl W' H1 H0) as [S1 [S2 S3]].
  cbn [is_seq andb]. rewrite wf_seq. rewrite H, H3, S1, (S3 _ H2). exact S2.
Qed.
Lemma on_seq_meta_wf k v s s' : ok_attr_key k = true -> wf (conv_val v) = true ->
  seq_ok s = true -> on_seq_meta k v s = Ok s' -> seq_ok s' = true.
Proof.
  intros Hk Hv H E. unfold seq_ok in *. apply andb_prop in H. destruct H as [Hs H]. destruct s; try discriminate. clear Hs.
  cbn [on_seq_meta] in E. injection E as <-.
  rewrite wf_seq in H. repeat (apply andb_prop in H; destruct H as [H ?]).
  destruct (set_key_shape k (conv_val v) meta Hk (conv_val_nodict v) Hv H1 H0) as [S1 [S2 S3]].
  cbn [is_seq andb]. rewrite wf_seq. rewrite H, H3, S1, (S3 _ H2). exact S2.
Qed.

Lemma basket_seq_ok data : forallb is_seq data && forallb wf data = forallb seq_ok data.
Proof. induction data as [|x r IH]; [reflexivity|]. cbn [forallb]. rewrite <- IH. unfold seq_ok. destruct (is_seq x), (wf x), (forallb is_seq r); reflexivity. Qed.

Theorem op_keeps_domain : forall o b b', wf_C14 b = true -> op_ok o = true -> apply_op o b = Ok b' -> wf_C14 b' = true.
Proof.
  intros o b b' H Hop E. unfold wf_C14 in *. apply andb_prop in H. destruct H as [Hb H]. destruct b; try discriminate. clear Hb.
  rewrite wf_basket in H. apply andb_prop in H. destruct H as [H Hm2]. apply andb_prop in H. destruct H as [H Hm1].
  rewrite basket_seq_ok in H.
  assert (G : forall data', forallb seq_ok data' = true -> is_basket (OBasket data' meta) && wf (OBasket data' meta) = true).
  { intros data' D. cbn [is_basket andb]. rewrite wf_basket, basket_seq_ok, D, Hm1. exact Hm2. }
  destruct o as [i j L|i L|i j new|i k v|k v]; cbn [apply_op] in E.
  - destruct (upd_nth i _ data) as [data'|] eqn:U; [|discriminate E]. injection E as <-. apply G.
    apply (upd_nth_forallb seq_ok _ _ _ _ (fun x y => on_fts_wf _ x y
             (fun fl fl' => upd_nth_forallb wf j (feat_rc L) fl fl' (feat_rc_wf L))) H U).
  - destruct (upd_nth i _ data) as [data'|] eqn:U; [|discriminate E]. injection E as <-. apply G.
    apply (upd_nth_forallb seq_ok _ _ _ _ (fun x y => on_fts_wf _ x y
             (fun fl fl' => mapM_forallb wf (feat_rc L) fl fl' (feat_rc_wf L))) H U).
  - cbn [op_ok] in Hop. apply andb_prop in Hop. destruct Hop as [N1 N2].
    destruct (upd_nth i _ data) as [data'|] eqn:U; [|discriminate E]. injection E as <-. apply G.
    apply (upd_nth_forallb seq_ok _ _ _ _ (fun x y => on_fts_wf _ x y
             (fun fl fl' => upd_nth_forallb wf j (feat_set_locs new) fl fl' (fun a c => feat_set_locs_wf new a c N1 N2))) H U).
  - cbn [op_ok] in Hop. apply andb_prop in Hop. destruct Hop as [N1 N2].
    destruct (upd_nth i _ data) as [data'|] eqn:U; [|discriminate E]. injection E as <-. apply G.
    apply (upd_nth_forallb seq_ok _ _ _ _ (fun x y => on_seq_meta_wf k v x y N1 N2) H U).
  - cbn [op_ok] in Hop. apply andb_prop in Hop. destruct Hop as [N1 N2]. injection E as <-.
    destruct (set_key_shape k (conv_val v) meta N1 (conv_val_nodict v) N2 Hm1 Hm2) as [S1 [S2 _]].
    cbn [is_basket andb]. rewrite wf_basket, basket_seq_ok, H, S1. exact S2.
Qed.

(* ... so after ANY history of them write -> read returns the basket as it is at the moment of writing *)
Theorem history_keeps_domain : forall ops b b', wf_C14 b = true -> forallb op_ok ops = true -> apply_ops ops b = Ok b' -> wf_C14 b' = true.
Proof.
  induction ops as [|o r IH]; intros b b' H Hop E.
  - injection E as <-. exact H.
  - cbn [forallb] in Hop. apply andb_prop in Hop. destruct Hop as [H1 H2]. cbn [apply_ops] in E.
    destruct (apply_op o b) as [b1|] eqn:A; [|discriminate E]. cbn [bind] in E.
    apply (IH b1 b' (op_keeps_domain o b b1 H H1 A) H2 E).
Qed.
Theorem prehistory_roundtrip : forall ops b b', wf_C14 b = true -> forallb op_ok ops = true -> apply_ops ops b = Ok b' ->
  read_sjson (write_sjson b') = Ok (strip b') /\ exists b'', write_read b' = Ok b'' /\ pub b'' = pub b'.
Proof.
  intros ops b b' H Hop E. pose proof (history_keeps_domain ops b b' H Hop E) as W.
  split; [apply roundtrip_basket; exact W|apply write_read_public; exact W].
Qed.

(* ---- witness: rc of the two-location minus-strand feature (defects 3 and 128 -> 3 and 128, MISS bits both set stay), new
   locations, metadata assignments with a plain dict ---------------------------------------------------------------------------- *)
Definition w_ops : list op :=
  [OpFeatRc 0 0 10; OpSeqMeta 0 (bs "note"%bs) (ODict [(bs "k"%bs, ODict [(bs "deep"%bs, OInt 1)])]);
   OpFtsRc 0 10; OpFeatRc 0 0 0; OpBasketMeta (bs "run"%bs) (OInt 7);
   OpSetLocs 0 0 [OLoc 5 9 S_plus 1 None; OLoc 1 3 S_plus 2 None]].
Lemma w_history_ok :
  wf_C14 w_basket = true /\ forallb op_ok w_ops = true /\
  (exists b', apply_ops w_ops w_basket = Ok b' /\ b' <> w_basket /\ wf_C14 b' = true /\ read_sjson (write_sjson b') = Ok (strip b')).
Proof.
  split; [vm_compute; reflexivity|]. split; [vm_compute; reflexivity|].
  destruct (apply_ops w_ops w_basket) as [b'|] eqn:E; [|vm_compute in E; discriminate E].
  exists b'. split; [reflexivity|].
  assert (W : wf_C14 b' = true) by (apply (history_keeps_domain w_ops w_basket b'); [vm_compute; reflexivity|vm_compute; reflexivity|exact E]).
  split; [|split; [exact W|apply roundtrip_basket; exact W]].
  intros ->. vm_compute in E. discriminate E.
Qed.

(* ---- operations that only rearrange, drop or repeat sequences or features (sort, filter, select, slicing of the basket,
   concatenation of parts of it, reverse of the list) ---------------------------------------------------------------------------- *)
Lemma forallb_incl {A} (P : A -> bool) l l' : incl l' l -> forallb P l = true -> forallb P l' = true.
Proof. intros I H. rewrite forallb_forall in *. intros x Hx. apply H, I, Hx. Qed.
Theorem rearrangement_keeps_domain :
  (forall data data' m, wf_C14 (OBasket data m) = true -> incl data' data -> wf_C14 (OBasket data' m) = true) /\
  (forall d m t fl fl', wf (OSeq d m t) = true -> lookup K_fts m = Some (OFts fl) -> incl fl' fl ->
     wf (OSeq d (set_key K_fts (OFts fl') m) t) = true).
Proof.
  split.
  - intros data data' m H I. unfold wf_C14 in *. cbn [is_basket andb] in *. rewrite wf_basket in *.
    repeat (apply andb_prop in H; destruct H as [H ?]).
    rewrite (forallb_incl _ _ _ I H), (forallb_incl _ _ _ I H2), H1. assumption.
  - intros d m t fl fl' H Lk I. rewrite wf_seq in *. repeat (apply andb_prop in H; destruct H as [H ?]).
    pose proof (lookup_wf _ _ _ H0 Lk) as W. rewrite wf_fts in W.
    assert (W' : wf (OFts fl') = true) by (rewrite wf_fts; apply (forallb_incl _ _ _ I W)).
    destruct (set_key_shape K_fts (OFts fl') m ok_key_fts eq_refl W' H1 H0) as [S1 [S2 S3]].
    rewrite H, H3, S1, (S3 _ H2). exact S2.
Qed.
