(* C05, round 7: objects and baskets (heap of cells + handles), histories of in-place operations. *)
From Coq Require Import List ZArith NArith Bool Lia Arith.
From Coq.Strings Require Import Byte.
Import ListNotations.
From SV Require Import Text G_codes C05_Model C05_Lemmas C05_More.

Ltac split_pos n q := match n with O => idtac | S ?m => destruct q as [q|q|]; [split_pos m q|split_pos m q|] end.

(* ---------------- cells ---------------- *)
Lemma upd_length h i v : length (upd h i v) = length h.
Proof. revert i. induction h as [|x h IH]; intros [|i]; simpl; auto. Qed.
Lemma cell_upd_same h i v : i < length h -> cell (upd h i v) i = v.
Proof.
  unfold cell. revert i. induction h as [|x h IH]; intros [|i] H; simpl in *; try lia; [reflexivity|].
  apply IH. lia.
Qed.
Lemma cell_upd_other h i j v : i <> j -> cell (upd h i v) j = cell h j.
Proof.
  unfold cell. revert i j. induction h as [|x h IH]; intros [|i] [|j] H; simpl; try reflexivity; try lia.
  apply IH. lia.
Qed.
Lemma upd_out h i v : length h <= i -> upd h i v = h.
Proof.
  revert i. induction h as [|x h IH]; intros [|i] H; simpl in *; try reflexivity; try lia. f_equal. apply IH. lia.
Qed.
Lemma on_cell_length f i h : length (on_cell f i h) = length h.
Proof. apply upd_length. Qed.
Lemma on_basket_length f b h : length (on_basket f b h) = length h.
Proof.
  unfold on_basket. revert h. induction b as [|j b IH]; intros h; simpl; [reflexivity|]. rewrite IH. apply on_cell_length.
Qed.

Lemma iter_comm {A} (f : A -> A) n x : Nat.iter n f (f x) = f (Nat.iter n f x).
Proof. induction n as [|n IH]; simpl; [reflexivity|]. rewrite IH. reflexivity. Qed.

(* for seq in basket: seq.f() -- an object is reached once per listing *)
Lemma on_basket_spec f b h i : i < length h ->
  cell (on_basket f b h) i = Nat.iter (count_occ Nat.eq_dec b i) f (cell h i).
Proof.
  unfold on_basket. revert h. induction b as [|j b IH]; intros h Hi; [reflexivity|].
  cbn [fold_left]. rewrite IH by (rewrite on_cell_length; exact Hi). cbn [count_occ].
  destruct (Nat.eq_dec j i) as [E|E].
  - subst j. unfold on_cell. rewrite cell_upd_same by exact Hi. cbn [Nat.iter]. apply iter_comm.
  - unfold on_cell. rewrite cell_upd_other by exact E. reflexivity.
Qed.

Lemma on_basket_nodup f b h i : NoDup b -> i < length h ->
  cell (on_basket f b h) i = if existsb (Nat.eqb i) b then f (cell h i) else cell h i.
Proof.
  intros N Hi. rewrite on_basket_spec by exact Hi.
  destruct (existsb (Nat.eqb i) b) eqn:E.
  - apply existsb_exists in E. destruct E as (x & Hx & Ex). apply Nat.eqb_eq in Ex. subst x.
    rewrite (proj1 (NoDup_count_occ' Nat.eq_dec b) N i Hx). reflexivity.
  - assert (~ In i b) as Hn.
    { intros Hin. assert (existsb (Nat.eqb i) b = true) by (apply existsb_exists; exists i; split; [exact Hin|apply Nat.eqb_refl]). congruence. }
    apply (count_occ_not_In Nat.eq_dec) in Hn. rewrite Hn. reflexivity.
Qed.

Lemma nth_cell (h : list str) i : nth i h [] = cell h i.
Proof. reflexivity. Qed.

(* a basket that lists every object once: the basket operation is the per-sequence map *)
Lemma on_basket_map f h : on_basket f (seq 0 (length h)) h = map f h.
Proof.
  apply (nth_ext _ _ [] (f [])).
  - rewrite on_basket_length, map_length. reflexivity.
  - intros i Hi. rewrite on_basket_length in Hi. rewrite nth_cell.
    rewrite on_basket_nodup by (try apply seq_NoDup; exact Hi).
    assert (E : existsb (Nat.eqb i) (seq 0 (length h)) = true).
    { apply existsb_exists. exists i. split; [apply in_seq; lia|apply Nat.eqb_refl]. }
    rewrite E. rewrite (nth_indep _ _ (f []) ) by (rewrite map_length; exact Hi).
    rewrite map_nth. reflexivity.
Qed.

(* an object listed twice is operated on twice: for rc / complement / reverse on U-free data nothing happens to it *)
Lemma listed_twice f b h i : i < length h -> count_occ Nat.eq_dec b i = 2 ->
  cell (on_basket f b h) i = f (f (cell h i)).
Proof. intros Hi C. rewrite on_basket_spec by exact Hi. rewrite C. reflexivity. Qed.

(* ---------------- what a step of the object machine does ---------------- *)

Lemma app_cell_old (h : list str) x j : j < length h -> cell (h ++ [x]) j = cell h j.
Proof. intros H. unfold cell. apply app_nth1. exact H. Qed.
Lemma app_cell_new (h : list str) x : cell (h ++ [x]) (length h) = x.
Proof. unfold cell. rewrite app_nth2 by lia. rewrite Nat.sub_diag. reflexivity. Qed.

(* copy(): a new object with the same residues; every existing object keeps its data; a later in-place method on the
   copy leaves the source alone (and the other way round) *)
Lemma copy_isolation s p arg opc arg' f : p < length (bask s) ->
  seq_fun opc arg' = Some f -> basket_fun opc = None -> opc <> 4%N -> opc <> 14%N -> opc <> 16%N ->
  let i := nth p (bask s) 0 in
  let s1 := step s (4%N, p, arg) in
  let s2 := step s1 (opc, p, arg') in
  (forall j, j < length (heap s) -> cell (heap s1) j = cell (heap s) j) /\
  cell (heap s1) (length (heap s)) = cell (heap s) i /\
  nth p (bask s1) 0 = length (heap s) /\
  (forall j, j < length (heap s) -> cell (heap s2) j = cell (heap s) j) /\
  cell (heap s2) (length (heap s)) = f (cell (heap s) i).
Proof.
  intros Hp Hf Hb N4 N14 N16 i s1 s2.
  assert (Hs1 : s1 = mkst (heap s ++ [cell (heap s) i]) (set_nth (bask s) p (length (heap s)))) by reflexivity.
  assert (Hn : nth p (bask s1) 0 = length (heap s)).
  { rewrite Hs1. cbn [bask]. clear -Hp. revert p Hp. induction (bask s) as [|x l IH]; intros [|p] Hp; simpl in *; try lia.
    apply IH. lia. }
  assert (Hs2 : s2 = mkst (on_cell f (length (heap s)) (heap s1)) (bask s1)).
  { unfold s2. rewrite <- Hn. generalize s1. intros s0. unfold step.
    destruct opc as [|q]; [|split_pos 5 q]; cbn in *; try discriminate; try congruence;
      inversion Hf; subst f; reflexivity. }
  split; [intros j Hj; rewrite Hs1; cbn [heap]; apply app_cell_old; exact Hj|].
  split; [rewrite Hs1; cbn [heap]; apply app_cell_new|].
  split; [exact Hn|].
  split.
  - intros j Hj. rewrite Hs2. cbn [heap]. unfold on_cell. rewrite cell_upd_other by lia.
    rewrite Hs1. cbn [heap]. apply app_cell_old. exact Hj.
  - rewrite Hs2. cbn [heap]. unfold on_cell. rewrite cell_upd_same.
    + rewrite Hs1. cbn [heap]. rewrite app_cell_new. reflexivity.
    + rewrite Hs1. cbn [heap]. rewrite app_length. simpl. lia.
Qed.

(* ---------------- invariants of the residue operations: lengths and GC counts of every object ---------------- *)
Lemma on_cell_inv {B} (g : str -> B) f i h : (forall x, g (f x) = g x) -> map g (on_cell f i h) = map g h.
Proof.
  intros H. unfold on_cell, cell. revert i. induction h as [|x h IH]; intros [|i]; simpl; try reflexivity.
  - rewrite H. reflexivity.
  - f_equal. apply IH.
Qed.
Lemma on_basket_inv {B} (g : str -> B) f b h : (forall x, g (f x) = g x) -> map g (on_basket f b h) = map g h.
Proof.
  intros H. unfold on_basket. revert h. induction b as [|j b IH]; intros h; simpl; [reflexivity|].
  rewrite IH. apply on_cell_inv. exact H.
Qed.

(* the residue operations: complement, reverse, rc with either update_fts value, on a sequence or on the basket *)
Definition residue_op (opc : N) : bool :=
  match opc with 0%N | 1%N | 2%N | 3%N | 5%N | 6%N | 7%N | 17%N | 18%N | 19%N => true | _ => false end.

Lemma gc_reverse s : gc_counts (reverse s) = gc_counts s.
Proof. unfold reverse. rewrite !gc_counts_alt. unfold nGC, nATU. rewrite !filter_rev_len. reflexivity. Qed.

Lemma residue_step_inv {B} (g : str -> B) s opc p arg :
  (forall x, g (complement x) = g x) -> (forall x, g (reverse x) = g x) ->
  residue_op opc = true -> map g (heap (step s (opc, p, arg))) = map g (heap s) /\ bask (step s (opc, p, arg)) = bask s.
Proof.
  intros Hc Hr Hop.
  assert (Hrc : forall x, g (rc x) = g x) by (intros x; unfold rc; rewrite Hc, Hr; reflexivity).
  destruct opc as [|q]; [|split_pos 5 q]; cbn in Hop; try discriminate; cbn;
    (split; [first [apply on_cell_inv|apply on_basket_inv]; assumption|reflexivity]).
Qed.

Lemma residue_step_invariants s opc p arg : residue_op opc = true ->
  map (@length byte) (heap (step s (opc, p, arg))) = map (@length byte) (heap s) /\
  map gc_counts (heap (step s (opc, p, arg))) = map gc_counts (heap s) /\
  bask (step s (opc, p, arg)) = bask s.
Proof.
  intros H. split; [|split].
  - apply (residue_step_inv (@length byte)); [apply complement_length|intros x; apply rev_length|exact H].
  - apply (residue_step_inv gc_counts); [apply gc_complement|apply gc_reverse|exact H].
  - apply (residue_step_inv (@length byte)); [apply complement_length|intros x; apply rev_length|exact H].
Qed.

Lemma residue_history_invariants ops s : forallb (fun o => residue_op (fst (fst o))) ops = true ->
  map (@length byte) (heap (run_ops s ops)) = map (@length byte) (heap s) /\
  map gc_counts (heap (run_ops s ops)) = map gc_counts (heap s) /\
  bask (run_ops s ops) = bask s.
Proof.
  unfold run_ops. revert s. induction ops as [|[[opc p] arg] ops IH]; intros s H; [repeat split|].
  cbn [forallb fst] in H. apply andb_prop in H. destruct H as [H1 H2]. cbn [fold_left].
  destruct (IH (step s (opc, p, arg)) H2) as (A & B & C).
  destruct (residue_step_invariants s opc p arg H1) as (A' & B' & C').
  rewrite A, B, C. repeat split; assumption.
Qed.

(* ---------------- one object under any history of complement / reverse / rc: only the two parities matter ---------------- *)
(* (complements?, reverses?) *)
Definition kind_fun (k : bool * bool) (s : str) : str :=
  (if fst k then complement else (fun x => x)) ((if snd k then reverse else (fun x => x)) s).
Definition parity (ks : list (bool * bool)) : bool * bool :=
  fold_left (fun a k => (xorb (fst a) (fst k), xorb (snd a) (snd k))) ks (false, false).
Definition run_kinds (ks : list (bool * bool)) (s : str) : str := fold_left (fun x k => kind_fun k x) ks s.

Lemma kind_fun_no_U k s : has cU s = false -> has cU (kind_fun k s) = false.
Proof.
  intros H. destruct k as [[|] [|]]; unfold kind_fun, reverse; cbn [fst snd]; rewrite ?complement_pointwise; rewrite ?has_rev; auto;
    fold (py_translate (rev s)); fold (py_translate s); apply translate_no_U; rewrite ?has_rev; exact H.
Qed.

Lemma kind_fun_compose a k s : has cU s = false ->
  kind_fun a (kind_fun k s) = kind_fun (xorb (fst a) (fst k), xorb (snd a) (snd k)) s.
Proof.
  intros H. pose proof (involutive_no_U s H) as [I _].
  pose proof (involutive_no_U (rev s) (eq_trans (has_rev cU s) H)) as [I2 _].
  destruct a as [[|] [|]], k as [[|] [|]]; unfold kind_fun, reverse; cbn [fst snd xorb];
    rewrite ?complement_rev, ?rev_involutive, ?I; rewrite ?complement_rev, ?rev_involutive, ?I; try reflexivity.
Qed.

Definition pstep (a k : bool * bool) : bool * bool := (xorb (fst a) (fst k), xorb (snd a) (snd k)).
Lemma parity_acc ks a : fold_left pstep ks a =
  (xorb (fst a) (fst (fold_left pstep ks (false, false))), xorb (snd a) (snd (fold_left pstep ks (false, false)))).
Proof.
  revert a. induction ks as [|x ks IH]; intros a.
  - destruct a as [[|] [|]]; reflexivity.
  - cbn [fold_left]. rewrite (IH (pstep a x)). rewrite (IH (pstep (false, false) x)).
    set (P := fold_left pstep ks (false, false)). destruct P as [[|] [|]], a as [[|] [|]], x as [[|] [|]]; reflexivity.
Qed.
Lemma parity_cons k ks : parity (k :: ks) =
  (xorb (fst (parity ks)) (fst k), xorb (snd (parity ks)) (snd k)).
Proof.
  unfold parity. change (fun a k0 : bool * bool => (xorb (fst a) (fst k0), xorb (snd a) (snd k0))) with pstep.
  cbn [fold_left]. rewrite parity_acc.
  set (P := fold_left pstep ks (false, false)). destruct P as [[|] [|]], k as [[|] [|]]; reflexivity.
Qed.

Lemma history_normal_form ks s : has cU s = false -> run_kinds ks s = kind_fun (parity ks) s.
Proof.
  unfold run_kinds. revert s. induction ks as [|k ks IH]; intros s H; [reflexivity|].
  cbn [fold_left]. rewrite IH by (apply kind_fun_no_U; exact H).
  rewrite kind_fun_compose by exact H. rewrite parity_cons. reflexivity.
Qed.

(* with U: the same up to writing T for U *)
Lemma kind_fun_u2t k s : u2t (kind_fun k s) = kind_fun k (u2t s).
Proof.
  destruct k as [[|] [|]]; unfold kind_fun, reverse; cbn [fst snd]; rewrite ?rna_complement, ?u2t_rev; reflexivity.
Qed.
Lemma history_normal_form_rna ks s : u2t (run_kinds ks s) = kind_fun (parity ks) (u2t s).
Proof.
  rewrite <- history_normal_form by apply u2t_no_U.
  unfold run_kinds. revert s. induction ks as [|k ks IH]; intros s; [reflexivity|].
  cbn [fold_left]. rewrite IH, kind_fun_u2t. reflexivity.
Qed.

(* tie to the machine: the per-sequence residue operations are these kinds *)
Definition res_kind (opc : N) : option (bool * bool) :=
  match opc with 0%N => Some (true, false) | 1%N => Some (false, true) | 2%N | 3%N => Some (true, true) | _ => None end.
Lemma seq_fun_kind opc arg k : res_kind opc = Some k -> exists f, seq_fun opc arg = Some f /\ forall s, f s = kind_fun k s.
Proof.
  destruct opc as [|q]; [|split_pos 5 q]; cbn; intros H; try discriminate; inversion H; subst k; eexists; (split; [reflexivity|]);
    intros s; reflexivity.
Qed.

Lemma res_step s opc p arg k : res_kind opc = Some k ->
  heap (step s (opc, p, arg)) = upd (heap s) (nth p (bask s) 0) (kind_fun k (cell (heap s) (nth p (bask s) 0))) /\
  bask (step s (opc, p, arg)) = bask s.
Proof.
  destruct opc as [|q]; [|split_pos 5 q]; cbn; intros H; try discriminate; inversion H; subst k; split; reflexivity.
Qed.

Definition kinds_of (ops : list (N * nat * str)) : list (bool * bool) :=
  flat_map (fun o => match res_kind (fst (fst o)) with Some k => [k] | None => [] end) ops.
Definition res_on (p : nat) (o : N * nat * str) : bool :=
  match res_kind (fst (fst o)) with Some _ => Nat.eqb (snd (fst o)) p | None => false end.

(* the object at basket position p after any history of its own complement / reverse / rc / rc(update_fts=True) calls *)
Lemma object_history s p ops : forallb (res_on p) ops = true -> nth p (bask s) 0 < length (heap s) ->
  cell (heap (run_ops s ops)) (nth p (bask s) 0) = run_kinds (kinds_of ops) (cell (heap s) (nth p (bask s) 0)) /\
  bask (run_ops s ops) = bask s /\
  (forall j, j <> nth p (bask s) 0 -> cell (heap (run_ops s ops)) j = cell (heap s) j).
Proof.
  unfold run_ops, run_kinds. revert s. induction ops as [|[[opc q] arg] ops IH]; intros s H Hi; [repeat split|].
  cbn [forallb] in H. apply andb_prop in H. destruct H as [H1 H2]. unfold res_on in H1. cbn [fst snd] in H1.
  destruct (res_kind opc) as [k|] eqn:K; [|discriminate]. apply Nat.eqb_eq in H1. subst q.
  destruct (res_step s opc p arg k K) as [Hh Hb].
  cbn [fold_left]. unfold kinds_of. cbn [flat_map fst]. rewrite K. cbn [app fold_left]. fold (kinds_of ops).
  specialize (IH (step s (opc, p, arg)) H2). rewrite Hb in IH. rewrite Hh in IH at 1. rewrite upd_length in IH.
  destruct (IH Hi) as (A & B & C). rewrite A, B. rewrite Hh. rewrite cell_upd_same by exact Hi.
  split; [reflexivity|]. split; [reflexivity|]. intros j Hj. rewrite (C j Hj). rewrite Hh. apply cell_upd_other. auto.
Qed.

Lemma object_history_normal_form s p ops : forallb (res_on p) ops = true -> nth p (bask s) 0 < length (heap s) ->
  has cU (cell (heap s) (nth p (bask s) 0)) = false ->
  cell (heap (run_ops s ops)) (nth p (bask s) 0) = kind_fun (parity (kinds_of ops)) (cell (heap s) (nth p (bask s) 0)).
Proof.
  intros H Hi U. rewrite (proj1 (object_history s p ops H Hi)). apply history_normal_form. exact U.
Qed.

Lemma last_indep {A} (l : list A) d d' : l <> [] -> last l d = last l d'.
Proof.
  induction l as [|x l IH]; intros H; [congruence|]. destruct l as [|y l]; [reflexivity|].
  change (last (y :: l) d = last (y :: l) d'). apply IH. discriminate.
Qed.
(* the harness observes every intermediate state; the last one is the state the theorems speak about *)
Lemma trace_last s ops : last (trace s ops) s = run_ops s ops /\ length (trace s ops) = length ops.
Proof.
  unfold run_ops. revert s. induction ops as [|o ops IH]; intros s; [split; reflexivity|].
  cbn [trace fold_left length]. destruct (IH (step s o)) as [I1 I2]. split; [|rewrite I2; reflexivity].
  rewrite <- I1. destruct (trace (step s o) ops) as [|s0 l] eqn:E; [reflexivity|].
  change (last (s0 :: l) s = last (s0 :: l) (step s o)). apply last_indep. discriminate.
Qed.

Lemma witness_hist :
  Bstr (run_kinds [(true, true); (true, false); (false, true)] (bs "AACGR-"%bs)) = "AACGR-"%bs /\
  map Bstr (on_basket rc [0; 1; 0] [bs "AAC"%bs; bs "GGU"%bs]) = ["AAC"%bs; "ACC"%bs] /\
  map Bstr (heap (run_ops (init_st [(true, bs "aacg"%bs)]) [(4%N, 0, []); (2%N, 0, [])])) = ["AACG"%bs; "CGTT"%bs].
Proof. vm_compute. repeat split; reflexivity. Qed.

(* ---------------- sliced baskets are views ---------------- *)
Lemma nodup_app_disjoint {A} (l1 l2 : list A) x : NoDup (l1 ++ l2) -> In x l1 -> In x l2 -> False.
Proof.
  induction l1 as [|a l1 IH]; intros N H1 H2; [destruct H1|].
  cbn [app] in N. inversion N as [|? ? Hn N']; subst. destruct H1 as [E|H1].
  - subst. apply Hn. apply in_or_app. right. exact H2.
  - apply IH; assumption.
Qed.
Lemma nodup_app_r {A} (l1 l2 : list A) : NoDup (l1 ++ l2) -> NoDup l2.
Proof. induction l1 as [|a l1 IH]; cbn [app]; intros N; [exact N|]. inversion N; subst. apply IH. assumption. Qed.
Lemma nodup_app_l {A} (l1 l2 : list A) : NoDup (l1 ++ l2) -> NoDup l1.
Proof.
  induction l1 as [|a l1 IH]; cbn [app]; intros N; [constructor|]. inversion N as [|? ? Hn N']; subst.
  constructor; [intros H; apply Hn; apply in_or_app; left; exact H|apply IH; exact N'].
Qed.
Lemma nth_skipn_ge (l : list nat) p q : p <= q -> nth q l 0 = nth (q - p) (skipn p l) 0.
Proof.
  revert l q. induction p as [|p IH]; intros l q H; [rewrite Nat.sub_0_r; reflexivity|].
  assert (Z : forall n, nth n (@nil nat) 0 = 0) by (intros [|n]; reflexivity).
  destruct l as [|x l]; [cbn [skipn]; rewrite !Z; reflexivity|]. destruct q as [|q]; [lia|].
  cbn [skipn nth]. rewrite (IH l q) by lia. reflexivity.
Qed.
Lemma nth_firstn_lt (l : list nat) p q : q < p -> nth q l 0 = nth q (firstn p l) 0.
Proof.
  revert l q. induction p as [|p IH]; intros l q H; [lia|].
  destruct l as [|x l]; [cbn [firstn]; reflexivity|]. destruct q as [|q]; [reflexivity|]. cbn [firstn nth]. apply IH. lia.
Qed.

Lemma in_tail_iff (b : list nat) p q : NoDup b -> q < length b ->
  existsb (Nat.eqb (nth q b 0)) (skipn p b) = (p <=? q).
Proof.
  intros N Hq. destruct (p <=? q) eqn:E.
  - apply Nat.leb_le in E. apply existsb_exists. exists (nth q b 0). split; [|apply Nat.eqb_refl].
    rewrite (nth_skipn_ge b p q E). apply nth_In. rewrite skipn_length. lia.
  - apply Nat.leb_gt in E. destruct (existsb _ (skipn p b)) eqn:X; [|reflexivity]. exfalso.
    apply existsb_exists in X. destruct X as (x & Hx & Ex). apply Nat.eqb_eq in Ex. subst x.
    rewrite <- (firstn_skipn p b) in N. apply (nodup_app_disjoint _ _ (nth q b 0) N); [|exact Hx].
    rewrite (nth_firstn_lt b p q E). apply nth_In. rewrite firstn_length. lia.
Qed.
Lemma in_head_iff (b : list nat) p q : NoDup b -> q < length b ->
  existsb (Nat.eqb (nth q b 0)) (firstn p b) = (q <? p).
Proof.
  intros N Hq. destruct (q <? p) eqn:E.
  - apply Nat.ltb_lt in E. apply existsb_exists. exists (nth q b 0). split; [|apply Nat.eqb_refl].
    rewrite (nth_firstn_lt b p q E). apply nth_In. rewrite firstn_length. lia.
  - apply Nat.ltb_ge in E. destruct (existsb _ (firstn p b)) eqn:X; [|reflexivity]. exfalso.
    apply existsb_exists in X. destruct X as (x & Hx & Ex). apply Nat.eqb_eq in Ex. subst x.
    rewrite <- (firstn_skipn p b) in N. apply (nodup_app_disjoint _ _ (nth q b 0) N); [exact Hx|].
    rewrite (nth_skipn_ge b p q E). apply nth_In. rewrite skipn_length. lia.
Qed.

(* a sliced basket is a view: basket[p:].rc() reverse-complements exactly the objects at positions >= p of the basket,
   basket[:p+1].complement() complements exactly those at positions <= p (objects listed once) *)
Lemma slice_view s p arg q : NoDup (bask s) -> q < length (bask s) -> nth q (bask s) 0 < length (heap s) ->
  cell (heap (step s (18%N, p, arg))) (nth q (bask s) 0) =
    (if p <=? q then rc (cell (heap s) (nth q (bask s) 0)) else cell (heap s) (nth q (bask s) 0)) /\
  cell (heap (step s (19%N, p, arg))) (nth q (bask s) 0) =
    (if q <=? p then complement (cell (heap s) (nth q (bask s) 0)) else cell (heap s) (nth q (bask s) 0)) /\
  bask (step s (18%N, p, arg)) = bask s /\ bask (step s (19%N, p, arg)) = bask s.
Proof.
  intros N Hq Hi.
  assert (N1 : NoDup (skipn p (bask s))) by (rewrite <- (firstn_skipn p (bask s)) in N; apply nodup_app_r in N; exact N).
  assert (N2 : NoDup (firstn (S p) (bask s))) by (rewrite <- (firstn_skipn (S p) (bask s)) in N; apply nodup_app_l in N; exact N).
  split; [|split; [|split; reflexivity]].
  - cbn [step heap]. rewrite on_basket_nodup by assumption. rewrite in_tail_iff by assumption. reflexivity.
  - cbn [step heap]. rewrite on_basket_nodup by assumption. rewrite in_head_iff by assumption.
    replace (q <? S p) with (q <=? p); [reflexivity|].
    destruct (q <=? p) eqn:E; symmetry; [apply Nat.ltb_lt; apply Nat.leb_le in E; lia|apply Nat.ltb_ge; apply Nat.leb_gt in E; lia].
Qed.

(* ---------------- what BioSeq.gc counts ---------------- *)
Lemma gc_meaning s :
  gc_counts s = (length (filter isGC s), length (filter isGC s) + length (filter isATU s)) /\
  gc_counts (reverse s) = gc_counts s /\
  (forall a b, gc_counts (a ++ b) = (fst (gc_counts a) + fst (gc_counts b), snd (gc_counts a) + snd (gc_counts b))).
Proof.
  split; [apply gc_counts_alt|]. split; [apply gc_reverse|].
  intros a b. rewrite !gc_counts_alt. unfold nGC, nATU. rewrite !filter_app, !app_length. cbn [fst snd]. f_equal. lia.
Qed.
Lemma witness_gc : gc_counts (bs "SSGC-NRAU"%bs) = (2, 4) /\ gc_counts (bs "SN-."%bs) = (0, 0).
Proof. vm_compute. split; reflexivity. Qed.
