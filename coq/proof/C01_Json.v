(* C01 proofs: the JSON parser inverts the JSON printer (json.load after json.dump) on every tree; SJSON at byte level. *)
From Coq Require Import List ZArith NArith Bool Lia Arith.
From Coq.Strings Require Import Byte.
Import ListNotations.
From SV Require Import Text C01_Lines G_codes G_c01_io C01_Model C01_Detect C01_Lemmas C01_Formats C01_Main C01_Sniff.

Lemma jparse_esc1 c tail : jparse_chars (jesc1 c ++ tail) = jcons c (jparse_chars tail).
Proof. destruct c; reflexivity. Qed.
Lemma jparse_chars_str s rest : jparse_chars (flat_map jesc1 s ++ DQ :: rest) = Some (s, rest).
Proof.
  induction s as [|c s IH]; [reflexivity|].
  cbn [flat_map]. rewrite <- app_assoc. rewrite jparse_esc1. rewrite IH. reflexivity.
Qed.
Lemma jstr_app s rest : jstr s ++ rest = DQ :: (flat_map jesc1 s ++ DQ :: rest).
Proof. unfold jstr. cbn [app]. rewrite <- app_assoc. reflexivity. Qed.

Definition jhead_ok (s : str) : bool :=
  match s with c :: _ => negb (jws c) && negb (byte_eqb c x5d) && negb (byte_eqb c x7d) | [] => false end.
Lemma jdump_head t rest : jhead_ok (jdump t ++ rest) = true.
Proof. destruct t; reflexivity. Qed.
Lemma jhead_skip s : jhead_ok s = true -> jskip s = s.
Proof.
  destruct s as [|c s]; [discriminate|]. cbn [jhead_ok]. intros H. apply andb_prop in H. destruct H as [H _].
  apply andb_prop in H. destruct H as [H _]. apply negb_true_iff in H. unfold jskip. cbn [dropwhile]. rewrite H. reflexivity.
Qed.
Lemma jhead_not_rbracket {T} s (A : str -> T) (B : T) : jhead_ok s = true ->
  match jskip s with x5d :: y => A y | _ => B end = B.
Proof.
  intros H. rewrite (jhead_skip s H). destruct s as [|c s]; [reflexivity|].
  cbn [jhead_ok] in H. destruct c; try reflexivity; discriminate.
Qed.
Lemma jhead_not_rbrace {T} s (A : str -> T) (B : T) : jhead_ok s = true ->
  match jskip s with x7d :: y => A y | _ => B end = B.
Proof.
  intros H. rewrite (jhead_skip s H). destruct s as [|c s]; [reflexivity|].
  cbn [jhead_ok] in H. destruct c; try reflexivity; discriminate.
Qed.

Lemma jparse_val_sp k s : jparse_val k (" "%byte :: s) = jparse_val k s.
Proof. destruct k; reflexivity. Qed.
Lemma jparse_val_str k X :
  jparse_val (S k) (DQ :: X) = match jparse_chars X with Some (x, y) => Some (TStr x, y) | None => None end.
Proof. reflexivity. Qed.
Lemma jparse_val_list k r :
  jparse_val (S k) ("["%byte :: r)
  = match jskip r with
    | x5d :: y => Some (TList [], y)
    | _ => match jlist_items (jparse_val k) k r with Some (vs, y) => Some (TList vs, y) | None => None end
    end.
Proof. reflexivity. Qed.
Lemma jparse_val_dict k r :
  jparse_val (S k) ("{"%byte :: r)
  = match jskip r with
    | x7d :: y => Some (TDict [], y)
    | _ => match jdict_items (jparse_val k) k r with Some (vs, y) => Some (TDict vs, y) | None => None end
    end.
Proof. reflexivity. Qed.

Section ItemsOk.
  Variable pv : str -> option (tree * str).
  Hypothesis pv_sp : forall s, pv (" "%byte :: s) = pv s.
  Lemma jlist_items_sp n s : jlist_items pv n (" "%byte :: s) = jlist_items pv n s.
  Proof. destruct n; [reflexivity|]. cbn [jlist_items]. rewrite pv_sp. reflexivity. Qed.
  Lemma jdict_items_sp n s : jdict_items pv n (" "%byte :: s) = jdict_items pv n s.
  Proof. destruct n; reflexivity. Qed.

  Lemma jlist_items_ok l : l <> [] -> Forall (fun x => forall r, pv (jdump x ++ r) = Some (x, r)) l ->
    forall n rest, length l <= n -> jlist_items pv n (join COMMA_SP (map jdump l) ++ "]"%byte :: rest) = Some (l, rest).
  Proof.
    induction l as [|x l IH]; [contradiction|]. intros _ HF n rest Hn.
    inversion HF as [|x0 l0 Hx Hl]; subst.
    destruct n as [|m]; [cbn [length] in Hn; lia|]. cbn [length] in Hn.
    destruct l as [|y l'].
    - cbn [map join jlist_items]. rewrite Hx. reflexivity.
    - cbn [map]. rewrite join_cons. rewrite <- !app_assoc. cbn [jlist_items]. rewrite Hx.
      change (COMMA_SP ++ join COMMA_SP (jdump y :: map jdump l') ++ "]"%byte :: rest)
        with (","%byte :: " "%byte :: (join COMMA_SP (jdump y :: map jdump l') ++ "]"%byte :: rest)).
      change (jskip (","%byte :: " "%byte :: (join COMMA_SP (jdump y :: map jdump l') ++ "]"%byte :: rest)))
        with (","%byte :: " "%byte :: (join COMMA_SP (jdump y :: map jdump l') ++ "]"%byte :: rest)).
      cbv iota beta. rewrite jlist_items_sp.
      change (jdump y :: map jdump l') with (map jdump (y :: l')).
      rewrite (IH ltac:(discriminate) Hl m rest ltac:(cbn [length] in *; lia)). reflexivity.
  Qed.

  Definition jitem (kv : str * tree) : str := match kv with (k, v) => jstr k ++ COLON_SP ++ jdump v end.
  Lemma jdict_items_ok l : l <> [] -> Forall (fun kv => forall r, pv (jdump (snd kv) ++ r) = Some (snd kv, r)) l ->
    forall n rest, length l <= n -> jdict_items pv n (join COMMA_SP (map jitem l) ++ "}"%byte :: rest) = Some (l, rest).
  Proof.
    induction l as [|[k v] l IH]; [contradiction|]. intros _ HF n rest Hn.
    inversion HF as [|x0 l0 Hx Hl]; subst. cbn [snd] in Hx.
    destruct n as [|m]; [cbn [length] in Hn; lia|]. cbn [length] in Hn.
    assert (Step : forall R, jdict_items pv (S m) (jitem (k, v) ++ R)
                             = match jskip R with
                               | x2c :: s4 => match jdict_items pv m s4 with Some (vs, y) => Some ((k, v) :: vs, y) | None => None end
                               | x7d :: y => Some ([(k, v)], y)
                               | _ => None
                               end).
    { intros R. unfold jitem. rewrite <- !app_assoc. rewrite jstr_app.
      cbn [jdict_items].
      change (jskip (DQ :: (flat_map jesc1 k ++ DQ :: COLON_SP ++ jdump v ++ R)))
        with (DQ :: (flat_map jesc1 k ++ DQ :: COLON_SP ++ jdump v ++ R)).
      cbv iota beta. rewrite jparse_chars_str.
      change (jskip (COLON_SP ++ jdump v ++ R)) with (":"%byte :: " "%byte :: (jdump v ++ R)).
      cbv iota beta. rewrite pv_sp. rewrite Hx. reflexivity. }
    destruct l as [|kv l'].
    - cbn [map join]. rewrite Step. reflexivity.
    - cbn [map]. rewrite join_cons. rewrite <- !app_assoc. rewrite Step.
      change (jskip (COMMA_SP ++ join COMMA_SP (jitem kv :: map jitem l') ++ "}"%byte :: rest))
        with (","%byte :: " "%byte :: (join COMMA_SP (jitem kv :: map jitem l') ++ "}"%byte :: rest)).
      cbv iota beta. rewrite jdict_items_sp.
      change (jitem kv :: map jitem l') with (map jitem (kv :: l')).
      rewrite (IH ltac:(discriminate) Hl m rest ltac:(cbn [length] in *; lia)). reflexivity.
  Qed.
End ItemsOk.

Fixpoint tsize (t : tree) : nat :=
  match t with
  | TNull => 1
  | TStr _ => 1
  | TList l => S (length l + list_sum (map tsize l))
  | TDict l => S (length l + list_sum (map (fun kv => match kv with (_, v) => tsize v end) l))
  end.
Lemma in_list_sum {A} (f : A -> nat) l x : In x l -> f x <= list_sum (map f l).
Proof.
  induction l as [|y l IH]; [contradiction|]. intros [<-|H]; cbn [map list_sum fold_right]; [lia|]. specialize (IH H). unfold list_sum in IH. lia.
Qed.
Lemma join_head sep (a : str) l : exists tail, join sep (a :: l) = a ++ tail.
Proof. destruct l; [exists []; cbn; rewrite app_nil_r; reflexivity|]. rewrite join_cons. eauto. Qed.

(* the parser inverts the printer, whatever follows the value *)
Theorem jparse_jdump t : forall fuel rest, tsize t <= fuel -> jparse_val fuel (jdump t ++ rest) = Some (t, rest).
Proof.
  induction t as [ | s | l IH | l IH ] using tree_ind2; intros fuel rest Hf;
    (destruct fuel as [|k]; [cbn [tsize] in Hf; lia|]).
  - reflexivity.
  - cbn [jdump]. rewrite jstr_app. rewrite jparse_val_str. rewrite jparse_chars_str. reflexivity.
  - cbn [jdump tsize] in *. cbn [app]. rewrite <- app_assoc. cbn [app]. rewrite jparse_val_list.
    destruct l as [|x l'].
    + reflexivity.
    + assert (Hh : jhead_ok (join COMMA_SP (map jdump (x :: l')) ++ "]"%byte :: rest) = true).
      { cbn [map]. destruct (join_head COMMA_SP (jdump x) (map jdump l')) as [tl E]. rewrite E. rewrite <- app_assoc. apply jdump_head. }
      rewrite (jhead_not_rbracket _ _ _ Hh).
      rewrite (jlist_items_ok (jparse_val k) (jparse_val_sp k) (x :: l')); [reflexivity|discriminate| |lia].
      rewrite Forall_forall in *. intros y Hy r. apply IH; [exact Hy|].
      pose proof (in_list_sum tsize (x :: l') y Hy). lia.
  - cbn [jdump tsize] in *. cbn [app]. rewrite <- app_assoc. cbn [app]. rewrite jparse_val_dict.
    change (map (fun kv : str * tree => let (k0, v) := kv in jstr k0 ++ COLON_SP ++ jdump v) l) with (map jitem l).
    destruct l as [|x l'].
    + reflexivity.
    + assert (Hh : jhead_ok (join COMMA_SP (map jitem (x :: l')) ++ "}"%byte :: rest) = true).
      { cbn [map]. destruct (join_head COMMA_SP (jitem x) (map jitem l')) as [tl E]. rewrite E. rewrite <- app_assoc.
        destruct x as [kx vx]. unfold jitem. rewrite <- !app_assoc. rewrite jstr_app. reflexivity. }
      rewrite (jhead_not_rbrace _ _ _ Hh).
      rewrite (jdict_items_ok (jparse_val k) (jparse_val_sp k) (x :: l')); [reflexivity|discriminate| |lia].
      rewrite Forall_forall in *. intros y Hy r. apply IH; [exact Hy|].
      pose proof (in_list_sum (fun kv : str * tree => let (_, v) := kv in tsize v) (x :: l') y Hy). destruct y as [ky vy]. cbn [snd]. lia.
Qed.

(* the text is long enough to serve as fuel *)
Lemma join_len_ge {A} (f : A -> str) (g : A -> nat) l : l <> [] -> Forall (fun x => g x <= length (f x)) l ->
  2 * length l + list_sum (map g l) <= length (join COMMA_SP (map f l)) + 2.
Proof.
  induction l as [|x l IH]; [contradiction|]. intros _ HF. inversion HF as [|x0 l0 Hx Hl]; subst.
  destruct l as [|y l'].
  - cbn [map join length list_sum fold_right]. lia.
  - specialize (IH ltac:(discriminate) Hl). cbn [map]. rewrite join_cons. rewrite !app_length.
    change (map f (y :: l')) with (f y :: map f l') in IH. cbn [map list_sum fold_right length] in *. unfold list_sum in *. change (length COMMA_SP) with 2. lia.
Qed.
Lemma tsize_le_length t : tsize t <= length (jdump t).
Proof.
  induction t as [ | s | l IH | l IH ] using tree_ind2.
  - cbn. lia.
  - cbn [tsize jdump jstr length]. lia.
  - cbn [tsize jdump length]. rewrite app_length. cbn [length]. destruct l as [|x l']; [cbn; lia|].
    pose proof (join_len_ge jdump tsize (x :: l') ltac:(discriminate) IH). cbn [length] in *. lia.
  - cbn [tsize jdump length]. rewrite app_length. cbn [length]. destruct l as [|x l']; [cbn; lia|].
    change (map (fun kv : str * tree => let (k0, v) := kv in jstr k0 ++ COLON_SP ++ jdump v) (x :: l')) with (map jitem (x :: l')).
    assert (HF : Forall (fun kv => (fun kv : str * tree => let (_, v) := kv in tsize v) kv <= length (jitem kv)) (x :: l')).
    { rewrite Forall_forall in *. intros [k v] Hin. specialize (IH _ Hin). cbn [snd] in IH. unfold jitem. rewrite !app_length. lia. }
    pose proof (join_len_ge jitem _ (x :: l') ltac:(discriminate) HF). cbn [length] in *. lia.
Qed.
Theorem jload_jdump t : jload (jdump t) = Some t.
Proof.
  unfold jload. rewrite <- (app_nil_r (jdump t)) at 2. rewrite (jparse_jdump t _ [] (tsize_le_length t)). reflexivity.
Qed.
(* trailing whitespace after the document is accepted as json.load does *)
Theorem jload_jdump_ws t w : forallb jws w = true -> jload (jdump t ++ w) = Some t.
Proof.
  intros H. unfold jload. rewrite (jparse_jdump t _ w); [|rewrite app_length; pose proof (tsize_le_length t); lia].
  assert (E : jskip w = []). { unfold jskip. induction w as [|c w IH]; [reflexivity|]. cbn [forallb] in H. apply andb_prop in H. destruct H as [Hc Hw]. cbn [dropwhile]. rewrite Hc. apply IH. exact Hw. }
  rewrite E. reflexivity.
Qed.

(* reading the bytes of a written file is reading its content, for every format; for SJSON: json.load inverts json.dump *)
Theorem read_bytes_written f b c : write_w f b = Ok c -> read_bytes f (content_text c) = read_content f c.
Proof.
  intros H. destruct f.
  - rewrite write_w_fasta in H. injection H as <-. reflexivity.
  - rewrite write_w_stk in H. injection H as <-. reflexivity.
  - rewrite write_w_sjson in H. injection H as <-. cbn [content_text map concat]. rewrite app_nil_r.
    unfold read_bytes, read_sjson_text. rewrite jload_jdump. reflexivity.
  - rewrite C01_Gff.write_w_gff in H. injection H as <-. reflexivity.
Qed.
Theorem bytes_roundtrip f b : wfb_basket f b = true ->
  exists c c2, write_w f b = Ok c /\ read_bytes f (content_text c) = Ok (map (norm_of f) b)
               /\ write_w f (map (norm_of f) b) = Ok c2 /\ read_bytes f (content_text c2) = Ok (map (norm_of f) b)
               /\ (f <> Sjson -> content_text c2 = content_text c).
Proof.
  intros W. destruct (format_cycle f b W) as (t & t2 & H1 & H2 & H3 & H4 & H5).
  exists t, t2. split; [exact H1|]. split; [rewrite (read_bytes_written f b t H1); exact H2|].
  split; [exact H3|]. split; [rewrite (read_bytes_written f _ t2 H3); exact H4|].
  intros Hf. rewrite (H5 Hf). reflexivity.
Qed.

(* ---------------------------------------------------------------- reader side for SJSON bytes *)
Lemma dec_seq_shape t s : dec_seq t = Ok s -> exists d i nt f, s = bioseq_typed d i nt f.
Proof.
  unfold dec_seq. destruct t as [| |l|l]; try discriminate.
  destruct (lookup CLS l) as [[| c | |]|]; try discriminate.
  destruct (lookup (bs "data"%bs) l) as [[| d | |]|]; try discriminate.
  destruct (lookup (bs "meta"%bs) l) as [m|]; try discriminate.
  destruct (lookup (bs "type"%bs) l) as [[| ty | |]|]; try discriminate.
  destruct (str_eqb c (bs "BioSeq"%bs) && known_keys [bs "data"%bs; bs "meta"%bs; bs "type"%bs; CLS] l); try discriminate.
  destruct (dec_meta m) as [[i f]|e]; cbn [bind]; try discriminate.
  destruct (str_eqb ty (bs "nt"%bs)); [intros H; injection H as <-; eauto|].
  destruct (str_eqb ty (bs "aa"%bs)); [intros H; injection H as <-; eauto|discriminate].
Qed.
Definition stable_sjson (s : bseq) : Prop := upper (b_data s) = b_data s /\ b_header s = None.
Lemma mapres_dec_shape l : forall b, mapres dec_seq l = Ok b -> Forall stable_sjson b.
Proof.
  induction l as [|t l IH]; intros b H.
  - cbn in H. injection H as <-. constructor.
  - cbn [mapres] in H. destruct (dec_seq t) as [s|e] eqn:E; cbn [bind] in H; [|discriminate].
    destruct (mapres dec_seq l) as [ys|e]; cbn [bind] in H; [|discriminate]. injection H as <-.
    constructor; [|apply IH; reflexivity].
    destruct (dec_seq_shape t s E) as (d & i & nt & f & ->). split; [apply upper_idem|reflexivity].
Qed.
Lemma dec_basket_shape t b : dec_basket t = Ok b -> Forall stable_sjson b.
Proof.
  unfold dec_basket. destruct t as [| |l|l]; try discriminate.
  destruct (lookup CLS l) as [[| c | |]|]; try discriminate.
  destruct (lookup (bs "data"%bs) l) as [[| | seqs |]|]; try discriminate.
  destruct (_ && _); try discriminate. apply mapres_dec_shape.
Qed.
Lemma read_bytes_sjson_shape t o : read_bytes Sjson t = Ok o ->
  Forall (fun s => stable_sjson s /\ b_fmt s = Some (fmt_name Sjson)) o.
Proof.
  unfold read_bytes, read_sjson_text. destruct (jload t) as [tr|]; cbn [bind]; [|discriminate].
  destruct (dec_basket tr) as [b|e] eqn:E; cbn [bind]; [|discriminate]. intros H. injection H as <-.
  pose proof (dec_basket_shape tr b E) as F. clear E. induction F as [|s b Hs Hb IH]; cbn [map]; [constructor|].
  constructor; [|exact IH]. destruct Hs as [H1 H2]. split; [split; [exact H1|exact H2]|reflexivity].
Qed.
(* reader side for SJSON: ANY characters that read() decodes to a basket give objects that are written and read back as
   themselves, on bytes (no domain condition at all) *)
Theorem sjson_reader_fixpoint t o : read_bytes Sjson t = Ok o ->
  exists c, write_w Sjson o = Ok c /\ read_bytes Sjson (content_text c) = Ok o /\ read_auto c = Ok o.
Proof.
  intros H. pose proof (read_bytes_sjson_shape t o H) as F.
  assert (U : forallb data_upper o = true).
  { rewrite forallb_forall. rewrite Forall_forall in F. intros s Hs. destruct (F s Hs) as [[H1 _] _].
    unfold data_upper. rewrite H1. apply str_eqb_eq. reflexivity. }
  assert (N : map (norm_plain Sjson) o = o).
  { clear H U. induction F as [|s o [[H1 H2] H3] Fo IH]; [reflexivity|]. cbn [map]. rewrite IH. f_equal.
    destruct s as [d i nt h f]. cbn in *. subst. reflexivity. }
  destruct (sjson_seq_roundtrip o U) as (c & W & R & _). rewrite N in R.
  exists c. split; [exact W|]. split; [rewrite (read_bytes_written Sjson o c W); exact R|].
  destruct o as [|s o'].
  - (* the empty basket is detected too: the SJSON head does not depend on the sequences *)
    rewrite write_w_sjson in W. injection W as <-. unfold read_auto. cbn [content_text map concat]. rewrite app_nil_r.
    rewrite sjson_detected. exact R.
  - rewrite (auto_read_written Sjson (s :: o') c ltac:(discriminate) W). exact R.
Qed.

(* ---------------------------------------------------------------- whitespace around the document *)
Lemma jskip_ws_app w s : forallb jws w = true -> jskip (w ++ s) = jskip s.
Proof.
  induction w as [|c w IH]; intros H; [reflexivity|]. cbn [forallb] in H. apply andb_prop in H. destruct H as [Hc Hw].
  unfold jskip in *. cbn [app dropwhile]. rewrite Hc. apply IH. exact Hw.
Qed.
Lemma jparse_val_ws k w s : forallb jws w = true -> jparse_val k (w ++ s) = jparse_val k s.
Proof. intros H. destruct k; [reflexivity|]. cbn [jparse_val]. rewrite (jskip_ws_app w s H). reflexivity. Qed.
(* whitespace before and after the document is accepted, as json.load does *)
Theorem jload_jdump_ws2 t w1 w2 : forallb jws w1 = true -> forallb jws w2 = true -> jload (w1 ++ jdump t ++ w2) = Some t.
Proof.
  intros H1 H2. unfold jload. rewrite (jparse_val_ws _ w1 _ H1).
  rewrite (jparse_jdump t _ w2); [|rewrite !app_length; pose proof (tsize_le_length t); lia].
  rewrite <- (app_nil_r w2). rewrite (jskip_ws_app w2 [] H2). reflexivity.
Qed.

(* ---------------------------------------------------------------- mode a on SJSON *)
(* two JSON documents in one file are not JSON: an SJSON file that was appended to cannot be read any more (ValueError) *)
Theorem jload_two_docs a b : jload (jdump a ++ jdump b) = None.
Proof.
  unfold jload. rewrite (jparse_jdump a _ (jdump b)); [|rewrite app_length; pose proof (tsize_le_length a); lia].
  pose proof (jdump_head b []) as H. rewrite app_nil_r in H. rewrite (jhead_skip _ H).
  destruct (jdump b); [discriminate|reflexivity].
Qed.
Theorem sjson_append_unreadable b1 b2 :
  exists c, bind (write_w Sjson b1) (fun c1 => write_file Sjson true c1 b2) = Ok c
            /\ read_bytes Sjson (content_text c) = Err E_Value /\ read_content Sjson c = Err E_Value.
Proof.
  exists (CTree [enc_basket b1; enc_basket b2]). split; [reflexivity|]. split; [|reflexivity].
  cbn [content_text map concat]. rewrite app_nil_r. unfold read_bytes, read_sjson_text. rewrite jload_two_docs. reflexivity.
Qed.
