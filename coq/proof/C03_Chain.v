(* C03 proofs, part 5: whole-chain detection soundness for the hit-table renderings
   (BLAST outfmt 6/7/10, MMseqs2 fmtmode 0/4, Infernal tblout). *)
From Coq Require Import List ZArith NArith Bool Lia.
From Coq.Strings Require Import Byte.
Import ListNotations.
From SV Require Import Text G_c03 C03_Model C03_Lemmas C03_Fts C03_Hits.

Lemma splitn_nonempty : forall c s n, exists x y, splitn c s n = x :: y.
Proof.
  intros c s. induction s as [|a s IH]; intros n; [cbn; eauto|].
  cbn [splitn]. destruct n; [eauto|]. destruct (byte_eqb a c); [eauto|].
  destruct (splitn c s (S n)); eauto.
Qed.

(* "#x..." with x <> "#" is no GFF pragma *)
Lemma pragma_reject2 : forall a t, byte_eqb a "#"%byte = false ->
  startswith (bs "##gff-version 3"%bs) (strip_ws (firstn 100 ("#"%byte :: a :: t))) = false.
Proof.
  intros a t Ha. change (firstn 100 ("#"%byte :: a :: t)) with ("#"%byte :: a :: firstn 98 t).
  unfold strip_ws. cbn [lstrip_ws]. change (is_ws "#"%byte) with false. cbn iota.
  rewrite rstrip_ws_cons. rewrite rstrip_ws_cons.
  destruct (rstrip_ws (firstn 98 t)); [destruct (is_ws a)|]; cbn [startswith bs bytes_of_bstr];
    rewrite ?(byte_eqb_sym_false _ _ Ha); reflexivity.
Qed.

(* a seven-tab prefix whose 4th, 5th and 7th fields are digit strings: is_gff says no *)
Lemma gff_reject_hits : forall f0 f1 f2 f3 f4 f5 f6 R,
  nosep tab f0 = true -> nosep tab f1 = true -> nosep tab f2 = true -> nosep tab f3 = true -> nosep tab f4 = true ->
  nosep tab f5 = true -> nosep tab f6 = true -> is_digits f3 = true -> is_digits f4 = true -> is_digits f6 = true ->
  let c := f0 ++ tab :: f1 ++ tab :: f2 ++ tab :: f3 ++ tab :: f4 ++ tab :: f5 ++ tab :: f6 ++ tab :: R in
  startswith (bs "##gff-version 3"%bs) (strip_ws (firstn 100 c)) = false -> is_gff c <> Some true.
Proof.
  intros f0 f1 f2 f3 f4 f5 f6 R H0 H1 H2 H3 H4 H5 H6 D3 D4 D6 c Hs. unfold is_gff, read_n. rewrite Hs. unfold c.
  change 9 with (S 8).
  rewrite splitn_firstn_field by exact H0. destruct (Nat.leb _ _); [cbn; discriminate|].
  rewrite splitn_firstn_field by exact H1. destruct (Nat.leb _ _); [cbn; discriminate|].
  rewrite splitn_firstn_field by exact H2. destruct (Nat.leb _ _); [cbn; discriminate|].
  rewrite splitn_firstn_field by exact H3. destruct (Nat.leb _ _); [cbn; discriminate|].
  rewrite splitn_firstn_field by exact H4. destruct (Nat.leb _ _); [cbn; discriminate|].
  rewrite splitn_firstn_field by exact H5. destruct (Nat.leb _ _); [cbn; discriminate|].
  rewrite splitn_firstn_field by exact H6. destruct (Nat.leb _ _); [cbn; discriminate|].
  match goal with |- context [splitn tab ?s ?n] => destruct (splitn_nonempty tab s n) as [x [y Exy]]; rewrite Exy end.
  cbn [skipn firstn].
  destruct (py_int_digits f3 D3) as [z3 E3]. destruct (py_int_digits f4 D4) as [z4 E4]. rewrite E3, E4.
  rewrite (contains_digits_false f6 D6). discriminate.
Qed.

Lemma kw_not_float : forallb (fun k => match py_float k with None => true | Some _ => false end) INFERNAL_HEADER_KW = true.
Proof. vm_compute. reflexivity. Qed.

(* ------------------------------------------------------------------ the 12-column view *)
Record hit_view (sep : byte) (fs : list str) : Prop := {
  hv_words : forallb word fs = true;
  hv_nosep : forallb (nosep sep) fs = true;
  hv_nolb : forallb nolb fs = true;
  hv_shape : exists q s ident alen mism gapo qs qe ss se ev bits,
      fs = [q; s; ident; alen; mism; gapo; qs; qe; ss; se; ev; bits] /\
      startswith (bs "#"%bs) q = false /\ startswith (bs "locus"%bs) (lower q) = false /\
      is_digits alen = true /\ is_digits mism = true /\ is_digits qs = true }.
Lemma hit_fields_view : forall sep fs, hit_fields_ok sep fs = true -> hit_view sep fs.
Proof.
  intros sep fs Hok. unfold hit_fields_ok in Hok.
  destruct fs as [|q [|s [|ident [|alen [|mism [|gapo [|qs [|qe [|ss [|se [|ev [|bits [|? ?]]]]]]]]]]]]]; try discriminate Hok.
  do 8 (apply andb_prop in Hok; destruct Hok as [Hok ?]).
  set (fs := [q; s; ident; alen; mism; gapo; qs; qe; ss; se; ev; bits]) in *.
  constructor.
  - revert Hok. apply forallb_impl. intros k Hk. apply andb_prop in Hk. destruct Hk as [Hk1 Hk2]. unfold word. apply andb_true_intro. split.
    + unfold wsfree. revert Hk1. apply forallb_impl. intros x Hx. apply andb_prop in Hx. destruct Hx as [Hx _]. apply andb_prop in Hx. tauto.
    + destruct k; [discriminate|reflexivity].
  - revert Hok. apply forallb_impl. intros k Hk. apply andb_prop in Hk. destruct Hk as [Hk1 _]. unfold nosep. revert Hk1.
    apply forallb_impl. intros x Hx. apply andb_prop in Hx. destruct Hx as [Hx _]. apply andb_prop in Hx. tauto.
  - revert Hok. apply forallb_impl. intros k Hk. apply andb_prop in Hk. destruct Hk as [Hk1 _]. unfold nolb. revert Hk1.
    apply forallb_impl. intros x Hx. apply andb_prop in Hx. tauto.
  - exists q, s, ident, alen, mism, gapo, qs, qe, ss, se, ev, bits. repeat split; try assumption; try reflexivity;
      apply negb_true_iff; assumption.
Qed.

(* ------------------------------------------------------------------ BLAST outfmt 6 / 10 and MMseqs2 fmtmode 0 *)
Lemma word_wsfree_nonempty : forall k, word k = true -> wsfree k = true /\ k <> [].
Proof. intros k H. destruct (word_inv k H). split; assumption. Qed.
Lemma forallb_word_strip : forall fs, forallb word fs = true ->
  forallb (fun k => wsfree k && negb (match k with [] => true | _ => false end)) fs = true.
Proof. intros fs. apply forallb_impl. intros k H. exact H. Qed.

Lemma detect_hits_sound : forall o sep rows,
  wf_hits sep rows = true -> (sep = tab \/ sep = ","%byte) -> o_outfmt o = None -> sep_or o tab = sep ->
  (ident_fraction_ok (ident_of rows) = true -> detect Fts o (render_hits sep rows) = DFound (bs "mmseqs"%bs)) /\
  (ident_fraction_ok (ident_of rows) = false -> ident_percent_ok (ident_of rows) = true ->
   detect Fts o (render_hits sep rows) = DFound (bs "blast"%bs)).
Proof.
  intros o sep rows Hwf Hsep Ho Hso. unfold wf_hits in Hwf. destruct rows as [|r0 rows']; [discriminate|].
  apply andb_prop in Hwf. destruct Hwf as [Hwf Hrows]. apply andb_prop in Hwf. destruct Hwf as [Hok Hlen].
  apply Nat.leb_le in Hlen.
  pose proof (hit_fields_view sep r0 Hok) as V.
  destruct (hv_shape _ _ V) as [q [s [ident [alen [mism [gapo [qs [qe [ss [se [ev [bits [Er0 [Hq1 [Hq2 [Da [Dm Dq]]]]]]]]]]]]]]]]].
  set (c := render_hits sep (r0 :: rows')). set (l0 := join sep r0).
  assert (Ec : c = l0 ++ nl :: text_of (map (join sep) rows')).
  { unfold c, render_hits, text_of. cbn [map concat]. rewrite <- app_assoc. reflexivity. }
  assert (Hnolb0 : nolb l0 = true) by (apply nolb_join; [destruct Hsep; subst sep; reflexivity|exact (hv_nolb _ _ V)]).
  assert (HX : exists X, splitlines (read_n 1000 c) = l0 :: X).
  { unfold read_n. rewrite Ec, window_line0; [eauto|exact Hnolb0|fold l0 in Hlen; lia]. }
  destruct HX as [X HX].
  (* first character *)
  pose proof (hv_words _ _ V) as Hw. rewrite Er0 in Hw. cbn [forallb] in Hw. apply andb_prop in Hw. destruct Hw as [Hwq _].
  destruct (word_inv q Hwq) as [Hqne Hqws]. destruct q as [|hq tq]; [congruence|].
  cbn [wsfree forallb] in Hqws. apply andb_prop in Hqws. destruct Hqws as [Hhq _]. apply negb_true_iff in Hhq.
  assert (Hhash : byte_eqb "#"%byte hq = false).
  { cbn [startswith bs bytes_of_bstr] in Hq1. apply andb_false_iff in Hq1. destruct Hq1 as [G|G]; [exact G|discriminate]. }
  assert (Hl0 : exists rest, l0 = hq :: rest) by (unfold l0; rewrite Er0; apply join_head).
  destruct Hl0 as [rest Hl0].
  assert (Ech : c = hq :: (rest ++ nl :: text_of (map (join sep) rows'))) by (rewrite Ec, Hl0; reflexivity).
  (* gff *)
  assert (Hgff : is_gff c <> Some true).
  { destruct Hsep as [Hs|Hs]; subst sep.
    - assert (E7 : exists R, c = (hq :: tq) ++ tab :: s ++ tab :: ident ++ tab :: alen ++ tab :: mism ++ tab :: gapo ++ tab :: qs ++ tab :: R).
      { eexists. rewrite Ec. unfold l0. rewrite Er0. cbn [join]. repeat (rewrite <- app_assoc; cbn [app]). reflexivity. }
      destruct E7 as [R E7]. rewrite E7.
      pose proof (hv_nosep _ _ V) as Hn. rewrite Er0 in Hn. cbn [forallb] in Hn.
      repeat (apply andb_prop in Hn; destruct Hn as [? Hn]).
      apply gff_reject_hits; try assumption.
      rewrite <- E7, Ech. apply not_gff_head; assumption.
    - rewrite is_gff_no_tab; [discriminate| |].
      + rewrite Ech. apply not_gff_head; assumption.
      + apply nosep_firstn. unfold c, render_hits. apply nosep_text_of; [reflexivity|]. apply forallb_forall. intros l Hl.
        apply in_map_iff in Hl. destruct Hl as [r [E Hr]]. subst l. apply nosep_join; [reflexivity|].
        unfold hits_rows_ok in Hrows. rewrite forallb_forall in Hrows. specialize (Hrows r Hr). revert Hrows. apply forallb_impl.
        apply field_ok_notab. }
  (* genbank *)
  assert (Hgb : is_genbank c <> Some true).
  { assert (E : exists R, c = (hq :: tq) ++ sep :: R).
    { eexists. rewrite Ec. unfold l0. rewrite Er0. cbn [join]. rewrite <- app_assoc. cbn [app]. reflexivity. }
    destruct E as [R E]. rewrite E. apply genbank_reject; assumption. }
  (* the identity column is a float literal *)
  assert (Hid : ident_of (r0 :: rows') = ident) by (unfold ident_of; rewrite Er0; reflexivity).
  (* infernal *)
  assert (Hl0strip : lstrip_char "#"%byte l0 = l0).
  { rewrite Hl0. cbn [lstrip_char]. rewrite (byte_eqb_sym_false _ _ Hhash). reflexivity. }
  assert (Hinf : forall fl, py_float ident = Some fl -> is_fts_infernal c <> Some true).
  { intros fl Hfl. apply (infernal_reject c _ X HX). rewrite Hl0strip.
    destruct Hsep as [Hs|Hs]; subst sep.
    - unfold l0. rewrite split_ws_join_tab by exact (hv_words _ _ V).
      destruct (subset_str r0 INFERNAL_HEADER_KW) eqn:E; [|reflexivity]. exfalso.
      assert (Hin : mem_str ident INFERNAL_HEADER_KW = true).
      { apply (subset_mem r0 _ ident E). rewrite Er0. unfold mem_str. cbn [existsb]. rewrite (str_eqb_refl ident). repeat rewrite orb_true_r. reflexivity. }
      apply mem_str_true_In in Hin. pose proof kw_not_float as NF. rewrite forallb_forall in NF. specialize (NF ident Hin).
      rewrite Hfl in NF. discriminate.
    - assert (Hwl : wsfree l0 = true).
      { unfold l0. apply wsfree_join; [reflexivity|]. generalize (hv_words _ _ V). apply forallb_impl. intros k Hk.
        destruct (word_inv k Hk); assumption. }
      unfold split_ws. rewrite split_ws_aux_last; [|rewrite Hl0; discriminate|exact Hwl]. cbn [rev app subset_str forallb].
      destruct tables_no_comma as [TC _]. rewrite (comma_not_member l0 _ TC); [reflexivity|].
      unfold l0. rewrite Er0. change (join ","%byte ((hq :: tq) :: s :: ident :: alen :: mism :: gapo :: qs :: qe :: ss :: se :: ev :: [bits]))
        with ((hq :: tq) ++ ","%byte :: join ","%byte (s :: ident :: alen :: mism :: gapo :: qs :: qe :: ss :: se :: ev :: [bits])).
      apply nosep_app_sep. }
  assert (Hsn : forall fl, py_float ident = Some fl ->
            is_fts_mmseqs o c = Some (float_in_range fl 1 53) /\ is_fts_blast o c = Some (float_in_range fl 100 47)).
  { intros fl Hfl. apply (hit_sniffers o sep r0 c X hq _ fl Hok Ho Hso HX Ech Hhash). rewrite Er0. exact Hfl. }
  rewrite Hid. unfold ident_fraction_ok, ident_percent_ok. split.
  - intros Hfr. destruct (py_float ident) as [fl|] eqn:Hfl; [|discriminate].
    destruct (Hsn fl eq_refl) as [Hmm _]. rewrite Hfr in Hmm. specialize (Hinf fl eq_refl).
    rewrite detect_is_first_accepting. unfold chain, PLUGINS_fts. fold c.
    erewrite (first_accepting_skip Fts o _ _ c (fun _ => is_gff)); [|reflexivity|exact Hgff].
    erewrite (first_accepting_skip Fts o _ _ c (fun _ => is_genbank)); [|reflexivity|exact Hgb].
    erewrite (first_accepting_skip Fts o _ _ c (fun _ => is_fts_infernal)); [|reflexivity|exact Hinf].
    erewrite (first_accepting_hit Fts o _ _ c is_fts_mmseqs); [reflexivity|reflexivity|exact Hmm].
  - intros Hfr Hpc. destruct (py_float ident) as [fl|] eqn:Hfl; [|discriminate].
    destruct (Hsn fl eq_refl) as [Hmm Hbl]. rewrite Hfr in Hmm. rewrite Hpc in Hbl. specialize (Hinf fl eq_refl).
    rewrite detect_is_first_accepting. unfold chain, PLUGINS_fts. fold c.
    erewrite (first_accepting_skip Fts o _ _ c (fun _ => is_gff)); [|reflexivity|exact Hgff].
    erewrite (first_accepting_skip Fts o _ _ c (fun _ => is_genbank)); [|reflexivity|exact Hgb].
    erewrite (first_accepting_skip Fts o _ _ c (fun _ => is_fts_infernal)); [|reflexivity|exact Hinf].
    erewrite (first_accepting_skip Fts o _ _ c is_fts_mmseqs); [|reflexivity|rewrite Hmm; discriminate].
    erewrite (first_accepting_hit Fts o _ _ c is_fts_blast); [reflexivity|reflexivity|exact Hbl].
Qed.

(* ------------------------------------------------------------------ MMseqs2 fmtmode 4: a name row first *)
Lemma subset_forallb : forall (P : str -> bool) a T, subset_str a T = true -> forallb P T = true -> forallb P a = true.
Proof.
  intros P a T Hs HT. apply forallb_forall. intros x Hx. unfold subset_str in Hs. rewrite forallb_forall in Hs, HT.
  apply HT. apply mem_str_true_In. apply Hs. exact Hx.
Qed.
Lemma mmseqs_names_facts :
  forallb is_name MMSEQS_HEADER_NAMES = true /\
  forallb (fun k => negb (startswith (bs "locus"%bs) (lower k))) MMSEQS_HEADER_NAMES = true.
Proof. vm_compute. split; reflexivity. Qed.

Lemma detect_mmseqs4_sound : forall o names rows,
  wf_mmseqs4 names rows = true -> sep_or o tab = tab ->
  detect Fts o (render_mmseqs4 names rows) = DFound (bs "mmseqs"%bs).
Proof.
  intros o names rows Hwf Hso. unfold wf_mmseqs4 in Hwf.
  do 4 (apply andb_prop in Hwf; destruct Hwf as [Hwf ?]).
  rename Hwf into H4. apply Nat.leb_le in H4.
  match goal with Hx : negb (subset_str names INFERNAL_HEADER_KW) = true |- _ => apply negb_true_iff in Hx; rename Hx into Hkw end.
  match goal with Hx : subset_str names MMSEQS_HEADER_NAMES = true |- _ => rename Hx into Hsub end.
  match goal with Hx : Nat.leb _ 1000 = true |- _ => apply Nat.leb_le in Hx; rename Hx into Hlen end.
  destruct mmseqs_names_facts as [NF1 NF2].
  pose proof (subset_forallb is_name names _ Hsub NF1) as Hnames.
  pose proof (subset_forallb _ names _ Hsub NF2) as Hloc.
  set (c := render_mmseqs4 names rows). set (l0 := join tab names).
  assert (Ec : c = l0 ++ nl :: text_of (map (join tab) rows)).
  { unfold c, render_mmseqs4, text_of. cbn [map concat]. rewrite <- app_assoc. reflexivity. }
  assert (Hkeys : forallb (field_ok tab) names = true).
  { revert Hnames. apply forallb_impl. intros k. apply name_nosep. left; reflexivity. }
  assert (Hnolb0 : nolb l0 = true).
  { apply nolb_join; [reflexivity|]. revert Hkeys. apply forallb_impl. apply field_ok_nolb. }
  assert (HX : exists X, splitlines (read_n 1000 c) = l0 :: X).
  { unfold read_n. rewrite Ec, window_line0; [eauto|exact Hnolb0|fold l0 in Hlen; lia]. }
  destruct HX as [X HX].
  destruct names as [|k0 [|k1 [|k2 [|k3 kr]]]]; cbn [length] in H4; try lia.
  pose proof Hnames as Hn. cbn [forallb] in Hn.
  apply andb_prop in Hn. destruct Hn as [N0 Hn]. apply andb_prop in Hn. destruct Hn as [N1 Hn].
  apply andb_prop in Hn. destruct Hn as [N2 Hn]. apply andb_prop in Hn. destruct Hn as [N3 _].
  destruct (name_head k0 N0) as [h0 [t0 [E0 Hh0]]]. subst k0.
  destruct (head_facts h0 Hh0) as [Hw0 [Hhash0 _]].
  destruct (name_head k3 N3) as [h3 [t3 [E3 Hh3]]]. subst k3.
  assert (Hl0 : exists rest, l0 = h0 :: rest) by (unfold l0; apply join_head). destruct Hl0 as [rest Hl0].
  assert (Ech : c = h0 :: (rest ++ nl :: text_of (map (join tab) rows))) by (rewrite Ec, Hl0; reflexivity).
  assert (Hgff : is_gff c <> Some true).
  { destruct (join_head tab h3 t3 kr) as [rest3 Er3].
    assert (Ec2 : c = (h0 :: t0) ++ tab :: k1 ++ tab :: k2 ++ tab :: h3 :: (rest3 ++ nl :: text_of (map (join tab) rows))).
    { rewrite Ec. unfold l0.
      change (join tab ((h0 :: t0) :: k1 :: k2 :: (h3 :: t3) :: kr)) with ((h0 :: t0) ++ tab :: k1 ++ tab :: k2 ++ tab :: join tab ((h3 :: t3) :: kr)).
      rewrite Er3. rewrite <- !app_assoc. cbn [app]. rewrite <- !app_assoc. cbn [app]. rewrite <- !app_assoc. reflexivity. }
    rewrite Ec2. rewrite gff_reject_4th; [discriminate| | | |exact Hh3|].
    - apply field_ok_nosep. apply name_nosep; [left; reflexivity|exact N0].
    - apply field_ok_nosep. apply name_nosep; [left; reflexivity|exact N1].
    - apply field_ok_nosep. apply name_nosep; [left; reflexivity|exact N2].
    - rewrite <- Ec2, Ech. apply not_gff_head; assumption. }
  assert (Hgb : is_genbank c <> Some true).
  { assert (E : exists R, c = (h0 :: t0) ++ tab :: R).
    { eexists. rewrite Ec. unfold l0. change (join tab ((h0 :: t0) :: k1 :: k2 :: (h3 :: t3) :: kr)) with ((h0 :: t0) ++ tab :: join tab (k1 :: k2 :: (h3 :: t3) :: kr)).
      rewrite <- app_assoc. cbn [app]. reflexivity. }
    destruct E as [R E]. rewrite E. apply genbank_reject; [left; reflexivity|].
    cbn [forallb] in Hloc. apply andb_prop in Hloc. destruct Hloc as [Hl _]. apply negb_true_iff in Hl. exact Hl. }
  assert (Hwords : forallb word ((h0 :: t0) :: k1 :: k2 :: (h3 :: t3) :: kr) = true).
  { revert Hnames. apply forallb_impl. apply name_word. }
  assert (Hinf : is_fts_infernal c <> Some true).
  { apply (infernal_reject c _ X HX). rewrite Hl0. cbn [lstrip_char]. rewrite (byte_eqb_sym_false _ _ Hhash0). rewrite <- Hl0.
    unfold l0. rewrite split_ws_join_tab by exact Hwords. exact Hkw. }
  assert (Hmm : is_fts_mmseqs o c = Some true).
  { unfold is_fts_mmseqs. rewrite HX, Hso.
    assert (Hst : strip_ws l0 = l0) by (unfold l0; apply strip_join_names; [discriminate|exact Hwords]).
    rewrite Hst. unfold l0. rewrite split_join; [|discriminate|revert Hkeys; apply forallb_impl; apply field_ok_nosep].
    rewrite Hsub. reflexivity. }
  rewrite detect_is_first_accepting. unfold chain, PLUGINS_fts. fold c.
  erewrite (first_accepting_skip Fts o _ _ c (fun _ => is_gff)); [|reflexivity|exact Hgff].
  erewrite (first_accepting_skip Fts o _ _ c (fun _ => is_genbank)); [|reflexivity|exact Hgb].
  erewrite (first_accepting_skip Fts o _ _ c (fun _ => is_fts_infernal)); [|reflexivity|exact Hinf].
  erewrite (first_accepting_hit Fts o _ _ c is_fts_mmseqs); [reflexivity|reflexivity|exact Hmm].
Qed.

(* ------------------------------------------------------------------ Infernal tblout: header line + ruler *)
Lemma firstn_prefix : forall {A} k (a b : list A), k <= length a -> firstn k (a ++ b) = firstn k a.
Proof. intros A k a b H. rewrite firstn_app. replace (k - length a) with 0 by lia. cbn [firstn]. apply app_nil_r. Qed.
Lemma hash_not_genbank : forall t, is_genbank ("#"%byte :: t) <> Some true.
Proof.
  intros t H. apply is_genbank_prefix5 in H. unfold lower in H. cbn [map startswith bs bytes_of_bstr] in H.
  vm_compute (byte_eqb "l"%byte (lower1 "#"%byte)) in H. discriminate.
Qed.

Lemma detect_infernal_sound : forall o l0 l1 rows,
  wf_infernal l0 l1 rows = true -> detect Fts o (render_infernal l0 l1 rows) = DFound (bs "infernal"%bs).
Proof.
  intros o l0 l1 rows Hwf. unfold wf_infernal in Hwf.
  do 7 (apply andb_prop in Hwf; destruct Hwf as [Hwf ?]).
  destruct l0 as [|c0 [|a t0]]; try discriminate Hwf.
  { destruct c0; discriminate Hwf. }
  assert (E0 : c0 = "#"%byte) by (destruct c0; try reflexivity; discriminate Hwf). subst c0.
  change (negb (byte_eqb a "#"%byte) = true) in Hwf. apply negb_true_iff in Hwf.
  repeat match goal with Hx : Nat.leb _ _ = true |- _ => apply Nat.leb_le in Hx end.
  set (l0 := "#"%byte :: a :: t0) in *.
  set (c := render_infernal l0 l1 rows).
  assert (Ec : c = l0 ++ nl :: (l1 ++ nl :: text_of rows)).
  { unfold c, render_infernal, text_of. cbn [map concat]. rewrite <- !app_assoc. reflexivity. }
  assert (Hgff : is_gff c <> Some true).
  { rewrite is_gff_no_tab; [discriminate| |].
    - rewrite Ec. unfold l0. cbn [app]. apply pragma_reject2. exact Hwf.
    - rewrite Ec. rewrite firstn_prefix by assumption. apply nosep_firstn. assumption. }
  assert (Hgb : is_genbank c <> Some true) by (rewrite Ec; unfold l0; cbn [app]; apply hash_not_genbank).
  assert (Hinf : is_fts_infernal c = Some true).
  { unfold is_fts_infernal, read_n. rewrite Ec. rewrite window_line0 by (try assumption; lia).
    rewrite window_line0 by (try assumption; lia).
    match goal with Ha : subset_str _ INFERNAL_HEADER_KW = true |- _ => rewrite Ha end.
    match goal with Hb : existsb _ INFERNAL_NCOLS = true |- _ => rewrite Hb end. reflexivity. }
  rewrite detect_is_first_accepting. unfold chain, PLUGINS_fts. fold c.
  erewrite (first_accepting_skip Fts o _ _ c (fun _ => is_gff)); [|reflexivity|exact Hgff].
  erewrite (first_accepting_skip Fts o _ _ c (fun _ => is_genbank)); [|reflexivity|exact Hgb].
  erewrite (first_accepting_hit Fts o _ _ c (fun _ => is_fts_infernal)); [reflexivity|reflexivity|exact Hinf].
Qed.

(* ------------------------------------------------------------------ BLAST outfmt 7: comment lines first *)
Lemma split_ws_aux_word_gen : forall w k rest cur, is_ws w = true -> k <> [] -> wsfree k = true ->
  split_ws_aux (k ++ w :: rest) cur = (rev cur ++ k) :: split_ws_aux rest [].
Proof.
  intros w. induction k as [|x k IH]; intros rest cur Hw Hne H; [congruence|].
  cbn [wsfree forallb] in H. apply andb_prop in H. destruct H as [Hx Hk]. apply negb_true_iff in Hx.
  cbn [app split_ws_aux]. rewrite Hx. destruct k as [|y k].
  - cbn [app split_ws_aux]. rewrite Hw. reflexivity.
  - rewrite IH; [|exact Hw|discriminate|exact Hk]. cbn [rev]. rewrite <- app_assoc. reflexivity.
Qed.
Lemma startswith_app_r : forall p a b, startswith p a = true -> startswith p (a ++ b) = true.
Proof.
  induction p as [|x p IH]; intros a b H; [reflexivity|]. destruct a as [|y a]; [discriminate|].
  cbn [startswith app] in *. apply andb_prop in H. destruct H as [H1 H2]. rewrite H1, (IH a b H2). reflexivity.
Qed.
Lemma contains_app_r : forall p a b, contains p a = true -> contains p (a ++ b) = true.
Proof.
  intros p a. induction a as [|c a IH]; intros b H.
  - cbn [contains] in H. destruct p; [|discriminate]. apply contains_here. reflexivity.
  - cbn [contains] in H. apply orb_prop in H. destruct H as [H|H].
    + apply contains_here. apply startswith_app_r. exact H.
    + cbn [app]. apply contains_cons. apply IH. exact H.
Qed.
Lemma wsfree_nosep_tab : forall k, wsfree k = true -> nosep tab k = true /\ nolb k = true.
Proof.
  intros k H. split; revert H; apply forallb_impl; intros c Hc; destruct c; try discriminate Hc; reflexivity.
Qed.
Lemma kw_no_blast : forallb (fun k => negb (contains (bs "BLAST"%bs) k)) INFERNAL_HEADER_KW = true.
Proof. vm_compute. reflexivity. Qed.

Lemma detect_blast7_sound : forall o prog ver comments rows,
  wf_blast7 prog ver comments rows = true -> sep_or o tab = tab ->
  detect Fts o (render_blast7 prog ver comments rows) = DFound (bs "blast"%bs).
Proof.
  intros o prog ver comments rows Hwf Hso. unfold wf_blast7 in Hwf.
  do 5 (apply andb_prop in Hwf; destruct Hwf as [Hwf ?]).
  rename Hwf into Hwp.
  match goal with Hx : word ver = true |- _ => rename Hx into Hwv end.
  match goal with Hx : contains _ prog = true |- _ => rename Hx into Hbl end.
  match goal with Hx : forallb _ comments = true |- _ => rename Hx into Hcom end.
  match goal with Hx : Nat.leb 100 _ = true |- _ => apply Nat.leb_le in Hx; rename Hx into H100 end.
  match goal with Hx : Nat.leb _ 1000 = true |- _ => apply Nat.leb_le in Hx; rename Hx into Hlen end.
  destruct (word_inv prog Hwp) as [Hpne Hpws]. destruct (word_inv ver Hwv) as [Hvne Hvws].
  destruct (wsfree_nosep_tab prog Hpws) as [Hpt Hpl]. destruct (wsfree_nosep_tab ver Hvws) as [Hvt Hvl].
  set (l0 := blast7_line0 prog ver) in *.
  set (c := render_blast7 prog ver comments rows).
  set (R := text_of comments ++ text_of (map (join tab) rows)).
  assert (Ec : c = l0 ++ nl :: R).
  { unfold c, render_blast7, R, text_of. cbn [map concat]. rewrite <- !app_assoc. reflexivity. }
  assert (El0 : l0 = "#"%byte :: " "%byte :: (prog ++ " "%byte :: ver)) by reflexivity.
  assert (Hl0t : nosep tab l0 = true /\ nolb l0 = true).
  { rewrite El0. split.
    - cbn [nosep forallb]. change (byte_eqb "#"%byte tab) with false. change (byte_eqb " "%byte tab) with false. cbn [negb andb].
      fold (nosep tab (prog ++ " "%byte :: ver)). rewrite nosep_app, Hpt. cbn [nosep forallb andb]. exact Hvt.
    - cbn [nolb forallb]. change (is_linebreak "#"%byte) with false. change (is_linebreak " "%byte) with false. cbn [negb andb].
      fold (nolb (prog ++ " "%byte :: ver)). rewrite nolb_app, Hpl. cbn [nolb forallb andb]. exact Hvl. }
  destruct Hl0t as [Hl0t Hl0l].
  assert (HX : exists X, splitlines (read_n 1000 c) = l0 :: X).
  { unfold read_n. rewrite Ec, window_line0; [eauto|exact Hl0l|lia]. }
  destruct HX as [X HX].
  assert (Hgff : is_gff c <> Some true).
  { rewrite is_gff_no_tab; [discriminate| |].
    - rewrite Ec, El0. cbn [app]. apply pragma_reject2. reflexivity.
    - unfold c, render_blast7. rewrite firstn_prefix by exact H100. apply nosep_firstn.
      apply nosep_text_of; [reflexivity|]. cbn [forallb]. fold l0. rewrite Hl0t. cbn [andb].
      revert Hcom. apply forallb_impl. intros l Hl. apply andb_prop in Hl. tauto. }
  assert (Hgb : is_genbank c <> Some true) by (rewrite Ec, El0; cbn [app]; apply hash_not_genbank).
  assert (Hinf : is_fts_infernal c <> Some true).
  { apply (infernal_reject c _ X HX). rewrite El0. cbn [lstrip_char]. change (byte_eqb "#"%byte "#"%byte) with true.
    change (byte_eqb " "%byte "#"%byte) with false. cbn iota.
    unfold split_ws. cbn [split_ws_aux]. change (is_ws " "%byte) with true. cbn iota.
    rewrite split_ws_aux_word_gen by (try assumption; reflexivity). rewrite split_ws_aux_last by assumption.
    cbn [rev app subset_str forallb].
    assert (Hm : mem_str prog INFERNAL_HEADER_KW = false).
    { destruct (mem_str prog INFERNAL_HEADER_KW) eqn:E; [|reflexivity]. apply mem_str_true_In in E.
      pose proof kw_no_blast as K. rewrite forallb_forall in K. specialize (K prog E). rewrite Hbl in K. discriminate. }
    rewrite Hm. reflexivity. }
  assert (Hstrip : strip_ws l0 = l0).
  { rewrite El0. unfold strip_ws. cbn [lstrip_ws]. change (is_ws "#"%byte) with false. cbn iota.
    replace ("#"%byte :: " "%byte :: prog ++ " "%byte :: ver) with (("#"%byte :: " "%byte :: prog ++ [" "%byte]) ++ ver)
      by (cbn [app]; rewrite <- app_assoc; reflexivity).
    rewrite rstrip_ws_app_r; rewrite rstrip_ws_wsfree by exact Hvws; [reflexivity|exact Hvne]. }
  assert (Hmm : is_fts_mmseqs o c <> Some true).
  { unfold is_fts_mmseqs. rewrite HX, Hso, Hstrip. rewrite split_on_nosep by exact Hl0t.
    assert (Hm : mem_str l0 MMSEQS_HEADER_NAMES = false).
    { destruct (mem_str l0 MMSEQS_HEADER_NAMES) eqn:E; [|reflexivity]. apply mem_str_true_In in E.
      destruct mmseqs_names_facts as [NF _]. rewrite forallb_forall in NF. specialize (NF l0 E). rewrite El0 in NF. discriminate NF. }
    cbn [subset_str forallb length]. rewrite Hm. cbn [andb Nat.ltb Nat.leb].
    unfold sniff_line. rewrite El0.
    destruct (o_outfmt o) as [of|]; [destruct (headers_from (split_ws of) (hdr_table TMmseqs))|]; cbn; discriminate. }
  assert (Hblast : is_fts_blast o c = Some true).
  { unfold is_fts_blast, read_n. rewrite Ec. rewrite firstn_app_cons.
    assert (E : Nat.leb 1000 (length l0) = false) by (apply Nat.leb_gt; lia). rewrite E.
    assert (Hc : contains (bs "BLAST"%bs) (l0 ++ nl :: firstn (1000 - length l0 - 1) R) = true).
    { apply contains_app_r. rewrite El0. apply contains_cons. apply contains_cons. apply contains_app_r. exact Hbl. }
    rewrite Hc. rewrite El0. reflexivity. }
  rewrite detect_is_first_accepting. unfold chain, PLUGINS_fts. fold c.
  erewrite (first_accepting_skip Fts o _ _ c (fun _ => is_gff)); [|reflexivity|exact Hgff].
  erewrite (first_accepting_skip Fts o _ _ c (fun _ => is_genbank)); [|reflexivity|exact Hgb].
  erewrite (first_accepting_skip Fts o _ _ c (fun _ => is_fts_infernal)); [|reflexivity|exact Hinf].
  erewrite (first_accepting_skip Fts o _ _ c is_fts_mmseqs); [|reflexivity|exact Hmm].
  erewrite (first_accepting_hit Fts o _ _ c is_fts_blast); [reflexivity|reflexivity|exact Hblast].
Qed.

(* ------------------------------------------------------------------ witnesses *)
Definition demo_mm_names : list str :=
  [bs "query"%bs; bs "target"%bs; bs "fident"%bs; bs "alnlen"%bs; bs "mismatch"%bs; bs "gapopen"%bs; bs "qstart"%bs; bs "qend"%bs;
   bs "tstart"%bs; bs "tend"%bs; bs "evalue"%bs; bs "bits"%bs].
Definition demo_b7_comments : list str :=
  [bs "# Query: exon3-AMCR"%bs; bs "# Database: User specified sequence set"%bs;
   bs "# Fields: query id, subject id, % identity, alignment length, mismatches, gap opens, q. start, q. end, s. start, s. end, evalue, bit score"%bs;
   bs "# 1 hits found"%bs].
Definition demo_inf_l0 : str :=
  bs "#target name         accession query name           accession mdl mdl from   mdl to seq from   seq to strand trunc pass   gc  bias  score   E-value inc description of target"%bs.
Definition demo_inf_l1 : str :=
  bs "#------------------- --------- -------------------- --------- --- -------- -------- -------- -------- ------ ----- ---- ---- ----- ------ --------- --- ---------------------"%bs.
Lemma witness_chain :
  wf_hits tab [demo_hit (bs "0.954"%bs); demo_hit (bs "x"%bs)] = true /\
  ident_fraction_ok (ident_of [demo_hit (bs "0.954"%bs)]) = true /\
  wf_hits ","%byte [demo_hit (bs "95.408"%bs)] = true /\
  wf_mmseqs4 demo_mm_names [demo_hit (bs "0.954"%bs)] = true /\
  wf_blast7 (bs "BLASTN"%bs) (bs "2.15.0+"%bs) demo_b7_comments [demo_hit (bs "95.408"%bs)] = true /\
  wf_infernal demo_inf_l0 demo_inf_l1 [bs "tRNA5 - NC_1 - cm 1 72 10 81 + no 1 0.50 0.0 71.4 1.4e-18 ! x"%bs] = true.
Proof. vm_compute. repeat split; reflexivity. Qed.
