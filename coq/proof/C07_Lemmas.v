(* C07 proofs, part 1: T/U equivalence and the gap simulation (DESIGN.md appendix D, ported to the concrete model). *)
From Coq Require Import List ZArith NArith Bool Lia Arith.
From Coq.Strings Require Import Byte.
Import ListNotations.
From SV Require Import Text C05_Model G_gc_ids G_c07_tabs C07_Model.

(* ---------------------------------------------------------------- T / U *)
Lemma u2t_idem l : u2t (u2t l) = u2t l.
Proof.
  unfold u2t, replace1. rewrite map_map. apply map_ext. intro c.
  destruct (byte_eqb c cU) eqn:E; [reflexivity|]. rewrite E. reflexivity.
Qed.

Lemma tu_equiv t o l : translate t o (u2t l) = translate t o l.
Proof. unfold translate. rewrite u2t_idem. reflexivity. Qed.

(* the model's letter numbering is the translator's letter order *)
Lemma letter_ix_tie b : letter_ix b = index_from b letters 0%N.
Proof. destruct b; vm_compute; reflexivity. Qed.

(* ---------------------------------------------------------------- gaps *)
Section Gap.
Variable t : gtab.
Variable o : opts.
Hypothesis Hsym : gap_sym_ok t o = true.

Arguments degap_out : simpl never.
Arguments degap_in : simpl never.

Lemma lookupNb_In n l a : lookupNb n l = Some a -> In (n, a) l.
Proof.
  induction l as [|[k v] l IH]; simpl; [discriminate|].
  destruct (N.eqb k n) eqn:E.
  - intros H. inversion H; subst. apply N.eqb_eq in E. subst. left. reflexivity.
  - intros H. right. apply IH. exact H.
Qed.

(* no symbol written for a codon is the gap symbol *)
Lemma aa_nogap c : is_gap o (aa_of t (o_astop o) c) = false.
Proof.
  unfold gap_sym_ok in Hsym. unfold is_gap. destruct (o_gap o) as [g|]; [|reflexivity].
  apply andb_prop in Hsym. destruct Hsym as [H12 H3]. apply andb_prop in H12. destruct H12 as [H1 H2].
  unfold aa_of. destruct (in_set c (g_astops t)).
  - apply negb_true_iff. exact H1.
  - unfold base_aa. destruct (tt_get t c) as [a|] eqn:E.
    + unfold tt_get in E. destruct (codon_num c) as [n|]; [|discriminate].
      apply lookupNb_In in E. rewrite forallb_forall in H3. specialize (H3 _ E). simpl in H3.
      apply negb_true_iff. exact H3.
    + apply negb_true_iff. exact H2.
Qed.

Definition sim (s s' : st) : Prop :=
  degap_out o (aas s) = degap_out o (aas s') /\ codon s = codon s' /\ cs s = cs s' /\ nres s = nres s'
  /\ (length (codon s) < 3)%nat.

Lemma degap_out_rev a : degap_out o (rev a) = rev (degap_out o a).
Proof.
  unfold degap_out. induction a as [|x a IH]; simpl; [reflexivity|].
  rewrite filter_app, IH. simpl. destruct (is_gap o x); simpl; [rewrite app_nil_r|]; reflexivity.
Qed.

Lemma emit_gap_degap a n : degap_out o (fst (emit_gap o a n)) = degap_out o a.
Proof.
  unfold emit_gap, degap_out. destruct (o_gap o) as [g|] eqn:G; [|reflexivity].
  destruct (o_gap_after o) as [k|]; [|reflexivity].
  destruct (Z.eqb n k); simpl; [|reflexivity].
  unfold is_gap. rewrite G, byte_eqb_refl. reflexivity.
Qed.

Lemma degap_cons_aa c a : degap_out o (aa_of t (o_astop o) c :: a) = aa_of t (o_astop o) c :: degap_out o a.
Proof. unfold degap_out. simpl. rewrite aa_nogap. reflexivity. Qed.

Lemma step_gap s x : is_gap o x = true -> (length (codon s) < 3)%nat ->
  exists a n, step t o s x = inl {| aas := a; ngap := n; codon := codon s; cs := cs s; nres := nres s |}
              /\ degap_out o a = degap_out o (aas s).
Proof.
  intros G L. unfold step. rewrite G.
  assert (E: Nat.eqb (length (codon s)) 3 = false) by (apply Nat.eqb_neq; lia).
  rewrite E. unfold continue_. eexists _, _. split; [reflexivity|]. apply emit_gap_degap.
Qed.

Definition sim_sr (r r' : st + res) : Prop :=
  match r, r' with
  | inl s, inl s' => sim s s'
  | inr q, inr q' => res_degap o q = res_degap o q'
  | _, _ => False
  end.

Lemma step_res s s' x : is_gap o x = false -> sim s s' -> sim_sr (step t o s x) (step t o s' x).
Proof.
  intros G (Ha & Hc & Hs & Hr & L). unfold step. rewrite G, <- Hc, <- Hs, <- Hr.
  pose proof (emit_gap_degap (aas s) (ngap s)) as E1.
  pose proof (emit_gap_degap (aas s') (ngap s')) as E2.
  set (a1 := fst (emit_gap o (aas s) (ngap s))) in *.
  set (a1' := fst (emit_gap o (aas s') (ngap s'))) in *.
  assert (EA: degap_out o a1 = degap_out o a1') by congruence.
  destruct (Nat.eqb (length (codon s ++ [x])) 3) eqn:L3.
  - destruct (cs s && negb (can_start t (codon s ++ [x]))); [simpl; reflexivity|].
    cbv zeta.
    destruct (is_stop t (codon s ++ [x])).
    + destruct (o_check_stop o && Nat.leb 3 (pred (nres s))); [simpl; reflexivity|].
      destruct (negb (Nat.leb 3 (pred (nres s))) || negb (o_complete o)).
      * simpl. rewrite !degap_out_rev. destruct (eff_final_stop o); rewrite ?degap_cons_aa; congruence.
      * simpl. unfold sim; simpl. rewrite !degap_cons_aa. repeat split; try congruence; lia.
    + simpl. unfold sim; simpl. rewrite !degap_cons_aa. repeat split; try congruence; lia.
  - simpl. unfold sim; simpl. repeat split; try congruence.
    apply Nat.eqb_neq in L3. rewrite app_length in *. simpl in *. lia.
Qed.

Lemma short_not_in_set (c : str) l : (length c < 3)%nat -> in_set c l = false.
Proof.
  intros L. unfold in_set, codon_num.
  destruct c as [|a [|b [|d [|e r]]]]; try reflexivity; simpl in L; lia.
Qed.

Lemma sim_go : forall l s s', sim s s' ->
  res_degap o (go t o s l) = res_degap o (go t o s' (degap_in o l)).
Proof.
  induction l as [|x l IH]; intros s s' Hsim.
  - destruct Hsim as (Ha & Hc & _ & _ & L). unfold degap_in. simpl. rewrite <- Hc.
    destruct (o_check_stop o && negb (in_set (codon s) (g_astops t))); simpl; [reflexivity|].
    rewrite !degap_out_rev, Ha. reflexivity.
  - change (degap_in o (x :: l)) with (if negb (is_gap o x) then x :: degap_in o l else degap_in o l).
    destruct (is_gap o x) eqn:G; cbn [negb go].
    + destruct Hsim as (Ha & Hc & Hs & Hr & L).
      destruct (step_gap s x G L) as (a & n & E & Ea). rewrite E.
      apply IH. unfold sim; simpl. repeat split; try congruence.
    + pose proof (step_res s s' x G Hsim) as H.
      destruct (step t o s x) as [u|q], (step t o s' x) as [u'|q']; simpl in H; try contradiction.
      * apply IH; assumption.
      * exact H.
Qed.

Lemma filter_idem {A} (f : A -> bool) l : filter f (filter f l) = filter f l.
Proof. induction l as [|x l IH]; simpl; [reflexivity|]. destruct (f x) eqn:E; simpl; rewrite ?E, IH; reflexivity. Qed.

(* removing gaps from the output = translating the degapped input, both sides read up to gap symbols *)
Lemma translate_t_degap l :
  res_degap o (translate_t t o l) = res_degap o (translate_t t o (degap_in o l)).
Proof.
  unfold translate_t.
  assert (I: init o (degap_in o l) = init o l).
  { unfold init, degap_in. rewrite filter_idem. reflexivity. }
  rewrite I. apply sim_go.
  unfold sim, init; simpl. repeat split; lia.
Qed.

(* ---- on gap-free input no gap symbol is written (gap_after <> 0) *)
Hypothesis Hafter : gap_after_ok o = true.

Lemma emit_gap_zero a : emit_gap o a 0%Z = (a, 0%Z).
Proof.
  unfold emit_gap. destruct (o_gap o); [|reflexivity].
  unfold gap_after_ok in Hafter. destruct (o_gap_after o) as [k|]; [|reflexivity].
  apply Z.leb_le in Hafter. destruct (Z.eqb 0 k) eqn:E; [apply Z.eqb_eq in E; lia|reflexivity].
Qed.

Definition clean (s : st) : Prop := ngap s = 0%Z /\ degap_out o (aas s) = aas s.

Lemma step_clean s x : is_gap o x = false -> clean s ->
  match step t o s x with
  | inl s' => clean s'
  | inr r => res_degap o r = r
  end.
Proof.
  intros G (Hn & Ha). unfold step. rewrite G, Hn, emit_gap_zero. cbn [fst snd].
  destruct (Nat.eqb (length (codon s ++ [x])) 3).
  - destruct (cs s && negb (can_start t (codon s ++ [x]))); [reflexivity|]. cbv zeta.
    assert (HA: degap_out o (aa_of t (o_astop o) (codon s ++ [x]) :: aas s) = aa_of t (o_astop o) (codon s ++ [x]) :: aas s)
      by (rewrite degap_cons_aa, Ha; reflexivity).
    destruct (is_stop t (codon s ++ [x])).
    + destruct (o_check_stop o && Nat.leb 3 (pred (nres s))); [reflexivity|].
      destruct (negb (Nat.leb 3 (pred (nres s))) || negb (o_complete o)).
      * simpl. rewrite degap_out_rev. destruct (eff_final_stop o); [rewrite HA|rewrite Ha]; reflexivity.
      * simpl. split; [reflexivity|exact HA].
    + simpl. split; [reflexivity|exact HA].
  - simpl. split; [reflexivity|exact Ha].
Qed.

Lemma go_clean : forall l s, forallb (fun x => negb (is_gap o x)) l = true -> clean s ->
  res_degap o (go t o s l) = go t o s l.
Proof.
  induction l as [|x l IH]; intros s Hl Hc.
  - simpl. destruct (o_check_stop o && negb (in_set (codon s) (g_astops t))); simpl; [reflexivity|].
    rewrite degap_out_rev. destruct Hc as (_ & Ha). rewrite Ha. reflexivity.
  - simpl in Hl. apply andb_prop in Hl. destruct Hl as [Hx Hl]. apply negb_true_iff in Hx.
    simpl. pose proof (step_clean s x Hx Hc) as H.
    destruct (step t o s x) as [s'|r]; [apply IH; assumption|exact H].
Qed.

Lemma degap_in_gapfree l : forallb (fun x => negb (is_gap o x)) (degap_in o l) = true.
Proof.
  unfold degap_in. apply forallb_forall. intros x Hx. apply filter_In in Hx. tauto.
Qed.

Lemma translate_t_gapfree_clean l : forallb (fun x => negb (is_gap o x)) l = true ->
  res_degap o (translate_t t o l) = translate_t t o l.
Proof.
  intros H. unfold translate_t. apply go_clean; [exact H|]. split; reflexivity.
Qed.

(* the full statement on the string after U -> T *)
Lemma translate_t_degap_full l :
  res_degap o (translate_t t o l) = translate_t t o (degap_in o l).
Proof.
  rewrite translate_t_degap. apply translate_t_gapfree_clean. apply degap_in_gapfree.
Qed.

(* the gap character is not a nucleotide letter, so degapping commutes with U -> T *)
Hypothesis Hgap_nt : match o_gap o with None => true | Some g => negb (is_nt g) end = true.

Lemma is_gap_u2t x : is_gap o (if byte_eqb x cU then cT else x) = is_gap o x.
Proof.
  unfold is_gap. destruct (o_gap o) as [g|]; [|reflexivity].
  apply negb_true_iff in Hgap_nt.
  destruct (byte_eqb x cU) eqn:E; [|reflexivity].
  apply byte_eqb_eq in E. subst x.
  destruct (byte_eqb cT g) eqn:E1.
  - apply byte_eqb_eq in E1. subst g. vm_compute in Hgap_nt. discriminate.
  - destruct (byte_eqb cU g) eqn:E2; [|reflexivity].
    apply byte_eqb_eq in E2. subst g. vm_compute in Hgap_nt. discriminate.
Qed.

Lemma degap_u2t l : degap_in o (u2t l) = u2t (degap_in o l).
Proof.
  unfold degap_in, u2t, replace1. induction l as [|x l IH]; simpl; [reflexivity|].
  rewrite is_gap_u2t. destruct (is_gap o x); simpl; rewrite IH; reflexivity.
Qed.

Lemma translate_degap_full l :
  res_degap o (translate t o l) = translate t o (degap_in o l).
Proof. unfold translate. rewrite translate_t_degap_full, degap_u2t. reflexivity. Qed.

End Gap.
