(* C15 proofs, part 2: every line written by write_stockholm is parsed back to its item. *)
From Coq Require Import List ZArith NArith Bool Arith Lia.
From Coq.Strings Require Import Byte.
Import ListNotations.
From SV Require Import Text G_flags C15_Model C15_Lemmas.

Definition tokk (k : str) : Prop := k <> [] /\ forallb is_graph k = true.
Definition valk (v : str) : Prop := hd_nws v = true /\ hd_nws (rev v) = true.

Lemma wf_val_valk v : wf_val v = true -> valk v /\ no_nl v.
Proof.
  unfold wf_val, first_last_graph. intros H. apply andb_prop in H. destruct H as [Ht H].
  destruct v as [|c v]; [discriminate|]. apply andb_prop in H. destruct H as [H1 H2].
  split; [split|apply text_no_nl; exact Ht].
  - simpl. rewrite (graph_not_ws c H1). reflexivity.
  - rewrite (last_rev (c :: v) c) by discriminate. rewrite (graph_not_ws _ H2). reflexivity.
Qed.
Lemma wf_col_valk w v : 1 <= w -> wf_col w v = true -> valk v /\ no_nl v /\ length v = w /\ forallb is_graph v = true.
Proof.
  unfold wf_col. intros Hw H. apply andb_prop in H. destruct H as [Hg Hl]. apply Nat.eqb_eq in Hl.
  destruct v as [|c v]; [simpl in Hl; lia|].
  split; [split|split; [apply graph_no_nl; exact Hg|split; [exact Hl|exact Hg]]].
  - simpl in *. apply andb_prop in Hg. destruct Hg as [H1 _]. rewrite (graph_not_ws c H1). reflexivity.
  - rewrite (last_rev (c :: v) c) by discriminate.
    assert (Hin : In (last (c :: v) c) (c :: v)).
    { destruct (exists_last (l := c :: v)) as (v' & x & E); [discriminate|]. rewrite E, last_last. apply in_or_app. right. left. reflexivity. }
    rewrite forallb_forall in Hg. rewrite (graph_not_ws _ (Hg _ Hin)). reflexivity.
Qed.

Lemma split3 tag k v : tokk tag -> tokk k -> valk v ->
  split_max 2 (tag ++ SP :: k ++ SP :: v) = [tag; k; v].
Proof.
  intros [T1 T2] [K1 K2] [V1 _]. unfold split_max.
  rewrite sp_start by (auto using graph_no_ws). rewrite sp_start by (auto using graph_no_ws).
  rewrite sp_rest by exact V1. reflexivity.
Qed.
Lemma split4 tag i k v : tokk tag -> tokk i -> tokk k -> valk v ->
  split_max 3 (tag ++ SP :: i ++ SP :: k ++ SP :: v) = [tag; i; k; v].
Proof.
  intros [T1 T2] [I1 I2] [K1 K2] [V1 _]. unfold split_max.
  do 3 (rewrite sp_start by (auto using graph_no_ws)). rewrite sp_rest by exact V1. reflexivity.
Qed.
Lemma split2 i v : tokk i -> valk v -> split_max 1 (i ++ SP :: v) = [i; v].
Proof.
  intros [I1 I2] [V1 _]. unfold split_max. rewrite sp_start by (auto using graph_no_ws). rewrite sp_rest by exact V1. reflexivity.
Qed.

Lemma tokk_tag s : s <> [] -> forallb is_graph s = true -> tokk s.
Proof. split; assumption. Qed.
Lemma GFt_tok : tokk GFt. Proof. split; [discriminate|reflexivity]. Qed.
Lemma GCt_tok : tokk GCt. Proof. split; [discriminate|reflexivity]. Qed.
Lemma GSt_tok : tokk GSt. Proof. split; [discriminate|reflexivity]. Qed.
Lemma GRt_tok : tokk GRt. Proof. split; [discriminate|reflexivity]. Qed.

Lemma valk_ne v : valk v -> v <> [].
Proof. intros [H _] E. subst. discriminate. Qed.
Lemma app_ne {A} (a : list A) x b : a ++ x :: b <> [].
Proof. destruct a; discriminate. Qed.

Ltac lastnws :=
  repeat first [rewrite hd_nws_rev_app by (first [apply app_ne | discriminate | (apply valk_ne; assumption)])
               |rewrite hd_nws_rev_cons by (first [apply app_ne | discriminate | (apply valk_ne; assumption)])].

Lemma parse_clean line : hd_nws line = true -> hd_nws (rev line) = true -> parse_line (addnl line) = classify line.
Proof. intros H1 H2. unfold parse_line, addnl. rewrite strip_clean by assumption. reflexivity. Qed.

Ltac sw := match goal with |- context [startswith ?p ?l] =>
  let b := eval cbv in (startswith p (firstn 5 l)) in idtac end.

Lemma parse_gf k v : tokk k -> valk v -> parse_line (addnl (kvline GFt [] (k, v))) = IGF k v.
Proof.
  intros Hk Hv. unfold kvline. cbn [fst snd app]. rewrite parse_clean.
  - unfold classify. rewrite (split3 GFt k v GFt_tok Hk Hv).
    change (is_nil (GFt ++ SP :: k ++ SP :: v)) with false.
    change (startswith (bs "# STOCKHOLM"%bs) (GFt ++ SP :: k ++ SP :: v)) with false.
    change (startswith (bs "#=GF"%bs) (GFt ++ SP :: k ++ SP :: v)) with true.
    reflexivity.
  - reflexivity.
  - lastnws. apply Hv.
Qed.
Lemma parse_gc k v : tokk k -> valk v -> parse_line (addnl (kvline GCt [] (k, v))) = IGC k v.
Proof.
  intros Hk Hv. unfold kvline. cbn [fst snd app]. rewrite parse_clean.
  - unfold classify. rewrite (split3 GCt k v GCt_tok Hk Hv).
    change (is_nil (GCt ++ SP :: k ++ SP :: v)) with false.
    change (startswith (bs "# STOCKHOLM"%bs) (GCt ++ SP :: k ++ SP :: v)) with false.
    change (startswith (bs "#=GF"%bs) (GCt ++ SP :: k ++ SP :: v)) with false.
    change (startswith (bs "#=GC"%bs) (GCt ++ SP :: k ++ SP :: v)) with true.
    reflexivity.
  - reflexivity.
  - lastnws. apply Hv.
Qed.
Lemma parse_gs i k v : tokk i -> tokk k -> valk v -> parse_line (addnl (kvline GSt (i ++ [SP]) (k, v))) = IGS i k v.
Proof.
  intros Hi Hk Hv. unfold kvline. cbn [fst snd]. rewrite <- (app_assoc i [SP]). cbn [app]. rewrite parse_clean.
  - unfold classify. rewrite (split4 GSt i k v GSt_tok Hi Hk Hv).
    set (r := i ++ SP :: k ++ SP :: v).
    change (is_nil (GSt ++ SP :: r)) with false.
    change (startswith (bs "# STOCKHOLM"%bs) (GSt ++ SP :: r)) with false.
    change (startswith (bs "#=GF"%bs) (GSt ++ SP :: r)) with false.
    change (startswith (bs "#=GC"%bs) (GSt ++ SP :: r)) with false.
    change (startswith (bs "#=GS"%bs) (GSt ++ SP :: r)) with true.
    reflexivity.
  - reflexivity.
  - lastnws. apply Hv.
Qed.
Lemma parse_gr i k v : tokk i -> tokk k -> valk v -> parse_line (addnl (kvline GRt (i ++ [SP]) (k, v))) = IGR i k v.
Proof.
  intros Hi Hk Hv. unfold kvline. cbn [fst snd]. rewrite <- (app_assoc i [SP]). cbn [app]. rewrite parse_clean.
  - unfold classify. rewrite (split4 GRt i k v GRt_tok Hi Hk Hv).
    set (r := i ++ SP :: k ++ SP :: v).
    change (is_nil (GRt ++ SP :: r)) with false.
    change (startswith (bs "# STOCKHOLM"%bs) (GRt ++ SP :: r)) with false.
    change (startswith (bs "#=GF"%bs) (GRt ++ SP :: r)) with false.
    change (startswith (bs "#=GC"%bs) (GRt ++ SP :: r)) with false.
    change (startswith (bs "#=GS"%bs) (GRt ++ SP :: r)) with false.
    change (startswith (bs "#=GR"%bs) (GRt ++ SP :: r)) with true.
    reflexivity.
  - reflexivity.
  - lastnws. apply Hv.
Qed.
Lemma parse_header : parse_line (addnl HEADER) = IBlank.
Proof. reflexivity. Qed.
Lemma parse_end : parse_line (bs "//"%bs ++ [NL]) = IEnd.
Proof. reflexivity. Qed.
Lemma parse_blank : parse_line (addnl []) = IBlank.
Proof. reflexivity. Qed.

Definition HASH : byte := "#"%byte.
Definition SLASH : byte := "/"%byte.
Lemma wf_id_facts i : wf_id i = true ->
  tokk i /\ (forall p r, startswith (HASH :: p) (i ++ r) = false) /\ (forall r, startswith (bs "//"%bs) (i ++ SP :: r) = false).
Proof.
  unfold wf_id. intros H. apply andb_prop in H. destruct H as [H H4]. apply andb_prop in H. destruct H as [H H3].
  apply andb_prop in H. destruct H as [H1 H2]. apply negb_true_iff in H3. apply negb_true_iff in H4.
  destruct i as [|c i]; [discriminate|]. split; [split; [discriminate|exact H2]|]. split.
  - intros p r. unfold HASH. simpl in *. destruct (byte_eqb "#" c); [discriminate|reflexivity].
  - intros r. simpl in H4. cbn [bs bytes_of_bstr app startswith]. destruct (byte_eqb "/" c) eqn:E; [|reflexivity].
    destruct i as [|c2 i]; cbn [app startswith andb]; [reflexivity|].
    simpl in H4. destruct (byte_eqb "/" c2); [discriminate|reflexivity].
Qed.
Lemma has_sp i d : has SP (i ++ SP :: d) = true.
Proof. unfold has. rewrite existsb_app. cbn [existsb]. rewrite byte_eqb_refl. apply orb_true_r. Qed.
Lemma parse_seq i d : wf_id i = true -> valk d -> parse_line (addnl (i ++ SP :: d)) = ISeq i d.
Proof.
  intros Hi Hd. destruct (wf_id_facts i Hi) as ((I1 & I2) & Hh & Hs).
  assert (Hhd : hd_nws (i ++ SP :: d) = true).
  { destruct i as [|c i]; [congruence|]. simpl in *. apply andb_prop in I2. destruct I2 as [G _]. rewrite (graph_not_ws c G). reflexivity. }
  rewrite parse_clean; [|exact Hhd|lastnws; apply Hd].
  unfold classify. rewrite (split2 i d (conj I1 I2) Hd), has_sp, Hs.
  change (bs "# STOCKHOLM"%bs) with (HASH :: bs " STOCKHOLM"%bs).
  change (bs "#=GF"%bs) with (HASH :: bs "=GF"%bs). change (bs "#=GC"%bs) with (HASH :: bs "=GC"%bs).
  change (bs "#=GS"%bs) with (HASH :: bs "=GS"%bs). change (bs "#=GR"%bs) with (HASH :: bs "=GR"%bs).
  change (bs "#"%bs) with (HASH :: []). rewrite !Hh.
  destruct i; [congruence|reflexivity].
Qed.
