(* C08 proofs, part 2: slice, mirroring, invariant over operation histories. *)
From Coq Require Import List ZArith NArith Bool Lia Permutation.
From Coq.Strings Require Import Byte.
Import ListNotations.
From SV Require Import Text G_flags C08_Model C08_Lemmas.
Local Open Scope Z_scope.

(* ------------------------------------------------------------------ slice: one location *)
Lemma slice_loc_exact a b r l : loc_ok l = true ->
  slice_loc a b r l = if overlaps_win a b l then Keep (clip a b r l) else Drop.
Proof.
  intros Hok. apply loc_ok_parts in Hok. destruct Hok as [Hxy Hs].
  unfold slice_loc, overlaps_win. destruct (Z.max (lstart l) a <? Z.min (lstop l) b) eqn:E; [|reflexivity].
  rewrite mk_location_ok; [|lia|exact Hs]. unfold clip. do 2 f_equal.
  destruct (lstart l <? a), (lstop l >? b); rewrite ?N.lor_0_r; reflexivity.
Qed.
(* the window test is "the intersection of [x,y) and [a,b) is not empty", for every window *)
Lemma overlaps_win_spec a b l :
  overlaps_win a b l = true <-> exists p, lstart l <= p < lstop l /\ a <= p < b.
Proof.
  unfold overlaps_win. split.
  - intros H. exists (Z.max (lstart l) a). lia.
  - intros [p H]. lia.
Qed.
Lemma overlaps_win_nonempty a b l : a < b -> lstart l < lstop l ->
  (overlaps_win a b l = true <-> lstart l < b /\ lstop l > a).
Proof. unfold overlaps_win. lia. Qed.
Lemma overlaps_win_empty a b l : b <= a -> overlaps_win a b l = false.
Proof. unfold overlaps_win. lia. Qed.
(* bitwise reading of the defect of a clipped location *)
Lemma clip_defect_bits a b r l i :
  N.testbit (ldefect (clip a b r l)) i =
  N.testbit (ldefect l) i || ((lstart l <? a) && N.testbit D_MISS_LEFT i) || ((lstop l >? b) && N.testbit D_MISS_RIGHT i).
Proof.
  unfold clip. cbn [ldefect]. rewrite !N.lor_spec.
  destruct (lstart l <? a), (lstop l >? b); cbn [andb]; rewrite ?N.bits_0, ?orb_false_r; reflexivity.
Qed.
Lemma has_flag_lor d m k : has_flag (N.lor d m) k = has_flag d k || has_flag m k.
Proof.
  unfold has_flag. rewrite N.land_lor_distr_l.
  destruct (N.eqb_spec (N.land d k) 0) as [E1|E1], (N.eqb_spec (N.land m k) 0) as [E2|E2]; cbn [negb orb].
  - rewrite E1, E2. reflexivity.
  - rewrite E1, N.lor_0_l. apply negb_true_iff. apply N.eqb_neq. exact E2.
  - rewrite E2, N.lor_0_r. apply negb_true_iff. apply N.eqb_neq. exact E1.
  - apply negb_true_iff. apply N.eqb_neq. intros C. apply N.lor_eq_0_iff in C. destruct C. contradiction.
Qed.
Lemma clip_spec a b r l :
  let l' := clip a b r l in
  lstart l' = Z.max a (lstart l) - r /\ lstop l' = Z.min b (lstop l) - r /\ lstrand l' = lstrand l /\ lmeta l' = lmeta l /\
  has_flag (ldefect l') D_MISS_LEFT = has_flag (ldefect l) D_MISS_LEFT || (lstart l <? a) /\
  has_flag (ldefect l') D_MISS_RIGHT = has_flag (ldefect l) D_MISS_RIGHT || (lstop l >? b) /\
  (forall k, N.land D_MISS_LEFT k = 0%N -> N.land D_MISS_RIGHT k = 0%N -> N.land (ldefect l') k = N.land (ldefect l) k).
Proof.
  cbv zeta. unfold clip. cbn [lstart lstop lstrand lmeta ldefect]. repeat split.
  - rewrite !has_flag_lor. destruct (lstart l <? a), (lstop l >? b); vm_compute (has_flag _ D_MISS_LEFT) at 2 3;
      try (vm_compute (has_flag 0 D_MISS_LEFT)); rewrite ?orb_false_r, ?orb_true_r; reflexivity.
  - rewrite !has_flag_lor. destruct (lstart l <? a), (lstop l >? b); vm_compute (has_flag _ D_MISS_RIGHT) at 2 3;
      try (vm_compute (has_flag 0 D_MISS_RIGHT)); rewrite ?orb_false_r, ?orb_true_r; reflexivity.
  - intros k K1 K2. rewrite !N.land_lor_distr_l.
    destruct (lstart l <? a), (lstop l >? b); rewrite ?K1, ?K2, ?N.land_0_l, ?N.lor_0_r; reflexivity.
Qed.

(* ------------------------------------------------------------------ slice: features and lists *)
Lemma slice_locs_exact a b r ls : Forall (fun l => loc_ok l = true) ls ->
  slice_locs a b r ls = Some (map (clip a b r) (filter (overlaps_win a b) ls)).
Proof.
  intros H. induction H as [|l ls Hl _ IH]; [reflexivity|].
  cbn [slice_locs filter]. rewrite (slice_loc_exact a b r l Hl).
  destruct (overlaps_win a b l); [|exact IH]. rewrite IH. reflexivity.
Qed.
Lemma clip_mono_start a b r x y : le_start x y = true -> le_start (clip a b r x) (clip a b r y) = true.
Proof. unfold le_start, clip. cbn [lstart]. lia. Qed.
Lemma clip_mono_stop a b r x y : ge_stop x y = true -> ge_stop (clip a b r x) (clip a b r y) = true.
Proof. unfold ge_stop, clip. cbn [lstop]. lia. Qed.
Lemma clip_mono a b r s x y : order_of s x y = true -> order_of s (clip a b r x) (clip a b r y) = true.
Proof. unfold order_of. destruct (byte_eqb s cMinus); [apply clip_mono_stop|apply clip_mono_start]. Qed.
Lemma clip_loc_ok a b r l : loc_ok l = true -> overlaps_win a b l = true -> loc_ok (clip a b r l) = true.
Proof.
  intros Hok Ho. apply loc_ok_parts in Hok. destruct Hok as [Hxy Hs]. unfold overlaps_win in Ho.
  unfold loc_ok, clip. cbn [lstart lstop lstrand]. rewrite Hs. lia.
Qed.
Lemma inv_s_slice a b r s t : inv_s s t = true ->
  inv_s s (map (clip a b r) (filter (overlaps_win a b) t)) = true.
Proof.
  intros H. apply inv_s_parts in H. destruct H as (H1 & H2 & H3). apply inv_s_build.
  - apply Forall_forall. intros l' Hl'. apply in_map_iff in Hl'. destruct Hl' as (l & <- & Hl).
    apply filter_In in Hl. destruct Hl as [Hl Ho]. rewrite Forall_forall in H1. apply clip_loc_ok; auto.
  - apply Forall_forall. intros l' Hl'. apply in_map_iff in Hl'. destruct Hl' as (l & <- & Hl).
    apply filter_In in Hl. destruct Hl as [Hl _]. rewrite Forall_forall in H2. cbn. apply H2. exact Hl.
  - apply sorted_map_mono; [intros x y; apply clip_mono|].
    apply sorted_filter; [apply order_trans|exact H3].
Qed.

(* FeatureList.slice on one feature is the declarative clip/filter *)
Lemma slice_ft_exact a b r f : wf_ft f = true ->
  slice_ft a b r f = Some (match spec_slice_ft a b r f with [] => None | g :: _ => Some g end) /\
  (length (spec_slice_ft a b r f) <= 1)%nat.
Proof.
  intros Hwf. unfold wf_ft in Hwf. pose proof (inv_locs_ok _ Hwf) as Hok.
  apply inv_locs_inv_s in Hwf. destruct Hwf as [_ [s Hs]].
  unfold slice_ft, spec_slice_ft. rewrite (slice_locs_exact a b r _ Hok).
  pose proof (inv_s_slice a b r s _ Hs) as Hinv.
  destruct (filter (overlaps_win a b) (flocs f)) as [|k0 k] eqn:E; [split; [reflexivity|simpl; lia]|].
  rewrite (mk_loctuple_inv_s s); [split; [reflexivity|simpl; lia]|discriminate|exact Hinv].
Qed.
Lemma fts_slice_exact a b r fts : wf_fts fts = true -> fts_slice a b r fts = Some (spec_slice a b r fts).
Proof.
  intros H. unfold wf_fts in H. induction fts as [|f fts IH]; [reflexivity|].
  cbn [forallb] in H. apply andb_prop in H. destruct H as [Hf H].
  cbn [fts_slice]. destruct (slice_ft_exact a b r f Hf) as [E Hlen]. rewrite E, (IH H).
  unfold spec_slice. cbn [flat_map]. fold (spec_slice a b r fts).
  destruct (spec_slice_ft a b r f) as [|g [|g' k]]; [reflexivity|reflexivity|simpl in Hlen; lia].
Qed.
(* an empty or inverted window returns the empty list, whatever the features are *)
Lemma fts_slice_empty_window a b r fts : b <= a -> fts_slice a b r fts = Some [].
Proof.
  intros Hab. induction fts as [|f fts IH]; [reflexivity|].
  cbn [fts_slice]. rewrite IH.
  assert (E : slice_ft a b r f = Some None).
  { unfold slice_ft. assert (S : slice_locs a b r (flocs f) = Some []); [|rewrite S; reflexivity].
    induction (flocs f) as [|l ls IHl]; [reflexivity|].
    cbn [slice_locs]. unfold slice_loc. fold (overlaps_win a b l). rewrite (overlaps_win_empty a b l Hab). exact IHl. }
  rewrite E. reflexivity.
Qed.
Lemma spec_slice_empty_window a b r fts : b <= a -> spec_slice a b r fts = [].
Proof.
  intros Hab. unfold spec_slice. induction fts as [|f fts IH]; [reflexivity|]. cbn [flat_map]. rewrite IH, app_nil_r.
  unfold spec_slice_ft. assert (F : filter (overlaps_win a b) (flocs f) = []); [|rewrite F; reflexivity].
  induction (flocs f) as [|l ls IHl]; [reflexivity|]. cbn [filter]. rewrite (overlaps_win_empty a b l Hab). exact IHl.
Qed.

(* membership reading of the specification: which features/locations survive *)
Lemma spec_slice_ft_kept a b r f : spec_slice_ft a b r f <> [] <-> exists l, In l (flocs f) /\ overlaps_win a b l = true.
Proof.
  unfold spec_slice_ft. destruct (filter (overlaps_win a b) (flocs f)) as [|k0 k] eqn:E; split.
  - congruence.
  - intros [l [Hl Ho]]. assert (In l []) as []. rewrite <- E. apply filter_In. split; assumption.
  - intros _. exists k0. apply filter_In. rewrite E. left. reflexivity.
  - discriminate.
Qed.

Lemma filter_all_id {A} (p : A -> bool) l : (forall x, In x l -> p x = true) -> filter p l = l.
Proof.
  induction l as [|x l IH]; intros H; [reflexivity|]. cbn [filter]. rewrite (H x (or_introl eq_refl)).
  f_equal. apply IH. intros y Hy. apply H. right. exact Hy.
Qed.
(* identity for a window that contains everything; the unbounded window is the instance +-maxsize *)
Lemma clip_id a b l : a <= lstart l -> lstop l <= b -> clip a b 0 l = l.
Proof.
  intros H1 H2. unfold clip. destruct l as [x y s d m]. cbn [lstart lstop lstrand ldefect lmeta] in *.
  assert (E1 : (x <? a) = false) by lia. assert (E2 : (y >? b) = false) by lia. rewrite E1, E2, !N.lor_0_r.
  f_equal; lia.
Qed.
Lemma spec_slice_id a b fts : wf_fts fts = true ->
  (forall f l, In f fts -> In l (flocs f) -> a <= lstart l /\ lstop l <= b) -> spec_slice a b 0 fts = fts.
Proof.
  intros H Hb. unfold wf_fts in H. induction fts as [|f fts IH]; [reflexivity|].
  cbn [forallb] in H. apply andb_prop in H. destruct H as [Hf H].
  unfold spec_slice. cbn [flat_map]. fold (spec_slice a b 0 fts).
  rewrite IH; [|exact H|intros g l Hg Hl; apply (Hb g l); [right; exact Hg|exact Hl]].
  assert (E : spec_slice_ft a b 0 f = [f]); [|rewrite E; reflexivity].
  unfold spec_slice_ft. unfold wf_ft in Hf. pose proof (inv_locs_ok _ Hf) as Hok.
  assert (F : filter (overlaps_win a b) (flocs f) = flocs f).
  { apply filter_all_id. intros l Hl. destruct (Hb f l (or_introl eq_refl) Hl) as [B1 B2].
    rewrite Forall_forall in Hok. specialize (Hok l Hl). apply loc_ok_parts in Hok. unfold overlaps_win. lia. }
  rewrite F. destruct f as [ls m]. cbn [flocs fmeta] in *. destruct ls as [|l0 ls]; [discriminate|].
  f_equal. f_equal. rewrite <- (map_id (l0 :: ls)) at 2. apply map_ext_in. intros l Hl.
  destruct (Hb (mkFt (l0 :: ls) m) l (or_introl eq_refl) Hl) as [B1 B2]. apply clip_id; assumption.
Qed.
Lemma coords_in_bounds B fts : coords_in B fts = true ->
  forall f l, In f fts -> In l (flocs f) -> - B < lstart l /\ lstop l < B.
Proof.
  unfold coords_in. intros H f l Hf Hl. rewrite forallb_forall in H. specialize (H f Hf).
  rewrite forallb_forall in H. specialize (H l Hl). lia.
Qed.
Lemma slice_unbounded_id fts : wf_fts fts = true -> coords_in B62 fts = true -> slice None None 0 fts = Some fts.
Proof.
  intros H C. unfold slice, bound. rewrite fts_slice_exact; [|exact H].
  rewrite spec_slice_id; [reflexivity|exact H|].
  intros f l Hf Hl. pose proof (coords_in_bounds _ _ C f l Hf Hl) as HB. unfold B62, maxsize in *. lia.
Qed.
(* an open side behaves like a bound beyond every coordinate *)
Lemma clip_bigger_b a b b' r l : lstop l <= b -> lstop l <= b' -> clip a b r l = clip a b' r l.
Proof.
  intros H1 H2. unfold clip. assert (E1 : (lstop l >? b) = false) by lia. assert (E2 : (lstop l >? b') = false) by lia.
  rewrite E1, E2. f_equal. lia.
Qed.
Lemma clip_smaller_a a a' b r l : a <= lstart l -> a' <= lstart l -> clip a b r l = clip a' b r l.
Proof.
  intros H1 H2. unfold clip. assert (E1 : (lstart l <? a) = false) by lia. assert (E2 : (lstart l <? a') = false) by lia.
  rewrite E1, E2. f_equal. lia.
Qed.

(* ------------------------------------------------------------------ mirroring *)
Lemma loc_reverse_mirror L l : loc_ok l = true -> loc_reverse L l = Some (mirror L l).
Proof.
  intros H. apply loc_ok_parts in H. destruct H as [H1 H2]. unfold loc_reverse, mirror.
  apply mk_location_ok; [lia|apply strand_reverse_ok; exact H2].
Qed.
Lemma mirror_loc_ok L l : loc_ok l = true -> loc_ok (mirror L l) = true.
Proof.
  intros H. apply loc_ok_parts in H. destruct H as [H1 H2]. unfold loc_ok, mirror. cbn [lstart lstop lstrand].
  rewrite (strand_reverse_ok _ H2). lia.
Qed.
Lemma mirror_ge_stop L x y : ge_stop (mirror L x) (mirror L y) = le_start x y.
Proof. unfold ge_stop, le_start, mirror. cbn [lstop]. lia. Qed.
Lemma mirror_le_start L x y : le_start (mirror L x) (mirror L y) = ge_stop x y.
Proof. unfold ge_stop, le_start, mirror. cbn [lstart]. lia. Qed.
Lemma mirror_invol L l : mirror L (mirror L l) = l.
Proof.
  destruct l as [x y s d m]. unfold mirror. cbn [lstart lstop lstrand ldefect lmeta] in *.
  rewrite strand_reverse_invol, (defect_reverse_invol_all d). f_equal; lia.
Qed.
Lemma mirror_spec_loc L l :
  lstart (mirror L l) = L - lstop l /\ lstop (mirror L l) = L - lstart l /\
  lstrand (mirror L l) = strand_reverse (lstrand l) /\ ldefect (mirror L l) = defect_reverse (ldefect l) /\
  lmeta (mirror L l) = lmeta l.
Proof. repeat split. Qed.

(* the dual order: 5'->3' on the mirrored strand is the old order read on the mirror image *)
Definition dual (le : loc -> loc -> bool) : loc -> loc -> bool := fun x y => le y x.
Lemma inv_hd_strand s t : t <> [] -> inv_s s t = true -> hd_strand t = s.
Proof.
  intros Hn H. apply inv_s_parts in H. destruct H as (_ & H2 & _). destruct t as [|l0 r]; [congruence|].
  inversion H2; subst. reflexivity.
Qed.

Lemma feature_rc_exact L f : wf_ft f = true -> feature_rc L f = Some (spec_rc_ft L f) /\ wf_ft (spec_rc_ft L f) = true.
Proof.
  intros Hwf. unfold wf_ft in Hwf. pose proof (inv_locs_ok _ Hwf) as Hok.
  destruct (inv_locs_head _ Hwf) as (l0 & r & Et & Hs).
  assert (Hrev : all_some (map (loc_reverse L) (flocs f)) = Some (map (mirror L) (flocs f))).
  { apply all_some_map. intros x Hx. apply loc_reverse_mirror. rewrite Forall_forall in Hok. apply Hok. exact Hx. }
  assert (Hmk : mk_loctuple (map (mirror L) (flocs f)) = Some (spec_rc_locs L (flocs f))).
  { unfold spec_rc_locs. rewrite Et. cbn [map hd_strand]. unfold mk_loctuple.
    assert (F : forallb (same_strand (mirror L l0)) (mirror L l0 :: map (mirror L) r) = true).
    { rewrite <- (map_cons (mirror L)). rewrite <- Et. apply forallb_forall. intros y Hy. apply in_map_iff in Hy.
      destruct Hy as (x & <- & Hx). unfold same_strand, mirror. cbn [lstrand]. rewrite strand_reverse_inj_eqb.
      apply inv_s_parts in Hs. destruct Hs as (_ & H2 & _). rewrite Forall_forall in H2. rewrite (H2 x Hx). apply byte_eqb_refl. }
    rewrite F. reflexivity. }
  assert (Hinv : inv_locs (spec_rc_locs L (flocs f)) = true).
  { eapply mk_loctuple_inv; [|exact Hmk]. apply Forall_forall. intros y Hy. apply in_map_iff in Hy.
    destruct Hy as (x & <- & Hx). apply mirror_loc_ok. rewrite Forall_forall in Hok. apply Hok. exact Hx. }
  split; [|exact Hinv].
  unfold feature_rc, loctuple_reverse. rewrite Hrev, Hmk. unfold set_locs. rewrite (mk_loctuple_id _ Hinv). reflexivity.
Qed.
Lemma spec_rc_perm L t : Permutation (spec_rc_locs L t) (map (mirror L) t).
Proof. unfold spec_rc_locs. apply sort_perm. Qed.
(* on a stranded feature the mirrored locations are already in 5'->3' order: nothing moves *)
Lemma spec_rc_stranded L t : inv_locs t = true -> stranded t = true -> spec_rc_locs L t = map (mirror L) t.
Proof.
  intros H S. destruct (inv_locs_head _ H) as (l0 & r & Et & Hs). unfold spec_rc_locs. apply sort_id.
  rewrite Et in S |- *. cbn [stranded hd_strand] in *. apply inv_s_parts in Hs. destruct Hs as (_ & _ & H3). rewrite <- Et.
  unfold order_of in *. rewrite strand_reverse_minus.
  destruct (byte_eqb (lstrand l0) cPlus) eqn:EP.
  - apply byte_eqb_eq in EP. rewrite EP in H3. replace (byte_eqb cPlus cMinus) with false in H3 by reflexivity.
    rewrite (sorted_map le_start ge_stop); [exact H3|apply mirror_ge_stop].
  - cbn [orb] in S. rewrite S in H3. rewrite (sorted_map ge_stop le_start); [exact H3|apply mirror_le_start].
Qed.

(* two stable sorts, by stop descending then by start ascending, restore a list that is ordered
   by (start ascending, stop descending) *)
Lemma insert_front le x s : hd_le le x s = true -> insert_by le x s = x :: s.
Proof. destruct s as [|y s]; [reflexivity|]. cbn [hd_le insert_by]. intros ->. reflexivity. Qed.
Lemma insert_split le x s : exists l1 l2,
  insert_by le x s = l1 ++ x :: l2 /\ s = l1 ++ l2 /\ Forall (fun y => le x y = false) l1.
Proof.
  induction s as [|y s IH].
  - exists [], []. repeat split. constructor.
  - cbn [insert_by]. destruct (le x y) eqn:E.
    + exists [], (y :: s). repeat split. constructor.
    + destruct IH as (l1 & l2 & E1 & E2 & F). exists (y :: l1), l2. rewrite E1, E2. repeat split. constructor; assumption.
Qed.
Lemma sort_front le x l1 l2 :
  Forall (fun y => le y x = false) l1 -> Forall (fun y => le x y = true) (l1 ++ l2) ->
  sort_by le (l1 ++ x :: l2) = x :: sort_by le (l1 ++ l2).
Proof.
  intros F1. induction F1 as [|y l1 Hy _ IH]; intros F2.
  - cbn [app] in *. cbn [sort_by fold_right]. apply insert_front. apply hd_le_Forall.
    eapply Forall_perm; [apply Permutation_sym; apply sort_perm|exact F2].
  - cbn [app] in F2. inversion F2 as [|? ? _ F2']; subst.
    cbn [app]. change (sort_by le (y :: l1 ++ x :: l2)) with (insert_by le y (sort_by le (l1 ++ x :: l2))).
    rewrite (IH F2'). cbn [insert_by]. rewrite Hy. reflexivity.
Qed.
Lemma lex_trans x y z : le_start_ge_stop x y = true -> le_start_ge_stop y z = true -> le_start_ge_stop x z = true.
Proof. unfold le_start_ge_stop. lia. Qed.
Lemma double_sort_lex t : sorted_by le_start_ge_stop t = true -> sort_by le_start (sort_by ge_stop t) = t.
Proof.
  induction t as [|x r IH]; intros H; [reflexivity|].
  pose proof (sorted_head_all _ lex_trans x r H) as A.
  rewrite sorted_cons in H. apply andb_prop in H. destruct H as [_ H2]. specialize (IH H2).
  change (sort_by ge_stop (x :: r)) with (insert_by ge_stop x (sort_by ge_stop r)).
  destruct (insert_split ge_stop x (sort_by ge_stop r)) as (l1 & l2 & E1 & E2 & F).
  assert (A' : Forall (fun y => le_start_ge_stop x y = true) (l1 ++ l2)).
  { rewrite <- E2. eapply Forall_perm; [apply Permutation_sym; apply sort_perm|exact A]. }
  rewrite E1, sort_front.
  - rewrite <- E2, IH. reflexivity.
  - apply Forall_forall. intros y Hy. rewrite Forall_forall in F, A'. specialize (F y Hy).
    specialize (A' y (in_or_app _ _ _ (or_introl Hy))). unfold ge_stop in F. unfold le_start_ge_stop in A'. unfold le_start. lia.
  - eapply Forall_impl; [|exact A']. intros y Hy. unfold le_start_ge_stop in Hy. unfold le_start. lia.
Qed.

Lemma map_mirror_invol L t : map (mirror L) (map (mirror L) t) = t.
Proof. rewrite map_map. rewrite <- (map_id t) at 2. apply map_ext. intros l. apply mirror_invol. Qed.
Lemma spec_rc_hd_strand L t : inv_locs t = true -> hd_strand (spec_rc_locs L t) = strand_reverse (hd_strand t).
Proof.
  intros H. destruct (inv_locs_head _ H) as (l0 & r & Et & Hs). apply inv_s_parts in Hs. destruct Hs as (_ & H2 & _).
  assert (F : Forall (fun l => lstrand l = strand_reverse (lstrand l0)) (spec_rc_locs L t)).
  { eapply Forall_perm; [apply Permutation_sym; apply spec_rc_perm|]. apply Forall_forall. intros y Hy.
    apply in_map_iff in Hy. destruct Hy as (x & <- & Hx). rewrite Forall_forall in H2. cbn. rewrite (H2 x Hx). reflexivity. }
  rewrite Et at 2. cbn [hd_strand]. destruct (spec_rc_locs L t) as [|u0 u] eqn:E.
  - exfalso. unfold spec_rc_locs in E. apply sort_nil_iff in E. rewrite Et in E. discriminate.
  - inversion F; subst. assumption.
Qed.
(* mirroring twice: exact for stranded features, and for unstranded ones in the tie_ok region *)
Lemma spec_rc_invol L t : inv_locs t = true -> tie_ok t = true ->
  spec_rc_locs L (spec_rc_locs L t) = t.
Proof.
  intros H T. destruct (inv_locs_head _ H) as (l0 & r & Et & Hs).
  pose proof (inv_s_parts _ _ Hs) as (_ & _ & H3).
  unfold spec_rc_locs at 1. rewrite (spec_rc_hd_strand L t H), strand_reverse_invol.
  assert (Hd : hd_strand t = lstrand l0) by (rewrite Et; reflexivity). rewrite Hd.
  unfold tie_ok in T. unfold stranded in T. rewrite Et in T. rewrite <- Et in T.
  unfold spec_rc_locs. rewrite Hd. unfold order_of in *. rewrite strand_reverse_minus.
  destruct (byte_eqb (lstrand l0) cPlus) eqn:EP.
  - apply byte_eqb_eq in EP. rewrite EP in *. replace (byte_eqb cPlus cMinus) with false in * by reflexivity.
    rewrite (sort_map ge_stop le_start (mirror L)) by apply mirror_le_start.
    rewrite (map_mirror_invol L t). rewrite !(sort_id le_start t H3). reflexivity.
  - destruct (byte_eqb (lstrand l0) cMinus) eqn:EM.
    + rewrite (sort_map le_start ge_stop (mirror L)) by apply mirror_ge_stop.
      rewrite (map_mirror_invol L t). rewrite !(sort_id ge_stop t H3). reflexivity.
    + cbn [orb] in T.
      rewrite (sort_map le_start ge_stop (mirror L)) by apply mirror_ge_stop.
      rewrite (map_mirror_invol L t). apply double_sort_lex. exact T.
Qed.
Lemma feature_rc_invol L f g : wf_ft f = true -> tie_ok (flocs f) = true ->
  feature_rc L f = Some g -> feature_rc L g = Some f.
Proof.
  intros Hwf T E. destruct (feature_rc_exact L f Hwf) as [E1 W1]. rewrite E1 in E. inversion E; subst g.
  destruct (feature_rc_exact L _ W1) as [E2 _]. rewrite E2. unfold spec_rc_ft. cbn [flocs fmeta].
  rewrite (spec_rc_invol L _ Hwf T). destruct f; reflexivity.
Qed.

(* ------------------------------------------------------------------ FeatureList.rc *)
Lemma fts_rc_exact L fts : wf_fts fts = true ->
  fts_rc L fts = Some (map (spec_rc_ft L) fts) /\ wf_fts (map (spec_rc_ft L) fts) = true.
Proof.
  intros H. unfold wf_fts in *. rewrite forallb_forall in H. split.
  - unfold fts_rc. apply all_some_map. intros f Hf. apply feature_rc_exact. apply H. exact Hf.
  - apply forallb_forall. intros g Hg. apply in_map_iff in Hg. destruct Hg as (f & <- & Hf).
    apply feature_rc_exact. apply H. exact Hf.
Qed.
Definition rc_safe (f : feature) : bool := tie_ok (flocs f).
Lemma spec_rc_ft_invol L f : wf_ft f = true -> rc_safe f = true -> spec_rc_ft L (spec_rc_ft L f) = f.
Proof.
  intros Hwf T. unfold rc_safe in T.
  unfold spec_rc_ft. cbn [flocs fmeta]. rewrite (spec_rc_invol L _ Hwf T). destruct f; reflexivity.
Qed.
Lemma fts_rc_invol L fts g : wf_fts fts = true -> forallb rc_safe fts = true ->
  fts_rc L fts = Some g -> fts_rc L g = Some fts.
Proof.
  intros Hwf S E. destruct (fts_rc_exact L fts Hwf) as [E1 W1]. rewrite E1 in E. inversion E; subst g.
  destruct (fts_rc_exact L _ W1) as [E2 _]. rewrite E2. f_equal. rewrite map_map. rewrite <- (map_id fts) at 2.
  apply map_ext_in. intros f Hf. unfold wf_fts in Hwf. rewrite forallb_forall in Hwf, S.
  apply spec_rc_ft_invol; [apply Hwf|apply S]; exact Hf.
Qed.

(* ------------------------------------------------------------------ refutations of the two excluded regions *)
Definition tie_witness : feature := mkFt [mkLoc 0 1 S_NONE 0 0; mkLoc 0 2 S_NONE 0 0] 0.
Lemma mirror_involutive_refuted :
  wf_ft tie_witness = true /\ tie_ok (flocs tie_witness) = false /\
  exists g h, feature_rc 10 tie_witness = Some g /\ feature_rc 10 g = Some h /\ h <> tie_witness.
Proof.
  split; [reflexivity|]. split; [reflexivity|].
  eexists. eexists. split; [vm_compute; reflexivity|]. split; [vm_compute; reflexivity|]. discriminate.
Qed.
(* ------------------------------------------------------------------ FeatureList.sort *)
Lemma insert_ft_perm rev x l : Permutation (insert_ft rev x l) (x :: l).
Proof.
  induction l as [|y l IH]; cbn [insert_ft]; [apply Permutation_refl|].
  destruct (ft_before rev x y); [|apply Permutation_refl].
  eapply Permutation_trans; [apply perm_skip; exact IH|apply perm_swap].
Qed.
Lemma sort_fts_perm rev l : Permutation (sort_fts rev l) l.
Proof.
  induction l as [|x l IH]; cbn [sort_fts fold_right]; [constructor|].
  eapply Permutation_trans; [apply insert_ft_perm|apply perm_skip; exact IH].
Qed.
(* the result is ordered by covered range: no feature is strictly behind its successor (ahead, for reverse=True) *)
Fixpoint ordered_fts (rev : bool) (l : list feature) : bool :=
  match l with
  | x :: (y :: _) as r => negb (ft_before rev x y) && ordered_fts rev r
  | _ => true
  end.
Lemma ordered_cons rev x y r : ordered_fts rev (x :: y :: r) = negb (ft_before rev x y) && ordered_fts rev (y :: r).
Proof. reflexivity. Qed.
Lemma ft_before_asym rev x y : ft_before rev x y = true -> ft_before rev y x = false.
Proof.
  unfold ft_before. destruct (cmp_defs (flocs x) (flocs y)) as (A & _), (cmp_defs (flocs y) (flocs x)) as (B & _).
  destruct rev; rewrite A, B; unfold ranges_lt; lia.
Qed.
Lemma insert_ft_ordered rev x l : ordered_fts rev l = true -> ordered_fts rev (insert_ft rev x l) = true.
Proof.
  induction l as [|y l IH]; intros H; [reflexivity|].
  cbn [insert_ft]. destruct (ft_before rev x y) eqn:E.
  - destruct l as [|z l].
    + cbn [insert_ft]. rewrite ordered_cons, (ft_before_asym rev x y E). reflexivity.
    + rewrite ordered_cons in H. apply andb_prop in H. destruct H as [H1 H2]. specialize (IH H2).
      cbn [insert_ft] in *. destruct (ft_before rev x z) eqn:F.
      * rewrite ordered_cons, H1. exact IH.
      * rewrite ordered_cons, (ft_before_asym rev x y E). exact IH.
  - rewrite ordered_cons, E. exact H.
Qed.
Lemma sort_fts_ordered rev l : ordered_fts rev (sort_fts rev l) = true.
Proof. induction l as [|x l IH]; [reflexivity|]. cbn [sort_fts fold_right]. apply insert_ft_ordered. exact IH. Qed.
Lemma sort_fts_id rev l : ordered_fts rev l = true -> sort_fts rev l = l.
Proof.
  induction l as [|x l IH]; intros H; [reflexivity|]. cbn [sort_fts fold_right]. fold (sort_fts rev l).
  destruct l as [|y r]; [reflexivity|]. rewrite ordered_cons in H. apply andb_prop in H. destruct H as [H1 H2].
  rewrite (IH H2). cbn [insert_ft]. apply negb_true_iff in H1. rewrite H1. reflexivity.
Qed.
(* FeatureList.sort(): a permutation, ordered by covered range (ties in input order: the sort is the stable insertion sort) *)
Lemma sort_fts_spec rev l :
  Permutation (sort_fts rev l) l /\ ordered_fts rev (sort_fts rev l) = true /\
  (forall x y, ft_before rev x y = (if rev then ranges_lt (range (flocs x)) (range (flocs y))
                                    else ranges_lt (range (flocs y)) (range (flocs x)))).
Proof.
  split; [apply sort_fts_perm|]. split; [apply sort_fts_ordered|].
  intros x y. unfold ft_before. destruct rev; apply cmp_defs.
Qed.

(* ------------------------------------------------------------------ the invariant over operation histories *)
Notation WF := (fun f : feature => wf_ft f = true).
Notation LOK := (fun l : loc => loc_ok l = true).
Lemma slice_locs_ok a b r ls k : slice_locs a b r ls = Some k -> Forall LOK k.
Proof.
  revert k. induction ls as [|l ls IH]; intros k H; cbn [slice_locs] in H.
  - inversion H. constructor.
  - unfold slice_loc in H. destruct (Z.max (lstart l) a <? Z.min (lstop l) b); [|apply IH; exact H].
    destruct (mk_location _ _ _ _ _) as [l'|] eqn:E; [|discriminate].
    destruct (slice_locs a b r ls) as [k'|]; [|discriminate]. inversion H; subst.
    constructor; [eapply mk_location_loc_ok; exact E|apply IH; reflexivity].
Qed.
Lemma slice_ft_wf a b r f g : slice_ft a b r f = Some (Some g) -> wf_ft g = true.
Proof.
  unfold slice_ft. destruct (slice_locs a b r (flocs f)) as [k|] eqn:E; [|discriminate].
  destruct k as [|k0 k]; [discriminate|]. destruct (mk_loctuple (k0 :: k)) as [t|] eqn:M; [|discriminate].
  intros H. inversion H; subst. unfold wf_ft. cbn [flocs].
  eapply mk_loctuple_inv; [eapply slice_locs_ok; exact E|exact M].
Qed.
Lemma fts_slice_wf a b r fts k : fts_slice a b r fts = Some k -> Forall WF k.
Proof.
  revert k. induction fts as [|f fts IH]; intros k H; cbn [fts_slice] in H.
  - inversion H. constructor.
  - destruct (slice_ft a b r f) as [o|] eqn:E; [|discriminate].
    destruct (fts_slice a b r fts) as [k'|]; [|discriminate]. inversion H; subst.
    destruct o as [g|]; [|apply IH; reflexivity]. constructor; [eapply slice_ft_wf; exact E|apply IH; reflexivity].
Qed.
Lemma set_locs_wf f ls g : Forall LOK ls -> set_locs f ls = Some g -> wf_ft g = true.
Proof.
  intros Hok. unfold set_locs. destruct (mk_loctuple ls) as [t|] eqn:M; [|discriminate].
  intros H. inversion H; subst. unfold wf_ft. cbn [flocs]. eapply mk_loctuple_inv; [exact Hok|exact M].
Qed.
Lemma loc_reverse_ok L l l' : loc_reverse L l = Some l' -> loc_ok l' = true.
Proof. unfold loc_reverse. apply mk_location_loc_ok. Qed.
Lemma feature_rc_wf L f g : feature_rc L f = Some g -> wf_ft g = true.
Proof.
  unfold feature_rc, loctuple_reverse.
  destruct (all_some (map (loc_reverse L) (flocs f))) as [ls|] eqn:E; [|discriminate].
  destruct (mk_loctuple ls) as [t|] eqn:M; [|discriminate].
  intros H. eapply set_locs_wf; [|exact H]. apply inv_locs_ok.
  eapply mk_loctuple_inv; [|exact M]. eapply all_some_Forall; [|exact E]. intros x y. apply loc_reverse_ok.
Qed.
Lemma mk_raw_ok r l : mk_raw r = Some l -> loc_ok l = true.
Proof. destruct r as [[[[a b] s] d] m]. apply mk_location_loc_ok. Qed.
Lemma mk_feature_wf raws m f : mk_feature raws m = Some f -> wf_ft f = true.
Proof.
  unfold mk_feature. destruct (all_some (map mk_raw raws)) as [ls|] eqn:E; [|discriminate].
  destruct (mk_loctuple ls) as [t|] eqn:M; [|discriminate]. intros H. inversion H; subst.
  unfold wf_ft. cbn [flocs]. eapply mk_loctuple_inv; [|exact M]. eapply all_some_Forall; [|exact E]. apply mk_raw_ok.
Qed.
Lemma update_nth_Forall {A} (P : A -> Prop) (f : A -> option A) i l l' :
  (forall x y, f x = Some y -> P y) -> Forall P l -> update_nth i f l = Some l' -> Forall P l'.
Proof.
  intros Hf. revert i l'. induction l as [|x l IH]; intros i l' HP H.
  - destruct i; inversion H; constructor.
  - inversion HP; subst. destruct i as [|j]; cbn [update_nth] in H.
    + destruct (f x) as [y|] eqn:E; [|discriminate]. inversion H; subst. constructor; [eapply Hf; exact E|assumption].
    + destruct (update_nth j f l) as [r'|] eqn:E; [|discriminate]. inversion H; subst.
      constructor; [assumption|eapply IH; [assumption|exact E]].
Qed.
Lemma apply_op_wf o st st' : Forall WF st -> apply_op o st = Some st' -> Forall WF st'.
Proof.
  intros Hst. destruct o as [a b r|L|i L|i raws|i j|a b r mut|i j|rev]; cbn [apply_op];
    [| | | | |intros H; inversion H; subst; exact Hst|intros H; inversion H; subst; exact Hst|
     intros H; inversion H; subst; eapply Forall_perm; [apply Permutation_sym; apply sort_fts_perm|exact Hst]].
  - unfold slice. apply fts_slice_wf.
  - unfold fts_rc. intros H. eapply all_some_Forall; [|exact H]. intros x y. apply feature_rc_wf.
  - apply update_nth_Forall; [|exact Hst]. intros x y. apply feature_rc_wf.
  - destruct (all_some (map mk_raw raws)) as [ls|] eqn:E; [|discriminate].
    apply update_nth_Forall; [|exact Hst]. intros x y. apply set_locs_wf.
    eapply all_some_Forall; [|exact E]. apply mk_raw_ok.
  - destruct (nth_error st j) as [fj|] eqn:E; [|intros H; inversion H; subst; exact Hst].
    apply update_nth_Forall; [|exact Hst]. intros x y. apply set_locs_wf. apply inv_locs_ok.
    rewrite Forall_forall in Hst. apply (Hst fj). eapply nth_error_In. exact E.
Qed.
Lemma run_ops_wf ops st ok st' : Forall WF st -> snd (run_ops ops st ok) = Some st' -> Forall WF st'.
Proof.
  revert st ok. induction ops as [|o ops IH]; intros st ok Hst H; cbn [run_ops] in H.
  - cbn [snd] in H. inversion H; subst. exact Hst.
  - destruct (apply_op o st) as [st1|] eqn:E; [|discriminate]. eapply IH; [|exact H]. eapply apply_op_wf; eassumption.
Qed.
Lemma build_wf fs st : build fs = Some st -> Forall WF st.
Proof.
  unfold build. intros H. eapply all_some_Forall; [|exact H]. intros p f. apply mk_feature_wf.
Qed.
(* every feature reachable from the constructors through any sequence of slice / rc / Feature.rc / locs-setter
   operations has a non-empty, single-stranded LocationTuple ordered 5'->3' *)
Lemma history_invariant fs ops st st' ok : build fs = Some st -> snd (run_ops ops st ok) = Some st' -> wf_fts st' = true.
Proof.
  intros B R. unfold wf_fts. apply forallb_forall. apply Forall_forall.
  eapply run_ops_wf; [|exact R]. eapply build_wf. exact B.
Qed.
Lemma history_invariant_from st ops st' ok : wf_fts st = true -> snd (run_ops ops st ok) = Some st' -> wf_fts st' = true.
Proof.
  intros W R. unfold wf_fts in *. apply forallb_forall. apply Forall_forall.
  eapply run_ops_wf; [|exact R]. apply Forall_forall. apply forallb_forall. exact W.
Qed.

(* ------------------------------------------------------------------ packaged statements used by props/C08_Props.v *)
Lemma strand_reverse_full c : is_strand c = true ->
  is_strand (strand_reverse c) = true /\ strand_reverse (strand_reverse c) = c /\
  (c = S_FORWARD -> strand_reverse c = S_REVERSE) /\ (c = S_REVERSE -> strand_reverse c = S_FORWARD) /\
  (c <> S_FORWARD -> c <> S_REVERSE -> strand_reverse c = c).
Proof.
  intros H. split; [apply strand_reverse_ok; exact H|]. split; [apply strand_reverse_invol|]. apply strand_reverse_spec. exact H.
Qed.
Lemma slice_exact start stop rel fts :
  let a := bound start (- maxsize) in let b := bound stop maxsize in
  wf_fts fts = true ->
  slice start stop rel fts = Some (spec_slice a b rel fts) /\ wf_fts (spec_slice a b rel fts) = true /\
  (b <= a -> spec_slice a b rel fts = []).
Proof.
  cbv zeta. intros Hwf. unfold slice. rewrite (fts_slice_exact _ _ rel fts Hwf). split; [reflexivity|]. split.
  - unfold wf_fts. apply forallb_forall. apply Forall_forall. eapply fts_slice_wf. apply fts_slice_exact; assumption.
  - apply spec_slice_empty_window.
Qed.
Lemma slice_feature_kept a b r f : wf_ft f = true ->
  (length (spec_slice_ft a b r f) <= 1)%nat /\
  (spec_slice_ft a b r f <> [] <-> exists l, In l (flocs f) /\ overlaps_win a b l = true) /\
  (forall g, In g (spec_slice_ft a b r f) ->
     fmeta g = fmeta f /\ flocs g = map (clip a b r) (filter (overlaps_win a b) (flocs f))).
Proof.
  intros Hwf. split; [apply (slice_ft_exact a b r f Hwf)|]. split; [apply spec_slice_ft_kept|].
  intros g Hg. unfold spec_slice_ft in Hg. destruct (filter (overlaps_win a b) (flocs f)) as [|k0 k]; [destruct Hg|].
  destruct Hg as [<-|[]]. split; reflexivity.
Qed.
Lemma slice_open_side a b b' r fts : wf_fts fts = true ->
  (forall f l, In f fts -> In l (flocs f) -> lstop l <= b /\ lstop l <= b') -> spec_slice a b r fts = spec_slice a b' r fts.
Proof.
  intros W H. unfold spec_slice. unfold wf_fts in W. induction fts as [|f fts IH]; [reflexivity|].
  cbn [forallb] in W. apply andb_prop in W. destruct W as [Wf W]. cbn [flat_map]. rewrite IH.
  - f_equal. unfold spec_slice_ft. pose proof (inv_locs_ok _ Wf) as Hok. rewrite Forall_forall in Hok.
    assert (F : filter (overlaps_win a b) (flocs f) = filter (overlaps_win a b') (flocs f)).
    { apply filter_ext_in. intros l Hl. destruct (H f l (or_introl eq_refl) Hl). specialize (Hok l Hl).
      unfold overlaps_win. rewrite !Z.min_l by lia. reflexivity. }
    rewrite <- F. destruct (filter (overlaps_win a b) (flocs f)) as [|k0 k] eqn:E; [reflexivity|].
    f_equal. f_equal. apply map_ext_in. intros l Hl. rewrite <- E in Hl. apply filter_In in Hl. destruct Hl as [Hl _].
    destruct (H f l (or_introl eq_refl) Hl). apply clip_bigger_b; assumption.
  - exact W.
  - intros g l Hg Hl. apply (H g l); [right; exact Hg|exact Hl].
Qed.
Lemma mirror_feature L f : wf_ft f = true ->
  feature_rc L f = Some (spec_rc_ft L f) /\ wf_ft (spec_rc_ft L f) = true /\
  fmeta (spec_rc_ft L f) = fmeta f /\
  Permutation (flocs (spec_rc_ft L f)) (map (mirror L) (flocs f)) /\
  (stranded (flocs f) = true -> flocs (spec_rc_ft L f) = map (mirror L) (flocs f)).
Proof.
  intros H. destruct (feature_rc_exact L f H) as [E W]. repeat split; try assumption.
  - apply spec_rc_perm.
  - intros S. apply spec_rc_stranded; assumption.
Qed.
Lemma mirror_loc L l : loc_ok l = true ->
  loc_reverse L l = Some (mirror L l) /\
  lstart (mirror L l) = L - lstop l /\ lstop (mirror L l) = L - lstart l /\
  lstrand (mirror L l) = strand_reverse (lstrand l) /\ ldefect (mirror L l) = defect_reverse (ldefect l) /\
  lmeta (mirror L l) = lmeta l /\ mirror L (mirror L l) = l.
Proof. intros H. split; [apply loc_reverse_mirror; exact H|]. repeat split. apply mirror_invol. Qed.
Lemma loctuple_constructor ls t : Forall (fun l => loc_ok l = true) ls -> mk_loctuple ls = Some t ->
  Permutation ls t /\ inv_locs t = true /\ mk_loctuple t = Some t.
Proof.
  intros Hok H. destruct (mk_loctuple_inv ls t Hok H) as [I P]. repeat split; try assumption. apply mk_loctuple_id. exact I.
Qed.
Lemma loctuple_rejects ls : mk_loctuple ls = None <-> ls = [] \/ exists l l', In l ls /\ In l' ls /\ lstrand l <> lstrand l'.
Proof.
  unfold mk_loctuple. destruct ls as [|l0 r]; [split; [left; reflexivity|reflexivity]|].
  destruct (forallb (same_strand l0) (l0 :: r)) eqn:E; split.
  - discriminate.
  - intros [C|(l & l' & Hl & Hl' & N)]; [discriminate|]. rewrite forallb_forall in E.
    pose proof (E l Hl) as E1. pose proof (E l' Hl') as E2. unfold same_strand in *. apply byte_eqb_eq in E1, E2. congruence.
  - intros _. right. assert (X : exists l, In l (l0 :: r) /\ same_strand l0 l = false).
    { clear -E. induction (l0 :: r) as [|x xs IH]; [discriminate|]. cbn [forallb] in E. apply andb_false_iff in E. destruct E as [E|E].
      - exists x. split; [left; reflexivity|exact E].
      - destruct (IH E) as (l & Hl & F). exists l. split; [right; exact Hl|exact F]. }
    destruct X as (l & Hl & F). exists l, l0. split; [exact Hl|]. split; [left; reflexivity|].
    unfold same_strand in F. apply byte_eqb_neq in F. exact F.
  - reflexivity.
Qed.
Lemma cmp_consistent t u :
  lt_lt t u = ranges_lt (range t) (range u) /\
  lt_le t u = (ranges_lt (range t) (range u) || ranges_eq (range t) (range u)) /\
  lt_gt t u = lt_lt u t /\ lt_ge t u = lt_le u t /\
  (lt_lt t u = true <-> (fst (range t) < fst (range u) \/ (fst (range t) = fst (range u) /\ snd (range t) < snd (range u)))) /\
  (lt_le t u = true <-> (lt_lt t u = true \/ range t = range u)) /\
  ((lt_lt t u = true /\ range t <> range u /\ lt_gt t u = false) \/
   (lt_lt t u = false /\ range t = range u /\ lt_gt t u = false) \/
   (lt_lt t u = false /\ range t <> range u /\ lt_gt t u = true)).
Proof.
  destruct (cmp_defs t u) as (A1 & A2 & A3 & A4 & _). destruct (cmp_defs u t) as (B1 & B2 & _).
  split; [exact A1|]. split; [exact A2|]. split; [rewrite A3, B1; reflexivity|].
  split. { rewrite A4, B2. f_equal. unfold ranges_eq. lia. }
  split; [rewrite A1; apply ranges_lt_lex|].
  split. { rewrite A2, A1, orb_true_iff, ranges_eq_eq. reflexivity. }
  rewrite A1, A3. pose proof (ranges_eq_eq (range t) (range u)) as Q.
  destruct (ranges_trichotomy (range t) (range u)) as [(X1 & X2 & X3)|[(X1 & X2 & X3)|(X1 & X2 & X3)]].
  - left. repeat split; try assumption. intros C. apply Q in C. congruence.
  - right. left. repeat split; try assumption. apply Q. exact X2.
  - right. right. repeat split; try assumption. intros C. apply Q in C. congruence.
Qed.
Lemma cmp_transitive t u v : lt_lt t u = true -> lt_lt u v = true -> lt_lt t v = true.
Proof.
  destruct (cmp_defs t u) as (A & _), (cmp_defs u v) as (B & _), (cmp_defs t v) as (C & _). rewrite A, B, C. apply ranges_lt_trans.
Qed.
Lemma overlaps_consistent t u : inv_locs t = true -> inv_locs u = true ->
  lt_overlaps t u = lt_overlaps u t /\
  (lt_overlaps t u = true <-> exists p, fst (range t) <= p < snd (range t) /\ fst (range u) <= p < snd (range u)).
Proof.
  intros Ht Hu. split; [apply cmp_defs|]. apply overlaps_spec; apply range_nonempty; assumption.
Qed.
Lemma slice_loc_full a b r l : loc_ok l = true ->
  slice_loc a b r l = (if overlaps_win a b l then Keep (clip a b r l) else Drop) /\
  (overlaps_win a b l = true <-> exists p, lstart l <= p < lstop l /\ a <= p < b) /\
  (a < b -> (overlaps_win a b l = true <-> lstart l < b /\ lstop l > a)) /\
  (b <= a -> overlaps_win a b l = false).
Proof.
  intros Hok. split; [apply slice_loc_exact; assumption|]. split; [apply overlaps_win_spec|]. split.
  - intros Hab. apply overlaps_win_nonempty; [exact Hab|apply loc_ok_parts; exact Hok].
  - apply overlaps_win_empty.
Qed.
Lemma sorted_meaning :
  (forall t, sorted_by le_start t = true -> forall i j d, (i < j < length t)%nat -> lstart (nth i t d) <= lstart (nth j t d)) /\
  (forall t, sorted_by ge_stop t = true -> forall i j d, (i < j < length t)%nat -> lstop (nth j t d) <= lstop (nth i t d)).
Proof.
  split; intros t H i j d Hij.
  - pose proof (sorted_by_nth le_start le_start_trans t H i j d Hij) as X. unfold le_start in X. lia.
  - pose proof (sorted_by_nth ge_stop ge_stop_trans t H i j d Hij) as X. unfold ge_stop in X. lia.
Qed.

(* ------------------------------------------------------------------ concrete witnesses (non-vacuity) *)
Definition ex_raw : list (list rawloc * Z) :=
  [([(5, 8, S_REVERSE, D_BEYOND_LEFT, 2); (10, 14, S_REVERSE, 0%N, 1); (0, 4, S_REVERSE, 0%N, 3)], 7)].
Definition ex_feature : feature :=
  mkFt [mkLoc 10 14 S_REVERSE 0 1; mkLoc 5 8 S_REVERSE D_BEYOND_LEFT 2; mkLoc 0 4 S_REVERSE 0 3] 7.
Definition ex_sliced : list feature :=
  [mkFt [mkLoc 7 9 S_REVERSE D_MISS_RIGHT 1; mkLoc 2 5 S_REVERSE D_BEYOND_LEFT 2; mkLoc 0 1 S_REVERSE D_MISS_LEFT 3] 7].
Definition ex_mirrored : feature :=
  mkFt [mkLoc 6 10 S_FORWARD 0 1; mkLoc 12 15 S_FORWARD D_BEYOND_RIGHT 2; mkLoc 16 20 S_FORWARD 0 3] 7.
Definition ex_unstranded : feature := mkFt [mkLoc 0 3 S_NONE 0 0; mkLoc 0 2 S_NONE 0 0; mkLoc 4 6 S_NONE 0 0] 0.
Lemma ex_slice_ok :
  wf_fts [ex_feature] = true /\ coords_in B62 [ex_feature] = true /\
  spec_slice 3 12 3 [ex_feature] = ex_sliced /\
  slice (Some 3) (Some 12) 3 [ex_feature] = Some ex_sliced /\ slice None None 0 [ex_feature] = Some [ex_feature].
Proof. vm_compute. repeat split; reflexivity. Qed.
Lemma ex_mirror_ok :
  wf_ft ex_feature = true /\ rc_safe ex_feature = true /\ rc_safe ex_unstranded = true /\ wf_ft ex_unstranded = true /\
  feature_rc 20 ex_feature = Some ex_mirrored /\ feature_rc 20 ex_mirrored = Some ex_feature /\
  build ex_raw = Some [ex_feature] /\ inv_locs (flocs ex_feature) = true.
Proof. vm_compute. repeat split; reflexivity. Qed.

(* ------------------------------------------------------------------ open left side; in-domain operations do not raise *)
Lemma slice_open_left a a' b r fts : wf_fts fts = true ->
  (forall f l, In f fts -> In l (flocs f) -> a <= lstart l /\ a' <= lstart l) -> spec_slice a b r fts = spec_slice a' b r fts.
Proof.
  intros W H. unfold spec_slice. unfold wf_fts in W. induction fts as [|f fts IH]; [reflexivity|].
  cbn [forallb] in W. apply andb_prop in W. destruct W as [Wf W]. cbn [flat_map]. rewrite IH.
  - f_equal. unfold spec_slice_ft. pose proof (inv_locs_ok _ Wf) as Hok. rewrite Forall_forall in Hok.
    assert (F : filter (overlaps_win a b) (flocs f) = filter (overlaps_win a' b) (flocs f)).
    { apply filter_ext_in. intros l Hl. destruct (H f l (or_introl eq_refl) Hl). specialize (Hok l Hl).
      unfold overlaps_win. rewrite !Z.max_l by lia. reflexivity. }
    rewrite <- F. destruct (filter (overlaps_win a b) (flocs f)) as [|k0 k] eqn:E; [reflexivity|].
    f_equal. f_equal. apply map_ext_in. intros l Hl. rewrite <- E in Hl. apply filter_In in Hl. destruct Hl as [Hl _].
    destruct (H f l (or_introl eq_refl) Hl). apply clip_smaller_a; assumption.
  - exact W.
  - intros g l Hg Hl. apply (H g l); [right; exact Hg|exact Hl].
Qed.
Lemma update_nth_total {A} (P : A -> Prop) (f : A -> option A) i l :
  (forall x, P x -> f x <> None) -> Forall P l -> update_nth i f l <> None.
Proof.
  intros Hf. revert i. induction l as [|x l IH]; intros i HP.
  - destruct i; discriminate.
  - inversion HP; subst. destruct i as [|j]; cbn [update_nth].
    + destruct (f x) eqn:E; [discriminate|]. exfalso. eapply Hf; eassumption.
    + specialize (IH j H2). destruct (update_nth j f l); [discriminate|congruence].
Qed.
(* inside the domain predicate the geometric operations never raise (only a rejected locs assignment may) *)
Lemma apply_op_total o st : wf_fts st = true -> op_ok o st = true ->
  match o with OSetLocs _ _ => True | _ => apply_op o st <> None end.
Proof.
  intros W K. destruct o as [a b r|L|i L|i raws|i j|a b r mut|i j|rev]; [| | |exact I| |discriminate|discriminate|discriminate]; cbn [apply_op].
  - unfold slice. rewrite fts_slice_exact; [discriminate|exact W].
  - destruct (fts_rc_exact L st W) as [E _]. rewrite E. discriminate.
  - apply (update_nth_total (fun f => wf_ft f = true)).
    + intros f Hf. destruct (feature_rc_exact L f Hf) as [E _]. rewrite E. discriminate.
    + apply Forall_forall. apply forallb_forall. exact W.
  - destruct (nth_error st j) as [fj|] eqn:E; [|discriminate].
    assert (Wj : wf_ft fj = true).
    { unfold wf_fts in W. rewrite forallb_forall in W. apply W. eapply nth_error_In. exact E. }
    apply (update_nth_total (fun _ => True)); [|apply Forall_forall; intros; exact I].
    intros f _. unfold set_locs. rewrite (mk_loctuple_id _ Wj). discriminate.
Qed.
