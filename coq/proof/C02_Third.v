(* C02 proofs, part 14: lists whose first 5'->3' locations carry attributes of their own (outside the round-trip domain,
   open finding F39): what is read back after one write is inside the domain, hence the text is stable from the second
   write on (third write = second write). *)
From Coq Require Import List ZArith NArith Bool Lia.
From Coq.Strings Require Import Byte.
Import ListNotations.
From SV Require Import Text G_gff C02_Model C02_Lemmas C02_Order C02_Line C02_Score C02_Dict C02_Feat C02_Read C02_Upd C02_Fix C02_Cycle C02_Cycle2.
Local Open Scope Z_scope.

(* ------------------------------------------------------------------ lines of a feature, base = first location's merged dict *)
Definition dline_b (b g : adict) (idv : aval) (l : loc) : adict :=
  aset k_ID idv (filter (differs b) (pop5 (loc_meta g l))).
Definition glines_b (g : adict) (l0 : loc) (rest : list loc) : list gline :=
  let b := pop5 (loc_meta g l0) in
  gl_of g b l0 :: map (fun l => gl_of g (dline_b b g (idv_of g) l) l) rest.
Definition line_opts_b (g : adict) (l0 : loc) (rest : list loc) : list (option str) :=
  let b := pop5 (loc_meta g l0) in
  let c1 := colq (ocol k_seqid g) in let c3 := sid_back (ocol k_type g) in
  write_line_s c1 c3 l0 b (loc_meta g l0) :: map (fun l => write_line_s c1 c3 l (dline_b b g (idv_of g) l) (loc_meta g l)) rest.

Lemma m0_keys g l0 : mdict_ok g = true -> loc_ok l0 = true -> loc_no_cols l0 = true ->
  aget k_seqid (loc_meta g l0) = aget k_seqid g /\ aget k_type (loc_meta g l0) = aget k_type g /\ aget k_ID (loc_meta g l0) = aget k_ID g.
Proof.
  intros Mg Hl Hp. rewrite loc_meta_lg. destruct (loc_plain_keys l0 Hp) as [A [B C]].
  rewrite !(aget_aupdate _ _ _ (lg_unique l0 Hl)), A, B, C. auto.
Qed.

Lemma dline_b_ok b g idv l : mdict_ok g = true -> loc_ok l = true -> aget k_ID g = Some idv ->
  plain_entries (dline_b b g idv l) = true /\ keys_unique (dline_b b g idv l) = true /\
  forallb (fun k => negb (in_keys k (dline_b b g idv l))) col_keys = true /\ forallb mentry_ok (dline_b b g idv l) = true.
Proof.
  intros Mg Hl Hid. pose proof (locmeta_ok g l Mg Hl) as Mm. destruct (pop5_dline _ Mm) as [P [U K]].
  assert (forallb mentry_ok (pop5 (loc_meta g l)) = true) as Me by (apply pop5_mentries; unfold mdict_ok in Mm; apply andb_prop in Mm; tauto).
  unfold dline_b. repeat split.
  - unfold plain_entries. apply forallb_aset; [|apply forallb_filter; exact P].
    intros k' E. cbn [snd]. pose proof (mdict_entry g _ _ Mg Hid) as Q. apply (nocol_entry_plain (k_ID, idv) Q). reflexivity.
  - apply keys_unique_aset, keys_unique_filter, U.
  - apply forallb_forall. intros k Hk. rewrite forallb_forall in K. specialize (K k Hk). apply negb_true_iff in K.
    apply negb_true_iff. rewrite in_keys_aset.
    assert (str_eqb k_ID k = false) as N by (unfold col_keys in Hk; cbn in Hk; repeat (destruct Hk as [<-|Hk]; [reflexivity|]); contradiction).
    rewrite N, orb_false_r. destruct (in_keys k (filter _ _)) eqn:E; [|reflexivity]. apply in_keys_filter_le in E. congruence.
  - apply forallb_aset; [|apply forallb_filter; exact Me]. intros k' E. apply str_eqb_eq in E. subst k'. apply (mdict_entry g _ _ Mg Hid).
Qed.

Lemma write_feat_eq_b ft l0 rest : feat_ok ft = true -> loc_no_cols l0 = true -> flocs ft = l0 :: rest ->
  write_feat ft = concat_opt (line_opts_b (g0 ft) l0 rest).
Proof.
  intros W Hp Hl. pose proof (g0_ok ft W) as Mg.
  destruct (feat_ok_parts ft W) as [_ [_ [_ [_ [Hlocs _]]]]]. rewrite Hl in Hlocs. cbn [forallb] in Hlocs. apply andb_prop in Hlocs. destruct Hlocs as [Hl0 _].
  destruct (m0_keys _ l0 Mg Hl0 Hp) as [K1 [K2 _]].
  unfold write_feat, write_feat_r. change (merged_gff_r random_id ft) with (merged_gff ft). rewrite (merged_is_g0 ft W), Hl.
  destruct (m_seqid _ Mg) as [E1 _]. destruct (m_type _ Mg) as [E3 C3].
  rewrite (qcol_ext k_seqid _ _ K1), (qcol_ok _ _ E1), K2, E3.
  destruct (ocol k_type (g0 ft)) as [t|] eqn:Ot; cbn [option_map].
  - destruct C3 as [_ [Nt _]]. assert (truthy (AS t) = true) as Tt by (destruct t; [congruence|reflexivity]).
    rewrite Tt. unfold line_opts_b, idv_of, dline_b, differs. rewrite Ot. cbn [py_str sid_back]. reflexivity.
  - rewrite (g0_type_meta ft E3). unfold line_opts_b, idv_of, dline_b, differs. rewrite Ot. cbn [sid_back]. reflexivity.
Qed.

Theorem feat_lines_b ft l0 rest : feat_ok ft = true -> loc_no_cols l0 = true -> flocs ft = l0 :: rest ->
  exists texts, write_feat ft = Some (concat (map (fun t => t ++ nl) texts)) /\
                Forall2 line_ok texts (glines_b (g0 ft) l0 rest).
Proof.
  intros W Hp Hl. pose proof (g0_ok ft W) as Mg. destruct (feat_ok_parts ft W) as [_ [_ [_ [_ [Hlocs _]]]]].
  rewrite Hl in Hlocs. cbn [forallb] in Hlocs. apply andb_prop in Hlocs. destruct Hlocs as [Hl0 Hrest].
  rewrite (write_feat_eq_b ft l0 rest W Hp Hl).
  pose proof (locmeta_ok _ l0 Mg Hl0) as Mm0. set (b := pop5 (loc_meta (g0 ft) l0)).
  destruct (line_i (g0 ft) l0 b Mg Hl0 (pop5_dline _ Mm0)) as [a0 [A0 [W0 P0]]].
  pose proof (text_shape _ l0 _ a0 Mg Hl0 (proj1 (pop5_dline _ Mm0)) A0) as S0.
  assert (rest <> [] -> aget k_ID (g0 ft) = Some (idv_of (g0 ft))) as Hid.
  { intros NE. destruct (multi_has_id ft W) as [v Hv]; [rewrite Hl; destruct rest; [congruence|cbn; lia]|].
    unfold idv_of. rewrite Hv. reflexivity. }
  assert (exists ts, Forall2 (fun o t => o = Some (t ++ nl))
             (map (fun l => write_line_s (colq (ocol k_seqid (g0 ft))) (sid_back (ocol k_type (g0 ft)))
                                         l (dline_b b (g0 ft) (idv_of (g0 ft)) l) (loc_meta (g0 ft) l)) rest) ts /\
           Forall2 line_ok ts (map (fun l => gl_of (g0 ft) (dline_b b (g0 ft) (idv_of (g0 ft)) l) l) rest)) as [ts [F1 F2]].
  { clear Hl. induction rest as [|l r IH]; [exists []; split; constructor|].
    cbn [forallb] in Hrest. apply andb_prop in Hrest. destruct Hrest as [Hl1 Hr].
    assert (aget k_ID (g0 ft) = Some (idv_of (g0 ft))) as Hv by (apply Hid; discriminate).
    destruct (IH Hr (fun _ => Hv)) as [ts [F1 F2]].
    destruct (dline_b_ok b _ _ l Mg Hl1 Hv) as [D1 [D2 [D3 _]]].
    destruct (line_i (g0 ft) l _ Mg Hl1 (conj D1 (conj D2 D3))) as [a [A [Wl Pl]]].
    exists (text_of (g0 ft) l a :: ts). split; cbn [map]; constructor; try assumption.
    split; [exact Pl|]. apply (text_shape _ l _ a Mg Hl1 D1 A). }
  exists (text_of (g0 ft) l0 a0 :: ts). split.
  - apply concat_opt_some. unfold line_opts_b. constructor; [exact W0|exact F1].
  - unfold glines_b. constructor; [split; assumption|exact F2].
Qed.

(* ------------------------------------------------------------------ the feature assembled by the reader *)
Definition asm_b (g : adict) (l0 : loc) (rest : list loc) : feat :=
  let b := pop5 (loc_meta g l0) in
  let gl0 := gl_of g b l0 in
  mkFeat (match ocol k_type g with Some t => [(k_type, AS t)] | None => [] end) (Some (g_attrs gl0))
         (g_loc gl0 :: map (fun l => merge_loc (g_attrs gl0) (gl_of g (dline_b b g (idv_of g) l) l)) rest).
Definition asm_fb (ft : feat) : feat := match flocs ft with l0 :: rest => asm_b (g0 ft) l0 rest | [] => ft end.
Definition Nfb (ft : feat) : feat := copy_attrs_in (asm_fb ft).

Lemma gl_id_0b g l0 : aget k_ID (loc_meta g l0) = aget k_ID g -> gl_id (gl_of g (pop5 (loc_meta g l0)) l0) = gid_of g.
Proof. intros E. unfold gl_id, gl_of, gid_of. cbn [g_attrs g_type g_seqid]. rewrite aget_ID_back, aget_ID_pop5, E. reflexivity. Qed.
Lemma gl_id_ib b g l : gl_id (gl_of g (dline_b b g (idv_of g) l) l) = Some (idv_of g, ocol k_type g, sid_back (ocol k_seqid g)).
Proof. unfold gl_id, gl_of, dline_b. cbn [g_attrs g_type g_seqid]. rewrite aget_ID_back, aget_aset_same. reflexivity. Qed.

Lemma read_feature_b g l0 rest texts more acc lastid :
  Forall2 line_ok texts (glines_b g l0 rest) -> locs_sorted (l0 :: rest) = true ->
  aget k_ID (loc_meta g l0) = aget k_ID g ->
  (rest <> [] -> aget k_ID g = Some (idv_of g)) -> same_id (gid_of g) lastid = false ->
  read_lines (texts ++ more) acc lastid = read_lines more (asm_b g l0 rest :: acc) (gid_of g).
Proof.
  intros F Hs E0 Hid Hn. unfold glines_b in F. inversion F as [|t0 gl0 ts gls H0 F']; subst. cbn [app].
  rewrite (read_step t0 (ts ++ more) acc lastid _ H0). rewrite (gl_id_0b g l0 E0), Hn.
  set (b := pop5 (loc_meta g l0)) in *.
  assert (read_lines (ts ++ more) (new_feat (gl_of g b l0) :: acc) (gid_of g) =
          read_lines more (asm_b g l0 rest :: acc) (gid_of g)) as E; [|destruct acc; exact E].
  destruct rest as [|l1 r].
  - inversion F'; subst. reflexivity.
  - assert (gid_of g = Some (idv_of g, ocol k_type g, sid_back (ocol k_seqid g))) as G
      by (unfold gid_of; rewrite (Hid ltac:(discriminate)); reflexivity).
    rewrite G. unfold new_feat. cbn [g_type gl_of].
    rewrite (read_merge ts _ [g_loc (gl_of g b l0)] acc more _ (g_attrs (gl_of g b l0)) _ F').
    + unfold asm_b. fold b. cbn [app]. rewrite map_map. reflexivity.
    + intros gl Hin. apply in_map_iff in Hin. destruct Hin as [l [<- _]]. apply gl_id_ib.
    + apply gid_eqb_refl.
    + refine (locs_sorted_keys _ _ _ _ _ Hs); cbn [app map]; rewrite !map_map; reflexivity.
    + discriminate.
Qed.

Definition good_b (ft : feat) : Prop :=
  feat_ok ft = true /\ forallb loc_no_cols (flocs ft) = true /\ locs_sorted (flocs ft) = true.

Lemma read_feats_b x : Forall good_b x -> adjacent_distinct x = true -> forall acc lastid,
  match x with f :: _ => same_id (feat_gid f) lastid = false | [] => True end ->
  exists tss, Forall2 (fun f ts => write_feat f = Some (concat (map (fun t => t ++ nl) ts)) /\ Forall (fun t => has x0a t = false) ts) x tss /\
              read_lines (concat tss) acc lastid = Some (rev acc ++ map asm_fb x).
Proof.
  induction 1 as [|f x G Gx IH]; intros Adj acc lastid Hn.
  - exists []. split; [constructor|]. cbn. rewrite app_nil_r. reflexivity.
  - destruct G as [W [Hp Hs]]. destruct (flocs f) as [|l0 rest] eqn:Hl; [discriminate Hs|].
    cbn [forallb] in Hp. apply andb_prop in Hp. destruct Hp as [Hp0 _].
    destruct (feat_lines_b f l0 rest W Hp0 Hl) as [texts [Wf Fl]].
    assert (match x with f' :: _ => same_id (feat_gid f') (feat_gid f) = false | [] => True end) as Hn'.
    { destruct x as [|f' x']; [exact I|]. cbn [adjacent_distinct] in Adj. apply andb_prop in Adj. destruct Adj as [A _].
      apply negb_true_iff in A. rewrite same_id_sym. exact A. }
    assert (adjacent_distinct x = true) as Adj'.
    { destruct x as [|f' x']; [reflexivity|]. cbn [adjacent_distinct] in Adj. apply andb_prop in Adj. tauto. }
    destruct (IH Adj' (asm_fb f :: acc) (feat_gid f) Hn') as [tss [F2 R]].
    exists (texts :: tss). split.
    + constructor; [|exact F2]. split; [exact Wf|].
      clear -Fl. induction Fl as [|t gl ts gls [_ [_ [S _]]] _ IH']; constructor; assumption.
    + cbn [concat]. rewrite (feat_gid_of f W) in *.
      pose proof (g0_ok f W) as Mg. destruct (feat_ok_parts f W) as [_ [_ [_ [_ [Hlocs _]]]]]. rewrite Hl in Hlocs. cbn [forallb] in Hlocs.
      apply andb_prop in Hlocs. destruct Hlocs as [Hl0 _]. destruct (m0_keys _ l0 Mg Hl0 Hp0) as [_ [_ K3]].
      assert (rest <> [] -> aget k_ID (g0 f) = Some (idv_of (g0 f))) as Hid.
      { intros NE. destruct (multi_has_id f W) as [v Hv]; [rewrite Hl; destruct rest; [congruence|cbn; lia]|].
        unfold idv_of. rewrite Hv. reflexivity. }
      refine (eq_trans (read_feature_b (g0 f) l0 rest texts (concat tss) acc lastid Fl Hs K3 Hid Hn) _).
      assert (asm_fb f = asm_b (g0 f) l0 rest) as Ea by (unfold asm_fb; rewrite Hl; reflexivity).
      rewrite Ea in R. rewrite R. cbn [rev map]. rewrite <- app_assoc, Ea. reflexivity.
Qed.

Theorem read_write_b x : Forall good_b x -> adjacent_distinct x = true ->
  exists w1, write_gff x = Some w1 /\ read_gff w1 = Some (map Nfb x).
Proof.
  intros G Adj. destruct (read_feats_b x G Adj [] None) as [tss [F R]]; [destruct x; [exact I|]; destruct (feat_gid f); reflexivity|].
  destruct (concat_opt_feats x tss F) as [C N].
  unfold write_gff. rewrite C. cbn [option_map]. eexists. split; [reflexivity|].
  unfold read_gff. rewrite header_eq.
  change ((header_line ++ nl) ++ concat (map (fun t => t ++ nl) (concat tss)))
    with (concat (map (fun t => t ++ nl) (header_line :: concat tss))).
  rewrite file_lines_concat by (constructor; [reflexivity|exact N]).
  change (read_lines (header_line :: concat tss) [] None) with (read_lines (concat tss) [] None).
  rewrite R. cbn [rev app option_map]. rewrite map_map. reflexivity.
Qed.

(* ------------------------------------------------------------------ the feature read back is inside the round-trip domain *)
Lemma A0_ok m : mdict_ok m = true -> forallb mentry_ok (A0_of m) = true /\ keys_unique (A0_of m) = true /\ aget k_type (A0_of m) = None.
Proof.
  intros Mm. pose proof Mm as Q. unfold mdict_ok in Q. apply andb_prop in Q. destruct Q as [M U]. unfold A0_of, asets. repeat split.
  - repeat (apply mentries_oaset; [intros v Hv; apply (mdict_entry m _ _ Mm Hv)|]). apply pop5_mentries. exact M.
  - repeat apply keys_unique_oaset. apply keys_unique_pop5. exact U.
  - rewrite !aget_oaset_other by reflexivity. destruct (pop5_aget_col m U) as [_ [_ [_ [_ P5]]]]. exact P5.
Qed.
Lemma m_to_gff d : forallb mentry_ok d = true -> in_keys k_type d = false -> forallb gff_entry_ok d = true.
Proof.
  intros M T. apply forallb_forall. intros kv Hin. rewrite forallb_forall in M. specialize (M kv Hin).
  unfold mentry_ok in M. rewrite (in_keys_false_In k_type d kv T Hin) in M. exact M.
Qed.
Lemma meta_of_m p v : In p copyattrs -> mentry_ok (fst p, v) = true -> meta_entry_ok (snd p, v) = true.
Proof.
  intros Hin. unfold copyattrs in Hin. cbn in Hin.
  repeat (destruct Hin as [<-|Hin]; [cbn; intros H; try exact H; try (apply andb_prop in H; tauto)|]); contradiction.
Qed.
Lemma fold_meta_ok A ty : forallb mentry_ok A = true -> keys_unique A = true ->
  (forall v, ty = Some v -> type_ok v = true) ->
  let m := fold_left (stepM A) copyattrs (opt_entry k_type ty) in
  forallb meta_entry_ok m = true /\ keys_unique m = true.
Proof.
  intros MA UA Ty m. unfold m.
  apply (fold_inv (fun m => forallb meta_entry_ok m = true /\ keys_unique m = true)).
  - intros m' p Hin [Q1 Q2]. unfold stepM. destruct (aget (fst p) A) as [v|] eqn:G; [|auto]. split.
    + apply forallb_aset; [|exact Q1]. intros k' E. apply str_eqb_eq in E. subst k'. apply (meta_of_m p v Hin).
      rewrite forallb_forall in MA. apply (MA (fst p, v)). apply aget_In. exact G.
    + apply keys_unique_aset. exact Q2.
  - destruct ty as [v|]; cbn [opt_entry forallb keys_unique]; [|auto]. split; [|reflexivity].
    change (meta_entry_ok (k_type, v)) with (type_ok v). rewrite (Ty v eq_refl). reflexivity.
Qed.

Section Back.
  Variables (ft : feat) (l0 : loc) (rest : list loc).
  Hypothesis W : feat_ok ft = true.
  Hypothesis Hl : flocs ft = l0 :: rest.
  Hypothesis Hp : forallb loc_no_cols (l0 :: rest) = true.
  Hypothesis Hs : locs_sorted (l0 :: rest) = true.

  Let g := g0 ft.
  Let m0 := loc_meta g l0.
  Let b := pop5 m0.
  Let A0 := A0_of m0.

  Lemma Bg : mdict_ok g = true. Proof. apply g0_ok, W. Qed.
  Lemma Blocs : forallb loc_ok (l0 :: rest) = true.
  Proof. destruct (feat_ok_parts ft W) as [_ [_ [_ [_ [H _]]]]]. rewrite Hl in H. exact H. Qed.
  Lemma Bl0 : loc_ok l0 = true. Proof. pose proof Blocs as H. cbn [forallb] in H. apply andb_prop in H. tauto. Qed.
  Lemma Bp0 : loc_no_cols l0 = true. Proof. cbn [forallb] in Hp. apply andb_prop in Hp. tauto. Qed.
  Lemma Bm0 : mdict_ok m0 = true. Proof. apply locmeta_ok; [apply Bg|apply Bl0]. Qed.
  Lemma Bkeys : aget k_seqid m0 = aget k_seqid g /\ aget k_type m0 = aget k_type g /\ aget k_ID m0 = aget k_ID g.
  Proof. apply m0_keys; [apply Bg|apply Bl0|apply Bp0]. Qed.
  Lemma Bid : rest <> [] -> aget k_ID g = Some (idv_of g).
  Proof.
    intros NE. destruct (multi_has_id ft W) as [v Hv]; [rewrite Hl; destruct rest; [congruence|cbn; lia]|].
    unfold idv_of. fold g in Hv. rewrite Hv. reflexivity.
  Qed.

  Lemma BA0 : g_attrs (gl_of g b l0) = A0.
  Proof.
    unfold gl_of. cbn [g_attrs]. fold m0. rewrite (back_form g m0 _ Bg Bm0). unfold A0, A0_of. fold b.
    destruct Bkeys as [K1 _]. rewrite <- K1. apply back_asets. apply pop5_nocol. pose proof Bm0 as Q. unfold mdict_ok in Q. apply andb_prop in Q. tauto.
  Qed.

  Definition rest1 : list loc := map (fun l => merge_loc A0 (gl_of g (dline_b b g (idv_of g) l) l)) rest.
  Definition l01 : loc := g_loc (gl_of g b l0).

  Lemma Nfb_parts : fgff (Nfb ft) = Some A0 /\ flocs (Nfb ft) = l01 :: rest1 /\
    fmeta (Nfb ft) = fold_left (stepM A0) copyattrs (opt_entry k_type (aget k_type m0)).
  Proof.
    unfold Nfb, asm_fb. rewrite Hl. unfold asm_b, copy_attrs_in. fold g. fold m0. fold b. cbn [fgff flocs fmeta getgff]. rewrite BA0.
    repeat split. unfold stepM. f_equal. destruct Bkeys as [_ [K2 _]]. rewrite K2. destruct (m_type g Bg) as [ET _]. rewrite ET.
    destruct (ocol k_type g); reflexivity.
  Qed.
  Lemma Nfb_merged : merged_gff (Nfb ft) = g1_of m0.
  Proof.
    destruct Nfb_parts as [Fg [Fl Fm]]. destruct (A0_ok m0 Bm0) as [_ [_ TA]].
    destruct (copy_fold A0 (aget k_type m0) TA) as [CF1 _].
    unfold merged_gff, merged_gff_r, getgff. rewrite Fg, Fm, Fl, CF1. change (oaset k_type (aget k_type m0) A0) with (g1_of m0).
    destruct (Nat.ltb 1 (length (l01 :: rest1))) eqn:L; [|reflexivity].
    assert (rest <> []) as NE by (intros E; unfold rest1 in L; rewrite E in L; cbn in L; discriminate L).
    pose proof Bm0 as Q. unfold mdict_ok in Q. apply andb_prop in Q. destruct Q as [_ U0].
    destruct Bkeys as [_ [_ K3]]. rewrite (aget_g1 m0 k_ID U0), K3, (Bid NE). reflexivity.
  Qed.

  (* attributes of a later line and the difference dict the reader stores *)
  Definition Ai (l : loc) : adict := g_attrs (gl_of g (dline_b b g (idv_of g) l) l).
  Lemma Ai_ok l : loc_ok l = true -> rest <> [] ->
    forallb mentry_ok (Ai l) = true /\ keys_unique (Ai l) = true /\ aget k_type (Ai l) = None /\
    aget k_seqid (Ai l) = aget k_seqid g /\ aget k_ID (Ai l) = Some (idv_of g).
  Proof.
    intros Hl1 NE. pose proof (Bid NE) as Hv. pose proof (locmeta_ok g l Bg Hl1) as Mm.
    destruct (dline_b_ok b g (idv_of g) l Bg Hl1 Hv) as [D1 [D2 [D3 D4]]]. destruct (nocol_keys _ D3) as [N1 [N2 [N3 [N4 N5]]]].
    unfold Ai, gl_of. cbn [g_attrs]. rewrite (back_form g _ _ Bg Mm), (back_asets _ _ _ _ _ D3). unfold asets. repeat split.
    - apply mentries_oaset; [intros v Hv'; apply (mdict_entry _ _ _ Mm Hv')|].
      apply mentries_oaset; [intros v Hv'; apply (mdict_entry _ _ _ Mm Hv')|].
      apply mentries_oaset; [intros v Hv'; apply (mdict_entry _ _ _ Mm Hv')|].
      apply mentries_oaset; [intros v Hv'; apply (mdict_entry _ _ _ Bg Hv')|]. exact D4.
    - repeat apply keys_unique_oaset. exact D2.
    - rewrite !aget_oaset_other by reflexivity. apply aget_none_in_keys. exact N5.
    - rewrite !aget_oaset_other by reflexivity. rewrite aget_oaset_same. destruct (aget k_seqid g); [reflexivity|]. apply aget_none_in_keys. exact N1.
    - rewrite !aget_oaset_other by reflexivity. unfold dline_b. apply aget_aset_same.
  Qed.
  Lemma Di_ok l : loc_ok l = true -> rest <> [] ->
    let D := diff_attrs (Ai l) A0 [] in
    forallb gff_entry_ok D = true /\ keys_unique D = true /\
    aget k_seqid D = None /\ aget k_type D = None /\ aget k_ID D = None.
  Proof.
    intros Hl1 NE D. destruct (Ai_ok l Hl1 NE) as [M [U [T [S I]]]]. unfold D. rewrite (diff_filter _ _ U).
    pose proof Bm0 as Q. unfold mdict_ok in Q. apply andb_prop in Q. destruct Q as [_ U0]. destruct Bkeys as [K1 [_ K3]].
    repeat split.
    - apply forallb_filter. apply m_to_gff; [exact M|]. apply aget_none_in_keys. exact T.
    - apply keys_unique_filter. exact U.
    - rewrite (aget_filter _ _ _ U), S. destruct (aget k_seqid g) as [v|] eqn:G; [|reflexivity].
      unfold differs. cbn [fst snd]. unfold A0. rewrite (aget_A0_col m0 k_seqid U0 eq_refl), K1. rewrite ?G. cbn [opt_aval_eqb].
      rewrite (proj2 (aval_eqb_eq v v) eq_refl). reflexivity.
    - rewrite (aget_filter _ _ _ U), T. reflexivity.
    - rewrite (aget_filter _ _ _ U), I. unfold differs. cbn [fst snd]. unfold A0. rewrite (aget_A0_noncol m0 k_ID eq_refl).
      rewrite (aget_pop5_other k_ID m0 eq_refl), K3, (Bid NE). cbn [opt_aval_eqb]. rewrite (proj2 (aval_eqb_eq _ _) eq_refl). reflexivity.
  Qed.
End Back.

Lemma no_cols_of_aget d : aget k_seqid d = None -> aget k_type d = None -> aget k_ID d = None ->
  existsb (fun kv : str * aval => str_eqb (fst kv) k_seqid || str_eqb (fst kv) k_type || str_eqb (fst kv) k_ID) d = false.
Proof.
  intros A B C. apply aget_none_in_keys in A, B, C.
  destruct (existsb _ d) eqn:E; [|reflexivity]. apply existsb_exists in E. destruct E as [kv [Hin E]].
  rewrite !orb_true_iff in E. destruct E as [[E|E]|E].
  - rewrite (in_keys_false_In _ _ kv A Hin) in E. discriminate.
  - rewrite (in_keys_false_In _ _ kv B Hin) in E. discriminate.
  - rewrite (in_keys_false_In _ _ kv C Hin) in E. discriminate.
Qed.
Lemma loc_ok_parts l : loc_ok l = true -> Z.ltb (lstart l) (lstop l) = true /\ strand_ok (lstrand l) = true.
Proof. unfold loc_ok. rewrite !andb_true_iff. tauto. Qed.

Theorem Nfb_rt ft : good_b ft -> rt_feat (Nfb ft).
Proof.
  intros [W [Hp Hs]]. destruct (flocs ft) as [|l0 rest] eqn:Hl; [discriminate Hs|].
  destruct (Nfb_parts ft l0 rest W Hl Hp) as [Fg [Fl Fm]].
  pose proof (Bm0 ft l0 rest W Hl) as Mm0. pose proof (Bg ft W) as Mg.
  pose proof (Blocs ft l0 rest W Hl) as Hlocs. cbn [forallb] in Hlocs. apply andb_prop in Hlocs. destruct Hlocs as [Hl0 Hrest].
  destruct (A0_ok _ Mm0) as [MA [UA TA]].
  set (g := g0 ft) in *. set (m0 := loc_meta g l0) in *. set (A0 := A0_of m0) in *.
  destruct (loc_ok_parts l0 Hl0) as [C0 S0].
  assert (forall l, In l rest -> loc_ok (merge_loc A0 (gl_of g (dline_b (pop5 m0) g (idv_of g) l) l)) = true /\
                               loc_plain (merge_loc A0 (gl_of g (dline_b (pop5 m0) g (idv_of g) l) l)) = true) as Hmerge.
  { intros l Hin. assert (rest <> []) as NE by (intros E; rewrite E in Hin; contradiction).
    rewrite forallb_forall in Hrest. pose proof (Hrest l Hin) as Hl1. destruct (loc_ok_parts l Hl1) as [C1 S1].
    destruct (Di_ok ft l0 rest W Hl Hp Hs l Hl1 NE) as [D1 [D2 [D3 [D4 D5]]]].
    unfold loc_ok, loc_plain, loc_no_cols, merge_loc. cbn [lstart lstop lstrand lgff g_loc gl_of].
    rewrite C1, S1. cbn [andb]. unfold ometa.
    change (g_attrs (gl_of g (dline_b (pop5 m0) g (idv_of g) l) l)) with (Ai ft l0 l).
    cbv zeta in D1, D2, D3, D4, D5. unfold A0, m0, g in *.
    destruct (diff_attrs (Ai ft l0 l) (A0_of (loc_meta (g0 ft) l0)) []) as [|kv d] eqn:ED; [split; reflexivity|].
    split.
    - unfold gff_ok. rewrite D1, D2. reflexivity.
    - rewrite (no_cols_of_aget _ D3 D4 D5). reflexivity. }
  repeat split.
  - (* feat_ok *)
    unfold feat_ok. rewrite Fg, Fl, Fm.
    destruct (fold_meta_ok A0 (aget k_type m0) MA UA) as [Q1 Q2].
    { intros v Hv. pose proof (mdict_entry m0 _ _ Mm0 Hv) as Q. rewrite me_type in Q. exact Q. }
    fold g. fold m0. fold A0. rewrite Q1, Q2. cbn [andb].
    assert (gff_ok A0 = true) as GA by (unfold gff_ok; rewrite (m_to_gff A0 MA (proj1 (aget_none_in_keys _ _) TA)), UA; reflexivity).
    rewrite GA. cbn [andb length Nat.eqb negb].
    assert (forallb loc_ok (l01 ft l0 :: rest1 ft l0 rest) = true) as LO.
    { cbn [forallb]. apply andb_true_intro. split.
      - unfold l01, loc_ok. cbn [lstart lstop lstrand lgff g_loc gl_of]. rewrite C0, S0. reflexivity.
      - unfold rest1. rewrite forallb_map. apply forallb_forall. intros l Hin. fold g. fold m0. fold A0. apply (Hmerge l Hin). }
    rewrite LO. cbn [andb].
    assert (one_strand (l01 ft l0 :: rest1 ft l0 rest) = true) as OS.
    { destruct (feat_ok_parts ft W) as [_ [_ [_ [_ [_ O]]]]]. rewrite Hl in O. rewrite one_strand_K in *.
      replace (map lstrand (l01 ft l0 :: rest1 ft l0 rest)) with (map lstrand (l0 :: rest)); [exact O|].
      unfold rest1, l01. cbn [map]. rewrite map_map. reflexivity. }
    rewrite OS. cbn [andb].
    destruct rest as [|l1 r]; [reflexivity|]. apply orb_true_intro. right.
    rewrite (Nfb_merged ft l0 (l1 :: r) W Hl Hp Hs). pose proof Mm0 as Q. unfold mdict_ok in Q. apply andb_prop in Q. destruct Q as [_ U0].
    fold g. fold m0. rewrite (aget_g1 m0 k_ID U0).
    destruct (Bkeys ft l0 (l1 :: r) W Hl Hp) as [_ [_ K3]]. fold g in K3. fold m0 in K3. rewrite K3.
    pose proof W as W'. unfold feat_ok in W'. rewrite !andb_true_iff in W'. destruct W' as [_ W'].
    rewrite (merged_is_g0 ft W), Hl in W'. apply orb_prop in W'. destruct W' as [W'|W']; [cbn in W'; discriminate W'|exact W'].
  - unfold normalised. rewrite Fl. reflexivity.
  - rewrite Fl. refine (locs_sorted_keys _ _ _ _ _ Hs); unfold rest1, l01; cbn [map]; rewrite map_map; reflexivity.
  - rewrite Fl. cbn [forallb]. apply andb_true_intro. split; [reflexivity|].
    unfold rest1. rewrite forallb_map. apply forallb_forall. intros l Hin. fold g. fold m0. fold A0. apply (Hmerge l Hin).
Qed.

Lemma Nfb_gid ft : good_b ft -> feat_gid (Nfb ft) = feat_gid ft.
Proof.
  intros [W [Hp Hs]]. destruct (flocs ft) as [|l0 rest] eqn:Hl; [discriminate Hs|].
  pose proof (Bm0 ft l0 rest W Hl) as Mm0. pose proof Mm0 as Q. unfold mdict_ok in Q. apply andb_prop in Q. destruct Q as [_ U0].
  destruct (Bkeys ft l0 rest W Hl Hp) as [K1 [K2 K3]].
  unfold feat_gid. rewrite (Nfb_merged ft l0 rest W Hl Hp Hs), (merged_is_g0 ft W).
  rewrite !(aget_g1 _ _ U0), K1, K2, K3. reflexivity.
Qed.
Lemma adjacent_cons2 a b r : adjacent_distinct (a :: b :: r) =
  negb (match feat_gid a, feat_gid b with Some x, Some y => gid_eqb x y | _, _ => false end) && adjacent_distinct (b :: r).
Proof. reflexivity. Qed.
Lemma adjacent_Nfb x : Forall good_b x -> adjacent_distinct (map Nfb x) = adjacent_distinct x.
Proof.
  induction 1 as [|f x G Gx IH]; [reflexivity|]. destruct x as [|f' x']; [reflexivity|].
  inversion Gx as [|? ? G' _]; subst. change (map Nfb (f :: f' :: x')) with (Nfb f :: Nfb f' :: map Nfb x').
  rewrite !adjacent_cons2. change (Nfb f' :: map Nfb x') with (map Nfb (f' :: x')). rewrite IH.
  rewrite (Nfb_gid f G), (Nfb_gid f' G'). reflexivity.
Qed.

(* for every wf list without location-level seqid/type/ID, LocationTuple-ordered, neighbours differing in (ID, type, seqid) -
   whether or not first locations carry attributes of their own (F39) - what is read back lies in the round-trip domain:
   the second write is a fixpoint (third write = second write) and from there on every cycle preserves every feature *)
Theorem third_write x : Forall good_b x -> adjacent_distinct x = true ->
  exists w1 w2, cycle2 x = Some (w1, map Nfb x, w2) /\
    wf_C02 (map Nfb x) = true /\ rt_C02 (map Nfb x) = true /\ fix2 (map Nfb x) = true /\ roundtrip_ok (map Nfb x) = true.
Proof.
  intros G Adj. destruct (read_write_b x G Adj) as [w1 [Ww Rw]].
  assert (Forall rt_feat (map Nfb x)) as R1.
  { apply Forall_forall. intros f1 Hin. apply in_map_iff in Hin. destruct Hin as [f [<- Hf]]. apply Nfb_rt.
    rewrite Forall_forall in G. apply G. exact Hf. }
  assert (adjacent_distinct (map Nfb x) = true) as A1 by (rewrite (adjacent_Nfb x G); exact Adj).
  destruct (cycle_main (map Nfb x) R1 A1) as [w2 [C2 [F2 RT2]]].
  exists w1, w2. split.
  - unfold cycle2 in *. rewrite Ww, Rw. destruct (write_gff (map Nfb x)) as [w|]; [|discriminate C2].
    destruct (read_gff w); [|discriminate C2]. destruct (write_gff l); [|discriminate C2]. inversion C2; subst. reflexivity.
  - repeat split; try assumption.
    + unfold wf_C02. apply forallb_forall. intros f Hin. rewrite Forall_forall in R1. destruct (R1 f Hin) as [W _]. exact W.
    + unfold rt_C02. rewrite A1. rewrite Forall_forall in R1.
      assert (forallb normalised (map Nfb x) = true) as N1 by (apply forallb_forall; intros f Hin; destruct (R1 f Hin) as [_ [N _]]; exact N).
      assert (forallb (fun f => forallb loc_no_cols (flocs f)) (map Nfb x) = true) as P1
        by (apply forallb_forall; intros f Hin; destruct (R1 f Hin) as [_ [_ [_ P]]]; exact P).
      rewrite N1, P1. reflexivity.
Qed.

(* the same with the boolean predicates of the model *)
Theorem gff_third_write x :
  wf_C02 x = true -> adjacent_distinct x = true -> forallb (fun f => forallb loc_no_cols (flocs f)) x = true ->
  (forall f, In f x -> loc_tuple (flocs f) = Some (flocs f)) ->
  exists w1 x1 w2, cycle2 x = Some (w1, x1, w2) /\ wf_C02 x1 = true /\ rt_C02 x1 = true /\ fix2 x1 = true /\ roundtrip_ok x1 = true.
Proof.
  intros W Adj P S. destruct (third_write x) as [w1 [w2 H]]; [|exact Adj|exists w1, (map Nfb x), w2; exact H].
  apply Forall_forall. intros f Hin. unfold wf_C02 in W. rewrite forallb_forall in W, P.
  repeat split; auto. apply loc_tuple_fix_sorted. apply S. exact Hin.
Qed.
