(* C15 model: Stockholm reader/writer and feature rows of sugar/_io/stockholm.py.
   read_stockholm (stockholm.py:95-162), write_stockholm (166-203), row2fts (21-54), fts2row (57-91).
   Python str = list byte (Latin-1); dicts = association lists in insertion order. No proofs here. *)
From Coq Require Import List ZArith NArith Bool Arith.
From Coq.Strings Require Import Byte.
Import ListNotations.
From SV Require Import Text G_flags.

(* ------------------------------------------------------------------ CPython str primitives *)
(* str.isspace on code points 0..255 (used by str.strip() and str.split()) *)
Definition is_ws (c : byte) : bool :=
  match c with
  | x09 | x0a | x0b | x0c | x0d | x1c | x1d | x1e | x1f | x20 | x85 | xa0 => true
  | _ => false
  end.
Fixpoint lstrip (s : str) : str :=
  match s with
  | c :: r => if is_ws c then lstrip r else s
  | [] => []
  end.
Definition rstrip (s : str) : str := rev (lstrip (rev s)).
Definition strip (s : str) : str := rstrip (lstrip s).

Fixpoint startswith (p s : str) : bool :=
  match p, s with
  | [], _ => true
  | a :: p', b :: s' => byte_eqb a b && startswith p' s'
  | _, [] => false
  end.
Definition has (c : byte) (s : str) : bool := existsb (byte_eqb c) s.

(* str.split(maxsplit=n) (whitespace splitting, unicodeobject.c split_whitespace):
   n = remaining splits; intok = inside a token, whose continuation is the head of the result *)
Fixpoint sp (n : nat) (intok : bool) (s : str) : list str :=
  match s with
  | [] => if intok then [[]] else []
  | c :: r =>
      if intok then
        if is_ws c then [] :: sp n false r
        else match sp n true r with t :: ts => (c :: t) :: ts | [] => [[c]] end
      else
        if is_ws c then sp n false r
        else match n with
             | 0 => [s]
             | S n' => match sp n' true r with t :: ts => (c :: t) :: ts | [] => [[c]] end
             end
  end.
Definition split_max (n : nat) (s : str) : list str := sp n false s.

(* iteration over a text handle: lines with their '\n' kept *)
Definition NL : byte := x0a.
Fixpoint py_lines (s : str) : list str :=
  match s with
  | [] => []
  | c :: r =>
      if byte_eqb c NL then [c] :: py_lines r
      else match py_lines r with l :: ls => (c :: l) :: ls | [] => [[c]] end
  end.

Definition upper1 (c : byte) : byte :=
  match c with
  | "a" => "A" | "b" => "B" | "c" => "C" | "d" => "D" | "e" => "E" | "f" => "F" | "g" => "G" | "h" => "H"
  | "i" => "I" | "j" => "J" | "k" => "K" | "l" => "L" | "m" => "M" | "n" => "N" | "o" => "O" | "p" => "P"
  | "q" => "Q" | "r" => "R" | "s" => "S" | "t" => "T" | "u" => "U" | "v" => "V" | "w" => "W" | "x" => "X"
  | "y" => "Y" | "z" => "Z" | x => x
  end%byte.
(* str.upper on ASCII (BioSeq.__init__, seq.py:214) *)
Definition upper (s : str) : str := map upper1 s.

Fixpoint join (sep : str) (l : list str) : str :=
  match l with
  | [] => []
  | [x] => x
  | x :: r => x ++ sep ++ join sep r
  end.

(* ------------------------------------------------------------------ dicts *)
Definition dict (V : Type) := list (str * V).
(* d[k] = f(d.get(k)) keeping the position of an existing key *)
Fixpoint upd {V} (k : str) (f : option V -> V) (d : dict V) : dict V :=
  match d with
  | [] => [(k, f None)]
  | (k', v) :: r => if str_eqb k' k then (k', f (Some v)) :: r else (k', v) :: upd k f r
  end.
Fixpoint lookup {V} (k : str) (d : dict V) : option V :=
  match d with
  | [] => None
  | (k', v) :: r => if str_eqb k' k then Some v else lookup k r
  end.
Definition SP : byte := x20.
(* gf[key] = gf[key] + ' ' + val if key in gf else val   (stockholm.py:124,131) *)
Definition join_sp (v : str) (o : option str) : str :=
  match o with Some old => old ++ SP :: v | None => v end.
(* gc[key] = gc.get(key, '') + val   (stockholm.py:127,134,142) *)
Definition cat (v : str) (o : option str) : str :=
  match o with Some old => old ++ v | None => v end.
Definition sub_upd (k : str) (f : option str -> str) (o : option (dict str)) : dict str :=
  upd k f (match o with Some d => d | None => [] end).

(* ------------------------------------------------------------------ alignments *)
Record row := mkrow { r_id : str; r_data : str; r_gs : dict str; r_gr : dict str }.
Record aln := mkaln { a_gf : dict str; a_gc : dict str; a_rows : list row }.

(* ------------------------------------------------------------------ read_stockholm, stockholm.py:118-150 *)
Inductive item :=
| IBlank | IGF (k v : str) | IGC (k v : str) | IGS (s k v : str) | IGR (s k v : str)
| IComment (l : str) | IEnd | ISeq (k v : str) | IBad.

Definition is_nil (s : str) : bool := match s with [] => true | _ => false end.
Definition classify (line : str) : item :=
  if is_nil line || startswith (bs "# STOCKHOLM"%bs) line then IBlank        (* :120 *)
  else if startswith (bs "#=GF"%bs) line then                                (* :122-124 *)
    match split_max 2 line with [_; k; v] => IGF k v | _ => IBad end
  else if startswith (bs "#=GC"%bs) line then                                (* :125-127 *)
    match split_max 2 line with [_; k; v] => IGC k v | _ => IBad end
  else if startswith (bs "#=GS"%bs) line then                                (* :128-131 *)
    match split_max 3 line with [_; s; k; v] => IGS s k v | _ => IBad end
  else if startswith (bs "#=GR"%bs) line then                                (* :132-134 *)
    match split_max 3 line with [_; s; k; v] => IGR s k v | _ => IBad end
  else if startswith (bs "#"%bs) line then IComment line                     (* :135-137 *)
  else if startswith (bs "//"%bs) line then IEnd                             (* :138-139 *)
  else if has SP line then                                                   (* :140-142 *)
    match split_max 1 line with [k; v] => ISeq k v | _ => IBad end
  else IBad.                                                                 (* :149-150 *)
Definition parse_line (raw : str) : item := classify (strip raw).            (* :119 *)

Record st := mkst { s_gf : dict str; s_gc : dict str; s_gs : dict (dict str); s_gr : dict (dict str);
                    s_seqs : dict str }.
Definition st0 : st := mkst [] [] [] [] [].

Definition step (s : st) (it : item) : st :=
  match it with
  | IGF k v => mkst (upd k (join_sp v) (s_gf s)) (s_gc s) (s_gs s) (s_gr s) (s_seqs s)
  | IGC k v => mkst (s_gf s) (upd k (cat v) (s_gc s)) (s_gs s) (s_gr s) (s_seqs s)
  | IGS i k v => mkst (s_gf s) (s_gc s) (upd i (sub_upd k (join_sp v)) (s_gs s)) (s_gr s) (s_seqs s)
  | IGR i k v => mkst (s_gf s) (s_gc s) (s_gs s) (upd i (sub_upd k (cat v)) (s_gr s)) (s_seqs s)
  | ISeq k v => mkst (s_gf s) (s_gc s) (s_gs s) (s_gr s) (upd k (cat v) (s_seqs s))
  | _ => s
  end.

(* the loop over items; returns the state (None = ValueError) and the unread items *)
Fixpoint run_items {A} (parse : A -> item) (ls : list A) (s : st) : option st * list A :=
  match ls with
  | [] => (Some s, [])
  | l :: r =>
      match parse l with
      | IEnd => (Some s, r)
      | IBad => (None, r)
      | it => run_items parse r (step s it)
      end
  end.

Definition odict (o : option (dict str)) : dict str := match o with Some d => d | None => [] end.
(* stockholm.py:151-162 *)
Definition finish (s : st) : aln :=
  mkaln (s_gf s) (s_gc s)
        (map (fun kv => mkrow (fst kv) (upper (snd kv)) (odict (lookup (fst kv) (s_gs s))) (odict (lookup (fst kv) (s_gr s))))
             (s_seqs s)).

(* one sugar.read(handle, 'stockholm'): result and the rest of the handle *)
Definition read_text (t : str) : option aln * str :=
  let (o, rest) := run_items parse_line (py_lines t) st0 in
  (option_map finish o, concat rest).

(* ------------------------------------------------------------------ write_stockholm, stockholm.py:170-203 *)
Definition kvline (tag : str) (pre : str) (kv : str * str) : str :=
  tag ++ SP :: pre ++ fst kv ++ SP :: snd kv.
Definition GFt : str := bs "#=GF"%bs.
Definition GCt : str := bs "#=GC"%bs.
Definition GSt : str := bs "#=GS"%bs.
Definition GRt : str := bs "#=GR"%bs.
Definition HEADER : str := bs "# STOCKHOLM 1.0"%bs.
Definition gs_lines (r : row) : list str := map (kvline GSt (r_id r ++ [SP])) (r_gs r).
Definition seq_lines (r : row) : list str :=
  (r_id r ++ SP :: r_data r) :: map (kvline GRt (r_id r ++ [SP])) (r_gr r).
Definition write_lines (a : aln) : list str :=
  HEADER :: map (kvline GFt []) (a_gf a)
  ++ flat_map gs_lines (a_rows a)
  ++ flat_map seq_lines (a_rows a)
  ++ map (kvline GCt []) (a_gc a)
  ++ [bs "//"%bs ++ [NL]].
Definition write_text (a : aln) : str := join [NL] (write_lines a).

(* ------------------------------------------------------------------ interleaved rendering (specification side) *)
Definition chunk (bw b : nat) (s : str) : str := firstn bw (skipn (b * bw) s).
Definition width (a : aln) : nat := match a_rows a with r :: _ => length (r_data r) | [] => 0 end.
Definition nblocks (bw w : nat) : nat := (w + bw - 1) / bw.
Definition block_lines (bw : nat) (a : aln) (b : nat) : list str :=
  flat_map (fun r => (r_id r ++ SP :: chunk bw b (r_data r))
                     :: map (fun kv => kvline GRt (r_id r ++ [SP]) (fst kv, chunk bw b (snd kv))) (r_gr r)) (a_rows a)
  ++ map (fun kv => kvline GCt [] (fst kv, chunk bw b (snd kv))) (a_gc a)
  ++ [[]].
Definition render_blocks_lines (bw : nat) (a : aln) : list str :=
  HEADER :: map (kvline GFt []) (a_gf a)
  ++ flat_map gs_lines (a_rows a)
  ++ flat_map (block_lines bw a) (seq 0 (nblocks bw (width a)))
  ++ [bs "//"%bs ++ [NL]].
Definition render_blocks (bw : nat) (a : aln) : str := join [NL] (render_blocks_lines bw a).

(* ------------------------------------------------------------------ domain *)
(* F20 (open): keys named like mapping methods shadow them in Attr *)
Definition RESERVED : list str :=
  [bs "items"%bs; bs "keys"%bs; bs "values"%bs; bs "get"%bs; bs "update"%bs; bs "pop"%bs; bs "copy"%bs;
   bs "setdefault"%bs; bs "clear"%bs; bs "popitem"%bs].
Definition reserved (k : str) : bool := existsb (str_eqb k) RESERVED.
(* printable ASCII without space *)
Definition is_graph (c : byte) : bool := let n := Byte.to_N c in (N.leb 33 n && N.leb n 126)%N.
Definition is_text (c : byte) : bool := is_graph c || byte_eqb c SP || byte_eqb c x09.
Definition is_lower (c : byte) : bool := negb (byte_eqb (upper1 c) c).
Definition nonempty {A} (l : list A) : bool := match l with [] => false | _ => true end.
Definition wf_key (k : str) : bool := nonempty k && forallb is_graph k && negb (reserved k).
Definition wf_id (k : str) : bool :=
  nonempty k && forallb is_graph k && negb (startswith (bs "#"%bs) k) && negb (startswith (bs "//"%bs) k).
Definition first_last_graph (v : str) : bool :=
  match v with c :: _ => is_graph c && is_graph (last v c) | [] => false end.
Definition wf_val (v : str) : bool := forallb is_text v && first_last_graph v.
Definition wf_col (w : nat) (v : str) : bool := forallb is_graph v && Nat.eqb (length v) w.
Definition wf_data (w : nat) (v : str) : bool := wf_col w v && forallb (fun c => negb (is_lower c)) v.
Fixpoint nodup_str (l : list str) : bool :=
  match l with [] => true | x :: r => negb (existsb (str_eqb x) r) && nodup_str r end.
Definition wf_dict (wfv : str -> bool) (d : dict str) : bool :=
  forallb (fun kv => wf_key (fst kv) && wfv (snd kv)) d && nodup_str (map fst d).
Definition wf_row (w : nat) (r : row) : bool :=
  wf_id (r_id r) && wf_data w (r_data r) && wf_dict wf_val (r_gs r) && wf_dict (wf_col w) (r_gr r).
Definition wf_aln (a : aln) : bool :=
  nonempty (a_rows a) && Nat.leb 1 (width a)
  && forallb (wf_row (width a)) (a_rows a) && nodup_str (map r_id (a_rows a))
  && wf_dict wf_val (a_gf a) && wf_dict (wf_col (width a)) (a_gc a).

(* raw text: ASCII text whose annotation keys avoid the reserved set *)
Definition item_ok (it : item) : bool :=
  match it with
  | IGF k _ | IGC k _ | IGS _ k _ | IGR _ k _ => negb (reserved k)
  | _ => true
  end.
Definition CR : byte := x0d.
Definition wf_text (t : str) : bool :=
  forallb (fun c => is_text c || byte_eqb c NL || byte_eqb c CR) t && forallb (fun l => item_ok (parse_line l)) (py_lines t).

(* ------------------------------------------------------------------ feature rows *)
Record ft := mkft { f_start : nat; f_stop : nat; f_defect : N; f_name : str }.
Definition BAR : byte := "|"%byte.
Definition DOT : byte := "."%byte.
Definition dots (n : nat) : str := repeat DOT n.

(* str.find(c, i): absolute index *)
Fixpoint find_from (c : byte) (s : str) (i : nat) : option nat :=
  match s with
  | [] => None
  | x :: r => match i with
              | 0 => if byte_eqb x c then Some 0 else option_map S (find_from c r 0)
              | S i' => option_map S (find_from c r i')
              end
  end.
Definition slice (s : str) (i j : nat) : str := firstn (j - i) (skipn i s).
(* the non-empty pieces of re.split('[.]+', s) *)
Fixpoint dot_tokens_go (s cur : str) : list str :=
  match s with
  | [] => match cur with [] => [] | _ => [rev cur] end
  | c :: r => if byte_eqb c DOT then match cur with [] => dot_tokens_go r [] | _ => rev cur :: dot_tokens_go r [] end
              else dot_tokens_go r (c :: cur)
  end.
Definition dot_tokens (s : str) : list str := dot_tokens_go s [].
Fixpoint dedupe (l : list str) : list str :=
  match l with [] => [] | x :: r => x :: filter (fun y => negb (str_eqb x y)) (dedupe r) end.
Fixpoint shortest (best : str) (l : list str) : str :=
  match l with [] => best | x :: r => if Nat.ltb (length x) (length best) then shortest x r else shortest best r end.
Definition flag_in (f d : N) : bool := N.eqb (N.land f d) f.

(* row2fts, stockholm.py:24-54 *)
Fixpoint r2f (fuel : nat) (rw : str) (i : nat) : list ft :=
  match fuel with
  | 0 => []
  | S fuel' =>
      if Nat.ltb i (length rw) then
        let j := match find_from BAR rw (i + 1) with Some j => j | None => length rw end in        (* :27-29 *)
        let names := dedupe (dot_tokens (slice rw (i + 1) j)) in                                   (* :30 *)
        match names with
        | [] => r2f fuel' rw j
        | n0 :: ns =>
            let stop := Nat.min (j + 1) (length rw) in                                             (* :32 *)
            let name := shortest n0 ns in                                                          (* :33-36 *)
            let openl := Nat.eqb i 0 && negb (byte_eqb (hd DOT rw) BAR) in
            let openr := Nat.eqb j (length rw) in
            let defect := if openl && openr then N.lor D_MISS_LEFT D_MISS_RIGHT                     (* :37-46 *)
                          else if openl then D_MISS_LEFT else if openr then D_MISS_RIGHT else D_NONE in
            mkft i stop defect name :: r2f fuel' rw j
        end
      else []
  end.
Definition row2fts (rw : str) : list ft := r2f (S (length rw)) rw 0.

(* stable sort by (start, stop): FeatureList.sort() -> sorted() with Feature.__lt__ (fts.py:365-369, 204-208) *)
Definition ft_lt (a b : ft) : bool :=
  Nat.ltb (f_start a) (f_start b) || (Nat.eqb (f_start a) (f_start b) && Nat.ltb (f_stop a) (f_stop b)).
Fixpoint ins (x : ft) (l : list ft) : list ft :=
  match l with
  | [] => [x]
  | y :: r => if ft_lt x y then x :: l else y :: ins x r
  end.
Definition sort_fts (l : list ft) : list ft := fold_left (fun acc x => ins x acc) l [].

(* str.center(width, '.') (unicodeobject.c: left = marg/2 + (marg & width & 1)) *)
Definition center (s : str) (w : nat) : str :=
  if Nat.leb w (length s) then s
  else let marg := w - length s in
       let left := marg / 2 + (if Nat.odd marg && Nat.odd w then 1 else 0) in
       dots left ++ s ++ dots (marg - left).
(* while l > len(name) + len(rowp) + 150: rowp = name + '.' * 100 + rowp   (:76-77) *)
Fixpoint rep_loop (fuel l : nat) (name rowp : str) : str :=
  match fuel with
  | 0 => rowp
  | S f => if Nat.ltb (length name + length rowp + 150) l then rep_loop f l name (name ++ dots 100 ++ rowp) else rowp
  end.
Inductive res := ROk (s : str) | RErr (e : str).
(* one feature's piece, :73-88 *)
Definition piece (f : ft) : res :=
  let l := f_stop f - f_start f in
  let name := f_name f in
  let rowp := center (rep_loop l l name name) l in
  let rowp := if Nat.ltb (l + 2) (length name)                                                    (* :79-81 *)
              then DOT :: (match l with 0 | 1 => removelast name | _ => firstn (l - 2) name end) ++ [DOT] else rowp in
  let d := f_defect f in
  let rowp := if negb (flag_in D_MISS_LEFT d) && negb (flag_in D_BEYOND_LEFT d) then BAR :: tl rowp else rowp in
  let rowp := if negb (flag_in D_MISS_RIGHT d) && negb (flag_in D_BEYOND_RIGHT d) then removelast rowp ++ [BAR] else rowp in
  if Nat.eqb (length rowp) l then ROk rowp else RErr (bs "AssertionError"%bs).
(* the loop of fts2row, :60-90; acc is ''.join(row) *)
Fixpoint f2r (fts : list ft) (acc : str) (last_stop : nat) : res :=
  match fts with
  | [] => ROk acc
  | f :: r =>
      let start := f_start f in
      let acc' :=
        if Nat.ltb last_stop start then ROk (acc ++ dots (start - last_stop))                      (* :66-67 *)
        else if Nat.eqb (start + 1) last_stop then                                                 (* :68-70 *)
          match acc with
          | [] => RErr (bs "IndexError"%bs)
          | c :: _ => if byte_eqb (last acc c) BAR then ROk (removelast acc) else RErr (bs "AssertionError"%bs)
          end
        else if Nat.ltb (start + 1) last_stop then RErr (bs "ValueError"%bs)                       (* :71-72 *)
        else ROk acc in
      match acc' with
      | RErr e => RErr e
      | ROk a => match piece f with
                 | RErr e => RErr e
                 | ROk p => f2r r (a ++ p) (f_stop f)
                 end
      end
  end.
Definition fts2row (fts : list ft) : res := f2r (sort_fts fts) [] 0.

(* domain of feature lists: sorted, names fit, sharing at most a boundary column, open ends only outside *)
Definition is_name_char (c : byte) : bool :=
  let n := Byte.to_N c in
  ((N.leb 48 n && N.leb n 57) || (N.leb 65 n && N.leb n 90) || (N.leb 97 n && N.leb n 122) || N.eqb n 95)%N.
Definition wf_ft (f : ft) : bool :=
  nonempty (f_name f) && forallb is_name_char (f_name f)
  && Nat.leb (length (f_name f) + 2) (f_stop f - f_start f)
  && N.leb (f_defect f) 3.
Definition open_l (f : ft) : bool := flag_in D_MISS_LEFT (f_defect f).
Definition open_r (f : ft) : bool := flag_in D_MISS_RIGHT (f_defect f).
Fixpoint wf_chain (prev : ft) (l : list ft) : bool :=
  match l with
  | [] => true
  | f :: r => negb (open_r prev) && negb (open_l f) && Nat.leb (f_stop prev) (f_start f + 1)
              && Nat.ltb (f_start prev) (f_start f) && wf_chain f r
  end.
Definition wf_sorted (l : list ft) : bool :=
  forallb wf_ft l &&
  match l with
  | [] => true
  | f :: r => (if open_l f then Nat.eqb (f_start f) 0 else true) && wf_chain f r
  end.
Definition wf_fts (l : list ft) : bool := wf_sorted (sort_fts l).

(* domain of rows: one name per segment, and a named open last segment keeps a dot *)
Definition is_row_char (c : byte) : bool := is_graph c.
Fixpoint segs_ok (fuel : nat) (rw : str) (i : nat) : bool :=
  match fuel with
  | 0 => true
  | S fuel' =>
      if Nat.ltb i (length rw) then
        let j := match find_from BAR rw (i + 1) with Some j => j | None => length rw end in
        let seg := slice rw (i + 1) j in
        match dedupe (dot_tokens seg) with
        | [] => segs_ok fuel' rw j
        | [n] => (if Nat.eqb j (length rw) then Nat.ltb (length n) (length seg) else true) && segs_ok fuel' rw j
        | _ => false
        end
      else true
  end.
Definition wf_rowstr (rw : str) : bool :=
  forallb is_row_char rw && segs_ok (S (length rw)) rw 0
  && match rw with c :: _ => byte_eqb c DOT || byte_eqb c BAR | [] => true end.

(* ------------------------------------------------------------------ harness entry point *)
Definition show_dict (d : dict str) : val := VL (map (fun kv => VL [VS (fst kv); VS (snd kv)]) d).
Definition show_row (r : row) : val := VL [VS (r_id r); VS (r_data r); show_dict (r_gs r); show_dict (r_gr r)].
Definition show_aln (a : aln) : val := VL [show_dict (a_gf a); show_dict (a_gc a); VL (map show_row (a_rows a))].
Definition show_read (x : option aln * str) : val :=
  VL [match fst x with Some a => show_aln a | None => VE (bs "ValueError"%bs) end; VS (snd x)].
Fixpoint reads (n : nat) (t : str) : list val :=
  match n with
  | 0 => []
  | S n' => let x := read_text t in show_read x :: reads n' (snd x)
  end.
Definition show_ft (f : ft) : val :=
  VL [VI (Z.of_nat (f_start f)); VI (Z.of_nat (f_stop f)); VI (Z.of_N (f_defect f)); VS (f_name f)].
Definition show_fts (l : list ft) : val := VL (map show_ft l).
Definition show_res (r : res) : val := match r with ROk s => VS s | RErr e => VE e end.

(* comments=[] (stockholm.py:135-137): the stripped comment lines seen before the terminator / the offending line *)
Fixpoint comments_of (ls : list str) : list str :=
  match ls with
  | [] => []
  | l :: r => match parse_line l with
              | IEnd | IBad => []
              | IComment c => c :: comments_of r
              | _ => comments_of r
              end
  end.

(* a feature with several locations as fts2row sees it (stockholm.py:61-63, 82-87).
   LocationTuple.range (fts.py:192-202) = (min of the starts, max of the stops) over ALL locations;
   LocationTuple.__new__ keeps '+' locations sorted by start and '-' locations by stop, descending (fts.py:186-189, stable);
   the left end is judged on the first location's defect, the right end on the last location's *)
Definition loc3 := (nat * nat * N)%type.
Definition l_start (x : loc3) : nat := fst (fst x).
Definition l_stop (x : loc3) : nat := snd (fst x).
Definition range_start (locs : list loc3) : nat :=
  match locs with [] => 0 | x :: r => fold_left Nat.min (map l_start r) (l_start x) end.
Definition range_stop (locs : list loc3) : nat :=
  match locs with [] => 0 | x :: r => fold_left Nat.max (map l_stop r) (l_stop x) end.
Fixpoint ins_loc (minus : bool) (x : loc3) (l : list loc3) : list loc3 :=
  match l with
  | [] => [x]
  | y :: r => if (if minus then Nat.ltb (l_stop y) (l_stop x) else Nat.ltb (l_start x) (l_start y))
              then x :: l else y :: ins_loc minus x r
  end.
Definition sort_locs (minus : bool) (locs : list loc3) : list loc3 := fold_left (fun acc x => ins_loc minus x acc) locs [].
Definition multi_ft (name : str) (minus : bool) (locs : list loc3) : ft :=
  match sort_locs minus locs with
  | [] => mkft 0 0 0 name
  | f :: _ as sorted =>
      let lst := last sorted f in
      mkft (range_start locs) (range_stop locs)
           (N.lor (N.land (snd f) (N.lor D_MISS_LEFT D_BEYOND_LEFT)) (N.land (snd lst) (N.lor D_MISS_RIGHT D_BEYOND_RIGHT)))
           name
  end.

Definition run_C15 (op : N) (alns : list aln) (n : nat) (t : str) (fts : list ft) (mf : list (str * bool * list loc3)) : val :=
  match op with
  | 0%N => match alns with
           | a :: _ => VL [VB (wf_aln a); VL [VS (write_text a); show_read (read_text (write_text a))]]
           | [] => VNone
           end
  | 1%N => match alns with
           | a :: _ => VL [VB (wf_aln a && Nat.leb 1 n);
                           VL [VS (render_blocks n a); show_read (read_text (render_blocks n a))]]
           | [] => VNone
           end
  | 2%N => let txt := concat (map write_text alns) in
           VL [VB (forallb wf_aln alns); VL [VS txt; VL (reads n txt)]]
  | 3%N => VL [VB (wf_text t); VL (reads n t)]
  | 4%N => VL [VB (wf_rowstr t); show_fts (row2fts t)]
  | 5%N => VL [VB (wf_fts fts); show_res (fts2row fts)]
  | 6%N => let f1 := row2fts t in
           let r1 := fts2row f1 in
           VL [VB (wf_rowstr t);
               VL [show_fts f1; show_res r1; match r1 with ROk s => show_fts (row2fts s) | RErr e => VE e end]]
  | 7%N => let r1 := fts2row fts in
           VL [VB (wf_fts fts); VL [show_res r1; match r1 with ROk s => show_fts (row2fts s) | RErr e => VE e end]]
  | 8%N => VL [VB (wf_text t); VL [show_read (read_text t); VL (map VS (comments_of (py_lines t)))]]
  | _ => let l := map (fun x => multi_ft (fst (fst x)) (snd (fst x)) (snd x)) mf in
         let r1 := fts2row l in
         VL [VB (wf_fts l); VL [show_res r1; match r1 with ROk s => show_fts (row2fts s) | RErr e => VE e end]]
  end.

(* ------------------------------------------------------------------ handle positions (round 6) *)
(* is_stockholm, stockholm.py:16-18: f.read(11) == '# STOCKHOLM' *)
Definition MAGIC : str := bs "# STOCKHOLM"%bs.
Definition is_stockholm (t : str) : bool := str_eqb (firstn 11 t) MAGIC.

(* one sugar.read(handle[, 'stockholm']) on a handle over the text t that stands at offset off.
   auto = the format is not given: detect() (main.py:61-79) remembers the position (fpos = f.tell()), lets the sniffers
   read, and seeks back to fpos after each of them; when no sniffer accepts, read() raises IOError (main.py:311-312) and the
   handle is where it was. Then read_stockholm consumes lines up to and including the first '//' line (stockholm.py:118-139).
   Result: None = not detected as Stockholm, Some None = ValueError, Some (Some a); and the new offset (f.tell()).
   (Which OTHER sniffer might accept a text that does not start with the magic is C03's subject: such positions are
   outside the domain of the chains, see chain_ok.) *)
Definition read_at (auto : bool) (t : str) (off : nat) : option (option aln) * nat :=
  let cur := skipn off t in
  if auto && negb (is_stockholm cur) then (None, off)
  else let x := read_text cur in (Some (fst x), length t - length (snd x)).

(* successive reads on one handle; flags: is the format detected (true) or given (false) at that step *)
Fixpoint chain (flags : list bool) (t : str) (off : nat) : list (option (option aln) * nat) :=
  match flags with
  | [] => []
  | au :: r => let x := read_at au t off in x :: chain r t (snd x)
  end.

(* offsets behind the successive texts of a file that starts at offset off *)
Fixpoint offsets (off : nat) (texts : list str) : list nat :=
  match texts with
  | [] => []
  | x :: r => (off + length x) :: offsets (off + length x) r
  end.

(* detection is asked for only while an alignment is left (m = alignments left) *)
Fixpoint chain_ok (flags : list bool) (m : nat) : bool :=
  match flags with
  | [] => true
  | au :: r => (negb au || Nat.ltb 0 m) && chain_ok r (m - 1)
  end.

(* sugar convert IN [-o OUT] (scripts.py:33-45): seqs = read(IN); OUT given: seqs.write(OUT, fmt=fmtout);
   otherwise print(seqs.tofmtstr(fmtout or fmt or seqs[0].meta._fmt)) - print adds one newline.
   Here for the option combinations that resolve to Stockholm on both sides. None = the reader raised *)
Definition convert_text (stdout : bool) (t : str) : option str :=
  match fst (read_text t) with
  | Some a => Some (write_text a ++ (if stdout then [NL] else []))
  | None => None
  end.

(* iter_(f[, 'stockholm']) (main.py:214-250): stockholm.py has no iter_stockholm, so the sequences of read_stockholm are
   yielded one by one, each with its GS / GR; the alignment-level annotations (GF, GC) sit on the basket, which iter_ does
   not hand out. None = the reader raised *)
Definition iter_text (t : str) : option (list row) := option_map a_rows (fst (read_text t)).

Definition show_step (x : option (option aln) * nat) : val :=
  VL [match fst x with
      | Some (Some a) => show_aln a
      | Some None => VE (bs "ValueError"%bs)
      | None => VE (bs "OSError"%bs)
      end; VI (Z.of_nat (snd x))].

(* the file is pre ++ the written alignments; the handle stands behind pre and the first k alignments *)
Definition run_C15_chain (alns : list aln) (pre : str) (flags : list bool) (k : nat) : val :=
  let texts := map write_text alns in
  let t := pre ++ concat texts in
  let off := length pre + length (concat (firstn k texts)) in
  VL [VB (forallb wf_aln alns && Nat.leb k (length alns) && chain_ok flags (length alns - k));
      VL [VL (map VS texts); VL (map show_step (chain flags t off))]].

(* the same file with DOS line ends (specification side, like render_blocks): every "\n" becomes "\r\n" *)
Definition crlf (t : str) : str := flat_map (fun c => if byte_eqb c NL then [CR; NL] else [c]) t.
Definition run_C15_crlf (a : aln) : val :=
  VL [VB (wf_aln a); VL [VS (crlf (write_text a)); show_read (read_text (crlf (write_text a)))]].

(* write, then iter_: the shape of a read result with the alignment level left open *)
Definition run_C15_iter (a : aln) : val :=
  VL [VB (wf_aln a);
      VL [VS (write_text a);
          VL [match iter_text (write_text a) with
              | Some rows => VL [VNone; VNone; VL (map show_row rows)]
              | None => VE (bs "ValueError"%bs)
              end; VS []]]].

(* the converter on the interleaved rendering at block width bw of alignment a *)
Definition run_C15_convert (a : aln) (bw : nat) (stdout : bool) : val :=
  let t := render_blocks bw a in
  VL [VB (wf_aln a && Nat.leb 1 bw);
      VL [VS t; match convert_text stdout t with
                | Some x => VL [VS x; show_read (read_text x)]
                | None => VE (bs "ValueError"%bs)
                end]].

(* histories (state-independence stream): the model is pure, so a history is the list of the single results *)
Definition hist_join (l : list val) : val :=
  VL [VB (forallb (fun v => match v with VL [VB b; _] => b | _ => false end) l);
      VL (map (fun v => match v with VL [_; r] => r | _ => VNone end) l)].
