(* C10 model: the GenBank reader of sugar (sugar/_io/genbank.py) together with the parts of sugar/core/fts.py it
   goes through (Location.__init__, LocationTuple.__new__, Feature.__init__).  No proofs here.
   Part 1: CPython string primitives used by the reader.   Part 2: the reader, line by line.
   Part 3: the specification side: abstract records, INSDC location expressions, their rendering to text
           (render_gb) and their meaning (sem / view).     Part 4: domain predicate and harness entry points. *)
From Coq Require Import List ZArith NArith Bool Uint63.
From Coq.Strings Require Import Byte.
Import ListNotations.
From SV Require Import Text G_flags.
Local Open Scope Z_scope.

(* ------------------------------------------------------------------ Part 1: str primitives *)

(* str.isspace() on the Latin-1 range *)
Definition is_ws (c : byte) : bool :=
  match c with
  | x09 | x0a | x0b | x0c | x0d | x20 | x1c | x1d | x1e | x1f | x85 | xa0 => true
  | _ => false
  end.
Fixpoint lstrip (s : str) : str :=
  match s with
  | c :: r => if is_ws c then lstrip r else s
  | [] => []
  end.
Fixpoint rstrip (s : str) : str :=
  match s with
  | [] => []
  | c :: r => match rstrip r with
              | [] => if is_ws c then [] else [c]
              | r' => c :: r'
              end
  end.
Definition strip (s : str) : str := rstrip (lstrip s).
Definition is_blank (s : str) : bool := match lstrip s with [] => true | _ => false end.

Fixpoint startswith (p s : str) : bool :=
  match p, s with
  | [], _ => true
  | a :: p', b :: s' => byte_eqb a b && startswith p' s'
  | _ :: _, [] => false
  end.
Definition has (c : byte) (s : str) : bool := existsb (byte_eqb c) s.
Definition remove_char (c : byte) (s : str) : str := filter (fun x => negb (byte_eqb c x)) s.

Definition lower1 (c : byte) : byte :=
  match c with
  | "A" => "a" | "B" => "b" | "C" => "c" | "D" => "d" | "E" => "e" | "F" => "f" | "G" => "g" | "H" => "h" | "I" => "i"
  | "J" => "j" | "K" => "k" | "L" => "l" | "M" => "m" | "N" => "n" | "O" => "o" | "P" => "p" | "Q" => "q" | "R" => "r"
  | "S" => "s" | "T" => "t" | "U" => "u" | "V" => "v" | "W" => "w" | "X" => "x" | "Y" => "y" | "Z" => "z" | x => x
  end%byte.
Definition upper1 (c : byte) : byte :=
  match c with
  | "a" => "A" | "b" => "B" | "c" => "C" | "d" => "D" | "e" => "E" | "f" => "F" | "g" => "G" | "h" => "H" | "i" => "I"
  | "j" => "J" | "k" => "K" | "l" => "L" | "m" => "M" | "n" => "N" | "o" => "O" | "p" => "P" | "q" => "Q" | "r" => "R"
  | "s" => "S" | "t" => "T" | "u" => "U" | "v" => "V" | "w" => "W" | "x" => "X" | "y" => "Y" | "z" => "Z" | x => x
  end%byte.
(* str.lower / str.upper; exact on ASCII, which is all the domain contains *)
Definition lower (s : str) : str := map lower1 s.
Definition upper (s : str) : str := map upper1 s.

(* s.split()[0] : None stands for IndexError *)
Fixpoint take_word (s : str) : str :=
  match s with
  | c :: r => if is_ws c then [] else c :: take_word r
  | [] => []
  end.
Fixpoint drop_word (s : str) : str :=
  match s with
  | c :: r => if is_ws c then s else drop_word r
  | [] => []
  end.
Definition first_word (s : str) : option str :=
  match take_word (lstrip s) with [] => None | w => Some w end.
(* s.split(maxsplit=1)[1] : None stands for IndexError *)
Definition rest_after_first (s : str) : option str :=
  match lstrip (drop_word (lstrip s)) with [] => None | r => Some r end.
(* s.split() *)
Fixpoint split_ws_fuel (n : nat) (s : str) : list str :=
  match n with
  | O => []
  | S n' => match lstrip s with
            | [] => []
            | s' => take_word s' :: split_ws_fuel n' (drop_word s')
            end
  end.
Definition split_ws (s : str) : list str := split_ws_fuel (S (length s)) s.
Fixpoint join (sep : str) (l : list str) : str :=
  match l with
  | [] => []
  | [x] => x
  | x :: r => x ++ sep ++ join sep r
  end.

Definition cons_head (c : byte) (l : list str) : list str :=
  match l with
  | h :: t => (c :: h) :: t
  | [] => [[c]]
  end.
(* s.split(c) for a one-character separator *)
Fixpoint split_char (c : byte) (s : str) : list str :=
  match s with
  | [] => [[]]
  | x :: r => if byte_eqb c x then [] :: split_char c r else cons_head x (split_char c r)
  end.
(* s.split('..') : leftmost, non-overlapping *)
Definition is_dot (c : byte) : bool := byte_eqb "."%byte c.
Fixpoint split_dotdot (s : str) : list str :=
  match s with
  | [] => [[]]
  | c1 :: r =>
      match r with
      | c2 :: r2 => if is_dot c1 && is_dot c2 then [] :: split_dotdot r2 else cons_head c1 (split_dotdot r)
      | [] => [[c1]]
      end
  end.
(* '..' in s *)
Fixpoint has_dotdot (s : str) : bool :=
  match s with
  | c1 :: r => match r with
               | c2 :: _ => (is_dot c1 && is_dot c2) || has_dotdot r
               | [] => false
               end
  | [] => false
  end.
(* s.split(c, 1) when c occurs: (before, after) *)
Fixpoint break_at (c : byte) (s : str) : str * str :=
  match s with
  | [] => ([], [])
  | x :: r => if byte_eqb c x then ([], r) else let '(a, b) := break_at c r in (x :: a, b)
  end.
(* s.strip(c) *)
Fixpoint lstrip_char (c : byte) (s : str) : str :=
  match s with
  | x :: r => if byte_eqb c x then lstrip_char c r else s
  | [] => []
  end.
Fixpoint rstrip_char (c : byte) (s : str) : str :=
  match s with
  | [] => []
  | x :: r => match rstrip_char c r with
              | [] => if byte_eqb c x then [] else [x]
              | r' => x :: r'
              end
  end.
Definition strip_char (c : byte) (s : str) : str := rstrip_char c (lstrip_char c s).
(* s.index(c) / s.rindex(c) : None stands for ValueError *)
Fixpoint index_of (c : byte) (s : str) : option nat :=
  match s with
  | [] => None
  | x :: r => if byte_eqb c x then Some O else option_map S (index_of c r)
  end.
Fixpoint rindex_of (c : byte) (s : str) : option nat :=
  match s with
  | [] => None
  | x :: r => match rindex_of c r with
              | Some i => Some (S i)
              | None => if byte_eqb c x then Some O else None
              end
  end.
(* s[i:j] for 0 <= i, j *)
Definition slice (i j : nat) (s : str) : str := firstn (j - i) (skipn i s).

(* int(s) for a str: surrounding whitespace, optional sign, decimal digits with single underscores between digits;
   None stands for ValueError.  (Non-ASCII digits are outside the Latin-1 range except none.) *)
Definition is_digit (c : byte) : bool := match digit_val c with Some _ => true | None => false end.
Fixpoint int_body (s : str) (acc : Z) (prev_digit : bool) : option Z :=
  match s with
  | [] => if prev_digit then Some acc else None
  | c :: r => match digit_val c with
              | Some d => int_body r (acc * 10 + d) true
              | None => if byte_eqb "_"%byte c && prev_digit then
                          match r with
                          | c2 :: _ => if is_digit c2 then int_body r acc false else None
                          | [] => None
                          end
                        else None
              end
  end.
Definition py_int (s : str) : option Z :=
  match strip s with
  | "-"%byte :: r => option_map Z.opp (int_body r 0 false)
  | "+"%byte :: r => int_body r 0 false
  | r => int_body r 0 false
  end.

(* ------------------------------------------------------------------ Part 2: the reader *)

Inductive res (A : Type) := ROk (a : A) | RErr (k : str).
Arguments ROk {A} a.
Arguments RErr {A} k.
Definition ValueError : str := bs "ValueError"%bs.
Definition IndexError : str := bs "IndexError"%bs.
Definition TypeError : str := bs "TypeError"%bs.
Definition KeyError : str := bs "KeyError"%bs.
Definition AttributeError : str := bs "AttributeError"%bs.
Definition AssertionError : str := bs "AssertionError"%bs.
Definition UnboundLocalError : str := bs "UnboundLocalError"%bs.
Definition FuelError : str := bs "Fuel"%bs.

(* fts.py:80-93 Location: start, stop, strand, defect *)
Record loc := mkloc { lstart : Z; lstop : Z; lstrand : byte; ldefect : N }.
Definition plus : byte := "+"%byte.
Definition minus : byte := "-"%byte.
(* fts.py:84-86: Location.__init__ raises ValueError unless start < stop *)
Definition mk_location (a b : Z) (d : N) : res loc :=
  if a >=? b then RErr ValueError else ROk (mkloc a b plus d).
(* genbank.py:46: {'-': '+', '+': '-'}.get(l.strand, l.strand) *)
Definition flip_strand (c : byte) : byte :=
  if byte_eqb c minus then plus else if byte_eqb c plus then minus else c.
Definition flip (l : loc) : loc := mkloc (lstart l) (lstop l) (flip_strand (lstrand l)) (ldefect l).

(* genbank.py:72-74: start, stop = loc.split(splitter); Location(int(start)-1, int(stop), defect) *)
Definition range_of (parts : list str) (d : N) : res loc :=
  match parts with
  | [a; b] => match py_int a with
              | None => RErr ValueError
              | Some x => match py_int b with
                          | None => RErr ValueError
                          | Some y => mk_location (x - 1) y d
                          end
              end
  | _ => RErr ValueError
  end.
(* genbank.py:52-74 _parse_single_loc *)
Definition parse_single (s : str) : res loc :=
  match s with
  | [] => RErr IndexError                                                   (* loc[0] *)
  | c :: r =>
      let '(d1, s1) := if byte_eqb "<"%byte c then (D_BEYOND_LEFT, r) else (D_NONE, s) in
      let '(d2, s2) := if has ">"%byte s1 then (N.lor d1 D_BEYOND_RIGHT, remove_char ">"%byte s1) else (d1, s1) in
      if has_dotdot s2 then range_of (split_dotdot s2) d2
      else if has "."%byte s2 then range_of (split_char "."%byte s2) (N.lor d2 D_UNKNOWN_SINGLE_BETWEEN)
      else if has "^"%byte s2 then range_of (split_char "^"%byte s2) (N.lor d2 D_BETWEEN_CONSECUTIVE)
      else match py_int s2 with
           | Some n => mk_location (n - 1) n d2
           | None => RErr ValueError
           end
  end.

(* genbank.py:19-35 _split_toplevel; depth is the value after looking at the character *)
Definition depth_after (ch : byte) (depth : Z) : Z :=
  if byte_eqb "("%byte ch then depth + 1 else if byte_eqb ")"%byte ch then depth - 1 else depth.
Fixpoint split_top (s : str) (depth : Z) : list str :=
  match s with
  | [] => [[]]
  | ch :: r =>
      let d := depth_after ch depth in
      if byte_eqb ","%byte ch && (d =? 0) then [] :: split_top r d else cons_head ch (split_top r d)
  end.

Definition kw_join : str := bs "join"%bs.
Definition kw_order : str := bs "order"%bs.
Definition kw_complement : str := bs "complement"%bs.
Definition is_compound (s : str) : bool := startswith kw_join s || startswith kw_order s || startswith kw_complement s.

(* the list comprehension of genbank.py:43: [l for subloc in parts for l in _parse_locs(subloc)], first error wins *)
Fixpoint parse_all (rec : str -> res (list loc)) (ps : list str) : res (list loc) :=
  match ps with
  | [] => ROk []
  | p :: ps' => match rec p with
                | RErr k => RErr k
                | ROk l => match parse_all rec ps' with
                           | RErr k => RErr k
                           | ROk l2 => ROk (l ++ l2)
                           end
                end
  end.
(* genbank.py:38-49 _parse_locs; the recursion is on the text between the outer parentheses, hence fuel *)
Fixpoint parse_locs (fuel : nat) (s0 : str) : res (list loc) :=
  match fuel with
  | O => RErr FuelError
  | S f =>
      let s := strip s0 in
      if is_compound s then
        match index_of "("%byte s, rindex_of ")"%byte s with
        | Some i, Some j =>
            match parse_all (parse_locs f) (split_top (slice (S i) j s) 0) with
            | RErr k => RErr k
            | ROk ls => ROk (if startswith kw_complement s then map flip ls else ls)
            end
        | _, _ => RErr ValueError
        end
      else match parse_single s with
           | ROk l => ROk [l]
           | RErr k => RErr k
           end
  end.
Definition parse_locs_str (s : str) : res (list loc) := parse_locs (S (length s)) s.

(* fts.py:183-186: sorted(locs, key=start) resp. sorted(locs, key=stop, reverse=True); both stable *)
Fixpoint insert_asc (x : loc) (l : list loc) : list loc :=
  match l with
  | [] => [x]
  | y :: r => if lstart x <=? lstart y then x :: l else y :: insert_asc x r
  end.
Fixpoint insert_desc (x : loc) (l : list loc) : list loc :=
  match l with
  | [] => [x]
  | y :: r => if lstop x >=? lstop y then x :: l else y :: insert_desc x r
  end.
Definition sort_asc (l : list loc) : list loc := fold_right insert_asc [] l.
Definition sort_desc (l : list loc) : list loc := fold_right insert_desc [] l.
(* fts.py:163-187 LocationTuple.__new__ on a list of Location objects *)
Definition mk_loctuple (ls : list loc) : res (list loc) :=
  match ls with
  | [] => RErr ValueError
  | l0 :: _ =>
      if forallb (fun l => byte_eqb (lstrand l) (lstrand l0)) ls
      then ROk (if byte_eqb (lstrand l0) minus then sort_desc ls else sort_asc ls)
      else RErr ValueError
  end.

(* qualifier values: str, int, or the list collected under 'misc' *)
Inductive qv := QS (s : str) | QI (z : Z) | QL (l : list str).
Record feat := mkfeat { ftype : str; flocs : list loc; fquals : list (str * qv); fseqid : option str }.

(* dict / Attr with insertion order: assignment keeps the position of an existing key *)
Fixpoint aget {V} (k : str) (m : list (str * V)) : option V :=
  match m with
  | [] => None
  | (a, v) :: r => if str_eqb a k then Some v else aget k r
  end.
Fixpoint aset {V} (k : str) (v : V) (m : list (str * V)) : list (str * V) :=
  match m with
  | [] => [(k, v)]
  | (a, w) :: r => if str_eqb a k then (a, v) :: r else (a, w) :: aset k v r
  end.
Definition adel {V} (k : str) (m : list (str * V)) : list (str * V) :=
  filter (fun p => negb (str_eqb (fst p) k)) m.

(* header values: str or nested Attr *)
Inductive hv := HS (s : str) | HA (l : list (str * hv)).

Definition mem (k : str) (l : list str) : bool := existsb (str_eqb k) l.
Definition k_fts : str := bs "fts"%bs.
Definition k_seq : str := bs "seq"%bs.
Definition k_translation : str := bs "translation"%bs.
Definition k_misc : str := bs "misc"%bs.
Definition k_id : str := bs "id"%bs.
Definition k_accession : str := bs "accession"%bs.
Definition k_reference : str := bs "reference"%bs.
Definition k_features : str := bs "features"%bs.
Definition k_origin : str := bs "origin"%bs.
Definition k_locus : str := bs "locus"%bs.
Definition sp : byte := " "%byte.
Definition spaces (n : nat) : str := repeat sp n.

Inductive pmode := PHeader | PFts | POrigin.
(* local variables of iter_genbank (genbank.py:100-111); key2 is never reset, hence kept across records;
   its outer None is "unbound" *)
Record st := mkst {
  mode : pmode; attrs : list (str * hv); key : option str; subkey : option str;
  fts : list feat; fttype : option str; ftmeta : option (list (str * qv)); key2 : option (option str);
  locs : option str; seq : str; mfts : option (list feat) }.
Definition st0 (k2 : option (option str)) : st :=
  mkst PHeader [] None None [] None None k2 None [] None.

Record rec := mkrec { rid : str; rseq : str; rfts : option (list feat); rhdr : list (str * hv) }.

Definition set_mode (s : st) (m : pmode) := mkst m (attrs s) (key s) (subkey s) (fts s) (fttype s) (ftmeta s) (key2 s) (locs s) (seq s) (mfts s).
Definition set_hdr (s : st) (a : list (str * hv)) (k sk : option str) := mkst (mode s) a k sk (fts s) (fttype s) (ftmeta s) (key2 s) (locs s) (seq s) (mfts s).
Definition set_seq (s : st) (x : str) := mkst (mode s) (attrs s) (key s) (subkey s) (fts s) (fttype s) (ftmeta s) (key2 s) (locs s) x (mfts s).
Definition set_ft (s : st) (fl : list feat) (ty : option str) (fm : option (list (str * qv))) (k2 : option (option str)) (lc : option str) :=
  mkst (mode s) (attrs s) (key s) (subkey s) fl ty fm k2 lc (seq s) (mfts s).

(* val = line.strip().split(maxsplit=1)[1]  except: '' (genbank.py:151-154, 165-168) *)
Definition value_of (line : str) : str :=
  match rest_after_first (strip line) with Some v => v | None => [] end.

(* genbank.py:143-171: one header line (already rstripped, not blank, not '//') *)
Definition step_header (s : st) (line : str) : res st :=
  if negb (startswith [sp] line) then
    let k := strip (lower (firstn 12 line)) in
    if str_eqb k k_features then ROk (set_hdr (set_mode s PFts) (attrs s) None None)
    else
      let v := value_of line in
      let v := if str_eqb k k_locus then join (bs ", "%bs) (split_ws v) else v in
      ROk (set_hdr s (aset k (HS v) (attrs s)) (Some k) None)
  else if startswith (spaces 12) line then
    match key s with
    | None => RErr KeyError
    | Some k =>
        match aget k (attrs s) with
        | None => RErr KeyError
        | Some cur =>
            match (match subkey s with Some [] => None | x => x end) with      (* "if subkey:" -- '' is falsy *)
            | Some sk =>
                match cur with
                | HA l => match aget sk l with
                          | Some (HS x) => ROk (set_hdr s (aset k (HA (aset sk (HS (x ++ sp :: strip line)) l)) (attrs s)) (key s) (subkey s))
                          | Some (HA _) => RErr TypeError
                          | None => RErr KeyError
                          end
                | HS _ => RErr TypeError
                end
            | None =>
                match cur with
                | HS x => ROk (set_hdr s (aset k (HS (x ++ sp :: strip line)) (attrs s)) (key s) (subkey s))
                | HA _ => RErr TypeError
                end
            end
        end
    end
  else
    let sk := strip (lower (firstn 12 line)) in
    let v := value_of line in
    match key s with
    | None => RErr KeyError
    | Some k =>
        match aget k (attrs s) with
        | None => RErr KeyError
        | Some cur => ROk (set_hdr s (aset k (HA (aset sk (HS v) [(k_id, cur)])) (attrs s)) (key s) (Some sk))
        end
    end.

(* genbank.py:177-180: Feature(type=fttype, locs=_parse_locs(locs), meta=Meta(_genbank=ftmeta)); fts.append(ft) *)
Definition flush (s : st) : res st :=
  match fttype s with
  | None => ROk s
  | Some ty =>
      match locs s with
      | None => RErr AttributeError
      | Some lc =>
          match parse_locs_str lc with
          | RErr k => RErr k
          | ROk ls =>
              match mk_loctuple ls with
              | RErr k => RErr k
              | ROk lt =>
                  let fm := match ftmeta s with Some m => m | None => [] end in
                  ROk (set_ft s (fts s ++ [mkfeat ty lt fm None]) None (ftmeta s) (key2 s) (locs s))
              end
          end
      end
  end.

Definition dq : byte := """"%byte.
(* genbank.py:172-216: one line of the feature table *)
Definition step_fts (excl : list str) (s : st) (line : str) : res st :=
  if mem k_fts excl then
    (* genbank.py:180-184: skip the feature table, but still find the sequence *)
    if startswith k_origin (lower (strip (firstn 20 line))) then ROk (set_mode s POrigin) else ROk s
  else if negb (is_blank (firstn 20 line)) then
    match flush s with
    | RErr k => RErr k
    | ROk s1 =>
        match first_word (strip (firstn 20 line)) with
        | None => RErr IndexError
        | Some k =>
            if str_eqb (lower k) k_origin then
              ROk (mkst POrigin (attrs s1) (Some k) (subkey s1) (fts s1) (fttype s1) (ftmeta s1) (key2 s1) (locs s1) (seq s1) (Some (fts s1)))
            else
              ROk (set_ft s1 (fts s1) (Some k) (Some []) (Some None)
                     (Some (match rest_after_first (strip line) with Some v => v | None => [] end)))
        end
    end
  else
    let l := strip line in
    match (match l with c :: l1 => if byte_eqb "/"%byte c then Some l1 else None | [] => None end) with   (* startswith('/'), removeprefix *)
    | Some l1 =>
        if has "="%byte l1 then
          let '(k2, v) := break_at "="%byte l1 in
          let v' := if negb (startswith [dq] v)
                    then match py_int v with Some n => QI n | None => QS v end
                    else QS (strip_char dq v) in
          match ftmeta s with
          | None => RErr TypeError
          | Some m => ROk (set_ft s (fts s) (fttype s) (Some (aset k2 v' m)) (Some (Some k2)) (locs s))
          end
        else
          match ftmeta s with
          | None => RErr AttributeError
          | Some m =>
              match aget k_misc m with
              | None => ROk (set_ft s (fts s) (fttype s) (Some (aset k_misc (QL [l1]) m)) (key2 s) (locs s))
              | Some (QL xs) => ROk (set_ft s (fts s) (fttype s) (Some (aset k_misc (QL (xs ++ [l1])) m)) (key2 s) (locs s))
              | Some _ => RErr AttributeError
              end
          end
    | None =>
        match key2 s with
        | None => RErr UnboundLocalError
        | Some None =>
            match locs s with
            | None => RErr TypeError
            | Some lc => ROk (set_ft s (fts s) (fttype s) (ftmeta s) (key2 s) (Some (lc ++ l)))
            end
        | Some (Some k2) =>
            match ftmeta s with
            | None => RErr TypeError
            | Some m =>
                match aget k2 m with
                | None => RErr KeyError
                | Some (QS x) => ROk (set_ft s (fts s) (fttype s) (Some (aset k2 (QS (x ++ strip_char dq l)) m)) (key2 s) (locs s))
                | Some _ => RErr TypeError
                end
            end
        end
    end.

(* genbank.py:217-222 *)
Definition step_origin (excl : list str) (s : st) (line : str) : res st :=
  if mem k_seq excl then ROk (set_seq s [])
  else if (10 <? length line)%nat then ROk (set_seq s (seq s ++ remove_char sp (skipn 10 line)))
  else ROk s.

Definition set_seqid (i : str) (f : feat) : feat := mkfeat (ftype f) (flocs f) (fquals f) (Some i).
Definition del_translation (f : feat) : feat := mkfeat (ftype f) (flocs f) (adel k_translation (fquals f)) (fseqid f).

(* genbank.py:116-136: the '//' line; BioSeq(seq.upper(), meta=meta) (seq.py:213-224) *)
Definition finish (excl : list str) (s : st) : res rec :=
  match fttype s with
  | Some _ => RErr AssertionError
  | None =>
      let idr : res (option str) :=
        match aget k_accession (attrs s) with
        | None => ROk None
        | Some (HS v) => match first_word v with
                         | None => RErr IndexError
                         | Some w => ROk (Some w)                 (* for ft in meta.get('fts', ()) *)
                         end
        | Some (HA _) => RErr AttributeError
        end in
      match idr with
      | RErr k => RErr k
      | ROk oid =>
          let f1 := match oid with
                    | Some i => option_map (map (set_seqid i)) (mfts s)
                    | None => mfts s
                    end in
          let f2 := if mem k_translation excl then option_map (map del_translation) f1 else f1 in
          (* genbank.py:124-127: del meta._genbank.reference, any exception swallowed *)
          ROk (mkrec (match oid with Some i => i | None => [] end) (upper (upper (seq s))) f2 (adel k_reference (attrs s)))
      end
  end.

(* genbank.py:112-224: the loop over lines *)
Definition sl2 : str := bs "//"%bs.
Fixpoint run_lines (excl : list str) (ls : list str) (s : st) (acc : list rec) : res (list rec) :=
  match ls with
  | [] => ROk (rev acc)
  | raw :: rest =>
      let line := rstrip raw in
      if is_blank line then run_lines excl rest s acc
      else if str_eqb (strip line) sl2 then
        match finish excl s with
        | RErr k => RErr k
        | ROk r => run_lines excl rest (st0 (key2 s)) (r :: acc)
        end
      else
        let r := match mode s with
                 | PHeader => step_header s line
                 | PFts => step_fts excl s line
                 | POrigin => step_origin excl s line
                 end in
        match r with
        | RErr k => RErr k
        | ROk s' => run_lines excl rest s' acc
        end
  end.

Definition nl : byte := x0a.
(* iterating a text file: lines end at '\n' (the newline itself is removed by rstrip) *)
Definition file_lines (text : str) : list str := split_char nl text.
Definition iter_genbank (excl : list str) (text : str) : res (list rec) :=
  run_lines excl (file_lines text) (st0 None) [].
(* genbank.py:77-90 read_fts_genbank *)
Definition read_fts_genbank (excl : list str) (text : str) : res (list feat) :=
  match iter_genbank (k_seq :: excl) text with
  | RErr k => RErr k
  | ROk rs =>
      (fix go (rs : list rec) : res (list feat) :=
         match rs with
         | [] => ROk []
         | r :: rs' => match rfts r with
                       | None => go rs'                    (* seq.fts = meta.setdefault('fts', FeatureList()), seq.py:315 *)
                       | Some fl => match go rs' with RErr k => RErr k | ROk l => ROk (fl ++ l) end
                       end
         end) rs
  end.

(* ------------------------------------------------------------------ Part 3: specification side *)

(* INSDC location expressions; numbers are kept as the digit strings written in the file, their value is dval *)
Inductive lexp :=
| LPos (lt gt : bool) (n : str)                 (* n, <n, >n *)
| LRange (lt : bool) (a : str) (gt : bool) (b : str)   (* a..b, <a..b, a..>b *)
| LDot (a b : str)                              (* a.b  *)
| LBetween (a b : str)                          (* a^b  *)
| LCompl (e : lexp)
| LJoin (es : list lexp)
| LOrder (es : list lexp).

Definition dval (ds : str) : Z := match digits_acc ds 0 with Some z => z | None => 0 end.
Definition all_digits (ds : str) : bool := match ds with [] => false | _ => forallb is_digit ds end.

Definition opt_ch (b : bool) (c : byte) : str := if b then [c] else [].
Definition comma : str := [","%byte].
Fixpoint print (e : lexp) : str :=
  match e with
  | LPos lt gt n => opt_ch lt "<"%byte ++ opt_ch gt ">"%byte ++ n
  | LRange lt a gt b => opt_ch lt "<"%byte ++ a ++ bs ".."%bs ++ opt_ch gt ">"%byte ++ b
  | LDot a b => a ++ bs "."%bs ++ b
  | LBetween a b => a ++ bs "^"%bs ++ b
  | LCompl e => kw_complement ++ "("%byte :: print e ++ [")"%byte]
  | LJoin es => kw_join ++ "("%byte :: join comma (map print es) ++ [")"%byte]
  | LOrder es => kw_order ++ "("%byte :: join comma (map print es) ++ [")"%byte]
  end.

Definition dflags (lt gt : bool) : N :=
  N.lor (if lt then D_BEYOND_LEFT else D_NONE) (if gt then D_BEYOND_RIGHT else D_NONE).
(* meaning of a location expression: 0-based half-open intervals in the order written *)
Fixpoint sem (e : lexp) : list loc :=
  match e with
  | LPos lt gt n => [mkloc (dval n - 1) (dval n) plus (dflags lt gt)]
  | LRange lt a gt b => [mkloc (dval a - 1) (dval b) plus (dflags lt gt)]
  | LDot a b => [mkloc (dval a - 1) (dval b) plus D_UNKNOWN_SINGLE_BETWEEN]
  | LBetween a b => [mkloc (dval a - 1) (dval b) plus D_BETWEEN_CONSECUTIVE]
  | LCompl e => map flip (sem e)
  | LJoin es => flat_map sem es
  | LOrder es => flat_map sem es
  end.

Fixpoint wf_lexp (e : lexp) : bool :=
  match e with
  | LPos _ _ n => all_digits n && (1 <=? dval n)
  | LRange _ a _ b => all_digits a && all_digits b && (1 <=? dval a) && (dval a <=? dval b)
  | LDot a b => all_digits a && all_digits b && (1 <=? dval a) && (dval a <? dval b)
  | LBetween a b => all_digits a && all_digits b && (1 <=? dval a) && (dval a <? dval b)
  | LCompl e => wf_lexp e
  | LJoin es => negb (match es with [] => true | _ => false end) && forallb wf_lexp es
  | LOrder es => negb (match es with [] => true | _ => false end) && forallb wf_lexp es
  end.
Fixpoint depth (e : lexp) : nat :=
  match e with
  | LCompl e => S (depth e)
  | LJoin es => S (fold_right (fun e n => Nat.max (depth e) n) O es)
  | LOrder es => S (fold_right (fun e n => Nat.max (depth e) n) O es)
  | _ => O
  end.
(* LocationTuple accepts one strand per feature only (fts.py:179-182) *)
Definition one_strand (ls : list loc) : bool :=
  match ls with
  | [] => false
  | l0 :: _ => forallb (fun l => byte_eqb (lstrand l) (lstrand l0)) ls
  end.
Definition sort_locs (ls : list loc) : list loc :=
  match ls with
  | l0 :: _ => if byte_eqb (lstrand l0) minus then sort_desc ls else sort_asc ls
  | [] => []
  end.

(* abstract qualifiers, features, header fields, records *)
Inductive qual :=
| QText (k : str) (chunks : list str)      (* /k="c1 c2 ..."  one line per chunk *)
| QNum (k : str) (digits : str)            (* /k=123 *)
| QRaw (k : str) (v : str)                 (* /k=word   (unquoted; an int when int() accepts it: -3, +5, 1_0, 007) *)
| QFlag (k : str).                         (* /k *)
Record afeat := mkafeat { akey : str; aloc : lexp; awrap : list nat; aquals : list qual }.
Record hfield := mkhfield { hk : str; hlines : list str; hsubs : list (str * list str) }.
Record arec := mkarec { ahdr : list hfield; afts : list afeat; aseq : str; ablank : bool; aorigin : bool; afeatures : bool }.

Definition pad_right (n : nat) (s : str) : str := s ++ spaces (n - length s).
Definition pad_left (n : nat) (s : str) : str := spaces (n - length s) ++ s.

(* break the location text into pieces of the given sizes (any break point; the rest of the text is the last piece) *)
Fixpoint wrap_at (s : str) (w : list nat) : list str :=
  match w with
  | [] => [s]
  | n :: w' => if (n =? 0)%nat || (length s <=? n)%nat then [s] else firstn n s :: wrap_at (skipn n s) w'
  end.

Definition render_field_lines (first : str) (ls : list str) : list str :=
  match ls with
  | [] => [rstrip first]
  | l :: r => (first ++ l) :: map (fun x => spaces 12 ++ x) r
  end.
Definition render_hfield (h : hfield) : list str :=
  render_field_lines (pad_right 12 (hk h)) (hlines h)
  ++ flat_map (fun p => render_field_lines (spaces 2 ++ pad_right 10 (fst p)) (snd p)) (hsubs h).
Definition render_qual (q : qual) : list str :=
  let ind := spaces 21 in
  match q with
  | QText k chunks =>
      match chunks with
      | [] => [ind ++ "/"%byte :: k ++ "="%byte :: [dq; dq]]
      | c :: r =>
          (fix go (first : str) (r : list str) : list str :=
             match r with
             | [] => [first ++ [dq]]
             | c2 :: r' => first :: go (ind ++ c2) r'
             end) (ind ++ "/"%byte :: k ++ "="%byte :: dq :: c) r
      end
  | QNum k d => [ind ++ "/"%byte :: k ++ "="%byte :: d]
  | QRaw k v => [ind ++ "/"%byte :: k ++ "="%byte :: v]
  | QFlag k => [ind ++ "/"%byte :: k]
  end.
Definition render_feat (f : afeat) : list str :=
  match wrap_at (print (aloc f)) (awrap f) with
  | [] => []
  | c :: r => (spaces 5 ++ pad_right 16 (akey f) ++ c) :: map (fun x => spaces 21 ++ x) r
  end ++ flat_map render_qual (aquals f).
(* ORIGIN block: 60 residues per line in groups of 10, numbered from 1 in a 9-column field *)
Fixpoint groups (fuel n : nat) (s : str) : list str :=
  match fuel with
  | O => []
  | S f => match s with
           | [] => []
           | _ => firstn n s :: groups f n (skipn n s)
           end
  end.
Definition render_origin (s : str) : list str :=
  let lines := groups (S (length s)) 60 s in
  (fix go (ls : list str) (pos : nat) : list str :=
     match ls with
     | [] => []
     | l :: r => (pad_left 9 (dec_of_nat pos) ++ sp :: join [sp] (groups 7 10 l)) :: go r (pos + 60)%nat
     end) lines 1%nat.
Definition origin_positions (s : str) : list nat :=
  map (fun i => (1 + 60 * i)%nat) (List.seq 0 (length (groups (S (length s)) 60 s))).
Definition feat_header : str := bs "FEATURES             Location/Qualifiers"%bs.
Definition origin_line : str := bs "ORIGIN"%bs.
Definition render_rec (r : arec) : list str :=
  flat_map render_hfield (ahdr r) ++ (if afeatures r then [feat_header] ++ flat_map render_feat (afts r) else [])
  ++ (if aorigin r then [origin_line] ++ render_origin (aseq r) else []) ++ [sl2] ++ (if ablank r then [[]] else []).
Definition render_gb (rs : list arec) : str :=
  flat_map (fun l => l ++ [nl]) (flat_map render_rec rs).

(* what the property says reading must give *)
Definition k_ACCESSION : str := bs "ACCESSION"%bs.
Definition acc_step (o : option str) (h : hfield) : option str :=
  if str_eqb (hk h) k_ACCESSION then match hlines h with l :: _ => first_word l | [] => None end else o.
Definition view_id (r : arec) : option str := fold_left acc_step (ahdr r) None.
Definition is_flag (q : qual) : bool := match q with QFlag _ => true | _ => false end.
Definition flag_names (qs : list qual) : list str :=
  flat_map (fun q => match q with QFlag k => [k] | _ => [] end) qs.
(* genbank.py:199-203: an unquoted value becomes an int when int() accepts it *)
Definition raw_val (v : str) : qv := match py_int v with Some n => QI n | None => QS v end.
(* qualifiers in file order; the flags are collected in one list that takes the place of the first flag *)
Fixpoint view_quals (qs : list qual) (flags : list str) (seen_flag : bool) : list (str * qv) :=
  match qs with
  | [] => []
  | QText k cs :: r => (k, QS (concat cs)) :: view_quals r flags seen_flag
  | QNum k d :: r => (k, QI (dval d)) :: view_quals r flags seen_flag
  | QRaw k v :: r => (k, raw_val v) :: view_quals r flags seen_flag
  | QFlag _ :: r => if seen_flag then view_quals r flags true else (k_misc, QL flags) :: view_quals r flags true
  end.
(* the qualifier dict as the reader builds it (genbank.py:197-215): assignment ftmeta[k] = v keeps the position of the first
   occurrence of k and the value of the last; flags are appended to the list under 'misc' *)
Definition apply_qual (m : list (str * qv)) (q : qual) : list (str * qv) :=
  match q with
  | QText k cs => aset k (QS (concat cs)) m
  | QNum k dg => aset k (QI (dval dg)) m
  | QRaw k v => aset k (raw_val v) m
  | QFlag k => match aget k_misc m with
               | None => aset k_misc (QL [k]) m
               | Some (QL xs) => aset k_misc (QL (xs ++ [k])) m
               | Some _ => m
               end
  end.
Definition quals_dict (qs : list qual) : list (str * qv) := fold_left apply_qual qs [].
(* vocabulary of C10_quals_dict: the value a qualifier line assigns, the last assignment to a key, keys in order of first use *)
Definition qassign (q : qual) : option (str * qv) :=
  match q with
  | QText k cs => Some (k, QS (concat cs))
  | QNum k dg => Some (k, QI (dval dg))
  | QRaw k v => Some (k, raw_val v)
  | QFlag _ => None
  end.
Fixpoint last_val (k : str) (qs : list qual) (acc : option qv) : option qv :=
  match qs with
  | [] => acc
  | q :: r => last_val k r (match qassign q with Some (k', v) => if str_eqb k' k then Some v else acc | None => acc end)
  end.
Definition dkey (q : qual) : str := match q with QFlag _ => k_misc | QText k _ | QNum k _ | QRaw k _ => k end.
Definition add_key (ks : list str) (k : str) : list str := if mem k ks then ks else ks ++ [k].
Definition first_use (ks : list str) : list str := fold_left add_key ks [].
Definition view_feat (excl : list str) (oid : option str) (f : afeat) : feat :=
  let qs := quals_dict (aquals f) in
  mkfeat (akey f) (sort_locs (sem (aloc f)))
         (if mem k_translation excl then adel k_translation qs else qs) oid.
(* header metadata (meta._genbank): one entry per field name in lower case (a repeated field replaces the value at the first
   position); continuation lines joined with one blank; LOCUS words joined with ", "; every sub-field line wraps the value so far
   as Attr(id=<value so far>, <subfield>=<text>) (genbank.py:143-171) *)
Definition add_cont (x : str) (ts : list str) : str := fold_left (fun acc t => acc ++ sp :: t) ts x.
Definition lines_val (ls : list str) : str := match ls with [] => [] | l :: r => add_cont l r end.
Definition main_val (h : hfield) : str :=
  match hlines h with
  | [] => []
  | l :: r => add_cont (if str_eqb (lower (hk h)) k_locus then join (bs ", "%bs) (split_ws l) else l) r
  end.
Definition sub_val (V : hv) (p : str * list str) : hv := HA (aset (lower (fst p)) (HS (lines_val (snd p))) [(k_id, V)]).
Definition field_val (h : hfield) : hv := fold_left sub_val (hsubs h) (HS (main_val h)).
Definition hdr_step (a : list (str * hv)) (h : hfield) : list (str * hv) := aset (lower (hk h)) (field_val h) a.
Definition view_hdr (hs : list hfield) : list (str * hv) := fold_left hdr_step hs [].
Definition is_nil {A} (l : list A) : bool := match l with [] => true | _ => false end.
(* a record without a FEATURES line: the reader stays in the header state, so the ORIGIN line is a header field 'origin' and every
   residue line a sub-field line of it (name = what stands in its first 12 columns, text = the residue groups); the residues are
   silently dropped (genbank.py:143-171 is never left) *)
Definition origin_hdr_val (lines : list str) : hv :=
  fold_left (fun V l => HA (aset (strip (lower (firstn 12 l))) (HS (value_of l)) [(k_id, V)])) lines (HS []).
Definition in_table (r : arec) : bool := aorigin r && afeatures r.
Definition view_rec (excl : list str) (r : arec) : rec :=
  let oid := view_id r in
  mkrec (match oid with Some i => i | None => [] end)
        (if mem k_seq excl || negb (in_table r) then [] else upper (aseq r))
        (* meta.fts is only set when the ORIGIN line is reached in the feature table (genbank.py:186-188) *)
        (if mem k_fts excl || negb (in_table r) then None else Some (map (view_feat excl oid) (afts r)))
        (adel k_reference (if aorigin r && negb (afeatures r)
                           then aset k_origin (origin_hdr_val (render_origin (aseq r))) (view_hdr (ahdr r))
                           else view_hdr (ahdr r))).
Definition view (excl : list str) (rs : list arec) : list rec := map (view_rec excl) rs.
Definition view_fts (excl : list str) (rs : list arec) : list feat :=
  flat_map (fun r => match rfts r with Some l => l | None => [] end) (view (k_seq :: excl) rs).

(* ------------------------------------------------------------------ Part 4: domain, harness *)

Definition printable (c : byte) : bool := let n := Byte.to_N c in (N.leb 32 n && N.leb n 126)%N.
Definition is_upper (c : byte) : bool := let n := Byte.to_N c in (N.leb 65 n && N.leb n 90)%N.
Definition is_lower (c : byte) : bool := let n := Byte.to_N c in (N.leb 97 n && N.leb n 122)%N.
Definition is_alpha (c : byte) : bool := is_upper c || is_lower c.
Definition is_word (c : byte) : bool := is_alpha c || is_digit c || byte_eqb "_"%byte c.
Definition is_keych (c : byte) : bool := is_word c || byte_eqb "-"%byte c || byte_eqb "'"%byte c || byte_eqb "*"%byte c.
Definition nonempty {A} (l : list A) : bool := match l with [] => false | _ => true end.
Fixpoint distinct (l : list str) : bool :=
  match l with
  | [] => true
  | x :: r => negb (mem x r) && distinct r
  end.
(* F20 (open finding): keys named like mapping methods shadow them on Attr *)
Definition reserved : list str :=
  [bs "items"%bs; bs "keys"%bs; bs "values"%bs; bs "get"%bs; bs "update"%bs; bs "pop"%bs; bs "copy"%bs;
   bs "setdefault"%bs; bs "clear"%bs; bs "popitem"%bs].
(* a text line of a header value: printable, no blanks at the ends, not the record terminator *)
Definition wf_text (s : str) : bool :=
  forallb printable s && nonempty s && negb (is_ws (hd sp s)) && negb (is_ws (last s sp)) && negb (str_eqb s sl2).
Definition wf_hfield (h : hfield) : bool :=
  nonempty (hk h) && forallb is_upper (hk h) && (length (hk h) <=? 10)%nat
  && negb (str_eqb (lower (hk h)) k_features) && negb (mem (lower (hk h)) reserved)
  && forallb wf_text (hlines h)
  && forallb (fun p => nonempty (fst p) && forallb is_upper (fst p) && (length (fst p) <=? 9)%nat
                       && negb (mem (lower (fst p)) reserved) && forallb wf_text (snd p)) (hsubs h)
  && (if str_eqb (hk h) k_ACCESSION then nonempty (hlines h) && negb (nonempty (hsubs h)) else true).
Definition qkey (q : qual) : str := match q with QText k _ | QNum k _ | QRaw k _ | QFlag k => k end.
Definition wf_qkey (k : str) : bool :=
  nonempty k && forallb is_word k && negb (str_eqb k k_misc) && negb (mem k reserved).
Definition no_ws (s : str) : bool := forallb (fun c => negb (is_ws c)) s.
(* a quoted value keeps double quotes inside (INSDC writes an embedded quote doubled; the reader does not unescape it) but
   val.strip(dq) removes every quote at the two ends of each line, so a piece must not begin or end with one *)
Definition noq_ends (c : str) : bool := negb (byte_eqb dq (hd sp c)) && negb (byte_eqb dq (last c sp)).
Definition wf_qual (q : qual) : bool :=
  match q with
  | QText k cs =>
      wf_qkey k && forallb (fun c => forallb printable c && noq_ends c) cs
      && match cs with
         | [] | [_] => true
         (* a value over several lines: every piece is non-empty and has no blank at its ends (the reader strips each line; blanks
            INSIDE a piece are kept), the pieces are joined without a separator; a continuation must not look like a qualifier *)
         | c0 :: r => forallb (fun c => nonempty c && negb (is_ws (hd sp c)) && negb (is_ws (last c sp))) cs
                      && forallb (fun c => negb (startswith [("/"%byte)] c)) r
         end
  | QNum k d => wf_qkey k && all_digits d
  | QRaw k v => wf_qkey k && nonempty v && forallb printable v && no_ws v && negb (has dq v)
  | QFlag k => nonempty k && forallb is_word k
  end.
(* everything but the one-strand condition: such a feature is read up to the point where its LocationTuple is built *)
Definition wf_afeat_pre (f : afeat) : bool :=
  nonempty (akey f) && forallb is_keych (akey f) && (length (akey f) <=? 15)%nat
  && negb (startswith k_origin (lower (akey f)))   (* with 'fts' excluded a key line starting with 'origin' ends the table *)
  && wf_lexp (aloc f)
  && forallb wf_qual (aquals f).
Definition wf_afeat (f : afeat) : bool := wf_afeat_pre f && one_strand (sem (aloc f)).
Definition wf_arec (excl : list str) (r : arec) : bool :=
  forallb wf_hfield (ahdr r)
  && (length (filter (fun h => str_eqb (hk h) k_ACCESSION) (ahdr r)) <=? 1)%nat
  (* with fts excluded the feature table is skipped, not parsed: a feature on both strands is harmless then *)
  && forallb (fun f => wf_afeat_pre f && (mem k_fts excl || one_strand (sem (aloc f)))) (afts r)
  && forallb is_alpha (aseq r)
  (* the ORIGIN line numbers fit their 9-column field (fewer than 10^9 residues) *)
  && forallb (fun p => all_digits (dec_of_nat p) && (length (dec_of_nat p) <=? 9)%nat) (origin_positions (aseq r))
  (* a record without ORIGIN: a pending feature at '//' is an AssertionError (C10_read_noorigin), so either no feature or fts excluded *)
  && (aorigin r || mem k_fts excl || is_nil (afts r))
  (* a record without FEATURES has no feature lines; its ORIGIN line numbers leave a leading blank (fewer than 10^8 residues) *)
  && (afeatures r || (is_nil (afts r) && forallb (fun p => (length (dec_of_nat p) <=? 8)%nat) (origin_positions (aseq r)))).
Definition wf_C10 (excl : list str) (rs : list arec) : bool :=
  nonempty rs && forallb (wf_arec excl) rs
  (* no rendered line contains a newline (implied by the character classes above; kept as a checked condition) *)
  && forallb (fun l => negb (has nl l)) (flat_map render_rec rs).

(* ---- outside the one-strand / ORIGIN domain: the error classes (C10_read_errors) ---- *)
(* a feature on both strands: LocationTuple raises ValueError when the feature is built, i.e. at the next key line or ORIGIN *)
Definition bad_strand (f : afeat) : bool := wf_afeat_pre f && negb (one_strand (sem (aloc f))).
(* well-formed features, then one on both strands, then features that are well-formed up to their strands *)
Fixpoint strand_scan (fs : list afeat) : bool :=
  match fs with
  | [] => false
  | f :: r => if wf_afeat f then strand_scan r else bad_strand f && forallb wf_afeat_pre r
  end.
(* the error a record causes: ValueError for a both-strand feature (record with ORIGIN), AssertionError (an assert statement,
   genbank.py:117-118) for a record without ORIGIN whose last feature is still pending at '//' *)
Definition err_rec (excl : list str) (r : arec) : option str :=
  if mem k_fts excl || negb (forallb wf_hfield (ahdr r)) || negb (afeatures r) then None
  else if aorigin r then (if strand_scan (afts r) then Some ValueError else None)
  else if negb (is_nil (afts r)) && forallb wf_afeat (afts r) then Some AssertionError else None.
(* the first record that is not well-formed decides *)
Fixpoint err_class (excl : list str) (rs : list arec) : option str :=
  match rs with
  | [] => None
  | r :: rest => if wf_arec excl r then err_class excl rest else err_rec excl r
  end.
Definition no_nl (rs : list arec) : bool := forallb (fun l => negb (has nl l)) (flat_map render_rec rs).

(* ---- values for the harness ---- *)
Definition v_loc (l : loc) : val := VL [VI (lstart l); VI (lstop l); VS [lstrand l]; VI (Z.of_N (ldefect l))].
Definition v_qv (q : qv) : val := match q with QS s => VS s | QI z => VI z | QL l => VL (map VS l) end.
Definition v_feat (f : feat) : val :=
  VL [VS (ftype f); VL (map v_loc (flocs f)); VL (map (fun p => VL [VS (fst p); v_qv (snd p)]) (fquals f));
      VOpt VS (fseqid f)].
Fixpoint v_hv (h : hv) : val :=
  match h with
  | HS s => VS s
  | HA l => VL (map (fun p => VL [VS (fst p); v_hv (snd p)]) l)
  end.
Definition v_hdr (l : list (str * hv)) : val := VL (map (fun p => VL [VS (fst p); v_hv (snd p)]) l).
Definition v_rec (r : rec) : val :=
  VL [VS (rid r); VS (rseq r); VOpt (fun l => VL (map v_feat l)) (rfts r); v_hdr (rhdr r)].
Definition v_res {A} (f : A -> val) (r : res A) : val := match r with ROk a => f a | RErr k => VE k end.
Definition v_recs (l : list rec) : val := VL (map v_rec l).
Definition v_feats (l : list feat) : val := VL (map v_feat l).

(* polynomial hash of the rendered text on primitive 63-bit integers (all intermediate values < 2^38) *)
Fixpoint hash_go (s : str) (h : Uint63.int) : Uint63.int :=
  match s with
  | [] => h
  | c :: r => hash_go r (Uint63.mod (Uint63.add (Uint63.mul h 131%uint63) (Uint63.of_Z (Z.of_N (Byte.to_N c)))) 1000000007%uint63)
  end.
Definition text_hash (s : str) : Z := Uint63.to_Z (hash_go s 7%uint63).

Fixpoint val_eqb (a b : val) : bool :=
  match a, b with
  | VNone, VNone => true
  | VB x, VB y => Bool.eqb x y
  | VI x, VI y => Z.eqb x y
  | VS x, VS y => str_eqb x y
  | VE x, VE y => str_eqb x y
  | VL x, VL y =>
      (fix go (x y : list val) : bool :=
         match x, y with
         | [], [] => true
         | p :: x', q :: y' => val_eqb p q && go x' y'
         | _, _ => false
         end) x y
  | _, _ => false
  end.

(* result pair [read = iter_; read_fts] of the reader on a text (read and iter_ both list iter_genbank) *)
Definition run_text (excl : list str) (text : str) : val :=
  VL [v_res v_recs (iter_genbank excl text); v_res v_feats (read_fts_genbank excl text)].
Definition spec_val (excl : list str) (rs : list arec) : val :=
  VL [v_recs (view excl rs); v_feats (view_fts excl rs)].
(* [in domain; length and hash of the rendered text; model result = view; model result] *)
Definition run_C10 (excl : list str) (rs : list arec) : val :=
  let text := render_gb rs in
  let m := run_text excl text in
  let wf := wf_C10 excl rs in
  let e := if wf then None else if no_nl rs then err_class excl rs else None in
  VL [VB (wf || match e with Some _ => true | None => false end); VI (Z.of_nat (length text)); VI (text_hash text);
      VB (val_eqb m (match e with Some k => VL [VE k; VE k] | None => spec_val excl rs end)); m].
(* raw text (mutated files): never in the domain *)
Definition run_C10_raw (excl : list str) (text : str) : val :=
  VL [VB false; VI (Z.of_nat (length text)); VI (text_hash text); VB false; run_text excl text].

(* ------------------------------------------------------------------ Part 5: a finite box of files for the read_render clause *)
Definition d (s : bstr) : str := bs s.
Arguments d s%bs.
Definition box_leaves : list lexp :=
  [LPos false false (d "7"); LPos true false (d "7"); LPos false true (d "7"); LPos false false (d "1");
   LRange false (d "3") false (d "9"); LRange true (d "3") false (d "9"); LRange false (d "3") true (d "9");
   LRange true (d "3") true (d "12"); LRange false (d "5") false (d "5"); LRange false (d "100") false (d "2000");
   LDot (d "3") (d "9"); LBetween (d "3") (d "4")].
Definition r2030 : lexp := LRange false (d "20") false (d "30").
Definition box_wrappers : list (lexp -> lexp) :=
  [fun e => e; LCompl; fun e => LJoin [e; r2030]; fun e => LCompl (LJoin [e; r2030]);
   fun e => LJoin [LCompl r2030; LCompl e]; fun e => LOrder [r2030; e]; fun e => LCompl (LCompl e);
   fun e => LJoin [LJoin [e; LPos false false (d "1")]; LOrder [LRange false (d "40") false (d "50")]];
   fun e => LCompl (LOrder [LCompl (LCompl e); LJoin [r2030; LCompl (LCompl r2030)]])].
Definition box_quals : list qual :=
  [QNum (d "codon_start") (d "1"); QFlag (d "pseudo"); QText (d "note") [d "a=b; c"]; QRaw (d "rpt_type") (d "tandem");
   QText (d "translation") [d "MKV"; d "LLA"; d "W"]; QFlag (d "partial"); QText (d "product") [d ""]].
Definition box_hdr : list hfield :=
  [mkhfield (d "LOCUS") [d "AB000001     20 bp    DNA"] [];
   mkhfield (d "DEFINITION") [d "test record"; d "continued."] [];
   mkhfield (d "ACCESSION") [d "AB000001 X2"] [];
   mkhfield (d "SOURCE") [d "Some virus"] [(d "ORGANISM", [d "Some virus"; d "Viruses; Riboviria."])];
   mkhfield (d "REFERENCE") [d "1  (bases 1 to 20)"] [(d "AUTHORS", [d "Smith,J."]); (d "TITLE", [d "Direct"])]].
Definition box_file (w : list nat) (e : lexp) : list arec :=
  [mkarec box_hdr [mkafeat (d "source") (LRange false (d "1") false (d "70")) [] [QText (d "organism") [d "Some virus"]];
                   mkafeat (d "CDS") e w box_quals]
          (d "acgtacgtacgtacgtacgtacgtacgtacgtacgtacgtacgtacgtacgtacgtacgtacgtacgtac") false true true;
   mkarec [mkhfield (d "LOCUS") [d "X"] []] [mkafeat (d "gene") e [] []] (d "ACGTnn") true true true].
Definition box_files : list (list arec) :=
  flat_map (fun w => flat_map (fun f => map (fun e => box_file w (f e)) box_leaves) box_wrappers)
           [[]; [1; 3; 11; 1; 2; 9]%nat; [15; 7]%nat].
Definition box_excl : list (list str) :=
  [[]; [k_seq]; [k_translation]; [k_translation; k_seq]; [k_fts]; [k_fts; k_seq]; [k_translation; k_fts]].
Definition box_ok (excl : list str) (rs : list arec) : bool :=
  wf_C10 excl rs && val_eqb (run_text excl (render_gb rs)) (spec_val excl rs).

(* ------------------------------------------------------------------ Part 6: vocabulary of the feature-table theorem *)
(* the key line and the wrapped location lines that render_feat writes (render_feat f = loc_lines .. ++ qualifier lines) *)
Definition loc_lines (key : str) (cs : list str) : list str :=
  match cs with
  | [] => []
  | c :: r => (spaces 5 ++ pad_right 16 key ++ c) :: map (fun x => spaces 21 ++ x) r
  end.
(* the reader's feature-table step function iterated over lines *)
Fixpoint steps (excl : list str) (s : st) (ls : list str) : res st :=
  match ls with
  | [] => ROk s
  | l :: r => match step_fts excl s l with ROk s' => steps excl s' r | RErr k => RErr k end
  end.
Definition nows (s : str) : bool := forallb (fun c => negb (is_ws c)) s.
Definition good_chunk (c : str) : bool :=
  nonempty c && nows c && negb (match c with x :: _ => byte_eqb "/" x | [] => false end).
