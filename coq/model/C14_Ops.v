(* C14 pre-history: public operations that are applied to a basket BEFORE it is written.  Feature.rc (fts.py:390-400) with
   Location._reverse / LocationTuple._reverse (fts.py:151-156, 255-256), Defect._reverse / Strand._reverse (fts.py:52-60, 76-77),
   FeatureList.rc (fts.py:771-780), assignment to Feature.locs (fts.py:296-298), item assignment on sequence / basket metadata
   (Attr.__setitem__, meta.py:49-54).  No proofs here. *)
From Coq Require Import List ZArith NArith Bool.
From Coq.Strings Require Import Byte.
Import ListNotations.
From SV Require Import Text G_flags C14_Model C14_Text.

Definition E_Index : str := bs "IndexError"%bs.

(* Strand._reverse: {'+': '-', '-': '+'}.get(self, self) *)
Definition strand_reverse (s : str) : str :=
  if str_eqb s S_plus then S_minus else if str_eqb s S_minus then S_plus else s.
(* Defect._reverse: for each LEFT/RIGHT pair, exactly one of the two set -> both flipped *)
Definition swap_pair (lo hi : N) (d : Z) : Z :=
  let m := Z.lor (Z.of_N lo) (Z.of_N hi) in
  let x := Z.land d m in
  if Z.eqb x (Z.of_N lo) || Z.eqb x (Z.of_N hi) then Z.lxor d m else d.
Definition defect_reverse (d : Z) : Z :=
  swap_pair D_UNKNOWN_LEFT D_UNKNOWN_RIGHT (swap_pair D_BEYOND_LEFT D_BEYOND_RIGHT (swap_pair D_MISS_LEFT D_MISS_RIGHT d)).
(* Location._reverse(seqlen): Location(seqlen - stop, seqlen - start, strand', defect', meta=loc.meta); reading loc.meta creates the
   empty Meta, Meta(meta) copies it *)
Definition loc_reverse (L : Z) (o : obj) : obj :=
  match o with
  | OLoc a b s d m =>
      OLoc (L - b) (L - a) (strand_reverse s) (defect_reverse d) (Some (match m with None => [] | Some kv => conv_kv kv end))
  | _ => o
  end.
(* Feature.rc(seqlen): self.locs = LocationTuple([loc._reverse(seqlen) for loc in self.locs]) *)
Definition feat_rc (L : Z) (f : obj) : res obj :=
  match f with
  | OFeat m locs => bind (location_tuple (map (loc_reverse L) locs)) (fun ls => Ok (OFeat m ls))
  | _ => Err E_Attribute
  end.
(* ft.locs = value *)
Definition feat_set_locs (new : list obj) (f : obj) : res obj :=
  match f with
  | OFeat m _ => bind (location_tuple new) (fun ls => Ok (OFeat m ls))
  | _ => Err E_Attribute
  end.

Fixpoint upd_nth {A} (n : nat) (f : A -> res A) (l : list A) : res (list A) :=
  match l, n with
  | [], _ => Err E_Index
  | x :: r, O => bind (f x) (fun y => Ok (y :: r))
  | x :: r, S n' => bind (upd_nth n' f r) (fun r' => Ok (x :: r'))
  end.
(* seq.meta['fts'] must be a FeatureList *)
Definition on_fts (f : list obj -> res (list obj)) (s : obj) : res obj :=
  match s with
  | OSeq d m t =>
      match lookup K_fts m with
      | Some (OFts fl) => bind (f fl) (fun fl' => Ok (OSeq d (set_key K_fts (OFts fl') m) t))
      | _ => Err E_Key
      end
  | _ => Err E_Type
  end.
Definition on_seq_meta (k : str) (v : obj) (s : obj) : res obj :=
  match s with
  | OSeq d m t => Ok (OSeq d (set_key k (conv_val v) m) t)
  | _ => Err E_Type
  end.

Inductive op :=
| OpFeatRc (i j : nat) (L : Z)                   (* seqs[i].fts[j].rc(L) *)
| OpFtsRc (i : nat) (L : Z)                      (* seqs[i].fts.rc(L) *)
| OpSetLocs (i j : nat) (locs : list obj)        (* seqs[i].fts[j].locs = [Location...] *)
| OpSeqMeta (i : nat) (k : str) (v : obj)        (* seqs[i].meta[k] = v *)
| OpBasketMeta (k : str) (v : obj).              (* seqs.meta[k] = v *)

Definition apply_op (o : op) (b : obj) : res obj :=
  match b with
  | OBasket data m =>
      match o with
      | OpFeatRc i j L => bind (upd_nth i (on_fts (upd_nth j (feat_rc L))) data) (fun data' => Ok (OBasket data' m))
      | OpFtsRc i L => bind (upd_nth i (on_fts (mapM (feat_rc L))) data) (fun data' => Ok (OBasket data' m))
      | OpSetLocs i j new => bind (upd_nth i (on_fts (upd_nth j (feat_set_locs new))) data) (fun data' => Ok (OBasket data' m))
      | OpSeqMeta i k v => bind (upd_nth i (on_seq_meta k v) data) (fun data' => Ok (OBasket data' m))
      | OpBasketMeta k v => Ok (OBasket data (set_key k (conv_val v) m))
      end
  | _ => Err E_Type
  end.
Fixpoint apply_ops (ops : list op) (b : obj) : res obj :=
  match ops with [] => Ok b | o :: r => bind (apply_op o b) (apply_ops r) end.

(* the arguments an operation brings along are themselves inside the domain *)
Definition op_ok (o : op) : bool :=
  match o with
  | OpSetLocs _ _ new => forallb is_loc new && forallb wf new
  | OpSeqMeta _ k v | OpBasketMeta k v => ok_attr_key k && wf (conv_val v)
  | _ => true
  end.

(* ---- harness entry points --------------------------------------------------------------------------------------------------- *)
(* a basket with a history: [domain; written bytes; the graph at the moment of writing; what reading the bytes gives] *)
Definition run_C14_preop (b : obj) (ops : list op) : val :=
  match apply_ops ops b with
  | Ok b' => VL [VB (wf_C14 b && forallb op_ok ops && wfo b'); VS (write_bytes b'); show_obj b'; show_res (write_read_bytes b')]
  | Err e => VL [VB (wf_C14 b && forallb op_ok ops); VE e]
  end.
Definition run_C14_flags (d : Z) (s : str) : val := VL [VI (defect_reverse d); VS (strand_reverse s)].
