(* C03 model: format auto-detection (sniffers, ordered chains, tell/seek), detect_ext, the _resolve_fname decision and
   the keyword plumbing of write / tofmtstr / object methods.  sugar/_io/main.py, sugar/_io/util.py, the is_* functions of
   the format plugins, sugar/_io/tab/core.py:read_tabular (one-line use by the sniffers), sugar/core/seq.py, sugar/core/fts.py.
   Tables (chains, extension lists, header tables, keyword sets) come from the regenerated G_c03.v.  No proofs here. *)
From Coq Require Import List ZArith NArith Bool.
From Coq.Strings Require Import Byte.
Import ListNotations.
From SV Require Import Text G_c03.

(* ------------------------------------------------------------------ CPython str primitives (Latin-1 range) *)

(* str.isspace / the set stripped by str.strip(), str.split(), int(), float() *)
Definition is_ws (c : byte) : bool :=
  match c with
  | x09 | x0a | x0b | x0c | x0d | x1c | x1d | x1e | x1f | x20 | x85 | xa0 => true
  | _ => false
  end.
Fixpoint lstrip_ws (s : str) : str :=
  match s with c :: r => if is_ws c then lstrip_ws r else s | [] => [] end.
Definition rstrip_ws (s : str) : str := rev (lstrip_ws (rev s)).
Definition strip_ws (s : str) : str := rstrip_ws (lstrip_ws s).
Fixpoint lstrip_char (c : byte) (s : str) : str :=
  match s with x :: r => if byte_eqb x c then lstrip_char c r else s | [] => [] end.

Fixpoint startswith (p s : str) : bool :=
  match p, s with
  | [], _ => true
  | a :: p', b :: s' => byte_eqb a b && startswith p' s'
  | _ :: _, [] => false
  end.
Definition endswith (p s : str) : bool := startswith (rev p) (rev s).
(* p in s *)
Fixpoint contains (p s : str) : bool :=
  match s with
  | [] => startswith p []
  | _ :: r => startswith p s || contains p r
  end.
Definition mem_str (x : str) (l : list str) : bool := existsb (str_eqb x) l.
Definition subset_str (a b : list str) : bool := forallb (fun x => mem_str x b) a.

(* str.lower on Latin-1 *)
Definition lower1 (c : byte) : byte :=
  let n := Byte.to_N c in
  if ((65 <=? n) && (n <=? 90) || (192 <=? n) && (n <=? 222) && negb (n =? 215))%N
  then match Byte.of_N (n + 32) with Some b => b | None => c end else c.
Definition lower (s : str) : str := map lower1 s.

(* s.split(c) for a one-character separator *)
Fixpoint split_on (c : byte) (s : str) : list str :=
  match s with
  | [] => [[]]
  | x :: r =>
      if byte_eqb x c then [] :: split_on c r
      else match split_on c r with h :: t => (x :: h) :: t | [] => [[x]] end
  end.
(* s.split(c, maxsplit=n) *)
Fixpoint splitn (c : byte) (s : str) (n : nat) : list str :=
  match s with
  | [] => [[]]
  | x :: r =>
      match n with
      | O => [s]
      | S n' =>
          if byte_eqb x c then [] :: splitn c r n'
          else match splitn c r n with h :: t => (x :: h) :: t | [] => [[x]] end
      end
  end.
(* s.split() *)
Fixpoint split_ws_aux (s cur : str) : list str :=
  match s with
  | [] => match cur with [] => [] | _ => [rev cur] end
  | x :: r =>
      if is_ws x then match cur with [] => split_ws_aux r [] | _ => rev cur :: split_ws_aux r [] end
      else split_ws_aux r (x :: cur)
  end.
Definition split_ws (s : str) : list str := split_ws_aux s [].

(* str.splitlines(): boundaries \n \r \r\n \v \f \x1c \x1d \x1e \x85 *)
Definition is_linebreak (c : byte) : bool :=
  match c with x0a | x0b | x0c | x0d | x1c | x1d | x1e | x85 => true | _ => false end.
Fixpoint splitlines_aux (s cur : str) : list str :=
  match s with
  | [] => match cur with [] => [] | _ => [rev cur] end
  | x :: r =>
      if byte_eqb x x0d then
        match r with
        | x0a :: r' => rev cur :: splitlines_aux r' []
        | _ => rev cur :: splitlines_aux r []
        end
      else if is_linebreak x then rev cur :: splitlines_aux r []
      else splitlines_aux r (x :: cur)
  end.
Definition splitlines (s : str) : list str := splitlines_aux s [].

(* lexicographic < on code points *)
Fixpoint str_ltb (a b : str) : bool :=
  match a, b with
  | _, [] => false
  | [], _ :: _ => true
  | x :: a', y :: b' =>
      if byte_eqb x y then str_ltb a' b' else (Byte.to_N x <? Byte.to_N y)%N
  end.

(* int(s): optional whitespace, sign, digits with single underscores between digits *)
Fixpoint int_digits (s : str) (acc : Z) (prev_us : bool) : option Z :=
  match s with
  | [] => if prev_us then None else Some acc
  | c :: r =>
      if byte_eqb c "_"%byte then (if prev_us then None else int_digits r acc true)
      else match digit_val c with
           | Some d => int_digits r (acc * 10 + d)%Z false
           | None => None
           end
  end.
Definition split_sign (t : str) : bool * str :=
  match t with
  | "-"%byte :: u => (true, u)
  | "+"%byte :: u => (false, u)
  | _ => (false, t)
  end.
Definition py_int (s : str) : option Z :=
  let '(neg, u) := split_sign (strip_ws s) in
  match u with
  | [] => None
  | c :: _ =>
      if byte_eqb c "_"%byte then None
      else option_map (fun z => if neg then Z.opp z else z) (int_digits u 0%Z false)
  end.

(* float(s) as an exact decimal: sign, mantissa, power of ten; inf; nan.  Grammar of CPython's float(). *)
Inductive fl := FNan | FInf (neg : bool) | FNum (neg : bool) (m : Z) (e : Z).
Definition is_digit (c : byte) : bool := match digit_val c with Some _ => true | None => false end.
(* underscores are legal only between two digits; they are removed before parsing *)
Fixpoint remove_us (s : str) (prev_digit : bool) : option str :=
  match s with
  | [] => Some []
  | c :: r =>
      if byte_eqb c "_"%byte then
        match r with
        | d :: _ => if prev_digit && is_digit d then remove_us r false else None
        | [] => None
        end
      else option_map (cons c) (remove_us r (is_digit c))
  end.
Fixpoint take_digits (s : str) (acc : Z) (n : nat) : Z * nat * str :=
  match s with
  | c :: r => match digit_val c with
              | Some d => take_digits r (acc * 10 + d)%Z (S n)
              | None => (acc, n, s)
              end
  | [] => (acc, n, [])
  end.
Definition py_float (s0 : str) : option fl :=
  match remove_us (strip_ws s0) false with
  | None => None
  | Some s =>
      let '(neg, u) := split_sign s in
      let lu := lower u in
      if str_eqb lu (bs "inf"%bs) || str_eqb lu (bs "infinity"%bs) then Some (FInf neg)
      else if str_eqb lu (bs "nan"%bs) then Some FNan
      else
        let '(m1, n1, r1) := take_digits u 0%Z 0 in
        let '(m2, n2, r2) := match r1 with
                             | "."%byte :: r => take_digits r m1 0
                             | _ => (m1, 0, r1)
                             end in
        if Nat.eqb (n1 + n2) 0 then None
        else match r2 with
             | [] => Some (FNum neg m2 (- Z.of_nat n2))
             | c :: r3 =>
                 if byte_eqb c "e"%byte || byte_eqb c "E"%byte then
                   let '(eneg, r4) := split_sign r3 in
                   let '(ev, en, r5) := take_digits r4 0%Z 0 in
                   match en, r5 with
                   | S _, [] => Some (FNum neg m2 ((if eneg then - ev else ev) - Z.of_nat n2))
                   | _, _ => None
                   end
                 else None
             end
  end.
(* exact test  m * 10^e <= P / 2^q   (m, P >= 0) *)
Definition dec_le (m e P : Z) (q : Z) : bool :=
  if (e >=? 0)%Z then (m * 10 ^ e * 2 ^ q <=? P)%Z else (m * 2 ^ q <=? P * 10 ^ (- e))%Z.
(* 0 <= float(x) <= B  where float() rounds to nearest-even:  float(x) <= B  <=>  x <= B + 2^-k  (k = 53 for B = 1, 47 for
   B = 100: half an ulp above B, ties go to the even B);  a negative x passes only if it rounds to -0.0, i.e. |x| <= 2^-1075.
   The guards on e avoid astronomically large powers; contents are at most 1000 characters, so m < 10^1001. *)
Definition float_in_range (f : fl) (B k : Z) : bool :=
  match f with
  | FNan => false
  | FInf _ => false
  | FNum neg m e =>
      if (m =? 0)%Z then true
      else if (e >? 400)%Z then false
      else if (e <? -2500)%Z then true
      else if neg then dec_le m e 1 1075
      else dec_le m e (B * 2 ^ k + 1) k
  end.

(* ------------------------------------------------------------------ sniffers: option bool, None = an exception was raised
   (detect catches every Exception and treats it as "no", main.py:72-76) *)

Record opts := { o_sep : option byte; o_outfmt : option str }.
Definition no_opts : opts := {| o_sep := None; o_outfmt := None |}.
Definition tab : byte := x09.
Definition sep_or (o : opts) (d : byte) : byte := match o_sep o with Some c => c | None => d end.

(* f.read(n) of a text view *)
Definition read_n (n : nat) (content : str) : str := firstn n content.

(* fasta.py:13-15 *)
Definition is_fasta (c : str) : option bool :=
  Some (startswith (bs ">"%bs) (strip_ws (read_n 50 c))).
(* genbank.py:11-13 *)
Definition is_genbank (c : str) : option bool :=
  Some (str_eqb (lower (read_n 5 c)) (bs "locus"%bs)).
(* stockholm.py:16-18 *)
Definition is_stockholm (c : str) : option bool :=
  Some (str_eqb (read_n 11 c) (bs "# STOCKHOLM"%bs)).
(* sjson.py:64-66 *)
Definition is_sjson (c : str) : option bool :=
  Some (contains (lower (firstn 17 SJSON_COMMENT)) (lower (read_n 51 c))).
(* gff.py:20-27 *)
Definition is_gff (c : str) : option bool :=
  let content := read_n 100 c in
  if startswith (bs "##gff-version 3"%bs) (strip_ws content) then Some true
  else match firstn 5 (skipn 3 (splitn tab content 9)) with
       | [start; stop; _; strand; phase] =>
           match py_int start, py_int stop with
           | Some _, Some _ => Some (contains strand (bs "+-.?"%bs) && contains phase (bs ".012"%bs))
           | _, _ => None
           end
       | _ => None       (* unpacking ValueError *)
       end.

(* infernal.py:16-20 *)
Definition is_fts_infernal (c : str) : option bool :=
  match splitlines (read_n 1000 c) with
  | l0 :: l1 :: _ =>
      (* `and` is lazy but neither operand raises *)
      Some (subset_str (split_ws (lstrip_char "#"%byte l0)) INFERNAL_HEADER_KW
            && existsb (Nat.eqb (length (split_ws (lstrip_char "#"%byte l1)))) INFERNAL_NCOLS)
  | _ => None            (* IndexError *)
  end.

(* ---- read_tabular on a one-line list, tab/core.py:222-314 *)
Inductive pv := PI (z : Z) | PF (f : fl) | PS (s : str).
Fixpoint lookup_hdr (name : str) (t : list (str * N)) : option (str * N) :=
  match t with
  | [] => None
  | (n, ty) :: r => if str_eqb n name then Some (n, ty) else lookup_hdr name r
  end.
(* _headers_from_fmtstrings: None = ValueError('Unknown header string') *)
Fixpoint headers_from (names : list str) (t : list (str * N)) : option (list (str * N)) :=
  match names with
  | [] => Some []
  | n :: r => match lookup_hdr n t, headers_from r t with
              | Some h, Some hs => Some (h :: hs)
              | _, _ => None
              end
  end.
(* headers[i].type(v) with ValueError -> keep the string *)
Definition convert (ty : N) (v : str) : pv :=
  match ty with
  | 1%N => match py_int v with Some z => PI z | None => PS v end
  | 2%N => match py_float v with Some f => PF f | None => PS v end
  | _ => PS v
  end.
(* attrs dict: later columns overwrite earlier ones, so look up from the end *)
Fixpoint attrs_get (name : str) (a : list (str * pv)) : option pv :=
  match a with
  | [] => None
  | (n, v) :: r => match attrs_get name r with
                   | Some x => Some x
                   | None => if str_eqb n name then Some v else None
                   end
  end.
(* a < b for values of the integer columns; None = TypeError (int vs str) *)
Definition pv_lt (a b : pv) : option bool :=
  match a, b with
  | PI x, PI y => Some (x <? y)%Z
  | PS x, PS y => Some (str_ltb x y)
  | _, _ => None
  end.
Definition land (a : option bool) (b : unit -> option bool) : option bool :=
  match a with Some true => b tt | x => x end.
Definition lor (a : option bool) (b : unit -> option bool) : option bool :=
  match a with Some false => b tt | x => x end.
Definition pv_is_str (v : option pv) (s : str) : bool :=
  match v with Some (PS x) => str_eqb x s | _ => false end.

Inductive tabfmt := TBlast | TMmseqs.
Definition hdr_table (f : tabfmt) := match f with TBlast => HEADER_blast | TMmseqs => HEADER_mmseqs end.
Definition default_outfmt (f : tabfmt) := match f with TBlast => DEFAULT_OUTFMT_blast | TMmseqs => DEFAULT_OUTFMT_mmseqs end.
Definition col (f : tabfmt) (k : N) : str :=
  match f, k with
  | TBlast, 0%N => COL_blast_sstart | TBlast, 1%N => COL_blast_send | TBlast, 2%N => COL_blast_qstart | TBlast, _ => COL_blast_qend
  | TMmseqs, 0%N => COL_mmseqs_sstart | TMmseqs, 1%N => COL_mmseqs_send | TMmseqs, 2%N => COL_mmseqs_qstart | TMmseqs, _ => COL_mmseqs_qend
  end.
Definition s_sstrand : str := bs "sstrand"%bs.
Definition s_pident : str := bs "pident"%bs.
Definition s_fident : str := bs "fident"%bs.

(* the data-line branch (core.py:258-313) for one line.  Result: None = exception, Some a = one feature with dict a
   (after the pident/fident completion, which is all the sniffers look at). *)
Definition mk_attrs (headers : list (str * N)) (fields : list str) : list (str * pv) :=
  map (fun hv => (fst (fst hv), convert (snd (fst hv)) (snd hv))) (combine headers fields).
Definition data_line_attrs (f : tabfmt) (attrs : list (str * pv)) : option (list (str * pv)) :=
    match attrs_get (col f 0) attrs, attrs_get (col f 1) attrs, attrs_get (col f 2) attrs, attrs_get (col f 3) attrs with
    | Some start, Some stop, Some qstart, Some qstop =>
        let sstrand := attrs_get s_sstrand attrs in
        let gt a b := pv_lt b a in
        (* strand selection; Some tt = fell through without raising *)
        let strand_ok : option unit :=
          if pv_is_str sstrand (bs "N/A"%bs) then Some tt
          else
            match lor (land (gt start stop) (fun _ => pv_lt qstart qstop))
                      (fun _ => land (pv_lt start stop) (fun _ => gt qstart qstop)) with
            | None => None
            | Some true =>
                match sstrand with
                | None => Some tt
                | Some v => if pv_is_str (Some v) (bs "-"%bs) || pv_is_str (Some v) (bs "minus"%bs) then Some tt else None
                end
            | Some false =>
                match lor (land (pv_lt start stop) (fun _ => pv_lt qstart qstop))
                          (fun _ => land (gt start stop) (fun _ => gt qstart qstop)) with
                | None => None
                | Some true =>
                    match sstrand with
                    | None => Some tt
                    | Some v => if pv_is_str (Some v) (bs "+"%bs) || pv_is_str (Some v) (bs "plus"%bs) then Some tt else None
                    end
                | Some false => Some tt
                end
            end in
        match strand_ok with
        | None => None
        | Some _ =>
            (* `if start > stop` and `Location(start-1, stop, strand)`: str operands end in a TypeError (str - int), mixed
               operands already in the comparison; after ordering start-1 < stop, so Location never raises for ints *)
            match start, stop with
            | PI _, PI _ =>
                (* core.py:303-306 *)
                match attrs_get s_pident attrs, attrs_get s_fident attrs with
                | Some (PS _), None => None                         (* str / 100: TypeError *)
                | Some (PI _), None => Some attrs                   (* cannot happen: pident is a float column *)
                | _, _ => Some attrs
                end
            | _, _ => None
            end
        end
    | _, _, _, _ => None                                             (* KeyError *)
    end.
Definition data_line (f : tabfmt) (headers : list (str * N)) (fields : list str) : option (list (str * pv)) :=
  if negb (Nat.eqb (length fields) (length headers)) then None       (* ValueError: number of fields *)
  else data_line_attrs f (mk_attrs headers fields).

(* `0 <= ft.meta._fmt.pident <= 100` on the completed dict; None = exception (AttributeError / TypeError) *)
Definition pident_in_range (a : list (str * pv)) : option bool :=
  match attrs_get s_pident a, attrs_get s_fident a with
  | Some (PF p), _ => Some (float_in_range p 100 47)
  | Some (PI z), _ => Some ((0 <=? z) && (z <=? 100))%Z
  | Some (PS _), _ => None
  | None, Some (PF x) => Some (float_in_range x 1 53)               (* pident = fident * 100 *)
  | None, Some (PI z) => Some ((0 <=? z * 100) && (z * 100 <=? 100))%Z
  | None, Some (PS _) => None                                       (* 0 <= 'abcabc...' : TypeError *)
  | None, None => None
  end.

(* read_fts_<fmt>([line], sep, outfmt) followed by the sniffers' final test (blast.py:16-17, mmseqs.py:19-33) *)
Definition sniff_line (f : tabfmt) (o : opts) (line : str) : option bool :=
  let sep := sep_or o tab in
  let hdrs_user := match o_outfmt o with
                   | Some of => Some (headers_from (split_ws of) (hdr_table f))
                   | None => None
                   end in
  match hdrs_user with
  | Some None => None                                               (* unknown header string, before the loop *)
  | _ =>
      let is_fields_line := match f, o_outfmt o with
                            | TBlast, None => startswith (bs "# Fields:"%bs) line
                            | _, _ => false
                            end in
      if is_fields_line then
        (* headers parsed from the line (may raise ValueError); either way no feature: len(fts) == 1 is False *)
        Some false
      else if startswith (bs "#"%bs) line || match strip_ws line with [] => true | _ => false end then Some false
      else
        let fields := split_on sep (strip_ws line) in
        let is_mm_header := match f with
                            | TMmseqs => Nat.ltb 1 (length fields) && subset_str fields MMSEQS_HEADER_NAMES
                            | TBlast => false
                            end in
        if is_mm_header then Some false
        else
          let headers := match hdrs_user with
                         | Some (Some h) => Some h
                         | _ => headers_from (default_outfmt f) (hdr_table f)
                         end in
          match headers with
          | None => None
          | Some hs =>
              match data_line f hs fields with
              | None => None
              | Some a => match o_outfmt o with
                          | Some _ => Some true
                          | None => pident_in_range a
                          end
              end
          end
  end.

(* mmseqs.py:10-33 *)
Definition is_fts_mmseqs (o : opts) (c : str) : option bool :=
  match splitlines (read_n 1000 c) with
  | [] => None
  | line :: _ =>
      let fields := split_on (sep_or o tab) (strip_ws line) in
      if Nat.ltb 0 (length fields) && subset_str fields MMSEQS_HEADER_NAMES then Some true
      else sniff_line TMmseqs o line
  end.
(* blast.py:10-17 *)
Definition is_fts_blast (o : opts) (c : str) : option bool :=
  let content := read_n 1000 c in
  if startswith (bs "#"%bs) content && contains (bs "BLAST"%bs) content then Some true
  else match splitlines content with
       | [] => None
       | line :: _ => sniff_line TBlast o line
       end.

(* xsv.py:13-24 *)
Definition is_fts_xsv (sep : byte) (c : str) : option bool :=
  let lines := removelast (splitlines (read_n 1000 c)) in
  match lines with
  | [] => None
  | l0 :: _ =>
      let line0 := split_on sep l0 in
      let cnt := (if mem_str (bs "start"%bs) line0 then 1 else 0) + (if mem_str (bs "stop"%bs) line0 then 1 else 0)
                 + (if mem_str (bs "len"%bs) line0 then 1 else 0) in
      Some (Nat.leb 2 cnt && forallb (fun l => Nat.eqb (length (split_on sep l)) (length line0)) lines)
  end.
Definition is_fts_csv (o : opts) := is_fts_xsv (sep_or o ","%byte).
Definition is_fts_tsv (o : opts) := is_fts_xsv (sep_or o tab).

(* plugin name -> sniffer (getattr(module, 'is_<fmt>')); None = the model knows no sniffer of that name *)
Definition name_is (n : str) (b : bstr) : bool := str_eqb n (bs b).
Definition sniffer_seqs (fmt : str) : option (opts -> str -> option bool) :=
  if name_is fmt "fasta"%bs then Some (fun _ => is_fasta)
  else if name_is fmt "genbank"%bs then Some (fun _ => is_genbank)
  else if name_is fmt "stockholm"%bs then Some (fun _ => is_stockholm)
  else if name_is fmt "gff"%bs then Some (fun _ => is_gff)
  else if name_is fmt "sjson"%bs then Some (fun _ => is_sjson)
  else None.
Definition sniffer_fts (fmt : str) : option (opts -> str -> option bool) :=
  if name_is fmt "gff"%bs then Some (fun _ => is_gff)
  else if name_is fmt "genbank"%bs then Some (fun _ => is_genbank)
  else if name_is fmt "infernal"%bs then Some (fun _ => is_fts_infernal)
  else if name_is fmt "mmseqs"%bs then Some is_fts_mmseqs
  else if name_is fmt "blast"%bs then Some is_fts_blast
  else if name_is fmt "tsv"%bs then Some is_fts_tsv
  else if name_is fmt "csv"%bs then Some is_fts_csv
  else None.

(* ------------------------------------------------------------------ detect on an abstract handle, main.py:53-77 *)
Inductive what := Seqs | Fts.
Definition chain (w : what) := match w with Seqs => PLUGINS_seqs | Fts => PLUGINS_fts end.
Definition sniffer_of (w : what) := match w with Seqs => sniffer_seqs | Fts => sniffer_fts end.

(* a handle is the whole content plus the read position; binary = isinstance(f, io.BufferedIOBase) *)
Record handle := { h_content : str; h_pos : nat; h_binary : bool }.
Definition h_tell (h : handle) : nat := h_pos h.
Definition h_seek (p : nat) (h : handle) : handle := {| h_content := h_content h; h_pos := p; h_binary := h_binary h |}.
(* what a sniffer sees, and where the handle stands afterwards: a text view over a binary handle pulls a whole 8192-byte
   chunk from it (TextIOWrapper), a text handle advances by what was read (at most 1000 characters) *)
Definition h_rest (h : handle) : str := skipn (h_pos h) (h_content h).
Definition h_after_sniff (h : handle) : handle :=
  h_seek (Nat.min (length (h_content h)) (h_pos h + (if h_binary h then 4096 + 4096 else 1000))) h.

Inductive dres := DFound (fmt : str) | DNothing | DUnknownPlugin (fmt : str).
Definition plugin := (str * (bool * (bool * (bool * list str))))%type.
Definition p_name (p : plugin) := fst p.
Definition p_has_sniffer (p : plugin) := fst (snd p).
Definition p_binary (p : plugin) := fst (snd (snd p)).
Definition p_has_ext (p : plugin) := fst (snd (snd (snd p))).
Definition p_exts (p : plugin) := snd (snd (snd (snd p))).

Fixpoint detect_loop (w : what) (o : opts) (fpos : nat) (ps : list plugin) (h : handle) : dres * handle :=
  match ps with
  | [] => (DNothing, h)
  | p :: rest =>
      if negb (p_has_sniffer p) then detect_loop w o fpos rest h
      else if p_binary p && negb (h_binary h) then detect_loop w o fpos rest h       (* continue *)
      else if p_binary p then (DUnknownPlugin (p_name p), h_seek fpos h)              (* binary sniffers: none exist *)
      else
        match sniffer_of w (p_name p) with
        | None => (DUnknownPlugin (p_name p), h_seek fpos h)
        | Some sn =>
            let r := sn o (h_rest h) in
            let h' := h_seek fpos (h_after_sniff h) in                                (* finally: f.seek(fpos) *)
            match r with
            | Some true => (DFound (p_name p), h')
            | _ => detect_loop w o fpos rest h'
            end
        end
  end.
Definition detect_h (w : what) (o : opts) (h : handle) : dres * handle :=
  detect_loop w o (h_tell h) (chain w) h.
(* content-level view *)
Definition detect (w : what) (o : opts) (c : str) : dres :=
  fst (detect_h w o {| h_content := c; h_pos := 0; h_binary := true |}).

(* ------------------------------------------------------------------ detect_ext, main.py:80-98 *)
Definition slash : byte := "/"%byte.
Definition dot : byte := "."%byte.
(* posixpath.splitext(p)[1] (genericpath._splitext): the suffix from the last dot of the base name, unless only dots precede it *)
Fixpoint last_dot_suffix (s : str) : option str :=      (* text after the last dot, with the dot *)
  match s with
  | [] => None
  | c :: r => match last_dot_suffix r with
              | Some x => Some x
              | None => if byte_eqb c dot then Some s else None
              end
  end.
Definition basename (p : str) : str := last (split_on slash p) [].
Definition splitext_ext (p : str) : str :=
  let b := basename p in
  match last_dot_suffix b with
  | None => []
  | Some suf =>
      let stem := firstn (length b - length suf) b in
      if forallb (fun c => byte_eqb c dot) stem then [] else suf
  end.
Definition removeprefix (p s : str) : str := if startswith p s then skipn (length p) s else s.
Fixpoint detect_ext_loop (ext : str) (ps : list plugin) : option str :=
  match ps with
  | [] => None
  | p :: r => if p_has_ext p && mem_str ext (p_exts p) then Some (p_name p) else detect_ext_loop ext r
  end.
Definition detect_ext (w : what) (fname : str) : option str :=
  detect_ext_loop (removeprefix [dot] (splitext_ext fname)) (chain w).

(* ------------------------------------------------------------------ _resolve_fname decision, main.py:139-213 *)
Inductive fname_arg := FBytes | FNone | FHandle | FPath (s : str) | FStr (s : str).
Inductive archive_arg := ANone | ATrue | AStr (s : str).
(* detect_ext on any argument: os.path.splitext accepts str and PathLike; None, handles raise TypeError, bytes fail in
   removeprefix('.') -- all caught: return None (main.py:89-93) *)
Definition detect_ext_arg (w : what) (f : fname_arg) : option str :=
  match f with FStr s | FPath s => detect_ext w s | _ => None end.
(* main.py:171-185: the download is an archive (saved as <tmp><bname> and resolved again: glob or unpack), gzip data, or data *)
Inductive url_sub := UArchiveGlob | UArchiveUnpack (fmt : option str) | UGz | UData.
Inductive decision :=
| DErrBytes                      (* ValueError *)
| DPassHandle
| DStdin
| DUrl (bname : str) (sub : url_sub)            (* after requests.get: what is done with the download named bname *)
| DGlob (pattern : str)
| DArchive (name : str) (fmt : option str)     (* shutil.unpack_archive(name, tmpdir, fmt) *)
| DGz (name : str)
| DPlain (name : str).
Definition has_magic (s : str) : bool :=
  existsb (fun c => byte_eqb c "*"%byte || byte_eqb c "?"%byte || byte_eqb c "["%byte) s.
Definition archive_requested (a : archive_arg) : bool :=
  match a with ANone => false | ATrue => true | AStr s => negb (str_eqb s (bs "gz"%bs)) end.
Definition is_gz_arg (a : archive_arg) : bool := match a with AStr s => str_eqb s (bs "gz"%bs) | _ => false end.
(* os.path.basename(urlparse(name).path) for scheme://netloc/path?query#fragment (urllib.parse.urlsplit: a valid scheme
   starts with a letter and consists of letters, digits, + - .; otherwise the whole text is the path) *)
Definition is_alpha (c : byte) : bool :=
  let n := Byte.to_N c in ((65 <=? n) && (n <=? 90) || (97 <=? n) && (n <=? 122))%N.
Definition is_scheme_char (c : byte) : bool :=
  is_alpha c || is_digit c || byte_eqb c "+"%byte || byte_eqb c "-"%byte || byte_eqb c "."%byte.
Fixpoint take_until (f : byte -> bool) (s : str) : str :=
  match s with [] => [] | c :: r => if f c then [] else c :: take_until f r end.
Fixpoint drop_until (f : byte -> bool) (s : str) : str :=
  match s with [] => [] | c :: r => if f c then s else drop_until f r end.
Definition is_qf (c : byte) : bool := byte_eqb c "?"%byte || byte_eqb c "#"%byte.
Definition url_path (name : str) : str :=
  let scheme := take_until (fun c => byte_eqb c ":"%byte) name in
  let rest := drop_until (fun c => byte_eqb c ":"%byte) name in      (* starts with ":" if there is one *)
  let valid := match scheme with c :: _ => is_alpha c && forallb is_scheme_char scheme | [] => false end in
  match rest with
  | _ :: after =>
      if valid then
        let after' := if startswith (bs "//"%bs) after
                      then drop_until (fun c => byte_eqb c slash || is_qf c) (skipn 2 after)   (* netloc removed *)
                      else after in
        take_until is_qf after'
      else take_until is_qf name
  | [] => take_until is_qf name
  end.
Definition url_basename (name : str) : str := basename (url_path name).

Definition resolve (datadir example : str) (f : fname_arg) (a : archive_arg) : decision :=
  match f with
  | FBytes => DErrBytes
  | FHandle => DPassHandle
  | _ =>
      let name0 := match f with FNone => example | FPath s => s | FStr s => s | _ => [] end in
      let name := if startswith (bs "!data/"%bs) name0
                  then datadir ++ [slash] ++ removeprefix (bs "!data/"%bs) name0 else name0 in
      if str_eqb name (bs "-"%bs) then DStdin
      else if contains (bs "://"%bs) (firstn 10 name) then
        let bname := url_basename name in
        DUrl bname
          (if archive_requested a || existsb (fun ext => endswith (dot :: ext) bname) ARCHIVE_EXTS
           then (* new_reader(<tmp> + bname, archive=archive): the temporary prefix has no magic, so only bname decides *)
                if has_magic bname then UArchiveGlob else UArchiveUnpack (match a with AStr s => Some s | _ => None end)
           else if is_gz_arg a || endswith (bs ".gz"%bs) bname then UGz
           else UData)
      else if has_magic name then DGlob name
      else if archive_requested a || existsb (fun ext => endswith (dot :: ext) name) ARCHIVE_EXTS
      then DArchive name (match a with AStr s => Some s | _ => None end)
      else if is_gz_arg a || endswith (bs ".gz"%bs) name then DGz name
      else DPlain name
  end.

(* ------------------------------------------------------------------ write side: _resolve_archive, _allow_to_str, format from
   the extension (main.py:101-136, 386-391, 437-441).  fmt = the caller's fmt (lower-cased by write). *)
Inductive wdecision :=
| WErrArchiveHandle              (* ValueError: archive option with a file-like object (or no file name) *)
| WErrNoFmt                      (* ValueError: neither fname nor fmt *)
| WErrDetect                     (* IOError: format cannot be derived from the extension *)
| WToStr (fmt : str)             (* written to a StringIO, text returned *)
| WHandle (fmt : str)
| WFile (name fmt : str)
| WArchive (name archive fmt : str).   (* file written as tmpdir/basename(name), then shutil.make_archive(name, archive, tmpdir) *)
Definition write_fmt (w : what) (f : fname_arg) (fmt : option str) : option str :=
  match fmt with Some x => Some (lower x) | None => option_map lower (detect_ext_arg w f) end.
Definition write_resolve (w : what) (first_archive : str) (f : fname_arg) (fmt : option str) (a : archive_arg) : wdecision :=
  match a with
  | ANone =>
      match f with
      | FNone => match fmt with None => WErrNoFmt | Some x => WToStr (lower x) end
      | FStr s | FPath s => match write_fmt w f fmt with Some x => WFile s x | None => WErrDetect end
      | _ => match write_fmt w f fmt with Some x => WHandle x | None => WErrDetect end
      end
  | _ =>
      match f with
      | FStr s | FPath s =>
          let arch := match a with AStr x => x | _ => first_archive end in
          (* the inner writer sees tmpdir/basename(name): same extension *)
          match write_fmt w (FStr (basename s)) fmt with Some x => WArchive s arch x | None => WErrDetect end
      | _ => WErrArchiveHandle
      end
  end.

(* ------------------------------------------------------------------ keyword plumbing
   BioSeq.write / BioSeq.tofmtstr (seq.py:569-573, 610-614), BioBasket.tofmtstr / write (seq.py:1118-1122, 1176-1181),
   Feature.write (fts.py:402-406), FeatureList.tofmtstr / write (fts.py:567-571, 721-726),
   main.write / write_fts behind _resolve_archive and _allow_to_str (main.py:101-136, 365, 419). *)
Definition kwargs := list (str * str).
Definition kw_has (k : bstr) (kw : kwargs) : bool := existsb (fun kv => str_eqb (fst kv) (bs k)) kw.
Definition kw_drop (k : bstr) (kw : kwargs) : kwargs := filter (fun kv => negb (str_eqb (fst kv) (bs k))) kw.
Inductive entry := EWrite | ETofmtstr | EObjWrite | EObjTofmtstr.
(* what the format plugin's writer receives as **kw; None = TypeError (keyword given twice) *)
Definition main_write_kw (w : what) (kw : kwargs) : kwargs :=
  let kw1 := kw_drop "archive"%bs kw in                           (* _resolve_archive: archive=None *)
  let kw2 := kw1 in                                              (* _allow_to_str: fname, fmt are positional here *)
  match w with
  | Seqs => kw_drop "encoding"%bs (kw_drop "tool"%bs (kw_drop "mode"%bs kw2))   (* write(..., *, mode, tool, encoding, **kw) *)
  | Fts => kw_drop "mode"%bs kw2                                  (* write_fts(..., *, mode, **kw) *)
  end.
Definition plugin_kw (w : what) (e : entry) (kw : kwargs) : option kwargs :=
  match e with
  | EWrite | EObjWrite => Some (main_write_kw w kw)               (* obj.write(fname=, fmt=, **kw) -> write(self, fname=, fmt=, **kw) *)
  | ETofmtstr | EObjTofmtstr =>
      (* tofmtstr(fmt, **kw) -> self.write(None, fmt, **kw): a second fname/fmt is a TypeError *)
      if kw_has "fname"%bs kw || kw_has "fmt"%bs kw then None else Some (main_write_kw w kw)
  end.

(* ------------------------------------------------------------------ prefix characterisations of writer output *)
(* the first characters every in-domain file of a format starts with / looks like; checked against the real writers
   and the synthetic renderers by the correspondence *)
Definition shape_fasta (c : str) : bool := startswith (bs ">"%bs) c.
Definition shape_stockholm (c : str) : bool := startswith (bs "# STOCKHOLM 1.0"%bs) c.
Definition shape_gff (c : str) : bool := startswith (bs "##gff-version 3"%bs) c.
Definition no_tab (s : str) : bool := forallb (fun c => negb (byte_eqb c tab)) s.
(* json.dump escapes control characters, so no raw tab can occur *)
Definition shape_sjson (c : str) : bool :=
  startswith (bs "{""_fmtcomment"": """%bs ++ firstn 17 SJSON_COMMENT) c && no_tab (firstn 100 c).
(* the LOCUS line is padded with blanks *)
Definition shape_genbank (c : str) : bool := startswith (bs "LOCUS"%bs) c && no_tab (firstn 100 c).
(* outfmt 7: comment lines first, the program name in the first of them *)
Definition shape_blast7 (c : str) : bool :=
  startswith (bs "# "%bs) c && contains (bs "BLAST"%bs) (firstn 20 c).
(* first line is a header of k >= 2 column names holding two of start/stop/len, none of them numeric, no mmseqs/infernal
   vocabulary clash, every complete line within the first 1000 characters has k fields *)
Definition shape_xsv (sep : byte) (c : str) : bool :=
  match is_fts_xsv sep c with Some true => true | _ => false end.

Definition shape_of (fmt : str) (o : opts) (c : str) : bool :=
  if name_is fmt "fasta"%bs then shape_fasta c
  else if name_is fmt "stockholm"%bs then shape_stockholm c
  else if name_is fmt "gff"%bs then shape_gff c
  else if name_is fmt "sjson"%bs then shape_sjson c
  else if name_is fmt "genbank"%bs then shape_genbank c
  else if name_is fmt "blast7"%bs then shape_blast7 c
  else if name_is fmt "tsv"%bs then shape_xsv tab c
  else if name_is fmt "csv"%bs then shape_xsv ","%byte c
  else true.

(* ------------------------------------------------------------------ writer / renderer models (first lines as functions of
   the abstract table) used by the soundness theorems *)
Definition nl : byte := x0a.
Definition nolb (s : str) : bool := forallb (fun c => negb (is_linebreak c)) s.
Definition nosep (sep : byte) (s : str) : bool := forallb (fun c => negb (byte_eqb c sep)) s.
Definition wsfree (s : str) : bool := forallb (fun c => negb (is_ws c)) s.
Definition word (k : str) : bool := wsfree k && negb (match k with [] => true | _ => false end).
Fixpoint join (sep : byte) (fs : list str) : str :=            (* sep.join(fs) *)
  match fs with
  | [] => []
  | [x] => x
  | x :: r => x ++ sep :: join sep r
  end.
(* text made of lines, each terminated by a newline *)
Definition text_of (ls : list str) : str := concat (map (fun l => l ++ [nl]) ls).
(* pandas DataFrame.to_csv(index=False) for fields that need no quoting: header line + one line per feature (xsv.py:92-97) *)
Definition render_xsv (sep : byte) (keys : list str) (rows : list (list str)) : str :=
  text_of (map (join sep) (keys :: rows)).
Definition is_alnum_ (c : byte) : bool := is_alpha c || is_digit c || byte_eqb c "_"%byte.
(* column names as produced from keys.split(): identifiers *)
Definition is_name (k : str) : bool :=
  match k with
  | c :: _ => (is_alpha c || byte_eqb c "_"%byte) && forallb is_alnum_ k
  | [] => false
  end.
Definition field_ok (sep : byte) (f : str) : bool :=
  forallb (fun c => negb (byte_eqb c sep) && negb (is_linebreak c) && negb (byte_eqb c tab)) f.
Definition two_of_three (keys : list str) : bool :=
  Nat.leb 2 ((if mem_str (bs "start"%bs) keys then 1 else 0) + (if mem_str (bs "stop"%bs) keys then 1 else 0)
             + (if mem_str (bs "len"%bs) keys then 1 else 0)).
(* domain of the TSV/CSV soundness theorems: identifier column names holding two of start/stop/len, the first one not
   beginning with "locus" (a table whose first column is called locus... is a GenBank file to is_genbank), not exactly 12
   columns (such a header is also tried as a hit-table row: rejected as well, but that is only tested), at least one row,
   rectangular, fields free of separator / line breaks / tabs, header shorter than the 1000-character window *)
Definition wf_xsv (sep : byte) (keys : list str) (rows : list (list str)) : bool :=
  forallb is_name keys && two_of_three keys
  && match keys with k0 :: _ => negb (startswith (bs "locus"%bs) (lower k0)) | [] => false end
  && negb (Nat.eqb (length keys) 12)
  && match rows with [] => false | _ => true end
  && forallb (fun r => Nat.eqb (length r) (length keys) && forallb (field_ok sep) r) rows
  && Nat.leb (length (join sep keys) + 2) 1000.

(* hit tables (BLAST outfmt 6 / 10, MMseqs2 fmtmode 0): 12 columns per line; detection looks at the first line only *)
Definition is_digits (s : str) : bool := match s with [] => false | _ => forallb is_digit s end.
Definition hit_fields_ok (sep : byte) (fs : list str) : bool :=
  match fs with
  | [q; s; ident; alen; mism; gapo; qs; qe; ss; se; ev; bits] =>
      forallb (fun f => forallb (fun c => negb (byte_eqb c sep) && negb (is_ws c) && negb (is_linebreak c)) f
                        && match f with [] => false | _ => true end) fs
      && negb (startswith (bs "#"%bs) q) && negb (startswith (bs "locus"%bs) (lower q))
      && is_digits alen && is_digits mism && is_digits qs && is_digits qe && is_digits ss && is_digits se
  | _ => false
  end.
(* the identity column as the sniffers read it *)
Definition ident_fraction_ok (ident : str) : bool :=      (* 0 <= float(ident)*100 <= 100 *)
  match py_float ident with Some f => float_in_range f 1 53 | None => false end.
Definition ident_percent_ok (ident : str) : bool :=       (* 0 <= float(ident) <= 100 *)
  match py_float ident with Some f => float_in_range f 100 47 | None => false end.
Definition render_hits (sep : byte) (rows : list (list str)) : str := text_of (map (join sep) rows).
Definition hits_rows_ok (sep : byte) (rows : list (list str)) : bool := forallb (fun r => forallb (field_ok sep) r) rows.
Definition wf_hits (sep : byte) (rows : list (list str)) : bool :=
  match rows with
  | r0 :: _ => hit_fields_ok sep r0 && Nat.leb (length (join sep r0) + 1) 1000 && hits_rows_ok sep rows
  | [] => false
  end.
(* MMseqs2 fmtmode 4: a row of column names, then the hits *)
Definition render_mmseqs4 (names : list str) (rows : list (list str)) : str :=
  text_of (join tab names :: map (join tab) rows).
Definition wf_mmseqs4 (names : list str) (rows : list (list str)) : bool :=
  Nat.leb 4 (length names) && subset_str names MMSEQS_HEADER_NAMES && negb (subset_str names INFERNAL_HEADER_KW)
  && Nat.leb (length (join tab names) + 1) 1000 && hits_rows_ok tab rows.
(* BLAST outfmt 7: "# <PROGRAM> <version>", further comment lines (Query, Database, Fields, hits found), the hits *)
Definition blast7_line0 (prog ver : str) : str := bs "# "%bs ++ prog ++ bs " "%bs ++ ver.
Definition render_blast7 (prog ver : str) (comments : list str) (rows : list (list str)) : str :=
  text_of (blast7_line0 prog ver :: comments) ++ text_of (map (join tab) rows).
Definition wf_blast7 (prog ver : str) (comments : list str) (rows : list (list str)) : bool :=
  word prog && word ver && contains (bs "BLAST"%bs) prog
  && forallb (fun l => nosep tab l && nolb l) comments
  && Nat.leb 100 (length (text_of (blast7_line0 prog ver :: comments)))
  && Nat.leb (length (blast7_line0 prog ver) + 1) 1000.
(* Infernal tblout: header comment line, ruler line, hit lines (blank padded) *)
Definition render_infernal (l0 l1 : str) (rows : list str) : str := text_of (l0 :: l1 :: rows).
Definition wf_infernal (l0 l1 : str) (rows : list str) : bool :=
  match l0 with
  | "#"%byte :: a :: _ => negb (byte_eqb a "#"%byte)
  | _ => false
  end
  && nosep tab l0 && nolb l0 && nolb l1 && Nat.leb 100 (length l0) && Nat.leb (length l0 + length l1 + 2) 1000
  && subset_str (split_ws (lstrip_char "#"%byte l0)) INFERNAL_HEADER_KW
  && existsb (Nat.eqb (length (split_ws (lstrip_char "#"%byte l1)))) INFERNAL_NCOLS.
Definition ident_of (rows : list (list str)) : str := nth 2 (hd [] rows) [].

(* FASTA / Stockholm / GFF writers: the first line as a function of the object (fasta.py:84-95, stockholm.py:166-171,
   gff.py:118-124) *)
Definition render_fasta_rec (id header data : str) : str := bs ">"%bs ++ id ++ header ++ [nl] ++ data ++ [nl].
Definition render_fasta (recs : list (str * str * str)) : str :=
  concat (map (fun r => render_fasta_rec (fst (fst r)) (snd (fst r)) (snd r)) recs).
Definition render_stockholm (body : list str) : str :=      (* '\n'.join(['# STOCKHOLM 1.0'] + body + ['//\n']) *)
  join nl (bs "# STOCKHOLM 1.0"%bs :: body ++ [bs "//"%bs ++ [nl]]).
Definition render_gff (header : str) (body : str) : str := bs "##gff-version 3"%bs ++ [nl] ++ header ++ body.

(* ------------------------------------------------------------------ read / iter_ / read_fts: which plugin reads what
   (main.py:240-262, 307-330, 356-367): with fmt omitted the format is detected on the handle, then in both cases
   fmt.lower() selects the plugin, which reads the SAME handle from where it stands with the SAME keyword options *)
Record plan := { pl_fmt : str; pl_pos : nat; pl_content : str; pl_binary : bool; pl_opts : opts }.
Definition read_plan (w : what) (o : opts) (fmt : option str) (h : handle) : option plan :=
  match fmt with
  | Some f => Some {| pl_fmt := lower f; pl_pos := h_pos h; pl_content := h_content h; pl_binary := h_binary h; pl_opts := o |}
  | None =>
      match detect_h w o h with
      | (DFound d, h') => Some {| pl_fmt := lower d; pl_pos := h_pos h'; pl_content := h_content h'; pl_binary := h_binary h'; pl_opts := o |}
      | _ => None                                     (* IOError: Format cannot be auto-detected *)
      end
  end.

(* the write-side decision as a first-match table of (condition, outcome) rows, written independently of write_resolve *)
Definition is_name_arg (f : fname_arg) : option str := match f with FStr s | FPath s => Some s | _ => None end.
Definition wtable (w : what) (first_archive : str) (f : fname_arg) (fmt : option str) (a : archive_arg) : wdecision :=
  let archived := match a with ANone => false | _ => true end in
  let arch := match a with AStr x => x | _ => first_archive end in
  (* the format: the option if given, else from the extension of the (base) name *)
  let chosen := match fmt, is_name_arg f with
                | Some x, _ => Some (lower x)
                | None, Some s => option_map lower (detect_ext w (if archived then basename s else s))
                | None, None => None
                end in
  match archived, is_name_arg f, f, chosen with
  | true, None, _, _ => WErrArchiveHandle              (* row 1: archive= needs a file name *)
  | false, None, FNone, None => WErrNoFmt              (* row 2: nothing to derive the format from *)
  | _, _, _, None => WErrDetect                        (* row 3: extension unknown (or a handle without fmt) *)
  | true, Some s, _, Some x => WArchive s arch x       (* row 4 *)
  | false, Some s, _, Some x => WFile s x              (* row 5 *)
  | false, None, FNone, Some x => WToStr x             (* row 6 *)
  | false, None, _, Some x => WHandle x                (* row 7 *)
  end.

(* ------------------------------------------------------------------ domain and harness entry point *)
(* contents: printable ASCII, tab, newline (what every transport delivers unchanged to the sniffers) *)
Definition ascii_ok (c : byte) : bool :=
  let n := Byte.to_N c in ((32 <=? n) && (n <=? 126) || (n =? 9) || (n =? 10))%N.
Definition wf_content (c : str) : bool := forallb ascii_ok c.
Definition wf_C03 (c : str) (pos : nat) : bool := wf_content c && Nat.leb pos (length c).

Definition v_dres (d : dres) : val :=
  match d with
  | DFound f => VS f
  | DNothing => VNone
  | DUnknownPlugin f => VE (bs "UnknownPlugin"%bs ++ f)
  end.
Definition v_what (n : N) : what := match n with 0%N => Seqs | _ => Fts end.
Definition v_decision (d : decision) : val :=
  match d with
  | DErrBytes => VE (bs "ValueError"%bs)
  | DPassHandle => VL [VS (bs "handle"%bs)]
  | DStdin => VL [VS (bs "stdin"%bs)]
  | DUrl b UArchiveGlob => VL [VS (bs "url"%bs); VS (bs "glob"%bs); VS b]
  | DUrl b (UArchiveUnpack f) => VL [VS (bs "url"%bs); VS (bs "archive"%bs); VS b; VOpt VS f]
  | DUrl _ UGz => VL [VS (bs "url"%bs); VS (bs "gz"%bs)]
  | DUrl _ UData => VL [VS (bs "url"%bs); VS (bs "data"%bs)]
  | DGlob p => VL [VS (bs "glob"%bs); VS p]
  | DArchive n f => VL [VS (bs "archive"%bs); VS n; VOpt VS f]
  | DGz n => VL [VS (bs "gz"%bs); VS n]
  | DPlain n => VL [VS (bs "plain"%bs); VS n]
  end.
Definition v_kwargs (k : option kwargs) : val :=
  match k with
  | None => VE (bs "TypeError"%bs)
  | Some kw => VL (map (fun kv => VL [VS (fst kv); VS (snd kv)]) kw)
  end.

(* detect on a handle: [wf; [detected format; position afterwards; shape predicate of the claimed origin]] *)
Definition run_C03_detect (w : N) (sep : option byte) (outfmt : option str) (binary : bool) (pos : nat)
                          (origin : str) (c : str) : val :=
  let o := {| o_sep := sep; o_outfmt := outfmt |} in
  let '(d, h) := detect_h (v_what w) o {| h_content := c; h_pos := pos; h_binary := binary |} in
  VL [VB (wf_C03 c pos); VL [v_dres d; VI (Z.of_nat (h_tell h)); VB (shape_of origin o (skipn pos c))]].
(* the same with a third-party binary plugin registered in front of the chain (main.py:66-67: skipped for text handles) *)
Definition bin_plugin : plugin := (bs "bintest"%bs, (true, (true, (false, [])))).
Definition run_C03_detect_bin (w : N) (binary : bool) (pos : nat) (c : str) : val :=
  let h0 := {| h_content := c; h_pos := pos; h_binary := binary |} in
  let '(d, h) := detect_loop (v_what w) no_opts (h_tell h0) (bin_plugin :: chain (v_what w)) h0 in
  VL [VB (wf_C03 c pos); VL [v_dres d; VI (Z.of_nat (h_tell h)); VB true]].
(* renderer models against the real writers: [wf; text] *)
Definition run_C03_render_xsv (sep : byte) (keys : list str) (rows : list (list str)) : val :=
  VL [VB (wf_xsv sep keys rows); VS (render_xsv sep keys rows)].
Definition run_C03_render_hits (sep : byte) (rows : list (list str)) : val :=
  VL [VB (wf_hits sep rows); VS (render_hits sep rows)].
Definition run_C03_render_mmseqs4 (names : list str) (rows : list (list str)) : val :=
  VL [VB (wf_mmseqs4 names rows); VS (render_mmseqs4 names rows)].
Definition run_C03_render_blast7 (prog ver : str) (comments : list str) (rows : list (list str)) : val :=
  VL [VB (wf_blast7 prog ver comments rows); VS (render_blast7 prog ver comments rows)].
Definition run_C03_render_infernal (l0 l1 : str) (rows : list str) : val :=
  VL [VB (wf_infernal l0 l1 rows); VS (render_infernal l0 l1 rows)].
Definition run_C03_render_fasta (recs : list (str * str * str)) : val :=
  VL [VB (match recs with [] => false | _ => true end); VS (render_fasta recs)].
Definition run_C03_render_stockholm (body : list str) : val := VL [VB true; VS (render_stockholm body)].
Definition run_C03_render_gff (header body : str) : val := VL [VB true; VS (render_gff header body)].
Definition run_C03_ext (w : N) (fname : str) : val :=
  VL [VB true; VOpt VS (detect_ext (v_what w) fname)].
(* the plan of a read with fmt omitted / given: [format used; start position] or IOError *)
Definition run_C03_plan (w : N) (sep : option byte) (binary : bool) (pos : nat) (fmt : option str) (c : str) : val :=
  let o := {| o_sep := sep; o_outfmt := None |} in
  VL [VB (wf_C03 c pos);
      match read_plan (v_what w) o fmt {| h_content := c; h_pos := pos; h_binary := binary |} with
      | Some p => VL [VS (pl_fmt p); VI (Z.of_nat (pl_pos p))]
      | None => VE (bs "OSError"%bs)
      end].
(* histories: the model is pure, so every step is the model applied to the content the handle holds at that moment *)
Inductive hstep :=
| HDetect (w : N) (sep : option byte) (outfmt : option str) (binary : bool) (pos : nat) (c : str)
| HExt (w : N) (fname : str)
| HOk.                                          (* relational step: the driver reports "ok" *)
Definition run_hstep (s : hstep) : bool * val :=
  match s with
  | HDetect w sep outfmt binary pos c =>
      let o := {| o_sep := sep; o_outfmt := outfmt |} in
      let '(d, h) := detect_h (v_what w) o {| h_content := c; h_pos := pos; h_binary := binary |} in
      (wf_C03 c pos, VL [v_dres d; VI (Z.of_nat (h_tell h))])
  | HExt w fname => (true, VOpt VS (detect_ext (v_what w) fname))
  | HOk => (true, VS (bs "ok"%bs))
  end.
Definition run_C03_hist (steps : list hstep) : val :=
  let rs := map run_hstep steps in
  VL [VB (forallb fst rs); VL (map snd rs)].
Definition run_C03_ext_arg (w : N) (f : fname_arg) : val :=
  VL [VB true; VOpt VS (detect_ext_arg (v_what w) f)].
(* glob_empty: the harness lets glob.glob return no file -> IOError (main.py:188-189) *)
Definition run_C03_resolve (datadir example : str) (f : fname_arg) (a : archive_arg) (glob_empty : bool) : val :=
  VL [VB true; match resolve datadir example f a with
               | DGlob p => if glob_empty then VE (bs "OSError"%bs) else v_decision (DGlob p)
               | DUrl b UArchiveGlob => if glob_empty then VE (bs "OSError"%bs) else v_decision (DUrl b UArchiveGlob)
               | d => v_decision d
               end].
Definition v_wdecision (d : wdecision) : val :=
  match d with
  | WErrArchiveHandle => VE (bs "ValueError"%bs)
  | WErrNoFmt => VE (bs "ValueError"%bs)
  | WErrDetect => VE (bs "OSError"%bs)
  | WToStr f => VL [VS (bs "tostr"%bs); VS f]
  | WHandle f => VL [VS (bs "handle"%bs); VS f]
  | WFile n f => VL [VS (bs "file"%bs); VS n; VS f]
  | WArchive n a f => VL [VS (bs "archive"%bs); VS n; VS a; VS f]
  end.
Definition run_C03_wresolve (w : N) (first_archive : str) (f : fname_arg) (fmt : option str) (a : archive_arg) : val :=
  VL [VB true; v_wdecision (write_resolve (v_what w) first_archive f fmt a)].
Definition run_C03_kw (w : N) (e : entry) (kw : kwargs) : val :=
  VL [VB true; v_kwargs (plugin_kw (v_what w) e kw)].

(* ------------------------------------------------------------------ the command-line converter: sugar convert / convertf
   (scripts.py:33-58 behind cli(), scripts.py:116-119, 184-188).  argparse hands over str or None for -f, -o, -fo. *)
Definition support := (str * (bool * (bool * (bool * bool))))%type.
Definition support_tab (w : what) : list support := match w with Seqs => SUPPORT_seqs | Fts => SUPPORT_fts end.
Fixpoint lookup_support (f : str) (t : list support) : option (bool * (bool * (bool * bool))) :=
  match t with
  | [] => None
  | (n, s) :: r => if str_eqb n f then Some s else lookup_support f r
  end.
Inductive cerr := EKey | EOS | ERuntime | EIndex.
(* EPS[what][fmt].load() then the choice of the plugin function: None = fine.
   read (main.py:347-354): read_<fmt>, else iter_<fmt>, else RuntimeError; read_fts (main.py:389-394): read_fts_<fmt> *)
Definition readable (w : what) (f : str) : option cerr :=
  match lookup_support f (support_tab w) with
  | None => Some EKey                                                   (* no such entry point: KeyError *)
  | Some (r, (i, _)) => if r || i then None else Some ERuntime
  end.
(* write with the default mode 'w' (main.py:435-446): write_<fmt>, else append_<fmt> per object, else RuntimeError;
   write_fts (main.py:476-483): write_fts_<fmt> *)
Definition writable (w : what) (f : str) : option cerr :=
  match lookup_support f (support_tab w) with
  | None => Some EKey
  | Some (_, (_, (wr, ap))) => if wr || ap then None else Some ERuntime
  end.
(* the format read() uses: fmt.lower() if -f is given (also when it is the empty string), else the detected one *)
Definition cli_read (w : what) (detected fmt : option str) : cerr + str :=
  match fmt with
  | Some x => match readable w (lower x) with Some e => inl e | None => inr (lower x) end
  | None => match detected with
            | None => inl EOS                                           (* Format cannot be auto-detected *)
            | Some d => match readable w (lower d) with Some e => inl e | None => inr (lower d) end
            end
  end.
(* Python's `a or b`: the empty string is false *)
Definition truthy (o : option str) : option str := match o with Some (c :: r) => Some (c :: r) | _ => None end.
Inductive cli_res :=
| CErr (e : cerr)
| CStdout (fr fw : str)                 (* print(objs.tofmtstr(fw)) *)
| CFile (name fr fw : str).             (* objs.write(name, fmt=fw) *)
Definition cli_emit (w : what) (fw : str) (ok : cli_res) : cli_res :=
  match writable w fw with Some e => CErr e | None => ok end.
(* nobj: how many objects the input holds (objs[0] of an empty collection is an IndexError) *)
Definition cli_convert (w : what) (detected : option str) (nobj : nat) (fmt out fmtout : option str) : cli_res :=
  match cli_read w detected fmt with
  | inl e => CErr e
  | inr fr =>
      match out with
      | None =>
          (* objs.tofmtstr(fmtout or fmt or objs[0].meta._fmt) = write(objs, None, that) *)
          let chosen := match truthy fmtout, truthy fmt with
                        | Some x, _ => Some x
                        | None, Some x => Some x
                        | None, None => match nobj with O => None | S _ => Some fr end
                        end in
          match chosen with
          | None => CErr EIndex
          | Some x => match write_resolve w [] FNone (Some x) ANone with
                      | WToStr fw => cli_emit w fw (CStdout fr fw)
                      | _ => CErr EOS                                   (* not reachable *)
                      end
          end
      | Some name =>
          (* objs.write(name, fmt=fmtout) *)
          match write_resolve w [] (FStr name) fmtout ANone with
          | WFile n fw => cli_emit w fw (CFile n fr fw)
          | _ => CErr EOS                                               (* WErrDetect: extension names no format *)
          end
      end
  end.

(* the same as a first-match table, written independently *)
Definition is_some {A} (o : option A) : bool := match o with Some _ => true | None => false end.
Definition cli_table (w : what) (detected : option str) (nobj : nat) (fmt out fmtout : option str) : cli_res :=
  (* R: the format the input is read in *)
  let R := match fmt with Some x => Some (lower x) | None => option_map lower detected end in
  (* W: the format the output is written in *)
  let W := match out with
           | Some name => match fmtout with Some x => Some (lower x) | None => option_map lower (detect_ext w name) end
           | None => match truthy fmtout, truthy fmt with
                     | Some x, _ => Some (lower x)
                     | None, Some x => Some (lower x)
                     | None, None => match nobj with O => None | S _ => R end
                     end
           end in
  match R with
  | None => CErr EOS                                                      (* row 1: -f omitted and nothing detected *)
  | Some r =>
      match readable w r with
      | Some e => CErr e                                                  (* row 2: unknown name / plugin cannot read *)
      | None =>
          match W with
          | None => CErr (match out with Some _ => EOS | None => EIndex end)   (* row 3: unknown extension; row 4: empty input *)
          | Some fw =>
              match writable w fw with
              | Some e => CErr e                                          (* row 5: unknown name / plugin cannot write *)
              | None => match out with
                        | None => CStdout r fw                            (* row 6 *)
                        | Some name => CFile name r fw                    (* row 7 *)
                        end
              end
          end
      end
  end.

Definition v_cerr (e : cerr) : val :=
  VE (match e with EKey => bs "KeyError"%bs | EOS => bs "OSError"%bs | ERuntime => bs "RuntimeError"%bs | EIndex => bs "IndexError"%bs end).
Definition v_cli (r : cli_res) : val :=
  match r with
  | CErr e => v_cerr e
  | CStdout fr fw => VL [VS (bs "stdout"%bs); VS fr; VS fw]
  | CFile n fr fw => VL [VS (bs "file"%bs); VS n; VS fr; VS fw]
  end.
(* domain: -f, if given and a known format, names the format the file really has (another plugin would be asked to parse
   foreign content); the output name is not empty *)
Definition wf_cli (w : what) (detected fmt out : option str) : bool :=
  match fmt with
  | Some x => match readable w (lower x) with
              | None => match detected with Some d => str_eqb (lower x) (lower d) | None => false end
              | Some _ => true
              end
  | None => true
  end && match out with Some [] => false | _ => true end.
Definition run_C03_cli (w : N) (detected : option str) (nobj : nat) (fmt out fmtout : option str) : val :=
  VL [VB (wf_cli (v_what w) detected fmt out); v_cli (cli_convert (v_what w) detected nobj fmt out fmtout)].

(* ------------------------------------------------------------------ sessions: a history of calls on ONE file object, as a state
   machine over (kind, content, offset).  The io calls are CPython's (tied by the sess stream); detect is main.py:76-101; reading
   an object is main.py:336-358 / 384-397: format given or detected on the handle, then the plugin consumes from where the handle
   stands -- the Stockholm reader up to and including the first "//" line (stockholm.py:120-141: readline() until a line that,
   stripped, starts with "//"), every other reader to the end of the content; _file_opener (main.py:53-63) leaves a binary
   handle where the reader stopped. *)
Fixpoint take_line (s : str) : str * str :=              (* f.readline(): the line with its newline, and what follows *)
  match s with
  | [] => ([], [])
  | c :: r => if byte_eqb c nl then ([c], r) else let '(l, t) := take_line r in (c :: l, t)
  end.
Fixpoint stk_consume_aux (fuel : nat) (s : str) : nat :=
  match fuel with
  | O => 0
  | S k =>
      match s with
      | [] => 0                                            (* readline() returned '': end of file *)
      | _ => let '(l, t) := take_line s in
             if startswith (bs "//"%bs) (strip_ws l) then length l else length l + stk_consume_aux k t
      end
  end.
Definition stk_consume (s : str) : nat := stk_consume_aux (S (length s)) s.
Definition consume (fmt rest : str) : nat :=
  if name_is fmt "stockholm"%bs then stk_consume rest else length rest.

Inductive sop :=
| SSeek (p : nat)                                          (* f.seek(p) *)
| SRead (n : option nat)                                   (* f.read(n) / f.read() *)
| SReadline                                                (* f.readline() *)
| STell                                                    (* f.tell() *)
| SDetect (w : what) (o : opts)                            (* sugar._io.detect(f, what, **opts) *)
| SReadObj (w : what) (o : opts) (fmt : option str).       (* sugar.read(f, fmt, **opts) / read_fts *)
Definition is_detect (op : sop) : bool := match op with SDetect _ _ => true | _ => false end.
Definition h_advance (n : nat) (h : handle) : handle := h_seek (Nat.min (length (h_content h)) (h_pos h + n)) h.
Definition sstep (h : handle) (op : sop) : val * handle :=
  match op with
  | SSeek p => (VI (Z.of_nat p), h_seek p h)
  | SRead None => (VS (h_rest h), h_advance (length (h_rest h)) h)
  | SRead (Some n) => (VS (firstn n (h_rest h)), h_advance n h)
  | SReadline => let l := fst (take_line (h_rest h)) in (VS l, h_advance (length l) h)
  | STell => (VI (Z.of_nat (h_pos h)), h)
  | SDetect w o => let '(d, h') := detect_h w o h in (VL [v_dres d; VI (Z.of_nat (h_tell h'))], h')
  | SReadObj w o fmt =>
      match read_plan w o fmt h with
      | None => (VE (bs "OSError"%bs), h)                  (* nothing detected; detect has put the handle back *)
      | Some p =>
          let h' := h_advance (consume (pl_fmt p) (h_rest h)) h in
          (VL [VS (pl_fmt p); VI (Z.of_nat (h_pos h'))], h')
      end
  end.
Fixpoint run_session (h : handle) (ops : list sop) : list val * handle :=
  match ops with
  | [] => ([], h)
  | op :: r => let '(a, h') := sstep h op in let '(as_, h'') := run_session h' r in (a :: as_, h'')
  end.
(* the answers of the calls that are not detect calls *)
Definition other_answers (ops : list sop) (answers : list val) : list val :=
  map snd (filter (fun p => negb (is_detect (fst p))) (combine ops answers)).
(* domain: contents as for detect; seeks stay inside the content *)
Definition wf_session (c : str) (pos : nat) (ops : list sop) : bool :=
  wf_C03 c pos && forallb (fun op => match op with SSeek p => Nat.leb p (length c) | _ => true end) ops.
Definition run_C03_session (binary : bool) (c : str) (ops : list sop) : val :=
  let '(answers, h) := run_session {| h_content := c; h_pos := 0; h_binary := binary |} ops in
  VL [VB (wf_session c 0 ops); VL [VL answers; VI (Z.of_nat (h_pos h))]].

(* ------------------------------------------------------------------ the recursion of _resolve_fname (main.py:171-239) over a
   file-system oracle.  The decision with the _isglob flag (main.py:209: `elif _isglob and glob.has_magic(fname)`); names found
   by a pattern are resolved again with _isglob=False and the caller's archive option (main.py:215), the content of an archive
   is resolved as the pattern <tmpdir>/**/* WITHOUT the archive option and with _isglob at its default (main.py:226-228). *)
Definition resolve_g (isglob : bool) (datadir example : str) (f : fname_arg) (a : archive_arg) : decision :=
  match f with
  | FBytes => DErrBytes
  | FHandle => DPassHandle
  | _ =>
      let name0 := match f with FNone => example | FPath s => s | FStr s => s | _ => [] end in
      let name := if startswith (bs "!data/"%bs) name0
                  then datadir ++ [slash] ++ removeprefix (bs "!data/"%bs) name0 else name0 in
      if str_eqb name (bs "-"%bs) then DStdin
      else if contains (bs "://"%bs) (firstn 10 name) then
        let bname := url_basename name in
        DUrl bname
          (if archive_requested a || existsb (fun ext => endswith (dot :: ext) bname) ARCHIVE_EXTS
           then if has_magic bname then UArchiveGlob else UArchiveUnpack (match a with AStr s => Some s | _ => None end)
           else if is_gz_arg a || endswith (bs ".gz"%bs) bname then UGz
           else UData)
      else if isglob && has_magic name then DGlob name
      else if archive_requested a || existsb (fun ext => endswith (dot :: ext) name) ARCHIVE_EXTS
      then DArchive name (match a with AStr s => Some s | _ => None end)
      else if is_gz_arg a || endswith (bs ".gz"%bs) name then DGz name
      else DPlain name
  end.
(* what glob.glob / shutil.unpack_archive / gzip.open answer *)
Record fsys := {
  fs_glob : str -> list str;                        (* glob.glob(pattern, recursive=True) *)
  fs_isdir : str -> bool;                           (* os.path.isdir(name) *)
  fs_unpack : str -> option str -> option str;      (* shutil.unpack_archive(name, tmpdir, format): Some tmpdir, None = it raises *)
  fs_gunzip : str -> option str;                    (* gzip.open(name).read(): the data, None = it raises *)
  fs_get : str -> option str;                       (* requests.get(url) + raise_for_status: the payload, None = it raises *)
  fs_gzdec : str -> option str;                     (* gzip.decompress(payload) *)
  fs_dlprefix : str                                 (* NamedTemporaryFile(suffix=bname).name = this prefix + bname *)
}.
(* what the wrapped reader is finally called with *)
Inductive leaf :=
| LFile (name : str)                                (* a file name: opened by the reader *)
| LData (data : str)                                (* io.BytesIO(decompressed data) *)
| LStdin.
Inductive rres := RFuel | RErr | ROk (l : list leaf).
Definition glob_tail : str := bs "/**/*"%bs.
(* reduce(operator.add, [new_reader(n) for n in names]): all results in order; the first exception wins *)
Fixpoint rconcat (rs : list rres) : rres :=
  match rs with
  | [] => ROk []
  | r :: t => match r, rconcat t with
              | RFuel, _ => RFuel
              | _, RFuel => RFuel
              | RErr, _ => RErr
              | _, RErr => RErr
              | ROk a, ROk b => ROk (a ++ b)
              end
  end.
Definition resolved_name (dd name0 : str) : str :=
  if startswith (bs "!data/"%bs) name0 then dd ++ [slash] ++ removeprefix (bs "!data/"%bs) name0 else name0.
Fixpoint resolve_run (fuel : nat) (fs : fsys) (dd ex : str) (isglob : bool) (name : str) (a : archive_arg) : rres :=
  match fuel with
  | O => RFuel
  | S k =>
      match resolve_g isglob dd ex (FStr name) a with
      | DGlob pat =>
          (* main.py:211: directories matching the pattern are not files to read *)
          match filter (fun n => negb (fs_isdir fs n)) (fs_glob fs pat) with
          | [] => RErr                                                        (* IOError: no file matching *)
          | names => rconcat (map (fun n => resolve_run k fs dd ex false n a) names)
          end
      | DArchive n fmt =>
          match fs_unpack fs n fmt with
          | None => RErr
          | Some tmp => resolve_run k fs dd ex true (tmp ++ glob_tail) ANone
          end
      | DGz n => match fs_gunzip fs n with None => RErr | Some d => ROk [LData d] end
      | DPlain n => ROk [LFile n]
      | DStdin => ROk [LStdin]
      | DUrl b sub =>
          (* main.py:191-208: download; an archive is saved as <prefix><bname> and resolved again WITH the archive option and with
             _isglob at its default, gzip data is decompressed in memory, anything else is data *)
          match fs_get fs (resolved_name dd name) with
          | None => RErr
          | Some payload =>
              match sub with
              | UData => ROk [LData payload]
              | UGz => match fs_gzdec fs payload with None => RErr | Some d => ROk [LData d] end
              | UArchiveGlob | UArchiveUnpack _ => resolve_run k fs dd ex true (fs_dlprefix fs ++ b) a
              end
          end
      | _ => RErr
      end
  end.

(* harness entry point: the oracle as finite tables *)
Fixpoint alist_get {A} (k : str) (t : list (str * A)) : option A :=
  match t with [] => None | (n, v) :: r => if str_eqb n k then Some v else alist_get k r end.
Definition opt_str_eqb (a b : option str) : bool :=
  match a, b with Some x, Some y => str_eqb x y | None, None => true | _, _ => false end.
Fixpoint unpack_get (k : str) (f : option str) (t : list (str * (option str * option str))) : option str :=
  match t with
  | [] => None
  | (n, (g, v)) :: r => if str_eqb n k && opt_str_eqb g f then v else unpack_get k f r
  end.
Definition fsys_url (globs : list (str * list str)) (dirs : list str) (unpacks : list (str * (option str * option str)))
                    (gunzips : list (str * str)) (gets gzdecs : list (str * str)) (prefix : str) : fsys :=
  {| fs_glob := fun p => match alist_get p globs with Some l => l | None => [] end;
     fs_isdir := fun n => mem_str n dirs;
     fs_unpack := fun n f => unpack_get n f unpacks;
     fs_gunzip := fun n => alist_get n gunzips;
     fs_get := fun u => alist_get u gets;
     fs_gzdec := fun x => alist_get x gzdecs;
     fs_dlprefix := prefix |}.
Definition fsys_of globs dirs unpacks gunzips : fsys := fsys_url globs dirs unpacks gunzips [] [] [].
Definition v_leaf (l : leaf) : val :=
  match l with
  | LFile n => VL [VS (bs "file"%bs); VS n]
  | LData d => VL [VS (bs "data"%bs); VS d]
  | LStdin => VL [VS (bs "stdin"%bs)]
  end.
Definition run_C03_rtree (fuel : nat) (globs : list (str * list str)) (dirs : list str) (unpacks : list (str * (option str * option str)))
                         (gunzips gets gzdecs : list (str * str)) (prefix : str) (name : str) (a : archive_arg) : val :=
  VL [VB true;
      match resolve_run fuel (fsys_url globs dirs unpacks gunzips gets gzdecs prefix) [] [] true name a with
      | ROk l => VL (map v_leaf l)
      | RErr => VE (bs "Error"%bs)
      | RFuel => VE (bs "OutOfFuel"%bs)
      end].

(* ------------------------------------------------------------------ which plugin function the entry points call
   (main.py:272-285 iter_, 347-354 read, 389-394 read_fts, 436-446 write, 476-483 write_fts), as a function of which functions
   the plugin module offers and of the mode string *)
Inductive pfun := PRead | PIter | PWrite | PAppend | PNoSupport.      (* PNoSupport: RuntimeError *)
Definition flags := (bool * (bool * (bool * bool)))%type.             (* read_, iter_, write_, append_ *)
Definition dispatch_read (s : flags) : pfun := let '(r, (i, _)) := s in if r then PRead else if i then PIter else PNoSupport.
Definition dispatch_iter (s : flags) : pfun := let '(r, (i, _)) := s in if i then PIter else if r then PRead else PNoSupport.
Definition dispatch_read_fts (s : flags) : pfun := let '(r, _) := s in if r then PRead else PNoSupport.
(* write(..., mode=m): append_<fmt> per object if it exists and 'a' in m, else write_<fmt>, else append_<fmt> if 'w' in m *)
Definition dispatch_write (mode : str) (s : flags) : pfun :=
  let '(_, (_, (w, a))) := s in
  if a && contains (bs "a"%bs) mode then PAppend
  else if w then PWrite
  else if a && contains (bs "w"%bs) mode then PAppend
  else PNoSupport.
Definition dispatch_write_fts (s : flags) : pfun := let '(_, (_, (w, _))) := s in if w then PWrite else PNoSupport.
Definition v_pfun (p : pfun) : val :=
  match p with
  | PRead => VS (bs "read"%bs) | PIter => VS (bs "iter"%bs) | PWrite => VS (bs "write"%bs) | PAppend => VS (bs "append"%bs)
  | PNoSupport => VE (bs "RuntimeError"%bs)
  end.
(* entry: 0 read, 1 iter_, 2 write, 3 read_fts, 4 write_fts *)
Definition run_C03_dispatch (entry : N) (mode : str) (r i w a : bool) : val :=
  let s := (r, (i, (w, a))) in
  VL [VB true; v_pfun (match entry with
                       | 0%N => dispatch_read s | 1%N => dispatch_iter s | 2%N => dispatch_write mode s
                       | 3%N => dispatch_read_fts s | _ => dispatch_write_fts s
                       end)].

(* ------------------------------------------------------------------ which file objects get a text layer: _is_binary_handle
   (main.py:31-41) as a function of three facts read off the object: instance of io.BufferedIOBase / io.RawIOBase, has an
   `encoding` attribute, 'b' in str(mode attribute) *)
Definition is_binary_handle (io_binary has_encoding mode_b : bool) : bool := io_binary || (negb has_encoding && mode_b).
Definition run_C03_hkind (io_binary has_encoding mode_b : bool) : val :=
  VL [VB true; VB (is_binary_handle io_binary has_encoding mode_b)].

(* ------------------------------------------------------------------ writing into an archive and reading it back
   _resolve_archive (main.py:135-140): the file is written as <tmpdir>/basename(name), then shutil.make_archive(name, archive,
   tmpdir) creates name + "." + <extension of the archive type>; reading that file: archive branch, <tmpdir>/**/* without
   directories (main.py:226-229).  glob's * on one path component: the name does not begin with a dot (hidden files are skipped). *)
Definition archive_type_ext (arch : str) : option str :=
  if name_is arch "zip"%bs then Some (bs "zip"%bs)
  else if name_is arch "tar"%bs then Some (bs "tar"%bs)
  else if name_is arch "gztar"%bs then Some (bs "tar.gz"%bs)
  else if name_is arch "bztar"%bs then Some (bs "tar.bz2"%bs)
  else if name_is arch "xztar"%bs then Some (bs "tar.xz"%bs)
  else None.
Definition glob_star (b : str) : bool := negb (startswith [dot] b) && negb (match b with [] => true | _ => false end).
(* the file system after objs.write(name, fmt, archive=...): one archive name.ext holding the member basename(name) *)
Definition written_fs (tmp name ext : str) : fsys :=
  {| fs_glob := fun p => if str_eqb p (tmp ++ glob_tail) && glob_star (basename name)
                         then [tmp ++ [slash] ++ basename name] else [];
     fs_isdir := fun _ => false;
     fs_unpack := fun n f => if str_eqb n (name ++ dot :: ext) && match f with None => true | Some _ => false end then Some tmp else None;
     fs_gunzip := fun _ => None; fs_get := fun _ => None; fs_gzdec := fun _ => None; fs_dlprefix := [] |}.
(* reading the written archive: true = the member reaches the reader as a plain file *)
Definition readback_ok (tmp name ext : str) : bool :=
  match resolve_run 4 (written_fs tmp name ext) [] [] true (name ++ dot :: ext) ANone with
  | ROk [LFile n] => str_eqb n (tmp ++ [slash] ++ basename name)
  | _ => false
  end.
Definition run_C03_wround (name arch : str) : val :=
  (* names with wildcard characters are patterns when read (whether a pattern matches its own text is glob's business) *)
  VL [VB (match archive_type_ext arch with Some _ => negb (has_magic name) | None => false end);
      match archive_type_ext arch with
      | Some ext => VB (readback_ok (bs "<T>"%bs) name ext)
      | None => VNone
      end].

(* ------------------------------------------------------------------ the tool option of read / iter_ / write (main.py:265-270,
   341-346, 430-434): 'biopython' hands over to Bio.SeqIO, any other non-empty text is a ValueError, None and '' mean the plugin *)
Inductive toolsel := TPlugin | TBiopython | TBadTool.
Definition tool_choice (tool : option str) : toolsel :=
  match tool with
  | None => TPlugin
  | Some t => if name_is t "biopython"%bs then TBiopython else match t with [] => TPlugin | _ => TBadTool end
  end.
Definition run_C03_tool (tool : option str) : val :=
  VL [VB true; match tool_choice tool with
               | TPlugin => VS (bs "plugin"%bs)
               | TBiopython => VS (bs "biopython"%bs)
               | TBadTool => VE (bs "ValueError"%bs)
               end].
