(* C02 model: GFF3 feature reader/writer of sugar (sugar/_io/gff.py), LocationTuple ordering (sugar/core/fts.py:159-189)
   and the column arithmetic of the TSV/CSV bridge (fts.py:423-455, 573-603).  Executable definitions only; no proofs. *)
From Coq Require Import List ZArith NArith Bool Sorted.
From Coq.Strings Require Import Byte.
Import ListNotations.
From SV Require Import Text G_gff.
Local Open Scope Z_scope.

(* ------------------------------------------------------------------ characters / str methods *)
Definition bcode (c : byte) : N := Byte.to_N c.
Definition is_ascii (c : byte) : bool := N.ltb (bcode c) 128.
Definition all_ascii (s : str) : bool := forallb is_ascii s.
Definition has (c : byte) (s : str) : bool := existsb (byte_eqb c) s.
(* str.strip() whitespace on the Latin-1 range: \t \n \v \f \r, FS GS RS US, space, NEL, NBSP *)
Definition is_ws (c : byte) : bool :=
  let n := bcode c in
  (N.leb 9 n && N.leb n 13) || (N.leb 28 n && N.leb n 32) || N.eqb n 133 || N.eqb n 160.
Fixpoint lstrip (s : str) : str :=
  match s with c :: r => if is_ws c then lstrip r else s | [] => [] end.
Definition rstrip (s : str) : str := rev (lstrip (rev s)).
Definition strip (s : str) : str := rstrip (lstrip s).
(* str.split(c) for a one-character separator: always at least one piece *)
Fixpoint split_on (c : byte) (s : str) : list str :=
  match s with
  | [] => [[]]
  | x :: r =>
      if byte_eqb x c then [] :: split_on c r
      else match split_on c r with
           | p :: ps => (x :: p) :: ps
           | [] => [[x]]
           end
  end.
(* str.split(c, 1): None when c does not occur *)
Fixpoint split1 (c : byte) (s : str) : option (str * str) :=
  match s with
  | [] => None
  | x :: r => if byte_eqb x c then Some ([], r)
              else match split1 c r with Some (a, b) => Some (x :: a, b) | None => None end
  end.
Fixpoint join (sep : str) (l : list str) : str :=
  match l with
  | [] => []
  | [x] => x
  | x :: r => x ++ sep ++ join sep r
  end.
Fixpoint startswith (p s : str) : bool :=
  match p, s with
  | [], _ => true
  | a :: p', b :: s' => byte_eqb a b && startswith p' s'
  | _, [] => false
  end.
(* iteration over a text file: pieces between '\n'; a final empty piece is no line *)
Definition file_lines (t : str) : list str :=
  let ps := split_on x0a t in
  match rev ps with
  | [] :: r => rev r
  | _ => ps
  end.

(* ------------------------------------------------------------------ urllib.parse.quote / unquote (ASCII) *)
Definition is_unreserved (c : byte) : bool := has c quote_safe_chars.
Definition hexdigitU (n : N) : byte :=
  match n with
  | 0 => "0" | 1 => "1" | 2 => "2" | 3 => "3" | 4 => "4" | 5 => "5" | 6 => "6" | 7 => "7"
  | 8 => "8" | 9 => "9" | 10 => "A" | 11 => "B" | 12 => "C" | 13 => "D" | 14 => "E" | _ => "F"
  end%N%byte.
(* quote(s) with the default safe='/': every byte outside the always-safe set becomes %XX (upper-case hex) *)
Definition quote1 (c : byte) : str :=
  if is_unreserved c then [c]
  else ["%"%byte; hexdigitU (N.div (bcode c) 16); hexdigitU (N.modulo (bcode c) 16)].
Definition quote (s : str) : str := flat_map quote1 s.
(* hex digit of either case, as accepted by urllib's _hextobyte table *)
Definition hexvalUL (b : byte) : option N :=
  match b with
  | "0" => Some 0 | "1" => Some 1 | "2" => Some 2 | "3" => Some 3 | "4" => Some 4
  | "5" => Some 5 | "6" => Some 6 | "7" => Some 7 | "8" => Some 8 | "9" => Some 9
  | "a" => Some 10 | "b" => Some 11 | "c" => Some 12 | "d" => Some 13 | "e" => Some 14 | "f" => Some 15
  | "A" => Some 10 | "B" => Some 11 | "C" => Some 12 | "D" => Some 13 | "E" => Some 14 | "F" => Some 15
  | _ => None
  end%N%byte.
Definition unq3 (a b : byte) : option byte :=
  match hexvalUL a, hexvalUL b with
  | Some x, Some y => Byte.of_N (x * 16 + y)
  | _, _ => None
  end.
(* unquote: '%' followed by two hex digits is decoded, any other '%' is kept (urllib/parse.py unquote_to_bytes) *)
Fixpoint unquote (s : str) : str :=
  match s with
  | [] => []
  | c :: r =>
      if byte_eqb c "%"%byte then
        match r with
        | a :: b :: r' =>
            match unq3 a b with
            | Some d => d :: unquote r'
            | None => c :: unquote r
            end
        | _ => c :: unquote r
        end
      else c :: unquote r
  end.

(* ------------------------------------------------------------------ Python values that occur in GFF metadata *)
Inductive aval :=
| AS (s : str)            (* str *)
| AL (l : list str)       (* list of str (multi-valued attribute) *)
| AF (tok : str)          (* float, kept as its decimal literal (DESIGN 5.3) *)
| AI (z : Z).             (* int *)
Fixpoint strs_eqb (a b : list str) : bool :=
  match a, b with
  | [], [] => true
  | x :: a', y :: b' => str_eqb x y && strs_eqb a' b'
  | _, _ => false
  end.
Definition aval_eqb (a b : aval) : bool :=
  match a, b with
  | AS x, AS y => str_eqb x y
  | AL x, AL y => strs_eqb x y
  | AF x, AF y => str_eqb x y
  | AI x, AI y => Z.eqb x y
  | _, _ => false
  end.
(* insertion-ordered dict with str keys *)
Definition adict := list (str * aval).
Fixpoint aget (k : str) (d : adict) : option aval :=
  match d with
  | [] => None
  | (k', v) :: r => if str_eqb k' k then Some v else aget k r
  end.
Fixpoint aset (k : str) (v : aval) (d : adict) : adict :=
  match d with
  | [] => [(k, v)]
  | (k', v') :: r => if str_eqb k' k then (k', v) :: r else (k', v') :: aset k v r
  end.
Fixpoint apop (k : str) (d : adict) : adict :=
  match d with
  | [] => []
  | (k', v') :: r => if str_eqb k' k then r else (k', v') :: apop k r
  end.
Definition aupdate (d e : adict) : adict := fold_left (fun acc kv => aset (fst kv) (snd kv) acc) e d.
Definition opt_aval_eqb (a : option aval) (b : aval) : bool :=
  match a with Some x => aval_eqb x b | None => false end.

(* ------------------------------------------------------------------ objects *)
Record loc := mkLoc { lstart : Z; lstop : Z; lstrand : byte; lgff : option adict }.
(* Feature: meta without the _gff entry (type and the keys copied by copyattrs), meta._gff, locations *)
Record feat := mkFeat { fmeta : adict; fgff : option adict; flocs : list loc }.

(* LocationTuple.__new__, fts.py:180-188: stable sort by start, or by stop descending when the first strand is '-' *)
Fixpoint ins_asc (x : loc) (l : list loc) : list loc :=
  match l with
  | [] => [x]
  | y :: r => if Z.leb (lstart x) (lstart y) then x :: l else y :: ins_asc x r
  end.
Fixpoint ins_desc (x : loc) (l : list loc) : list loc :=
  match l with
  | [] => [x]
  | y :: r => if Z.leb (lstop y) (lstop x) then x :: l else y :: ins_desc x r
  end.
Definition sort_asc (l : list loc) : list loc := fold_right ins_asc [] l.
Definition sort_desc (l : list loc) : list loc := fold_right ins_desc [] l.
Definition one_strand (l : list loc) : bool :=
  match l with
  | [] => true
  | x :: r => forallb (fun y => byte_eqb (lstrand y) (lstrand x)) r
  end.
Definition loc_tuple (l : list loc) : option (list loc) :=
  match l with
  | [] => None
  | x :: _ =>
      if one_strand l then
        Some (if byte_eqb (lstrand x) "-"%byte then sort_desc l else sort_asc l)
      else None
  end.
Definition strand_ok (c : byte) : bool := has c (bs "+-.?"%bs).

(* ------------------------------------------------------------------ reader, gff.py:40-103 *)
Definition c_tab : byte := x09.
Definition dot : str := bs "."%bs.
Definition k_ID : str := bs "ID"%bs.
Definition k_seqid : str := bs "seqid"%bs.
Definition k_source : str := bs "source"%bs.
Definition k_score : str := bs "score"%bs.
Definition k_phase : str := bs "phase"%bs.
Definition k_type : str := bs "type"%bs.

(* int(text) for the literals the model covers: surrounding whitespace, optional sign, decimal digits *)
Definition py_int (s : str) : option Z := Z_of_dec (strip s).

(* one key=value item of column 9, gff.py:71-74 *)
Definition parse_kv (kv : str) : option (str * aval) :=
  match split1 "="%byte (strip kv) with
  | None => None
  | Some (k, v) =>
      Some (unquote (strip k),
            if has ","%byte v then AL (map (fun vv => unquote (strip vv)) (split_on ","%byte (strip v)))
            else AS (unquote (strip v)))
  end.
Fixpoint parse_kvs (items : list str) (acc : adict) : option adict :=
  match items with
  | [] => Some acc
  | kv :: r => match parse_kv kv with
               | Some (k, v) => parse_kvs r (aset k v acc)
               | None => None
               end
  end.
Definition parse_attrs (attrcol : str) : option adict :=
  if str_eqb attrcol dot then Some [] else parse_kvs (split_on ";"%byte attrcol) [].

(* loose test that float(tok) succeeds: optional sign, digits with at most one '.', optional exponent *)
Definition is_digit (c : byte) : bool := N.leb 48 (bcode c) && N.leb (bcode c) 57.
Definition all_digits (s : str) : bool := forallb is_digit s.
Definition unsigned_dec_ok (s : str) : bool :=
  match split1 "."%byte s with
  | None => all_digits s && negb (Nat.eqb (length s) 0)
  | Some (a, b) => all_digits a && all_digits b && negb (Nat.eqb (length a + length b) 0)
  end.
Definition drop_sign (s : str) : str :=
  match s with c :: r => if byte_eqb c "-"%byte || byte_eqb c "+"%byte then r else s | [] => [] end.
Definition float_ok (tok : str) : bool :=
  let s := drop_sign (strip tok) in
  let me := match split1 "e"%byte s with Some p => Some p | None => split1 "E"%byte s end in
  match me with
  | None => unsigned_dec_ok s
  | Some (m, e) => unsigned_dec_ok m && all_digits (drop_sign e) && negb (Nat.eqb (length (drop_sign e)) 0)
  end.

Record gline := mkLine { g_type : option str; g_seqid : str; g_loc : loc; g_attrs : adict }.

(* one data line -> (type, seqid, location, attrs); None = ValueError *)
Definition parse_line (line : str) : option gline :=
  match split_on c_tab (strip line) with
  | [c1; c2; c3; c4; c5; c6; c7; c8; attrcol] =>
      let seqid := unquote c1 in let source := unquote c2 in let type_ := unquote c3 in
      let start := unquote c4 in let stop := unquote c5 in let score := unquote c6 in
      let strand := unquote c7 in let phase := unquote c8 in
      match py_int start, py_int stop, strand with
      | Some a, Some b, [sc] =>
          if Z.ltb (a - 1) b && strand_ok sc then
            match parse_attrs attrcol with
            | None => None
            | Some attrs =>
                let attrs := if str_eqb seqid dot then attrs else aset k_seqid (AS seqid) attrs in
                let attrs := if str_eqb source dot then attrs else aset k_source (AS source) attrs in
                if negb (str_eqb score dot) && negb (float_ok score) then None else
                let attrs := if str_eqb score dot then attrs else aset k_score (AF score) attrs in
                match (if str_eqb phase dot then Some attrs
                       else match py_int phase with Some p => Some (aset k_phase (AI p) attrs) | None => None end) with
                | None => None
                | Some attrs =>
                    Some (mkLine (if str_eqb type_ dot then None else Some type_) seqid
                                 (mkLoc (a - 1) b sc None) attrs)
                end
            end
          else None
      | _, _, _ => None
      end
  | _ => None
  end.

Definition opt_str_eqb (a b : option str) : bool :=
  match a, b with
  | Some x, Some y => str_eqb x y
  | None, None => true
  | _, _ => false
  end.
Definition gid := (aval * option str * str)%type.
Definition gid_eqb (a b : gid) : bool :=
  match a, b with
  | (i1, t1, s1), (i2, t2, s2) => aval_eqb i1 i2 && opt_str_eqb t1 t2 && str_eqb s1 s2
  end.
(* per-location difference dict, gff.py:88-93: the attributes of this line that differ from the feature's *)
Fixpoint diff_attrs (attrs : adict) (fg : adict) (acc : adict) : adict :=
  match attrs with
  | [] => acc
  | (k, v) :: r => diff_attrs r fg (if opt_aval_eqb (aget k fg) v then acc else aset k v acc)
  end.
Definition getgff (f : feat) : adict := match fgff f with Some g => g | None => [] end.

(* reader state: features in reverse order, lastid; None = ValueError *)
Fixpoint read_lines (ls : list str) (acc : list feat) (lastid : option gid) : option (list feat) :=
  match ls with
  | [] => Some (rev acc)
  | line :: rest =>
      if startswith (bs "##FASTA"%bs) line then Some (rev acc)
      else if startswith (bs "#"%bs) line || Nat.eqb (length (strip line)) 0 then read_lines rest acc lastid
      else
        match parse_line line with
        | None => None
        | Some gl =>
            let attrs := g_attrs gl in
            let id_ := match aget k_ID attrs with Some i => Some (i, g_type gl, g_seqid gl) | None => None end in
            let same := match id_, lastid with Some a, Some b => gid_eqb a b | _, _ => false end in
            match same, acc with
            | true, f :: acc' =>
                let d := diff_attrs attrs (getgff f) [] in
                let l := g_loc gl in
                let l' := mkLoc (lstart l) (lstop l) (lstrand l) (match d with [] => None | _ => Some d end) in
                match loc_tuple (flocs f ++ [l']) with
                | None => None
                | Some locs' => read_lines rest (mkFeat (fmeta f) (fgff f) locs' :: acc') id_
                end
            | _, _ =>
                let m := match g_type gl with Some t => [(k_type, AS t)] | None => [] end in
                read_lines rest (mkFeat m (Some attrs) [g_loc gl] :: acc) id_
            end
        end
  end.
(* gff.py:99-102 *)
Definition copy_attrs_in (f : feat) : feat :=
  let g := getgff f in
  mkFeat (fold_left (fun m p => match aget (fst p) g with Some v => aset (snd p) v m | None => m end) copyattrs (fmeta f))
         (fgff f) (flocs f).
Definition read_gff (t : str) : option (list feat) :=
  option_map (map copy_attrs_in) (read_lines (file_lines t) [] None).

(* ------------------------------------------------------------------ writer, gff.py:118-164 *)
Definition nl : str := [x0a].
Definition random_id : str := bs "??????????"%bs.    (* stands for the 10 random letters; outside the domain *)
(* str(v) inside the f-string / quote(str(v)) *)
Definition py_str (v : aval) : option str :=
  match v with
  | AS s => Some s
  | AF tok => Some tok
  | AI z => Some (dec_of_Z z)
  | AL _ => None
  end.
Definition truthy (v : aval) : bool :=
  match v with AS [] => false | AL [] => false | AI 0 => false | _ => true end.
Definition quote_val (v : aval) : option str :=
  match v with
  | AL l => Some (join (bs ","%bs) (map quote l))
  | _ => option_map quote (py_str v)
  end.
Fixpoint render_attrs (d : adict) : option (list str) :=
  match d with
  | [] => Some []
  | (k, v) :: r =>
      match quote_val v, render_attrs r with
      | Some qv, Some rr => Some ((quote k ++ bs "="%bs ++ qv) :: rr)
      | _, _ => None
      end
  end.
Definition attrstr (d : adict) : option str :=
  match d with
  | [] => Some dot
  | _ => option_map (join (bs ";"%bs)) (render_attrs d)
  end.
Definition pop3 (d : adict) : adict := apop k_type (apop k_source (apop k_seqid d)).
Definition pop5 (d : adict) : adict := apop k_phase (apop k_score (pop3 d)).
Definition col_or_dot (k : str) (d : adict) : option str :=
  match aget k d with None => Some dot | Some v => py_str v end.
(* quote(locs_meta[0].get(key, '.')): quote() of a non-str raises TypeError *)
Definition qcol (k : str) (d : adict) : option str :=
  match aget k d with None => Some dot | Some (AS s) => Some (quote s) | Some _ => None end.

(* meta._gff after the copyattrs loop and the ID fallback, gff.py:128-137 *)
Definition merged_gff_r (rid : str) (ft : feat) : adict :=
  let g := fold_left (fun g p => match aget (snd p) (fmeta ft) with Some v => aset (fst p) v g | None => g end)
                     copyattrs (getgff ft) in
  if Nat.ltb 1 (length (flocs ft)) && negb (match aget k_ID g with Some _ => true | None => false end)
  then aset k_ID (AS rid) g else g.
Definition merged_gff (ft : feat) : adict := merged_gff_r random_id ft.
Definition loc_meta (g : adict) (l : loc) : adict :=
  match lgff l with Some lg => aupdate g lg | None => g end.

(* one output line; None = TypeError *)
Definition write_line (seqid source type_ : str) (l : loc) (gm : adict) (m : adict) : option str :=
  match col_or_dot k_score m, col_or_dot k_phase m, attrstr gm with
  | Some nscore, Some nphase, Some a =>
      Some (seqid ++ [c_tab] ++ source ++ [c_tab] ++ type_ ++ [c_tab] ++ dec_of_Z (lstart l + 1) ++ [c_tab]
            ++ dec_of_Z (lstop l) ++ [c_tab] ++ nscore ++ [c_tab] ++ [lstrand l] ++ [c_tab] ++ nphase ++ [c_tab] ++ a ++ nl)
  | _, _, _ => None
  end.
Fixpoint concat_opt (l : list (option str)) : option str :=
  match l with
  | [] => Some []
  | Some x :: r => option_map (app x) (concat_opt r)
  | None :: _ => None
  end.
(* one line with its own source column (gff.py:149: quote(gff_meta.get('source', '.')) inside the loop) *)
Definition write_line_s (seqid type_ : str) (l : loc) (gm : adict) (mfull : adict) : option str :=
  match qcol k_source mfull with
  | Some source => write_line seqid source type_ l gm (pop3 mfull)
  | None => None
  end.
Definition write_feat_r (rid : str) (ft : feat) : option str :=
  let g := merged_gff_r rid ft in
  match flocs ft with
  | [] => None          (* cannot happen: LocationTuple is never empty *)
  | l0 :: rest =>
      let m0 := loc_meta g l0 in
      match qcol k_seqid m0 with
      | Some seqid =>
          let t1 := match aget k_type m0 with Some v => if truthy v then Some v else None | None => None end in
          let t2 := match t1 with Some v => Some v
                    | None => match aget k_type (fmeta ft) with Some v => if truthy v then Some v else None | None => None end end in
          match (match t2 with Some v => py_str v | None => Some dot end) with
          | None => None
          | Some type_ =>
              let base := pop5 m0 in
              let idv := match aget k_ID g with Some v => v | None => AS rid end in
              concat_opt
                (write_line_s seqid type_ l0 base m0 ::
                 map (fun l => let gm := filter (fun kv => negb (opt_aval_eqb (aget (fst kv) base) (snd kv))) (pop5 (loc_meta g l)) in
                               write_line_s seqid type_ l (aset k_ID idv gm) (loc_meta g l)) rest)
          end
      | None => None
      end
  end.
Definition write_feat (ft : feat) : option str := write_feat_r random_id ft.
Definition gff_header : str := bs "##gff-version 3"%bs ++ nl.
Definition write_gff (fts : list feat) : option str :=
  option_map (app gff_header) (concat_opt (map write_feat fts)).
(* the harness writer: a split feature without ID gets an invented ID (10 random letters in sugar, one draw per feature);
   the i-th feature's invented ID is canonicalised to "~id<i>" on both sides. Equal to write_gff on wf_C02 lists. *)
Definition rid_of (i : nat) : str := bs "~id"%bs ++ dec_of_nat i.
Fixpoint write_feats_h (i : nat) (fts : list feat) : list (option str) :=
  match fts with
  | [] => []
  | f :: r => write_feat_r (rid_of i) f :: write_feats_h (S i) r
  end.
Definition write_gff_h (fts : list feat) : option str :=
  option_map (app gff_header) (concat_opt (write_feats_h 0 fts)).

(* Feature(type, locs=[...], meta=...) constructor: locations pass through LocationTuple; None = ValueError *)
Definition mk_feature (f : feat) : option feat :=
  if forallb (fun l => Z.ltb (lstart l) (lstop l) && strand_ok (lstrand l)) (flocs f) then
    option_map (mkFeat (fmeta f) (fgff f)) (loc_tuple (flocs f))
  else None.
Fixpoint map_opt {A B} (f : A -> option B) (l : list A) : option (list B) :=
  match l with
  | [] => Some []
  | x :: r => match f x, map_opt f r with Some y, Some ys => Some (y :: ys) | _, _ => None end
  end.

(* ------------------------------------------------------------------ domain predicate *)
Definition key_ok (k : str) : bool :=
  all_ascii k
  && negb (existsb (str_eqb k) attr_reserved)
  && negb (match k with c :: _ => byte_eqb c "_"%byte | [] => false end)
  && negb (Nat.eqb (length k) 0).
Definition col_keys : list str := [k_seqid; k_source; k_score; k_phase; k_type].
Definition is_col_key (k : str) : bool := existsb (str_eqb k) col_keys.
Definition plain_val_ok (v : aval) : bool :=
  match v with
  | AS s => all_ascii s
  | AL l => Nat.leb 2 (length l) && forallb all_ascii l
  | _ => false
  end.
(* a seqid/source column value: non-empty, not the placeholder ".", ASCII *)
Definition colstr_ok (v : aval) : bool :=
  match v with AS s => all_ascii s && negb (Nat.eqb (length s) 0) && negb (str_eqb s dot) | _ => false end.
(* score literal that repr(float(tok)) reproduces: [-]int.frac, no redundant zeros, at most 15 significant digits,
   magnitude in [1e-4, 1e15) or zero *)
Fixpoint lead_zeros (s : str) : nat :=
  match s with c :: r => if byte_eqb c "0"%byte then S (lead_zeros r) else O | [] => O end.
Definition canon_fixed (tok : str) : bool :=
  let s := match tok with c :: r => if byte_eqb c "-"%byte then r else tok | [] => [] end in
  match split1 "."%byte s with
  | None => false
  | Some (a, b) =>
      all_digits a && all_digits b && negb (Nat.eqb (length a) 0) && negb (Nat.eqb (length b) 0)
      && (Nat.eqb (length a) 1 || negb (Nat.eqb (lead_zeros a) (length a)) && Nat.eqb (lead_zeros a) 0)
      && (Nat.eqb (length b) 1 || negb (match rev b with c :: _ => byte_eqb c "0"%byte | [] => true end))
      && Nat.leb (length a + length b) 15
      && (negb (str_eqb a (bs "0"%bs)) || str_eqb b (bs "0"%bs) || Nat.leb (lead_zeros b) 3)
      && negb (str_eqb tok (bs "-0.0"%bs))       (* -0.0 == 0.0 in Python although the literals differ *)
  end.
(* the exponent form of repr(float), used below 1e-4 and from 1e16 on: d[.ddd]e-XX / e+XX, no redundant zeros, exponent with at
   least two digits, at most 15 significant digits *)
Definition last_nonzero (b : str) : bool := negb (match rev b with c :: _ => byte_eqb c "0"%byte | [] => true end).
Definition canon_exp (tok : str) : bool :=
  let s := match tok with c :: r => if byte_eqb c "-"%byte then r else tok | [] => [] end in
  match split1 "e"%byte s with
  | None => false
  | Some (m, e) =>
      match split1 "."%byte m with
      | None => Nat.eqb (length m) 1 && all_digits m && negb (str_eqb m (bs "0"%bs))
      | Some (a, b) => Nat.eqb (length a) 1 && all_digits a && negb (str_eqb a (bs "0"%bs)) && all_digits b && last_nonzero b
      end
      && Nat.leb (length m) 16
      && match e with
         | sg :: ds =>
             all_digits ds
             && match Z_of_dec ds with
                | Some z => str_eqb ds (if Z.ltb z 10 then "0"%byte :: dec_of_Z z else dec_of_Z z)
                            && (if byte_eqb sg "-"%byte then Z.leb 5 z && Z.leb z 300
                                else byte_eqb sg "+"%byte && Z.leb 16 z && Z.leb z 300)
                | None => false
                end
         | [] => false
         end
  end.
Definition canon_float (tok : str) : bool := canon_fixed tok || canon_exp tok.
Definition type_char_ok (c : byte) : bool :=
  let n := bcode c in
  (N.leb 48 n && N.leb n 58) || (N.leb 65 n && N.leb n 90) || (N.leb 97 n && N.leb n 122)
  || N.eqb n 95 || N.eqb n 46 || N.eqb n 45.
Definition type_ok (v : aval) : bool :=
  match v with AS s => forallb type_char_ok s && negb (Nat.eqb (length s) 0) && negb (str_eqb s dot) | _ => false end.
Definition score_ok (v : aval) : bool := match v with AF t => canon_float t | _ => false end.
Definition phase_ok (v : aval) : bool := match v with AI z => Z.leb 0 z && Z.leb z 2 | _ => false end.
(* an entry of a _gff dict (feature level or location level) *)
Definition gff_entry_ok (kv : str * aval) : bool :=
  let (k, v) := kv in
  if str_eqb k k_seqid || str_eqb k k_source then colstr_ok v
  else if str_eqb k k_score then score_ok v
  else if str_eqb k k_phase then phase_ok v
  else if str_eqb k k_type then false
  else key_ok k && plain_val_ok v.
(* an entry of Feature.meta beside _gff: only the keys the writer looks at *)
Definition meta_entry_ok (kv : str * aval) : bool :=
  let (k, v) := kv in
  if str_eqb k k_type then type_ok v
  else if str_eqb k k_seqid then colstr_ok v
  else if str_eqb k k_score then score_ok v
  else if str_eqb k k_phase then phase_ok v
  else existsb (str_eqb k) [bs "name"%bs; bs "id"%bs; bs "evalue"%bs] && plain_val_ok v.
Fixpoint keys_unique (d : adict) : bool :=
  match d with
  | [] => true
  | (k, _) :: r => negb (existsb (fun kv => str_eqb (fst kv) k) r) && keys_unique r
  end.
Definition gff_ok (d : adict) : bool := forallb gff_entry_ok d && keys_unique d.
Definition loc_ok (l : loc) : bool :=
  Z.ltb (lstart l) (lstop l) && strand_ok (lstrand l)
  && match lgff l with Some d => gff_ok d && negb (Nat.eqb (length d) 0) | None => true end.
Definition feat_ok (f : feat) : bool :=
  forallb meta_entry_ok (fmeta f) && keys_unique (fmeta f)
  && match fgff f with Some d => gff_ok d | None => true end
  && negb (Nat.eqb (length (flocs f)) 0) && forallb loc_ok (flocs f) && one_strand (flocs f)
  && (Nat.leb (length (flocs f)) 1 || match aget k_ID (merged_gff f) with Some (AS _) => negb (str_eqb (match aget k_ID (merged_gff f) with Some (AS s) => s | _ => [] end) random_id) | Some _ => true | None => false end).
Definition wf_C02 (fts : list feat) : bool := forallb feat_ok fts.
(* harness domain: as feat_ok, but a split feature may lack an ID (the writer invents one) *)
Definition feat_okh (f : feat) : bool :=
  forallb meta_entry_ok (fmeta f) && keys_unique (fmeta f)
  && match fgff f with Some d => gff_ok d | None => true end
  && negb (Nat.eqb (length (flocs f)) 0) && forallb loc_ok (flocs f) && one_strand (flocs f).
Definition wfh_C02 (fts : list feat) : bool := forallb feat_okh fts.

(* property domain beyond faithfulness: the first 5'->3' location carries no attributes of its own
   (OPEN FINDING F39 firstloc_overrides: otherwise one write/read cycle moves them to the feature level, where the
   other locations inherit the keys they did not have) and neighbouring features are not merged by the reader *)
Definition normalised (f : feat) : bool :=
  match flocs f with l0 :: _ => match lgff l0 with None => true | Some _ => false end | [] => true end.
Definition feat_gid (f : feat) : option gid :=
  let g := merged_gff f in
  match aget k_ID g with
  | Some i => Some (i, match aget k_type g with Some (AS t) => Some t | _ => None end,
                    match aget k_seqid g with Some (AS s) => s | _ => dot end)
  | None => None
  end.
Fixpoint adjacent_distinct (fts : list feat) : bool :=
  match fts with
  | a :: ((b :: _) as r) =>
      negb (match feat_gid a, feat_gid b with Some x, Some y => gid_eqb x y | _, _ => false end) && adjacent_distinct r
  | _ => true
  end.
(* the writer takes seqid and type of every line from the first location and re-assembly goes through the shared ID, so
   location-level seqid / type / ID are outside the property (source is written per line since 3e14524) *)
Definition loc_no_cols (l : loc) : bool :=
  match lgff l with
  | Some d => negb (existsb (fun kv => str_eqb (fst kv) k_seqid || str_eqb (fst kv) k_type || str_eqb (fst kv) k_ID) d)
  | None => true
  end.
Definition rt_C02 (fts : list feat) : bool :=
  forallb normalised fts && adjacent_distinct fts && forallb (fun f => forallb loc_no_cols (flocs f)) fts.

(* ------------------------------------------------------------------ TSV/CSV bridge: tolists / frompandas arithmetic *)
Inductive xkey := KType | KStart | KStop | KLen | KStrand.
Definition xkey_eqb (a b : xkey) : bool :=
  match a, b with
  | KType, KType | KStart, KStart | KStop, KStop | KLen, KLen | KStrand, KStrand => true
  | _, _ => false
  end.
Definition xhas (k : xkey) (ks : list xkey) : bool := existsb (xkey_eqb k) ks.
Definition zmin_list (d : Z) (l : list Z) : Z := fold_left Z.min l d.
Definition zmax_list (d : Z) (l : list Z) : Z := fold_left Z.max l d.
(* LocationTuple.range, fts.py:191-202 *)
Definition loc_range (ls : list loc) : Z * Z :=
  match ls with
  | [] => (0, 0)
  | l :: r => (zmin_list (lstart l) (map lstart r), zmax_list (lstop l) (map lstop r))
  end.
(* a table cell *)
Inductive cell := CS (s : option str) | CZ (z : Z) | CB (b : byte).
(* FeatureList.tolists, fts.py:594-603 *)
Definition xrow (ks : list xkey) (f : feat) : list cell :=
  let rg := loc_range (flocs f) in
  map (fun k => match k with
                | KType => CS (match aget k_type (fmeta f) with Some (AS t) => Some t | _ => None end)
                | KStart => CZ (fst rg)
                | KStop => CZ (snd rg)
                | KLen => CZ (snd rg - fst rg)
                | KStrand => CB (match flocs f with l :: _ => lstrand l | [] => "?"%byte end)
                end) ks.
Fixpoint cell_of (k : xkey) (ks : list xkey) (row : list cell) : option cell :=
  match ks, row with
  | k' :: ks', c :: row' => if xkey_eqb k k' then Some c else cell_of k ks' row'
  | _, _ => None
  end.
Definition cellZ (c : option cell) : option Z := match c with Some (CZ z) => Some z | _ => None end.
(* FeatureList.frompandas on one record, fts.py:440-454: (type, start, stop, strand); None = KeyError;
   the inner None of the location = ValueError (start >= stop) *)
Definition xrecord (ks : list xkey) (row : list cell) : option (option (option str * Z * Z * byte)) :=
  let st := cellZ (cell_of KStart ks row) in
  let sp := cellZ (cell_of KStop ks row) in
  let ln := cellZ (cell_of KLen ks row) in
  let st' := match ln, st, sp with Some n, None, Some b => Some (b - n) | _, _, _ => st end in
  let sp' := match ln, st, sp with Some n, Some a, None => Some (a + n) | _, _, _ => sp end in
  match st', sp' with
  | Some a, Some b =>
      let sd := match cell_of KStrand ks row with Some (CB c) => c | _ => "?"%byte end in
      let ty := match cell_of KType ks row with Some (CS t) => t | _ => None end in
      Some (if Z.ltb a b then Some (ty, a, b, sd) else None)
  | _, _ => None
  end.

(* ------------------------------------------------------------------ specification side (used by the theorems) *)
(* characters that can occur in quote(s): always-safe ones and the escape introducer *)
Definition qchar_ok (c : byte) : bool := is_unreserved c || byte_eqb c "%"%byte.
(* separators of the GFF3 line grammar and of the TSV/CSV tables *)
Definition sep_chars : str := [x09; x0a; x0d; " "; ";"; "="; ","; "&"]%byte.
Definition nws (c : byte) : bool := negb (is_ws c).
(* text of one key=value item as the writer renders it *)
Definition item_text (kv : str * aval) : str :=
  quote (fst kv) ++ bs "="%bs ++ match quote_val (snd kv) with Some q => q | None => [] end.
Definition in_keys (k : str) (d : adict) : bool := existsb (fun kv => str_eqb (fst kv) k) d.
Definition plain_entries (d : adict) : bool := forallb (fun kv => plain_val_ok (snd kv)) d.
Definition asc_sorted (l : list loc) : Prop := Sorted.StronglySorted (fun a b => lstart a <= lstart b) l.
Definition desc_sorted (l : list loc) : Prop := Sorted.StronglySorted (fun a b => lstop b <= lstop a) l.
Definition xsel (ks : list xkey) : bool :=
  Nat.leb 2 ((if xhas KStart ks then 1 else 0) + (if xhas KStop ks then 1 else 0) + (if xhas KLen ks then 1 else 0))%nat.

(* ------------------------------------------------------------------ harness entry points *)
Definition v_aval (v : aval) : val :=
  match v with
  | AS s => VL [VI 0; VS s]
  | AL l => VL [VI 1; VL (map VS l)]
  | AF t => VL [VI 2; VS t]
  | AI z => VL [VI 3; VI z]
  end.
Definition v_adict (d : adict) : val := VL (map (fun kv => VL [VS (fst kv); v_aval (snd kv)]) d).
Definition v_loc (l : loc) : val :=
  VL [VI (lstart l); VI (lstop l); VS [lstrand l]; VOpt v_adict (lgff l)].
Definition v_feat (f : feat) : val := VL [v_adict (fmeta f); VOpt v_adict (fgff f); VL (map v_loc (flocs f))].
Definition v_feats (fs : list feat) : val := VL (map v_feat fs).
Definition e_value : str := bs "ValueError"%bs.
Definition e_type : str := bs "TypeError"%bs.

(* from an object list x: [x, w1 = write x, x1 = read w1, w2 = write x1, w3 = write (read w2)] *)
Definition cycle_from (x : list feat) : val :=
  match write_gff_h x with
  | None => VL [VB false; VB false; VE e_type]
  | Some w1 =>
      match read_gff w1 with
      | None => VL [VB false; VB false; VE e_value]
      | Some x1 =>
          match write_gff_h x1 with
          | None => VL [VB false; VB false; VE e_type]
          | Some w2 =>
              match read_gff w2 with
              | None => VL [VB false; VB false; VE e_value]
              | Some x2 =>
                  match write_gff_h x2 with
                  | None => VL [VB false; VB false; VE e_type]
                  | Some w3 =>
                      (* a text equal to the text before it is printed as None (the harness abbreviates the implementation's
                         texts the same way before comparing) *)
                      VL [VB (wfh_C02 x && wfh_C02 x1); VB (rt_C02 x);
                          VL [v_feats x; VS w1; v_feats x1; if str_eqb w2 w1 then VNone else VS w2; if str_eqb w3 w2 then VNone else VS w3]]
                  end
              end
          end
      end
  end.
(* op 0: GFF text -> read, then cycles *)
Definition run_C02_text (t : str) : val :=
  if negb (all_ascii t) || has x0d t then
    match read_gff t with None => VL [VB false; VB false; VE e_value] | Some _ => VL [VB false; VB false; VNone] end
  else
  match read_gff t with
  | None => VL [VB false; VB false; VE e_value]
  | Some x => cycle_from x
  end.
(* op 3: GFF text -> read, then in-memory edits of Feature.meta aliases (ft.name = ..., ft.meta.score = ...), then cycles *)
Fixpoint apply_edit (fs : list feat) (i : nat) (k : str) (v : aval) : list feat :=
  match fs, i with
  | f :: r, O => mkFeat (aset k v (fmeta f)) (fgff f) (flocs f) :: r
  | f :: r, S j => f :: apply_edit r j k v
  | [], _ => []
  end.
Definition run_C02_edit (t : str) (edits : list (nat * str * aval)) : val :=
  if negb (all_ascii t) || has x0d t then VL [VB false; VB false; VNone]
  else
  match read_gff t with
  | None => VL [VB false; VB false; VE e_value]
  | Some x =>
      cycle_from (fold_left (fun x e => apply_edit x (Nat.modulo (fst (fst e)) (length x)) (snd (fst e)) (snd e)) edits x)
  end.
(* ------------------------------------------------------------------ reader / writer options (gff.py:40-66, 118-126) *)
Record ropts := mkRopts { o_filt : option (list str); o_fast : option str; o_default : option str }.
Definition lower1 (c : byte) : byte :=
  let n := bcode c in
  if N.leb 65 n && N.leb n 90 then match Byte.of_N (n + 32) with Some d => d | None => c end else c.
Definition lower (s : str) : str := map lower1 s.
(* p in s *)
Fixpoint infix (p s : str) : bool :=
  startswith p s || match s with [] => false | _ :: r => infix p r end.
(* read_fts_gff with filt / filt_fast / default_ftype / comments: features in reverse order and the comment lines collected *)
Fixpoint read_lines_o (o : ropts) (ls : list str) (acc : list feat) (lastid : option gid) (cm : list str)
  : option (list feat * list str) :=
  match ls with
  | [] => Some (rev acc, rev cm)
  | line :: rest =>
      if startswith (bs "##FASTA"%bs) line then Some (rev acc, rev cm)
      else if match o_fast o with Some ff => negb (infix (lower ff) (lower (line ++ nl))) | None => false end
      then read_lines_o o rest acc lastid cm
      else if startswith (bs "#"%bs) line || Nat.eqb (length (strip line)) 0 then read_lines_o o rest acc lastid (line :: cm)
      else
        match split_on c_tab (strip line) with
        | [_; _; c3; _; _; _; _; _; _] =>
            let ty := if str_eqb (unquote c3) dot then o_default o else Some (unquote c3) in
            let skip := match o_filt o with
                        | Some (x :: r) => negb (match ty with Some t => existsb (str_eqb t) (x :: r) | None => false end)
                        | _ => false
                        end in
            if skip then read_lines_o o rest acc lastid cm else
            match parse_line line with
            | None => None
            | Some gl0 =>
                let gl := mkLine ty (g_seqid gl0) (g_loc gl0) (g_attrs gl0) in
                let attrs := g_attrs gl in
                let id_ := match aget k_ID attrs with Some i => Some (i, g_type gl, g_seqid gl) | None => None end in
                let same := match id_, lastid with Some a, Some b => gid_eqb a b | _, _ => false end in
                match same, acc with
                | true, f :: acc' =>
                    let d := diff_attrs attrs (getgff f) [] in
                    let l := g_loc gl in
                    let l' := mkLoc (lstart l) (lstop l) (lstrand l) (match d with [] => None | _ => Some d end) in
                    match loc_tuple (flocs f ++ [l']) with
                    | None => None
                    | Some locs' => read_lines_o o rest (mkFeat (fmeta f) (fgff f) locs' :: acc') id_ cm
                    end
                | _, _ =>
                    let m := match g_type gl with Some t => [(k_type, AS t)] | None => [] end in
                    read_lines_o o rest (mkFeat m (Some attrs) [g_loc gl] :: acc) id_ cm
                end
            end
        | _ => None
        end
  end.
Definition no_opts : ropts := mkRopts None None None.
(* write_fts_gff(header=...): the header text follows the version line when it is not empty *)
Definition write_gff_hdr (header : str) (fts : list feat) : option str :=
  option_map (fun body => gff_header ++ header ++ body) (concat_opt (write_feats_h 0 fts)).
(* op 4: text read with options, comment lines, and the list written with a header *)
Definition run_C02_opt (t : str) (o : ropts) (header : str) : val :=
  if negb (all_ascii t) || has x0d t then VL [VB false; VB false; VNone]
  else
  match read_lines_o o (file_lines t) [] None [] with
  | None => VL [VB false; VB false; VE e_value]
  | Some (x0, cm) =>
      let x := map copy_attrs_in x0 in
      match write_gff_hdr header x with
      | None => VL [VB false; VB false; VE e_type]
      | Some w => VL [VB (wfh_C02 x); VB (rt_C02 x);
                      VL [v_feats x; VL (map VS cm); VS w;
                          (* the written text, header included, read again: a header that is no comment is data to the reader *)
                          match read_gff w with Some xb => v_feats xb | None => VE e_value end]]
      end
  end.
(* op 1: abstract features (as given to the Feature constructor) -> write, read, ... *)
Definition run_C02_obj (x : list feat) : val :=
  match map_opt mk_feature x with
  | None => VL [VB false; VB false; VE e_value]
  | Some x' => cycle_from x'
  end.
(* op 2: table bridge; features as (type, locations) *)
Definition v_cell (c : cell) : val :=
  match c with CS s => VOpt VS s | CZ z => VI z | CB b => VS [b] end.
Definition xtype_ok (f : feat) : bool :=
  match aget k_type (fmeta f) with
  | Some v => type_ok v && match v with AS (c :: _) => negb (is_digit c) && negb (byte_eqb c "."%byte) && negb (byte_eqb c "-"%byte) | _ => false end
  | None => false
  end.
(* frompandas(df, ftype): without a type column the type is the column named ftype (here: strand) or ftype itself (fts.py:434-439) *)
Inductive ftsel := FNone | FStrand | FLit (s : str).
Definition xrecord_t (ft : ftsel) (ks : list xkey) (row : list cell) : option (option (option str * Z * Z * byte)) :=
  match xrecord ks row with
  | Some (Some (ty, a, b, sd)) =>
      let ty' := if xhas KType ks then ty else
                 match ft with
                 | FNone => ty
                 | FLit s => Some s
                 | FStrand => if xhas KStrand ks then Some [sd] else Some (bs "strand"%bs)
                 end in
      Some (Some (ty', a, b, sd))
  | r => r
  end.
Definition run_C02_xsv (ks : list xkey) (x : list feat) : val :=
  match map_opt mk_feature x with
  | None => VL [VB false; VB false; VE e_value]
  | Some x' =>
      let rows := map (xrow ks) x' in
      let recs := map (xrecord ks) rows in
      let dom := forallb xtype_ok x' && negb (Nat.eqb (length x') 0) in
      if existsb (fun r => match r with None => true | Some _ => false end) recs
      then VL [VB false; VB false; VE (bs "KeyError"%bs)]
      else if existsb (fun r => match r with Some None => true | _ => false end) recs
      then VL [VB false; VB false; VE e_value]
      else VL [VB dom; VB dom;
               VL [VL (map (fun r => VL (map v_cell r)) rows);
                   VL (map (fun r => match r with
                                     | Some (Some (ty, a, b, sd)) => VL [VOpt VS ty; VI a; VI b; VS [sd]]
                                     | _ => VNone end) recs)]]
  end.
(* op 5: table bridge with the ftype option *)
Definition run_C02_xsv_t (ft : ftsel) (ks : list xkey) (x : list feat) : val :=
  match map_opt mk_feature x with
  | None => VL [VB false; VB false; VE e_value]
  | Some x' =>
      let rows := map (xrow ks) x' in
      let recs := map (xrecord_t ft ks) rows in
      let dom := (xhas KType ks || match ft with FNone => false | _ => true end) && forallb xtype_ok x' && negb (Nat.eqb (length x') 0) in
      if existsb (fun r => match r with None => true | Some _ => false end) recs
      then VL [VB false; VB false; VE (bs "KeyError"%bs)]
      else if existsb (fun r => match r with Some None => true | _ => false end) recs
      then VL [VB false; VB false; VE e_value]
      else VL [VB dom; VB dom;
               VL [VL (map (fun r => VL (map v_cell r)) rows);
                   VL (map (fun r => match r with
                                     | Some (Some (ty, a, b, sd)) => VL [VOpt VS ty; VI a; VI b; VS [sd]]
                                     | _ => VNone end) recs)]]
  end.

(* op 6: sequences + features GFF (write_gff / read_gff, gff.py:107-114, 168-174): the features are written like a feature file,
   "##FASTA" and the sequences follow; on reading, BioBasket.fts groups the features by seqid and attaches them to the sequences
   in basket order (seq.py:752-760); features without seqid or naming no sequence are dropped (with a warning) *)
Definition feat_seqid (f : feat) : option str := match aget k_seqid (fmeta f) with Some (AS s) => Some s | _ => None end.
Definition attach (ids : list str) (x : list feat) : list feat :=
  flat_map (fun i => filter (fun f => opt_str_eqb (feat_seqid f) (Some i)) x) ids.
Definition run_C02_seqgff (ids : list str) (x : list feat) : val :=
  match map_opt mk_feature x with
  | None => VL [VB false; VB false; VE e_value]
  | Some x' =>
      match write_gff_h x' with
      | None => VL [VB false; VB false; VE e_type]
      | Some w1 =>
          match read_gff (w1 ++ bs "##FASTA"%bs ++ nl ++ bs ">s"%bs ++ nl ++ bs "ACGT"%bs ++ nl) with
          | None => VL [VB false; VB false; VE e_value]
          | Some x1 => VL [VB (wfh_C02 x' && wfh_C02 x1); VB (rt_C02 x'); VL [VS w1; v_feats (attach ids x1)]]
          end
      end
  end.

(* ================================================================== TSV/CSV at the text level (round 7)
   FeatureList.tolists / topandas (fts.py:573-629) with ANY list of column names, DataFrame.to_csv / pandas.read_csv on the
   cell level (header line, one line per feature, cells joined by the separator; no quoting: the domain keeps separator, quote
   and line breaks out of the cells), FeatureList.frompandas (fts.py:423-455) and the wrappers of xsv.py:82-96 *)
Definition n_start : str := bs "start"%bs.
Definition n_stop : str := bs "stop"%bs.
Definition n_len : str := bs "len"%bs.
Definition n_strand : str := bs "strand"%bs.
Definition n_defect : str := bs "defect"%bs.
Definition nhas (n : str) (names : list str) : bool := existsb (str_eqb n) names.
(* str.split() without argument: the pieces between runs of white space, no empty pieces (fts.py:593, 625) *)
Fixpoint py_split (s : str) : list str :=
  match s with
  | [] => []
  | c :: r =>
      if is_ws c then py_split r
      else match r with
           | [] => [[c]]
           | d :: _ => if is_ws d then [c] :: py_split r
                       else match py_split r with p :: ps => (c :: p) :: ps | [] => [[c]] end
           end
  end.
(* keys='type start stop' or keys=('type', 'start', 'stop') *)
Inductive keyarg := KStr (s : str) | KList (l : list str).
Definition keys_of (ka : keyarg) : list str := match ka with KStr s => py_split s | KList l => l end.
Definition feat_strand_m (f : feat) : byte := match flocs f with l :: _ => lstrand l | [] => "?"%byte end.
(* one cell of tolists as to_csv prints it, fts.py:595-603: strand, defect (always NONE = 0 here), start, stop, len, else
   meta.get(name) (None and values that are no str print as the empty cell; the latter are outside the domain) *)
Definition ncell (n : str) (f : feat) : str :=
  let rg := loc_range (flocs f) in
  if str_eqb n n_strand then [feat_strand_m f]
  else if str_eqb n n_defect then bs "0"%bs
  else if str_eqb n n_start then dec_of_Z (fst rg)
  else if str_eqb n n_stop then dec_of_Z (snd rg)
  else if str_eqb n n_len then dec_of_Z (snd rg - fst rg)
  else match aget n (fmeta f) with Some (AS s) => s | _ => [] end.
Definition nrow (names : list str) (f : feat) : list str := map (fun n => ncell n f) names.
Definition xsv_line (sep : byte) (cells : list str) : str := join [sep] cells ++ nl.
(* _write_fts_xsv: fts.topandas(keys).to_csv(f, sep=sep, index=False) *)
Definition write_xsv (sep : byte) (names : list str) (x : list feat) : str :=
  xsv_line sep names ++ concat (map (fun f => xsv_line sep (nrow names f)) x).
(* pandas.read_csv on the cell level: blank lines are skipped, the first line left holds the column names; None = EmptyDataError *)
Definition nonblank (l : str) : bool := negb (Nat.eqb (length l) 0).
Definition xsv_rows (sep : byte) (t : str) : option (list str * list (list str)) :=
  match filter nonblank (file_lines t) with
  | [] => None
  | h :: rows => Some (split_on sep h, map (split_on sep) rows)
  end.
(* df[name] of one record: the first column of that name (a repeated name is renamed name.1 by read_csv) *)
Fixpoint ncell_of (n : str) (names : list str) (row : list str) : option str :=
  match names, row with
  | n' :: names', c :: row' => if str_eqb n n' then Some c else ncell_of n names' row'
  | _, _ => None
  end.
Definition getZ (n : str) (names : list str) (row : list str) : option Z :=
  match ncell_of n names row with Some s => Z_of_dec s | None => None end.
(* result of frompandas on one record; XBad = a start/stop/len cell that is no integer literal (outside the model) *)
Inductive xres := XRec (ty : option str) (a b : Z) (sd : byte) | XKey | XVal | XBad.
Definition obind2 (f : Z -> Z -> Z) (a b : option Z) : option Z :=
  match a, b with Some x, Some y => Some (f x y) | _, _ => None end.
(* the (start, stop) pair frompandas hands to Location, fts.py:440-449: start and stop when both columns exist (a len column is
   deleted unread), else start + len / stop - len, else KeyError (None) *)
Definition xrange (names : list str) (row : list str) : option (option Z * option Z) :=
  let st := getZ n_start names row in let sp := getZ n_stop names row in let ln := getZ n_len names row in
  if nhas n_start names && nhas n_stop names then Some (st, sp)
  else if nhas n_len names && nhas n_start names then Some (st, obind2 Z.add st ln)
  else if nhas n_len names && nhas n_stop names then Some (obind2 Z.sub sp ln, sp)
  else None.
Definition cell_opt (c : option str) : option str := match c with Some [] => None | o => o end.
(* the type of the record, fts.py:434-439: the type column; without one the column named ftype, else ftype itself *)
Definition xtype (ft : option str) (names : list str) (row : list str) : option str :=
  if nhas k_type names then cell_opt (ncell_of k_type names row)
  else match ft with
       | None => None
       | Some f => if nhas f names then cell_opt (ncell_of f names row) else Some f
       end.
Definition xrecord_s (ft : option str) (names : list str) (row : list str) : xres :=
  match xrange names row with
  | None => XKey
  | Some (Some a, Some b) =>
      if Z.ltb a b then
        match (if nhas n_strand names then ncell_of n_strand names row else Some [("?"%byte)]) with
        | Some [c] => if strand_ok c then XRec (xtype ft names row) a b c else XVal
        | _ => XVal
        end
      else XVal
  | Some _ => XBad
  end.
(* the loop over the records stops at the first exception *)
Fixpoint xcollect (rs : list xres) : val + list (option str * Z * Z * byte) :=
  match rs with
  | [] => inr []
  | XRec ty a b sd :: r => match xcollect r with inr l => inr ((ty, a, b, sd) :: l) | inl e => inl e end
  | XKey :: _ => inl (VE (bs "KeyError"%bs))
  | XVal :: _ => inl (VE e_value)
  | XBad :: _ => inl (VE (bs "BadCell"%bs))
  end.
(* _read_fts_xsv: frompandas(read_csv(f, sep=sep), ftype) *)
Definition read_xsv (sep : byte) (ft : option str) (t : str) : val + list (option str * Z * Z * byte) :=
  match xsv_rows sep t with
  | None => inl (VE (bs "EmptyDataError"%bs))
  | Some (names, rows) => xcollect (map (xrecord_s ft names) rows)
  end.
(* a selection of columns from which frompandas can build locations *)
Definition sel_ok (names : list str) : bool :=
  (nhas n_start names && nhas n_stop names) || (nhas n_len names && (nhas n_start names || nhas n_stop names)).
(* what the property promises for the record of feature f *)
Definition xspec_ty (ft : option str) (names : list str) (f : feat) : option str :=
  if nhas k_type names then cell_opt (Some (ncell k_type f))
  else match ft with
       | None => None
       | Some c => if nhas c names then cell_opt (Some (ncell c f)) else Some c
       end.
Definition xspec (ft : option str) (names : list str) (f : feat) : option str * Z * Z * byte :=
  (xspec_ty ft names f, fst (loc_range (flocs f)), snd (loc_range (flocs f)),
   if nhas n_strand names then feat_strand_m f else "?"%byte).

(* domain of the text level: what pandas neither quotes nor re-types *)
Definition pandas_words : list str :=
  map bs ["na"; "n/a"; "nan"; "null"; "none"; "true"; "false"; "inf"; "infinity"; "-inf"; "nat"; "<na>"; "#n/a"; "#na"]%bs.
Definition sep_ok (sep : byte) : bool :=
  negb (is_digit sep) && negb (has sep (bs "-+.?"%bs)) && negb (byte_eqb sep x0a) && negb (byte_eqb sep x0d) && negb (byte_eqb sep x22).
Definition clean (sep : byte) (s : str) : bool :=
  negb (has sep s) && negb (has x0a s) && negb (has x0d s) && negb (has x22 s) && negb (Nat.eqb (length s) 0).
(* a cell pandas reads back as the same text: starts with a letter or '_', no NA / boolean word *)
Definition texty (s : str) : bool :=
  match s with
  | c :: _ => negb (is_digit c) && negb (has c (bs "-+.#<"%bs)) && negb (is_ws c)
  | [] => false
  end && negb (existsb (str_eqb (lower s)) pandas_words) && all_ascii s
  && match rev s with c :: _ => negb (is_ws c) | [] => false end.
Definition is_num_name (n : str) : bool := str_eqb n n_start || str_eqb n n_stop || str_eqb n n_len.
Definition is_loc_name (n : str) : bool := is_num_name n || str_eqb n n_strand || str_eqb n n_defect.
Definition names_ok (sep : byte) (names : list str) : bool := forallb (fun n => clean sep n && texty n) names.
(* the text cells of a feature (type and other metadata columns) *)
Definition feat_clean (sep : byte) (names : list str) (f : feat) : bool :=
  negb (Nat.eqb (length (flocs f)) 0)
  && forallb (fun l => Z.ltb (lstart l) (lstop l)) (flocs f)
  && strand_ok (feat_strand_m f)
  && forallb (fun n => is_loc_name n || clean sep (ncell n f)) names.
Definition feat_texty (names : list str) (f : feat) : bool :=
  forallb (fun n => is_loc_name n || (texty (ncell n f) && match aget n (fmeta f) with Some (AS _) => true | _ => false end)) names.
Definition v_xrecs (l : list (option str * Z * Z * byte)) : val :=
  VL (map (fun r => match r with (ty, a, b, sd) => VL [VOpt VS ty; VI a; VI b; VS [sd]] end) l).
Definition v_xres (r : val + list (option str * Z * Z * byte)) : val := match r with inl e => e | inr l => v_xrecs l end.
Definition ft_ok (ft : option str) (names : list str) : bool :=
  match ft with
  | None => true
  | Some c => nhas k_type names || (if nhas c names then negb (is_num_name c) && negb (str_eqb c n_defect) else texty c)
  end.
(* op 7: FeatureList -> table text -> records.  The domain flag: separator and cells inside the unquoted, text-typed part of
   pandas; the table holding nothing but len columns is left out (pandas drops the rows of a frame without columns, so the real
   code returns no features where the model says KeyError) *)
Definition run_C02_xsvw (sep : byte) (ft : option str) (ka : keyarg) (x : list feat) : val :=
  match map_opt mk_feature x with
  | None => VL [VB false; VB false; VE e_value]
  | Some x' =>
      let names := keys_of ka in
      let t := write_xsv sep names x' in
      let dom := sep_ok sep && names_ok sep names && negb (Nat.eqb (length names) 0)
                 && forallb (feat_clean sep names) x' && forallb (feat_texty names) x'
                 && ft_ok ft names
                 && negb (forallb (str_eqb n_len) names && match ft with None => true | Some _ => false end) in
      VL [VB dom; VB dom; VL [VS t; v_xres (read_xsv sep ft t)]]
  end.
(* op 8: a table text from elsewhere -> records *)
Definition canon_int (s : str) : bool := match Z_of_dec s with Some z => str_eqb (dec_of_Z z) s | None => false end.
Definition row_dom (sep : byte) (ft : option str) (names : list str) (row : list str) : bool :=
  Nat.eqb (length row) (length names)
  && forallb (fun n => match ncell_of n names row with
                       | Some c => if is_num_name n then canon_int c
                                   else if str_eqb n n_strand then Nat.eqb (length c) 1
                                   else if str_eqb n n_defect then str_eqb c (bs "0"%bs)
                                   else clean sep c && texty c
                       | None => false end) names.
Definition run_C02_xsvr (sep : byte) (ft : option str) (t : str) : val :=
  let dom := all_ascii t && negb (has x0d t) && negb (has x22 t) && sep_ok sep
             && match xsv_rows sep t with
                | Some (names, rows) => names_ok sep names && forallb (row_dom sep ft names) rows && ft_ok ft names
                                        && negb (forallb (str_eqb n_len) names && match ft with None => true | Some _ => false end)
                | None => true
                end in
  VL [VB dom; VB dom; v_xres (read_xsv sep ft t)].

(* ================================================================== read_fts / write_fts dispatch (main.py:364-394, 444-478; round 7)
   fmt is lower-cased and looked up among the registered feature formats; without fmt the writer takes the format whose
   extension list holds the text after the last '.' of the file name, compared as it is (detect_ext, main.py:104-121) *)
Inductive ffmt := FGff | FTsv | FCsv.
Definition fmt_name (f : ffmt) : str := match f with FGff => bs "gff"%bs | FTsv => bs "tsv"%bs | FCsv => bs "csv"%bs end.
Definition fmt_of_lower (l : str) : option ffmt :=
  if str_eqb l (bs "gff"%bs) then Some FGff else if str_eqb l (bs "tsv"%bs) then Some FTsv
  else if str_eqb l (bs "csv"%bs) then Some FCsv else None.
Definition fmt_key (s : str) : option ffmt := fmt_of_lower (lower s).
Fixpoint ext_name (tab : list (str * list str)) (e : str) : option str :=
  match tab with
  | [] => None
  | (f, exts) :: r => if existsb (str_eqb e) exts then Some f else ext_name r e
  end.
Definition registered (s : str) : bool := existsb (fun p => str_eqb (lower s) (fst p)) fts_exts.
Definition default_sep (f : ffmt) : byte := match f with FCsv => ","%byte | _ => x09 end.
(* the format a write resolves to: Some f, or the exception class *)
Definition resolve_w (fmt : option str) (ext : str) : ffmt + str :=
  match fmt with
  | Some s => match fmt_key s with Some f => inl f | None => inr (bs "KeyError"%bs) end
  | None => match ext_name fts_exts ext with
            | Some n => match fmt_of_lower n with Some f => inl f | None => inr (bs "Other"%bs) end
            | None => inr (bs "OSError"%bs)
            end
  end.
Definition write_fts_m (fmt : option str) (ext : str) (sepo : option byte) (names : list str) (x : list feat) : str + str :=
  match resolve_w fmt ext with
  | inr e => inr e
  | inl FGff => match write_gff_h x with Some w => inl w | None => inr e_type end
  | inl f => inl (write_xsv (match sepo with Some c => c | None => default_sep f end) names x)
  end.
(* read_fts(f, fmt): the records / features and the value of meta._fmt *)
Definition read_fts_m (fmt : str) (sepo : option byte) (t : str) : val :=
  match fmt_key fmt with
  | None => VE (bs "KeyError"%bs)
  | Some FGff => match read_gff t with Some x => VL [VS (fmt_name FGff); v_feats x] | None => VE e_value end
  | Some f => match read_xsv (match sepo with Some c => c | None => default_sep f end) None t with
              | inr l => VL [VS (fmt_name f); v_xrecs l]
              | inl e => e
              end
  end.
(* op 9: write with fmt (any spelling) or by extension, read with rfmt (any spelling) *)
Definition run_C02_disp (fmt : option str) (ext : str) (rfmt : str) (sepo : option byte) (names : list str) (x : list feat) : val :=
  match map_opt mk_feature x with
  | None => VL [VB false; VB false; VE e_value]
  | Some x' =>
      let known := match fmt with Some s => negb (registered s) || match fmt_key s with Some _ => true | None => false end | None => true end
                   && (negb (registered rfmt) || match fmt_key rfmt with Some _ => true | None => false end) in
      match write_fts_m fmt ext sepo names x' with
      | inr e => VL [VB false; VB false; VE e]      (* which exception an unknown name / extension raises is not part of the property *)
      | inl t =>
          let sepw := match sepo, resolve_w fmt ext with Some c, _ => c | None, inl f => default_sep f | None, inr _ => x09 end in
          (* the written text is compared byte for byte: inside the GFF domain / the unquoted cell grid *)
          let wclean := match resolve_w fmt ext with
                        | inl FGff => wfh_C02 x'
                        | inl _ => sep_ok sepw && names_ok sepw names && negb (Nat.eqb (length names) 0)
                                   && forallb (feat_clean sepw names) x' && forallb (feat_texty names) x'
                                   && negb (forallb (str_eqb n_len) names)
                        | inr _ => false
                        end in
          (* read with the format it was written in (any spelling), or with a name that is no format at all *)
          let same := match resolve_w fmt ext, fmt_key rfmt with
                      | inl _, None => false
                      | inl FGff, Some FGff => true
                      | inl FGff, Some _ => false
                      | inl _, Some FGff => false
                      | inl _, Some g => byte_eqb sepw (match sepo with Some c => c | None => default_sep g end)
                      | inr _, _ => false
                      end in
          VL [VB (known && wclean && same); VB false; VL [VS t; read_fts_m rfmt sepo t]]
      end
  end.

(* ------------------------------------------------------------------ tables inside streams
   main.py:52-82 (detect remembers the position of the stream it is given and returns to it after every sniffer) and
   main.py:364-394 (read_fts reads from the position the stream has): a stream is what it holds and the position of the
   next read. f.seek(p) with p = the offset tell() gave after the earlier content was written, and f.readline() called n
   times, move the position; reading - with fmt given or detected - sees exactly what lies behind it. *)
Inductive spos := PSeek (n : nat) | PLines (n : nat).
(* f.readline(): up to and including the next line feed *)
Fixpoint stream_readline (c : str) : str :=
  match c with
  | [] => []
  | b :: r => if byte_eqb b x0a then r else stream_readline r
  end.
Definition stream_rest (p : spos) (content : str) : str :=
  match p with
  | PSeek n => skipn n content
  | PLines n => Nat.iter n stream_readline content
  end.
(* GFF text / a foreign table read from the current position of the stream that holds it *)
Definition run_C02_text_at (p : spos) (content : str) : val := run_C02_text (stream_rest p content).
Definition run_C02_xsvr_at (sep : byte) (ft : option str) (p : spos) (content : str) : val :=
  run_C02_xsvr sep ft (stream_rest p content).
