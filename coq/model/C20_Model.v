(* C20 model: sugar.data.submat (sugar/data/__init__.py:61-100) and _submat_files (:56-58).
   The bundled files are the regenerated raw bytes of G_submat_<k>.v / G_submat_index.v; only the control flow
   (name resolution, text layer, line filter, header, per-row split/zip/convert, dict building) is written by hand.
   No proofs here. The content of a file is the DECODED text (what open(fname).read() returns under the UTF-8 default
   encoding), modelled on the code points 0..255 (Latin-1 range), one byte per code point; names are ASCII. *)
From Coq Require Import List ZArith NArith Bool.
From Coq.Strings Require Import Byte.
Import ListNotations.
From SV Require Import Text G_submat_index.

(* ---------------------------------------------------------------- CPython str primitives (code points 0..255) *)

(* str.isspace / the separator set of str.split() and str.strip() for code points < 256:
   \t \n \v \f \r, \x1c-\x1f, space, NEL (\x85), NBSP (\xa0) *)
Definition is_ws (c : byte) : bool :=
  match c with
  | x09 | x0a | x0b | x0c | x0d | x1c | x1d | x1e | x1f | x20 | x85 | xa0 => true
  | _ => false
  end.
(* line boundaries of str.splitlines() for code points < 256 (\x1f and \xa0 are white space but no line boundary) *)
Definition is_linebreak (c : byte) : bool :=
  match c with
  | x0a | x0b | x0c | x0d | x1c | x1d | x1e | x85 => true
  | _ => false
  end.
Definition is_ascii (c : byte) : bool := N.ltb (Byte.to_N c) 128.
Definition all_ascii (s : str) : bool := forallb is_ascii s.

(* str.upper on ASCII *)
Definition upper1 (c : byte) : byte :=
  let n := Byte.to_N c in
  if N.leb 97 n && N.leb n 122 then match Byte.of_N (n - 32) with Some b => b | None => c end else c.
Definition upper (s : str) : str := map upper1 s.

(* open(fname).read(): text mode with universal newlines, "\r\n" and "\r" become "\n"  (__init__.py:80-81) *)
Fixpoint universal_nl (s : str) : str :=
  match s with
  | [] => []
  | c :: r =>
      if byte_eqb c x0d
      then x0a :: match r with
                  | d :: r' => if byte_eqb d x0a then universal_nl r' else universal_nl r
                  | [] => universal_nl r
                  end
      else c :: universal_nl r
  end.

(* str.splitlines(): no empty last line after a final boundary; "\r\n" cannot occur after universal_nl *)
Fixpoint splitlines (s : str) : list str :=
  match s with
  | [] => []
  | c :: r =>
      if is_linebreak c then [] :: splitlines r
      else match splitlines r with
           | [] => [[c]]
           | l :: ls => (c :: l) :: ls
           end
  end.

(* str.split() *)
Fixpoint split_ws (s : str) : list str :=
  match s with
  | [] => []
  | c :: r =>
      if is_ws c then split_ws r
      else match r with
           | [] => [[c]]
           | d :: _ => if is_ws d then [c] :: split_ws r
                       else match split_ws r with
                            | t :: ts => (c :: t) :: ts
                            | [] => [[c]]
                            end
           end
  end.

Fixpoint lstrip (s : str) : str :=
  match s with
  | c :: r => if is_ws c then lstrip r else s
  | [] => []
  end.
Definition rstrip (s : str) : str := rev (lstrip (rev s)).
Definition strip (s : str) : str := rstrip (lstrip s).

(* the first white-space free word of s and what follows it *)
Fixpoint span_word (s : str) : str * str :=
  match s with
  | c :: r => if is_ws c then ([], s) else let (w, t) := span_word r in (c :: w, t)
  | [] => ([], [])
  end.
(* l1, rest = line.split(maxsplit=1): None models the ValueError of the tuple unpacking when there are < 2 words.
   The remainder keeps its trailing white space. *)
Definition split1 (line : str) : option (str * str) :=
  match lstrip line with
  | [] => None
  | s => let (w, t) := span_word s in
         match lstrip t with
         | [] => None
         | rest => Some (w, rest)
         end
  end.

Definition has_dot (s : str) : bool := existsb (byte_eqb "."%byte) s.

(* ---------------------------------------------------------------- numbers *)
(* int cell: exact integer; float cell: the decimal literal m / 10^k (DESIGN 5.3) *)
Inductive num := NInt (z : Z) | NDec (m : Z) (k : nat).

Definition is_digit (c : byte) : bool := match digit_val c with Some _ => true | None => false end.
(* digits "." digits, at least one digit in total, no exponent *)
Fixpoint span_digits (s : str) : str * str :=
  match s with
  | c :: r => if is_digit c then let (w, t) := span_digits r in (c :: w, t) else ([], s)
  | [] => ([], [])
  end.
Definition udec (s : str) : option (Z * nat) :=
  let (ip, t) := span_digits s in
  match t with
  | [] => match nat_of_dec ip with Some z => Some (z, 0%nat) | None => None end
  | c :: fp =>
      if byte_eqb c "."%byte && forallb is_digit fp
      then match ip ++ fp with
           | [] => None
           | ds => match digits_acc ds 0%Z with Some z => Some (z, length fp) | None => None end
           end
      else None
  end.
(* float(token) restricted to [+-]?(D+ | D+.D* | .D+): mantissa and number of fraction digits *)
Definition dec_of_token (s : str) : option (Z * nat) :=
  match s with
  | "-"%byte :: r => match udec r with Some (z, k) => Some (Z.opp z, k) | None => None end
  | "+"%byte :: r => udec r
  | _ => udec s
  end.
(* map(float if '.' in rest else int, ...) on one token; None = outside the modelled number syntax
   (there CPython raises ValueError, or accepts forms such as 1_0, 1e5, inf that are outside the domain) *)
(* ---- the complete cell grammar of int() and float() on a word (no white space inside), CPython 3.x:
   Objects/longobject.c PyLong_FromString / Python/pystrtod.c _Py_string_to_number_with_underscores + PyOS_string_to_double.
   An underscore is accepted only between two digits; the text without underscores is then read. *)
Fixpoint strip_us (s : str) (prev : byte) : option str :=
  match s with
  | [] => if byte_eqb prev "_"%byte then None else Some []
  | c :: r =>
      if byte_eqb c "_"%byte
      then (if is_digit prev then strip_us r c else None)
      else if byte_eqb prev "_"%byte && negb (is_digit c) then None
           else match strip_us r c with Some t => Some (c :: t) | None => None end
  end.
(* int(tok): [+-]? D+ (_ D+)*  (leading zeros allowed) *)
Definition py_int (tok : str) : option Z :=
  match Z_of_dec tok with
  | Some z => Some z
  | None => match strip_us tok x00 with Some t => Z_of_dec t | None => None end
  end.
Definition is_e (c : byte) : bool := byte_eqb c "e"%byte || byte_eqb c "E"%byte.
Definition all_digits (s : str) : bool := match s with [] => false | _ => forallb is_digit s end.
(* the exponent part after e/E: [+-]? D+ ; exponents of more than 3 digits are outside the modelled domain *)
Definition udigits3 (s : str) : option Z :=
  if all_digits s && Nat.leb (length s) 3 then digits_acc s 0%Z else None.
Definition exponent (s : str) : option Z :=
  match s with
  | "-"%byte :: r => match udigits3 r with Some e => Some (Z.opp e) | None => None end
  | "+"%byte :: r => udigits3 r
  | _ => udigits3 s
  end.
(* m / 10^k * 10^e as a decimal again *)
Definition scale (m : Z) (k : nat) (e : Z) : Z * nat :=
  if Z.leb (Z.of_nat k) e then (m * Z.pow 10 (e - Z.of_nat k), 0%nat)%Z else (m, Z.to_nat (Z.of_nat k - e)).
(* D* [. D*] [(e|E) [+-]? D+], at least one digit before the exponent *)
Definition ufloat (s : str) : option (Z * nat) :=
  let (ip, t) := span_digits s in
  let (fp, t2) := match t with
                  | c :: t' => if byte_eqb c "."%byte then span_digits t' else ([], t)
                  | [] => ([], t)
                  end in
  match ip ++ fp with
  | [] => None
  | ds => match digits_acc ds 0%Z with
          | None => None
          | Some m =>
              match t2 with
              | [] => Some (m, length fp)
              | c :: ex => if is_e c
                           then match exponent ex with Some e => Some (scale m (length fp) e) | None => None end
                           else None
              end
          end
  end.
Definition sfloat (s : str) : option (Z * nat) :=
  match s with
  | "-"%byte :: r => match ufloat r with Some (z, k) => Some (Z.opp z, k) | None => None end
  | "+"%byte :: r => ufloat r
  | _ => ufloat s
  end.
(* float(tok) for finite results: plain decimals first (dec_of_token), then underscores and exponents.
   inf / infinity / nan (any case, signed) are accepted by CPython but are outside the modelled domain (None here). *)
Definition py_float (tok : str) : option num :=
  match dec_of_token tok with
  | Some (m, k) => Some (NDec m k)
  | None => match strip_us tok x00 with
            | Some t => match sfloat t with Some (m, k) => Some (NDec m k) | None => None end
            | None => None
            end
  end.
Definition parse_num (fl : bool) (tok : str) : option num :=
  if fl then py_float tok
  else match py_int tok with Some z => Some (NInt z) | None => None end.

Fixpoint parse_vals (fl : bool) (toks : list str) : option (list num) :=
  match toks with
  | [] => Some []
  | t :: r => match parse_num fl t with
              | None => None
              | Some v => match parse_vals fl r with Some vs => Some (v :: vs) | None => None end
              end
  end.

(* ---------------------------------------------------------------- dict (insertion ordered, assignment keeps position) *)
Fixpoint dict_set {V} (k : str) (v : V) (d : list (str * V)) : list (str * V) :=
  match d with
  | [] => [(k, v)]
  | (k', v') :: r => if str_eqb k' k then (k', v) :: r else (k', v') :: dict_set k v r
  end.
Fixpoint dict_get {V} (k : str) (d : list (str * V)) : option V :=
  match d with
  | [] => None
  | (k', v') :: r => if str_eqb k' k then Some v' else dict_get k r
  end.
(* {l2: v for l2, v in pairs} *)
Definition dict_of_pairs {V} (l : list (str * V)) : list (str * V) :=
  fold_left (fun d kv => dict_set (fst kv) (snd kv) d) l [].

Definition row := list (str * num).
Definition matrix := list (str * row).

(* ---------------------------------------------------------------- the parser loop, __init__.py:82-96 *)
(* line.strip().startswith('#') or line.strip() == '' *)
Definition skipped (line : str) : bool :=
  match strip line with
  | [] => true
  | c :: _ => byte_eqb c "#"%byte
  end.

(* None = ValueError (too few words on a data line, or a cell that is not a number of the modelled syntax).
   zip(letters, vals) over a lazy map converts only the first len(letters) tokens. *)
Fixpoint parse_lines (ls : list str) (letters : option (list str)) (mat : matrix) : option matrix :=
  match ls with
  | [] => Some mat
  | line :: r =>
      if skipped line then parse_lines r letters mat
      else match letters with
           | None => parse_lines r (Some (split_ws line)) mat
           | Some hs =>
               match split1 line with
               | None => None
               | Some (l1, rest) =>
                   match parse_vals (has_dot rest) (firstn (length hs) (split_ws rest)) with
                   | None => None
                   | Some vals => parse_lines r letters (dict_set l1 (dict_of_pairs (combine hs vals)) mat)
                   end
               end
           end
  end.

Definition parse (raw : str) : option matrix := parse_lines (splitlines (universal_nl raw)) None [].

Definition cell (m : matrix) (r c : str) : option num :=
  match dict_get r m with Some rw => dict_get c rw | None => None end.

(* ---------------------------------------------------------------- name resolution, __init__.py:77-83 and :61-63 *)
Definition submat_names : list str := map fst submat_files.

Fixpoint join (sep : str) (l : list str) : str :=
  match l with
  | [] => []
  | [x] => x
  | x :: r => x ++ sep ++ join sep r
  end.
(* ', '.join(_submat_files()) *)
Definition available : str := join (bs ", "%bs) submat_names.
(* the FileNotFoundError message, __init__.py:80 *)
Definition fnf_message (name : str) : str :=
  bs "No file at "%bs ++ name ++ bs ", available matrices: "%bs ++ available.

(* msg.split(', ') *)
Fixpoint split_cs (s cur : str) : list str :=
  match s with
  | [] => [rev cur]
  | c :: r => match r with
              | d :: r2 => if byte_eqb c ","%byte && byte_eqb d " "%byte then rev cur :: split_cs r2 []
                           else split_cs r (c :: cur)
              | [] => split_cs r (c :: cur)
              end
  end.

Inductive resolution := RPath | RFile (raw : str) | RMissing.
(* __init__.py:77-82, in this order: if isfile(fname) the argument itself is opened (a user's file wins, whatever its name
   spells); otherwise fname.upper() is looked up among _submat_files(): a hit is opened from the bundled directory,
   anything else (README entries, '', '.', paths) is a missing name *)
Definition resolve (isfile : bool) (name : str) : resolution :=
  if isfile then RPath
  else match dict_get (upper name) submat_files with
       | Some raw => RFile raw
       | None => RMissing
       end.

Inductive outcome := OMatrix (m : matrix) | OValueError | OFileNotFound (msg : str).
Definition parsed (raw : str) : outcome :=
  match parse raw with Some m => OMatrix m | None => OValueError end.
(* the whole function: fs = Some content when the argument is the path of a regular file with that (decoded) content *)
Definition submat_call (name : str) (fs : option str) : outcome :=
  match resolve (match fs with Some _ => true | None => false end) name with
  | RPath => match fs with Some content => parsed content | None => OValueError (* unreachable *) end
  | RFile raw => parsed raw
  | RMissing => OFileNotFound (fnf_message name)
  end.
(* submat(name) for a name that is not the path of a regular file *)
Definition submat_name (name : str) : outcome := submat_call name None.
(* submat(path) for an existing file with this content *)
Definition submat_file (content : str) : outcome := parsed content.

(* ---------------------------------------------------------------- specification side *)
Definition content_lines (raw : str) : list str :=
  filter (fun l => negb (skipped l)) (splitlines (universal_nl raw)).
Definition header_of (raw : str) : list str :=
  match content_lines raw with [] => [] | h :: _ => split_ws h end.
Definition data_lines (raw : str) : list str := tl (content_lines raw).
Definition first_word (line : str) : str := hd [] (split_ws line).

Definition num_eqb (a b : num) : bool :=
  match a, b with
  | NInt x, NInt y => Z.eqb x y
  | NDec m k, NDec m' k' => Z.eqb m m' && Nat.eqb k k'
  | _, _ => false
  end.
(* equality of the denoted numbers; int 1 and float 1.0 are different Python objects but equal numbers *)
Definition pow10 (k : nat) : Z := Z.pow 10 (Z.of_nat k).
Definition num_val_eqb (a b : num) : bool :=
  match a, b with
  | NInt x, NInt y => Z.eqb x y
  | NDec m k, NDec m' k' => Z.eqb (m * pow10 k') (m' * pow10 k)
  | NInt x, NDec m k | NDec m k, NInt x => Z.eqb (x * pow10 k) m
  end.
Fixpoint strs_eqb (a b : list str) : bool :=
  match a, b with
  | [], [] => true
  | x :: a', y :: b' => str_eqb x y && strs_eqb a' b'
  | _, _ => false
  end.
Fixpoint nodupb (l : list str) : bool :=
  match l with
  | [] => true
  | x :: r => negb (existsb (str_eqb x) r) && nodupb r
  end.

(* positional reading of one data line against the header: j-th value word under the j-th header letter *)
Definition line_ok (m : matrix) (hs : list str) (line : str) : bool :=
  match split_ws line with
  | r :: ((_ :: _) as vs) =>
      let fl := existsb has_dot vs in
      forallb (fun cv => match parse_num fl (snd cv) with
                         | Some v => match cell m r (fst cv) with Some v' => num_eqb v' v | None => false end
                         | None => false
                         end) (combine hs vs)
      && match dict_get r m with
         | Some rw => strs_eqb (map fst rw) (firstn (length vs) hs)
         | None => false
         end
  | _ => false
  end.
(* the whole file: parses, letters are unambiguous, every data line is read positionally, no row is lost or invented *)
Definition file_ok (raw : str) : bool :=
  match parse raw with
  | None => false
  | Some m =>
      nodupb (header_of raw) && nodupb (map first_word (data_lines raw))
      && forallb (line_ok m (header_of raw)) (data_lines raw)
      && strs_eqb (map fst m) (map first_word (data_lines raw))
  end.
(* m[a][b] = m[b][a] wherever both entries exist *)
Definition sym_ok (m : matrix) : bool :=
  forallb (fun ar => forallb (fun bv => match cell m (fst bv) (fst ar) with
                                         | Some v' => num_val_eqb (snd bv) v'
                                         | None => true
                                         end) (snd ar)) m.
Definition file_sym (raw : str) : bool :=
  match parse raw with Some m => sym_ok m | None => false end.
Definition is_upper_name (s : str) : bool := str_eqb (upper s) s.

(* ---------------------------------------------------------------- files "in the same layout", abstractly *)
(* a line is a comment, a blank line, or words: lead w1 (sep w)* trail *)
Inductive aline :=
| AComment (lead text : str)
| ABlank (ws : str)
| AWords (lead : str) (w1 : str) (more : list (str * str)) (trail : str).
Definition render_aline (l : aline) : str :=
  match l with
  | AComment lead text => lead ++ "#"%byte :: text
  | ABlank ws => ws
  | AWords lead w1 more trail => lead ++ w1 ++ concat (map (fun p => fst p ++ snd p) more) ++ trail
  end.
(* every line terminated by "\n" *)
Definition render (f : list aline) : str := concat (map (fun l => render_aline l ++ [x0a]) f).
Fixpoint word_lines (f : list aline) : list (list str) :=
  match f with
  | [] => []
  | AWords _ w1 more _ :: r => (w1 :: map snd more) :: word_lines r
  | _ :: r => word_lines r
  end.
(* other line terminators and an optional missing terminator after the last line *)
(* LF, CRLF, CR (universal newlines), and the other line boundaries of str.splitlines below code point 256 *)
Inductive eol := LF | CRLF | CR | VT | FF | FS | GS | RS | NEL.
Definition eol_str (e : eol) : str :=
  match e with
  | LF => [x0a] | CRLF => [x0d; x0a] | CR => [x0d]
  | VT => [x0b] | FF => [x0c] | FS => [x1c] | GS => [x1d] | RS => [x1e] | NEL => [x85]
  end.
Fixpoint render_with (e : eol) (final : bool) (f : list aline) : str :=
  match f with
  | [] => []
  | l :: r => render_aline l ++ match r with
                                | [] => if final then eol_str e else []
                                | _ :: _ => eol_str e ++ render_with e final r
                                end
  end.
(* white space that does not end a line: space, tab, \x1f, \xa0 *)
Definition is_inline_ws (c : byte) : bool := is_ws c && negb (is_linebreak c).
Definition no_linebreak (s : str) : bool := forallb (fun c => negb (is_linebreak c)) s.
Definition nonempty (s : str) : bool := match s with [] => false | _ => true end.
Definition word_ok (w : str) : bool := nonempty w && forallb (fun c => negb (is_ws c)) w.
Definition aline_ok (l : aline) : bool :=
  match l with
  | AComment lead text => forallb is_inline_ws lead && no_linebreak text
  | ABlank ws => forallb is_inline_ws ws
  | AWords lead w1 more trail =>
      forallb is_inline_ws lead && word_ok w1 && negb (byte_eqb (hd "#"%byte w1) "#"%byte)
      && forallb (fun p => nonempty (fst p) && forallb is_inline_ws (fst p) && word_ok (snd p)) more
      && forallb is_inline_ws trail
  end.
Definition afile_ok (f : list aline) : bool := forallb aline_ok f.

(* ---------------------------------------------------------------- canonical literals of numbers *)
Fixpoint zeros (n : nat) : str := match n with O => [] | S n' => "0"%byte :: zeros n' end.
(* m / 10^k written with exactly k fraction digits and at least one integer digit: -0.05, 12.50, 3. *)
Definition render_dec (m : Z) (k : nat) : str :=
  let ds := dec_of_Z (Z.abs m) in
  let ds' := zeros (S k - length ds) ++ ds in
  let n := (length ds' - k)%nat in
  (if Z.ltb m 0 then ["-"%byte] else []) ++ firstn n ds' ++ "."%byte :: skipn n ds'.
Definition render_num (v : num) : str :=
  match v with NInt z => dec_of_Z z | NDec m k => render_dec m k end.
Definition is_int_num (v : num) : bool := match v with NInt _ => true | NDec _ _ => false end.
(* a row is all integers or all decimals *)
Definition row_uniform (vs : list num) : bool := forallb is_int_num vs || forallb (fun v => negb (is_int_num v)) vs.

(* ---------------------------------------------------------------- domain predicates *)
(* file content (decoded text, code points 0..255): parses without ValueError, header letters and row letters pairwise
   different *)
Definition wf_content (raw : str) : bool :=
  match parse raw with Some _ => true | None => false end
  && nodupb (header_of raw) && nodupb (map first_word (data_lines raw)).
(* a name that cannot be the path of a regular file when the working directory is empty: ASCII, not absolute, and
   not leaving the working directory through ".." (whether such a path is a file depends on the machine) *)
Fixpoint has_dotdot (s : str) : bool :=
  match s with
  | c1 :: ((c2 :: _) as r) => (byte_eqb c1 "."%byte && byte_eqb c2 "."%byte) || has_dotdot r
  | _ => false
  end.
Definition wf_name (name : str) : bool :=
  all_ascii name
  && negb (byte_eqb (hd "a"%byte name) "/"%byte)
  && negb (existsb (byte_eqb "/"%byte) name && has_dotdot name).
Definition wf_C20 (op : N) (name content : str) : bool :=
  match op with
  | 0%N => wf_name name && match resolve false name with RFile raw => wf_content raw | _ => true end
  | _ => wf_content content
  end.

(* ---------------------------------------------------------------- harness entry point *)
Definition cksum (s : str) : N := fold_left (fun a c => N.land (a * 31 + Byte.to_N c) 4294967295) s 0%N.

Definition num_val (v : num) : val :=
  match v with
  | NInt z => VI z
  | NDec m k => VL [VI m; VI (Z.of_nat k)]
  end.
Definition matrix_val (m : matrix) : val :=
  VL (map (fun rr => VL [VS (fst rr); VL (map (fun cv => VL [VS (fst cv); num_val (snd cv)]) (snd rr))]) m).
Definition outcome_val (o : outcome) : val :=
  match o with
  | OMatrix m => matrix_val m
  | OValueError => VE (bs "ValueError"%bs)
  | OFileNotFound _ => VL [VS (bs "fnf"%bs); VS available]
  end.
Definition parsed_val (raw : str) : val := outcome_val (submat_file raw).

(* op 0: submat(name) where name is not a path that exists;  op 1: submat(path) of an existing file with these bytes *)
Definition run_C20 (op : N) (name content : str) : val :=
  VL [VB (wf_C20 op name content);
      match op with
      | 0%N =>
          match resolve false name with
          | RFile raw => VL [VS (bs "file"%bs); VI (Z.of_nat (length raw)); VI (Z.of_N (cksum raw)); outcome_val (submat_name name)]
          | _ => outcome_val (submat_name name)
          end
      | _ => outcome_val (submat_file content)
      end].

(* op 2: a file given by its abstract layout; the text is rendered HERE (ties [render]/[afile_ok] to the harness' files) *)
Definition run_C20f (f : list aline) : val :=
  let raw := render f in
  VL [VB (wf_content raw);
      VL [VB (afile_ok f); VI (Z.of_nat (length raw)); VI (Z.of_N (cksum raw)); parsed_val raw]].

(* histories: several calls in one process; the model is pure, so a history is the list of the single results
   (VNone for the driver's steps that are not calls) *)
Definition hist_C20 (steps : list val) : val :=
  VL [VB (forallb (fun v => match v with VL (VB b :: _) => b | VNone => true | _ => false end) steps);
      VL (map (fun v => match v with VL [_; r] => r | _ => VNone end) steps)].

(* op 3: like run_C20f with the line terminator / final terminator chosen (render_with), numbers written by render_num *)
Definition run_C20w (e : eol) (final : bool) (f : list aline) : val :=
  let raw := render_with e final f in
  VL [VB (wf_content raw);
      VL [VB (afile_ok f); VI (Z.of_nat (length raw)); VI (Z.of_N (cksum raw)); parsed_val raw]].

(* op 4: submat(name) while a regular file with this content exists under exactly that relative name in the working
   directory (the name may spell a bundled matrix): the whole function with its file-system input *)
Definition run_C20c (name content : str) : val :=
  VL [VB (all_ascii name && wf_content content); outcome_val (submat_call name (Some content))].

(* ================================================================ round 7 *)
Definition is_words (l : aline) : bool := match l with AWords _ _ _ _ => true | _ => false end.

(* ---------------------------------------------------------------- matrices of NUMBERS in any layout *)
(* a body line is a comment / blank line, or a row: lead, row letter, (separator, number) cells, trailing blanks *)
Inductive mline := MSkip (l : aline) | MRow (lead r : str) (cells : list (str * num)) (trail : str).
Definition mline_aline (ml : mline) : aline :=
  match ml with
  | MSkip l => l
  | MRow lead r cells trail => AWords lead r (map (fun p => (fst p, render_num (snd p))) cells) trail
  end.
(* comment / blank lines, the header line, the body *)
Record mfile := MFile { mf_pre : list aline; mf_hlead : str; mf_h1 : str; mf_hmore : list (str * str); mf_htrail : str;
                        mf_body : list mline }.
Definition mf_letters (mf : mfile) : list str := mf_h1 mf :: map snd (mf_hmore mf).
Definition mf_header (mf : mfile) : aline := AWords (mf_hlead mf) (mf_h1 mf) (mf_hmore mf) (mf_htrail mf).
Definition to_afile (mf : mfile) : list aline := mf_pre mf ++ mf_header mf :: map mline_aline (mf_body mf).
(* what float() makes of an integer literal *)
Definition as_dec (v : num) : num := match v with NInt z => NDec z 0 | _ => v end.
(* the converter is chosen per ROW: one decimal literal turns every cell of the row into a float *)
Definition row_vals (vals : list num) : list num := if forallb is_int_num vals then vals else map as_dec vals.
(* the dict of dicts submat returns: rows in file order, a repeated row letter replaces the earlier row at its place,
   zip(letters, values) truncates to the shorter of the two *)
Definition expected_rows (hs : list str) (body : list mline) : matrix :=
  fold_left (fun mat ml => match ml with
                           | MRow _ r cells _ => dict_set r (dict_of_pairs (combine hs (row_vals (map snd cells)))) mat
                           | MSkip _ => mat
                           end) body [].
Definition mline_ok (ml : mline) : bool :=
  aline_ok (mline_aline ml) &&
  match ml with MSkip l => negb (is_words l) | MRow _ _ cells _ => negb (Nat.eqb (length cells) 0) end.
Definition mfile_ok (mf : mfile) : bool :=
  forallb (fun l => aline_ok l && negb (is_words l)) (mf_pre mf) && aline_ok (mf_header mf) && forallb mline_ok (mf_body mf).

(* ---------------------------------------------------------------- a directory of files, directories and symbolic links *)
Inductive fsent := FReg (content : str) | FDir | FLink (target : str).
Definition fsdir := list (str * fsent).
(* os.path.isfile(name) and what open(name) reads: os.stat follows symbolic links (Linux: at most 40, then ELOOP);
   a directory, a missing entry, a dangling link and a link loop are no file *)
Fixpoint fs_file (fuel : nat) (d : fsdir) (name : str) : option str :=
  match fuel with
  | O => None
  | S n => match dict_get name d with
           | Some (FReg c) => Some c
           | Some (FLink t) => fs_file n d t
           | _ => None
           end
  end.
Definition max_links : nat := 41.     (* the entry itself + 40 links *)
Definition submat_fs (d : fsdir) (name : str) : outcome := submat_call name (fs_file max_links d name).

(* ---------------------------------------------------------------- histories of calls: objects handed out *)
(* what a caller may do with a matrix it got (tools/props/c20.py _edit_result) *)
Inductive edit := EDelRow | EAddRow | EClear | ECell.
Fixpoint edit_cell (m : matrix) : matrix :=
  match m with
  | [] => []
  | (r, []) :: rest => (r, []) :: edit_cell rest
  | (r, (c, _) :: cs) :: rest => (r, dict_set (bs "__col__"%bs) (NInt (-1)) ((c, NInt 424242) :: cs)) :: rest
  end.
Definition apply_edit (e : edit) (m : matrix) : matrix :=
  match e with
  | EDelRow => tl m
  | EAddRow => dict_set (bs "__new__"%bs) [(bs "__new__"%bs, NInt 0)] m
  | EClear => []
  | ECell => edit_cell m
  end.
Definition edit_outcome (e : edit) (o : outcome) : outcome :=
  match o with OMatrix m => OMatrix (apply_edit e m) | _ => o end.
Fixpoint upd_nth {A} (i : nat) (f : A -> A) (l : list A) : list A :=
  match l, i with
  | [], _ => []
  | x :: r, O => f x :: r
  | x :: r, S i' => x :: upd_nth i' f r
  end.
(* a step: a call (argument text, and the content of the regular file the argument leads to, if any), an in-place edit of
   the object returned by the i-th call, or nothing *)
Inductive hstep := HCall (name : str) (file : option str) | HEdit (i : nat) (e : edit) | HSkip.
(* submat since 0feda3c: every call builds a new dict of new dicts. The heap is the list of all objects handed out so far;
   an observation is (object identity, content at the time of the call) *)
Fixpoint hrun (steps : list hstep) (heap : list outcome) : list (option (nat * outcome)) * list outcome :=
  match steps with
  | [] => ([], heap)
  | HCall name file :: r =>
      let o := submat_call name file in
      let (obs, h) := hrun r (heap ++ [o]) in (Some (length heap, o) :: obs, h)
  | HEdit i e :: r => let (obs, h) := hrun r (upd_nth i (edit_outcome e) heap) in (None :: obs, h)
  | HSkip :: r => let (obs, h) := hrun r heap in (None :: obs, h)
  end.
(* what the property demands: the i-th call returns a new object holding the pure result *)
Fixpoint obs_spec (steps : list hstep) (n : nat) : list (option (nat * outcome)) :=
  match steps with
  | [] => []
  | HCall name file :: r => Some (n, submat_call name file) :: obs_spec r (S n)
  | _ :: r => None :: obs_spec r n
  end.
(* for contrast, the variant before 0feda3c (functools.lru_cache on the argument): one object per distinct argument,
   handed out again as it is NOW (edited by the caller; stale when the file was rewritten) *)
Fixpoint hrun_cached (steps : list hstep) (cache : list (str * nat)) (heap : list outcome)
  : list (option (nat * outcome)) * list outcome :=
  match steps with
  | [] => ([], heap)
  | HCall name file :: r =>
      match dict_get name cache with
      | Some i => let (obs, h) := hrun_cached r cache heap in
                  (Some (i, nth i heap OValueError) :: obs, h)
      | None => let o := submat_call name file in
                let (obs, h) := hrun_cached r (cache ++ [(name, length heap)]) (heap ++ [o]) in
                (Some (length heap, o) :: obs, h)
      end
  | HEdit i e :: r => let (obs, h) := hrun_cached r cache (upd_nth i (edit_outcome e) heap) in (None :: obs, h)
  | HSkip :: r => let (obs, h) := hrun_cached r cache heap in (None :: obs, h)
  end.

(* ---------------------------------------------------------------- round 7 harness entry points *)
(* op 5: a matrix of numbers in an abstract layout: the text is rendered here, parsed, and compared with expected_rows *)
Definition run_C20m (e : eol) (final : bool) (mf : mfile) : val :=
  let raw := render_with e final (to_afile mf) in
  VL [VB (mfile_ok mf);
      VL [VI (Z.of_nat (length raw)); VI (Z.of_N (cksum raw)); parsed_val raw;
          matrix_val (expected_rows (mf_letters mf) (mf_body mf))]].
(* op 6: submat(name) in a working directory with these entries *)
Definition run_C20d (d : fsdir) (name : str) : val :=
  VL [VB (all_ascii name && match fs_file max_links d name with
                            | Some c => wf_content c
                            | None => wf_C20 0 name []
                            end);
      match fs_file max_links d name with
      | Some _ => VL [VS (bs "user"%bs); outcome_val (submat_fs d name)]
      | None => VL [VS (bs "name"%bs); outcome_val (submat_fs d name)]
      end].
(* op 7: a history: observations (identity, content) of the calls, and the content of every object at the end *)
Definition hstep_wf (s : hstep) : bool :=
  match s with
  | HCall name None => wf_C20 0 name []
  | HCall _ (Some c) => wf_content c
  | _ => true
  end.
Definition run_C20h (steps : list hstep) : val :=
  let (obs, h) := hrun steps [] in
  VL [VB (forallb hstep_wf steps);
      VL [VL (map (fun o => match o with
                            | Some (i, v) => VL [VI (Z.of_nat i); outcome_val v]
                            | None => VNone
                            end) obs);
          VL (map outcome_val h)]].
(* op 8: one cell word read by int() and by float() *)
Definition lower1 (c : byte) : byte :=
  let n := Byte.to_N c in
  if N.leb 65 n && N.leb n 90 then match Byte.of_N (n + 32) with Some b => b | None => c end else c.
Definition unsigned (tok : str) : str :=
  match tok with
  | c :: r => if byte_eqb c "-"%byte || byte_eqb c "+"%byte then r else tok
  | [] => tok
  end.
Definition is_special (tok : str) : bool :=
  let t := map lower1 (unsigned tok) in
  str_eqb t (bs "inf"%bs) || str_eqb t (bs "infinity"%bs) || str_eqb t (bs "nan"%bs).
Fixpoint after_e (s : str) : str :=
  match s with [] => [] | c :: r => if is_e c then r else after_e r end.
(* the modelled number domain: finite results, exponents of at most 3 digits, words shorter than 1000 characters *)
Definition num_domain (tok : str) : bool :=
  negb (is_special tok) && Nat.leb (length (unsigned (after_e tok))) 3 && Nat.ltb (length tok) 1000 && negb (existsb (byte_eqb x00) tok) && negb (existsb is_ws tok).   (* a word has no white space *)
Definition run_C20n (tok : str) : val :=
  VL [VB (num_domain tok);
      VL [match py_int tok with Some z => VI z | None => VE (bs "ValueError"%bs) end;
          match py_float tok with Some v => num_val v | None => VE (bs "ValueError"%bs) end]].

(* ---------------------------------------------------------------- pathlib.Path arguments that are no file *)
(* os.fspath(pathlib.Path(s)) on POSIX (pathlib._parse_path / PurePosixPath.__str__): components are cut at "/", empty and "."
   components are dropped, a leading "/" (exactly two: "//") is kept as root, nothing left gives "." *)
Fixpoint split_slash (s cur : str) : list str :=
  match s with
  | [] => [rev cur]
  | c :: r => if byte_eqb c "/"%byte then rev cur :: split_slash r [] else split_slash r (c :: cur)
  end.
Definition path_root (s : str) : str :=
  match s with
  | c1 :: r1 =>
      if byte_eqb c1 "/"%byte
      then match r1 with
           | c2 :: r2 => if byte_eqb c2 "/"%byte
                         then match r2 with
                              | c3 :: _ => if byte_eqb c3 "/"%byte then [c1] else [c1; c2]
                              | [] => [c1; c2]
                              end
                         else [c1]
           | [] => [c1]
           end
      else []
  | [] => []
  end.
Definition path_part (x : str) : bool := nonempty x && negb (str_eqb x (bs "."%bs)).
Definition path_norm (s : str) : str :=
  match path_root s ++ join (bs "/"%bs) (filter path_part (split_slash s [])) with
  | [] => bs "."%bs
  | t => t
  end.
(* submat(pathlib.Path(s)) when that path is no regular file *)
Definition submat_path (s : str) : outcome := submat_name (path_norm s).

(* op 9: submat(pathlib.Path(name)) in an empty working directory: the text pathlib hands over, and the result *)
Definition run_C20p (name : str) : val :=
  VL [VB (wf_C20 0 (path_norm name) [] && all_ascii name);
      VL [VS (path_norm name);
          match resolve false (path_norm name) with
          | RFile raw => VL [VS (bs "file"%bs); VI (Z.of_nat (length raw)); VI (Z.of_N (cksum raw)); outcome_val (submat_path name)]
          | _ => outcome_val (submat_path name)
          end]].
