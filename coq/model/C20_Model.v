(* C20 model: sugar.data.submat (sugar/data/__init__.py:61-100) and _submat_files (:56-58).
   The bundled files are the regenerated raw bytes of G_submat_<k>.v / G_submat_index.v; only the control flow
   (name resolution, text layer, line filter, header, per-row split/zip/convert, dict building) is written by hand.
   No proofs here. The content of a file is the DECODED text (what open(fname).read() returns under the UTF-8 default
   encoding), modelled on the code points 0..255 (Latin-1 range), one byte per code point; names are ASCII. *)
From Coq Require Import List ZArith NArith Bool.
From Coq.Strings Require Import Byte.
Import ListNotations.
From SV Require Import Text G_submat_index.

(* ---------------------------------------------------------------- CPython str primitives (code points 0..255) *)

(* str.isspace / the separator set of str.split() and str.strip() for code points < 256:
   \t \n \v \f \r, \x1c-\x1f, space, NEL (\x85), NBSP (\xa0) *)
Definition is_ws (c : byte) : bool :=
  match c with
  | x09 | x0a | x0b | x0c | x0d | x1c | x1d | x1e | x1f | x20 | x85 | xa0 => true
  | _ => false
  end.
(* line boundaries of str.splitlines() for code points < 256 (\x1f and \xa0 are white space but no line boundary) *)
Definition is_linebreak (c : byte) : bool :=
  match c with
  | x0a | x0b | x0c | x0d | x1c | x1d | x1e | x85 => true
  | _ => false
  end.
Definition is_ascii (c : byte) : bool := N.ltb (Byte.to_N c) 128.
Definition all_ascii (s : str) : bool := forallb is_ascii s.

(* str.upper on ASCII *)
Definition upper1 (c : byte) : byte :=
  let n := Byte.to_N c in
  if N.leb 97 n && N.leb n 122 then match Byte.of_N (n - 32) with Some b => b | None => c end else c.
Definition upper (s : str) : str := map upper1 s.

(* open(fname).read(): text mode with universal newlines, "\r\n" and "\r" become "\n"  (__init__.py:80-81) *)
Fixpoint universal_nl (s : str) : str :=
  match s with
  | [] => []
  | c :: r =>
      if byte_eqb c x0d
      then x0a :: match r with
                  | d :: r' => if byte_eqb d x0a then universal_nl r' else universal_nl r
                  | [] => universal_nl r
                  end
      else c :: universal_nl r
  end.

(* str.splitlines(): no empty last line after a final boundary; "\r\n" cannot occur after universal_nl *)
Fixpoint splitlines (s : str) : list str :=
  match s with
  | [] => []
  | c :: r =>
      if is_linebreak c then [] :: splitlines r
      else match splitlines r with
           | [] => [[c]]
           | l :: ls => (c :: l) :: ls
           end
  end.

(* str.split() *)
Fixpoint split_ws (s : str) : list str :=
  match s with
  | [] => []
  | c :: r =>
      if is_ws c then split_ws r
      else match r with
           | [] => [[c]]
           | d :: _ => if is_ws d then [c] :: split_ws r
                       else match split_ws r with
                            | t :: ts => (c :: t) :: ts
                            | [] => [[c]]
                            end
           end
  end.

Fixpoint lstrip (s : str) : str :=
  match s with
  | c :: r => if is_ws c then lstrip r else s
  | [] => []
  end.
Definition rstrip (s : str) : str := rev (lstrip (rev s)).
Definition strip (s : str) : str := rstrip (lstrip s).

(* the first white-space free word of s and what follows it *)
Fixpoint span_word (s : str) : str * str :=
  match s with
  | c :: r => if is_ws c then ([], s) else let (w, t) := span_word r in (c :: w, t)
  | [] => ([], [])
  end.
(* l1, rest = line.split(maxsplit=1): None models the ValueError of the tuple unpacking when there are < 2 words.
   The remainder keeps its trailing white space. *)
Definition split1 (line : str) : option (str * str) :=
  match lstrip line with
  | [] => None
  | s => let (w, t) := span_word s in
         match lstrip t with
         | [] => None
         | rest => Some (w, rest)
         end
  end.

Definition has_dot (s : str) : bool := existsb (byte_eqb "."%byte) s.

(* ---------------------------------------------------------------- numbers *)
(* int cell: exact integer; float cell: the decimal literal m / 10^k (DESIGN 5.3) *)
Inductive num := NInt (z : Z) | NDec (m : Z) (k : nat).

Definition is_digit (c : byte) : bool := match digit_val c with Some _ => true | None => false end.
(* digits "." digits, at least one digit in total, no exponent *)
Fixpoint span_digits (s : str) : str * str :=
  match s with
  | c :: r => if is_digit c then let (w, t) := span_digits r in (c :: w, t) else ([], s)
  | [] => ([], [])
  end.
Definition udec (s : str) : option (Z * nat) :=
  let (ip, t) := span_digits s in
  match t with
  | [] => match nat_of_dec ip with Some z => Some (z, 0%nat) | None => None end
  | c :: fp =>
      if byte_eqb c "."%byte && forallb is_digit fp
      then match ip ++ fp with
           | [] => None
           | ds => match digits_acc ds 0%Z with Some z => Some (z, length fp) | None => None end
           end
      else None
  end.
(* float(token) restricted to [+-]?(D+ | D+.D* | .D+): mantissa and number of fraction digits *)
Definition dec_of_token (s : str) : option (Z * nat) :=
  match s with
  | "-"%byte :: r => match udec r with Some (z, k) => Some (Z.opp z, k) | None => None end
  | "+"%byte :: r => udec r
  | _ => udec s
  end.
(* map(float if '.' in rest else int, ...) on one token; None = outside the modelled number syntax
   (there CPython raises ValueError, or accepts forms such as 1_0, 1e5, inf that are outside the domain) *)
Definition parse_num (fl : bool) (tok : str) : option num :=
  if fl then match dec_of_token tok with Some (m, k) => Some (NDec m k) | None => None end
  else match Z_of_dec tok with Some z => Some (NInt z) | None => None end.

Fixpoint parse_vals (fl : bool) (toks : list str) : option (list num) :=
  match toks with
  | [] => Some []
  | t :: r => match parse_num fl t with
              | None => None
              | Some v => match parse_vals fl r with Some vs => Some (v :: vs) | None => None end
              end
  end.

(* ---------------------------------------------------------------- dict (insertion ordered, assignment keeps position) *)
Fixpoint dict_set {V} (k : str) (v : V) (d : list (str * V)) : list (str * V) :=
  match d with
  | [] => [(k, v)]
  | (k', v') :: r => if str_eqb k' k then (k', v) :: r else (k', v') :: dict_set k v r
  end.
Fixpoint dict_get {V} (k : str) (d : list (str * V)) : option V :=
  match d with
  | [] => None
  | (k', v') :: r => if str_eqb k' k then Some v' else dict_get k r
  end.
(* {l2: v for l2, v in pairs} *)
Definition dict_of_pairs {V} (l : list (str * V)) : list (str * V) :=
  fold_left (fun d kv => dict_set (fst kv) (snd kv) d) l [].

Definition row := list (str * num).
Definition matrix := list (str * row).

(* ---------------------------------------------------------------- the parser loop, __init__.py:82-96 *)
(* line.strip().startswith('#') or line.strip() == '' *)
Definition skipped (line : str) : bool :=
  match strip line with
  | [] => true
  | c :: _ => byte_eqb c "#"%byte
  end.

(* None = ValueError (too few words on a data line, or a cell that is not a number of the modelled syntax).
   zip(letters, vals) over a lazy map converts only the first len(letters) tokens. *)
Fixpoint parse_lines (ls : list str) (letters : option (list str)) (mat : matrix) : option matrix :=
  match ls with
  | [] => Some mat
  | line :: r =>
      if skipped line then parse_lines r letters mat
      else match letters with
           | None => parse_lines r (Some (split_ws line)) mat
           | Some hs =>
               match split1 line with
               | None => None
               | Some (l1, rest) =>
                   match parse_vals (has_dot rest) (firstn (length hs) (split_ws rest)) with
                   | None => None
                   | Some vals => parse_lines r letters (dict_set l1 (dict_of_pairs (combine hs vals)) mat)
                   end
               end
           end
  end.

Definition parse (raw : str) : option matrix := parse_lines (splitlines (universal_nl raw)) None [].

Definition cell (m : matrix) (r c : str) : option num :=
  match dict_get r m with Some rw => dict_get c rw | None => None end.

(* ---------------------------------------------------------------- name resolution, __init__.py:77-83 and :61-63 *)
Definition submat_names : list str := map fst submat_files.

Fixpoint join (sep : str) (l : list str) : str :=
  match l with
  | [] => []
  | [x] => x
  | x :: r => x ++ sep ++ join sep r
  end.
(* ', '.join(_submat_files()) *)
Definition available : str := join (bs ", "%bs) submat_names.
(* the FileNotFoundError message, __init__.py:80 *)
Definition fnf_message (name : str) : str :=
  bs "No file at "%bs ++ name ++ bs ", available matrices: "%bs ++ available.

Inductive resolution := RPath | RFile (raw : str) | RMissing.
(* __init__.py:77-82, in this order: if isfile(fname) the argument itself is opened (a user's file wins, whatever its name
   spells); otherwise fname.upper() is looked up among _submat_files(): a hit is opened from the bundled directory,
   anything else (README entries, '', '.', paths) is a missing name *)
Definition resolve (isfile : bool) (name : str) : resolution :=
  if isfile then RPath
  else match dict_get (upper name) submat_files with
       | Some raw => RFile raw
       | None => RMissing
       end.

Inductive outcome := OMatrix (m : matrix) | OValueError | OFileNotFound (msg : str).
Definition parsed (raw : str) : outcome :=
  match parse raw with Some m => OMatrix m | None => OValueError end.
(* the whole function: fs = Some content when the argument is the path of a regular file with that (decoded) content *)
Definition submat_call (name : str) (fs : option str) : outcome :=
  match resolve (match fs with Some _ => true | None => false end) name with
  | RPath => match fs with Some content => parsed content | None => OValueError (* unreachable *) end
  | RFile raw => parsed raw
  | RMissing => OFileNotFound (fnf_message name)
  end.
(* submat(name) for a name that is not the path of a regular file *)
Definition submat_name (name : str) : outcome := submat_call name None.
(* submat(path) for an existing file with this content *)
Definition submat_file (content : str) : outcome := parsed content.

(* ---------------------------------------------------------------- specification side *)
Definition content_lines (raw : str) : list str :=
  filter (fun l => negb (skipped l)) (splitlines (universal_nl raw)).
Definition header_of (raw : str) : list str :=
  match content_lines raw with [] => [] | h :: _ => split_ws h end.
Definition data_lines (raw : str) : list str := tl (content_lines raw).
Definition first_word (line : str) : str := hd [] (split_ws line).

Definition num_eqb (a b : num) : bool :=
  match a, b with
  | NInt x, NInt y => Z.eqb x y
  | NDec m k, NDec m' k' => Z.eqb m m' && Nat.eqb k k'
  | _, _ => false
  end.
(* equality of the denoted numbers; int 1 and float 1.0 are different Python objects but equal numbers *)
Definition pow10 (k : nat) : Z := Z.pow 10 (Z.of_nat k).
Definition num_val_eqb (a b : num) : bool :=
  match a, b with
  | NInt x, NInt y => Z.eqb x y
  | NDec m k, NDec m' k' => Z.eqb (m * pow10 k') (m' * pow10 k)
  | NInt x, NDec m k | NDec m k, NInt x => Z.eqb (x * pow10 k) m
  end.
Fixpoint strs_eqb (a b : list str) : bool :=
  match a, b with
  | [], [] => true
  | x :: a', y :: b' => str_eqb x y && strs_eqb a' b'
  | _, _ => false
  end.
Fixpoint nodupb (l : list str) : bool :=
  match l with
  | [] => true
  | x :: r => negb (existsb (str_eqb x) r) && nodupb r
  end.

(* positional reading of one data line against the header: j-th value word under the j-th header letter *)
Definition line_ok (m : matrix) (hs : list str) (line : str) : bool :=
  match split_ws line with
  | r :: ((_ :: _) as vs) =>
      let fl := existsb has_dot vs in
      forallb (fun cv => match parse_num fl (snd cv) with
                         | Some v => match cell m r (fst cv) with Some v' => num_eqb v' v | None => false end
                         | None => false
                         end) (combine hs vs)
      && match dict_get r m with
         | Some rw => strs_eqb (map fst rw) (firstn (length vs) hs)
         | None => false
         end
  | _ => false
  end.
(* the whole file: parses, letters are unambiguous, every data line is read positionally, no row is lost or invented *)
Definition file_ok (raw : str) : bool :=
  match parse raw with
  | None => false
  | Some m =>
      nodupb (header_of raw) && nodupb (map first_word (data_lines raw))
      && forallb (line_ok m (header_of raw)) (data_lines raw)
      && strs_eqb (map fst m) (map first_word (data_lines raw))
  end.
(* m[a][b] = m[b][a] wherever both entries exist *)
Definition sym_ok (m : matrix) : bool :=
  forallb (fun ar => forallb (fun bv => match cell m (fst bv) (fst ar) with
                                         | Some v' => num_val_eqb (snd bv) v'
                                         | None => true
                                         end) (snd ar)) m.
Definition file_sym (raw : str) : bool :=
  match parse raw with Some m => sym_ok m | None => false end.
Definition is_upper_name (s : str) : bool := str_eqb (upper s) s.

(* ---------------------------------------------------------------- files "in the same layout", abstractly *)
(* a line is a comment, a blank line, or words: lead w1 (sep w)* trail *)
Inductive aline :=
| AComment (lead text : str)
| ABlank (ws : str)
| AWords (lead : str) (w1 : str) (more : list (str * str)) (trail : str).
Definition render_aline (l : aline) : str :=
  match l with
  | AComment lead text => lead ++ "#"%byte :: text
  | ABlank ws => ws
  | AWords lead w1 more trail => lead ++ w1 ++ concat (map (fun p => fst p ++ snd p) more) ++ trail
  end.
(* every line terminated by "\n" *)
Definition render (f : list aline) : str := concat (map (fun l => render_aline l ++ [x0a]) f).
Fixpoint word_lines (f : list aline) : list (list str) :=
  match f with
  | [] => []
  | AWords _ w1 more _ :: r => (w1 :: map snd more) :: word_lines r
  | _ :: r => word_lines r
  end.
(* other line terminators and an optional missing terminator after the last line *)
Inductive eol := LF | CRLF | CR.
Definition eol_str (e : eol) : str :=
  match e with LF => [x0a] | CRLF => [x0d; x0a] | CR => [x0d] end.
Fixpoint render_with (e : eol) (final : bool) (f : list aline) : str :=
  match f with
  | [] => []
  | l :: r => render_aline l ++ match r with
                                | [] => if final then eol_str e else []
                                | _ :: _ => eol_str e ++ render_with e final r
                                end
  end.
(* white space that does not end a line: space, tab, \x1f, \xa0 *)
Definition is_inline_ws (c : byte) : bool := is_ws c && negb (is_linebreak c).
Definition no_linebreak (s : str) : bool := forallb (fun c => negb (is_linebreak c)) s.
Definition nonempty (s : str) : bool := match s with [] => false | _ => true end.
Definition word_ok (w : str) : bool := nonempty w && forallb (fun c => negb (is_ws c)) w.
Definition aline_ok (l : aline) : bool :=
  match l with
  | AComment lead text => forallb is_inline_ws lead && no_linebreak text
  | ABlank ws => forallb is_inline_ws ws
  | AWords lead w1 more trail =>
      forallb is_inline_ws lead && word_ok w1 && negb (byte_eqb (hd "#"%byte w1) "#"%byte)
      && forallb (fun p => nonempty (fst p) && forallb is_inline_ws (fst p) && word_ok (snd p)) more
      && forallb is_inline_ws trail
  end.
Definition afile_ok (f : list aline) : bool := forallb aline_ok f.

(* ---------------------------------------------------------------- canonical literals of numbers *)
Fixpoint zeros (n : nat) : str := match n with O => [] | S n' => "0"%byte :: zeros n' end.
(* m / 10^k written with exactly k fraction digits and at least one integer digit: -0.05, 12.50, 3. *)
Definition render_dec (m : Z) (k : nat) : str :=
  let ds := dec_of_Z (Z.abs m) in
  let ds' := zeros (S k - length ds) ++ ds in
  let n := (length ds' - k)%nat in
  (if Z.ltb m 0 then ["-"%byte] else []) ++ firstn n ds' ++ "."%byte :: skipn n ds'.
Definition render_num (v : num) : str :=
  match v with NInt z => dec_of_Z z | NDec m k => render_dec m k end.
Definition is_int_num (v : num) : bool := match v with NInt _ => true | NDec _ _ => false end.
(* a row is all integers or all decimals *)
Definition row_uniform (vs : list num) : bool := forallb is_int_num vs || forallb (fun v => negb (is_int_num v)) vs.

(* ---------------------------------------------------------------- domain predicates *)
(* file content (decoded text, code points 0..255): parses without ValueError, header letters and row letters pairwise
   different *)
Definition wf_content (raw : str) : bool :=
  match parse raw with Some _ => true | None => false end
  && nodupb (header_of raw) && nodupb (map first_word (data_lines raw)).
(* a name that cannot be the path of a regular file when the working directory is empty: ASCII, not absolute, and
   not leaving the working directory through ".." (whether such a path is a file depends on the machine) *)
Fixpoint has_dotdot (s : str) : bool :=
  match s with
  | c1 :: ((c2 :: _) as r) => (byte_eqb c1 "."%byte && byte_eqb c2 "."%byte) || has_dotdot r
  | _ => false
  end.
Definition wf_name (name : str) : bool :=
  all_ascii name
  && negb (byte_eqb (hd "a"%byte name) "/"%byte)
  && negb (existsb (byte_eqb "/"%byte) name && has_dotdot name).
Definition wf_C20 (op : N) (name content : str) : bool :=
  match op with
  | 0%N => wf_name name && match resolve false name with RFile raw => wf_content raw | _ => true end
  | _ => wf_content content
  end.

(* ---------------------------------------------------------------- harness entry point *)
Definition cksum (s : str) : N := fold_left (fun a c => N.land (a * 31 + Byte.to_N c) 4294967295) s 0%N.

Definition num_val (v : num) : val :=
  match v with
  | NInt z => VI z
  | NDec m k => VL [VI m; VI (Z.of_nat k)]
  end.
Definition matrix_val (m : matrix) : val :=
  VL (map (fun rr => VL [VS (fst rr); VL (map (fun cv => VL [VS (fst cv); num_val (snd cv)]) (snd rr))]) m).
Definition outcome_val (o : outcome) : val :=
  match o with
  | OMatrix m => matrix_val m
  | OValueError => VE (bs "ValueError"%bs)
  | OFileNotFound _ => VL [VS (bs "fnf"%bs); VS available]
  end.
Definition parsed_val (raw : str) : val := outcome_val (submat_file raw).

(* op 0: submat(name) where name is not a path that exists;  op 1: submat(path) of an existing file with these bytes *)
Definition run_C20 (op : N) (name content : str) : val :=
  VL [VB (wf_C20 op name content);
      match op with
      | 0%N =>
          match resolve false name with
          | RFile raw => VL [VS (bs "file"%bs); VI (Z.of_nat (length raw)); VI (Z.of_N (cksum raw)); outcome_val (submat_name name)]
          | _ => outcome_val (submat_name name)
          end
      | _ => outcome_val (submat_file content)
      end].

(* op 2: a file given by its abstract layout; the text is rendered HERE (ties [render]/[afile_ok] to the harness' files) *)
Definition run_C20f (f : list aline) : val :=
  let raw := render f in
  VL [VB (wf_content raw);
      VL [VB (afile_ok f); VI (Z.of_nat (length raw)); VI (Z.of_N (cksum raw)); parsed_val raw]].

(* histories: several calls in one process; the model is pure, so a history is the list of the single results
   (VNone for the driver's steps that are not calls) *)
Definition hist_C20 (steps : list val) : val :=
  VL [VB (forallb (fun v => match v with VL (VB b :: _) => b | VNone => true | _ => false end) steps);
      VL (map (fun v => match v with VL [_; r] => r | _ => VNone end) steps)].

(* op 3: like run_C20f with the line terminator / final terminator chosen (render_with), numbers written by render_num *)
Definition run_C20w (e : eol) (final : bool) (f : list aline) : val :=
  let raw := render_with e final f in
  VL [VB (wf_content raw);
      VL [VB (afile_ok f); VI (Z.of_nat (length raw)); VI (Z.of_N (cksum raw)); parsed_val raw]].

(* op 4: submat(name) while a regular file with this content exists under exactly that relative name in the working
   directory (the name may spell a bundled matrix): the whole function with its file-system input *)
Definition run_C20c (name content : str) : val :=
  VL [VB (all_ascii name && wf_content content); outcome_val (submat_call name (Some content))].
