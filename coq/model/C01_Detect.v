(* C01 model, part 2: format detection and byte level of SJSON. No proofs here.
   Modelled: the five sniffers is_<fmt> of the sequence plugins (fasta.py:13-15, genbank.py:11-13, stockholm.py:16-18,
   gff.py:20-27, sjson.py:67-69), detect() trying them in plugin order (main.py:76-103), read() without fmt
   (main.py:307-331), os.path.splitext for POSIX names (posixpath.splitext / genericpath._splitext), detect_ext()
   (main.py:105-121), write() by file name (main.py:425-446), json.dump's rendering of the trees sjson.py produces
   (json.encoder: separators ', ' and ': ', ensure_ascii) and a parser for that subset of JSON. *)
From Coq Require Import List ZArith NArith Bool.
From Coq.Strings Require Import Byte.
Import ListNotations.
From SV Require Import Text C01_Lines G_codes G_c01_io C01_Model.
Local Open Scope nat_scope.

Definition E_OS : str := bs "OSError"%bs.

(* ---------------------------------------------------------------- JSON text of a tree (json.dump, default options) *)
Definition hexl (n : N) : byte :=
  match n with
  | 0 => "0" | 1 => "1" | 2 => "2" | 3 => "3" | 4 => "4" | 5 => "5" | 6 => "6" | 7 => "7"
  | 8 => "8" | 9 => "9" | 10 => "a" | 11 => "b" | 12 => "c" | 13 => "d" | 14 => "e" | _ => "f"
  end%N%byte.
Definition BSL : byte := x5c.    (* backslash *)
Definition DQ : byte := x22.     (* double quote *)
(* json.encoder.py_encode_basestring_ascii escapes backslash, double quote and everything outside space..tilde: short escapes, else u00xx with lower-case hex *)
Definition jplain (c : byte) : bool :=
  let n := Byte.to_N c in (N.leb 32 n && N.leb n 126)%N && negb (byte_eqb c DQ) && negb (byte_eqb c BSL).
Definition jesc1 (c : byte) : str :=
  if jplain c then [c]
  else match c with
       | x22 => [BSL; DQ]
       | x5c => [BSL; BSL]
       | x0a => [BSL; "n"%byte]
       | x0d => [BSL; "r"%byte]
       | x09 => [BSL; "t"%byte]
       | x08 => [BSL; "b"%byte]
       | x0c => [BSL; "f"%byte]
       | _ => let n := Byte.to_N c in [BSL; "u"%byte; "0"%byte; "0"%byte; hexl (N.div n 16); hexl (N.modulo n 16)]
       end.
Definition jstr (s : str) : str := DQ :: flat_map jesc1 s ++ [DQ].
Definition COMMA_SP : str := bs ", "%bs.
Definition COLON_SP : str := bs ": "%bs.
Fixpoint jdump (t : tree) : str :=
  match t with
  | TNull => bs "null"%bs
  | TStr s => jstr s
  | TList l => "["%byte :: join COMMA_SP (map jdump l) ++ ["]"%byte]
  | TDict l => "{"%byte :: join COMMA_SP (map (fun kv => match kv with (k, v) => jstr k ++ COLON_SP ++ jdump v end) l)
               ++ ["}"%byte]
  end.

(* the characters of a written file: SJSON documents are rendered by json.dump (mode 'a' concatenates documents) *)
Definition content_text (c : content) : str :=
  match c with
  | CText t => t
  | CTree l => concat (map jdump l)
  end.

(* ---------------------------------------------------------------- JSON parser for the subset sjson.py writes (json.load) *)
(* whitespace between tokens: space, \t, \n, \r *)
Definition jws (c : byte) : bool :=
  byte_eqb c " "%byte || byte_eqb c x09 || byte_eqb c x0a || byte_eqb c x0d.
Definition jskip (s : str) : str := dropwhile jws s.
Definition hexval (c : byte) : option N :=
  match c with
  | "0" => Some 0 | "1" => Some 1 | "2" => Some 2 | "3" => Some 3 | "4" => Some 4 | "5" => Some 5 | "6" => Some 6
  | "7" => Some 7 | "8" => Some 8 | "9" => Some 9
  | "a" | "A" => Some 10 | "b" | "B" => Some 11 | "c" | "C" => Some 12 | "d" | "D" => Some 13 | "e" | "E" => Some 14
  | "f" | "F" => Some 15
  | _ => None
  end%N%byte.
Definition byte_of_N (n : N) : byte := match Byte.of_N n with Some b => b | None => x00 end.
Definition jcons (b : byte) (o : option (str * str)) : option (str * str) :=
  match o with Some (x, y) => Some (b :: x, y) | None => None end.
(* the body of a string after the opening quote: (decoded characters, rest after the closing quote);
   \u escapes above 00ff are outside Latin-1: rejected *)
Fixpoint jparse_chars (s : str) : option (str * str) :=
  match s with
  | [] => None
  | c :: r =>
      if byte_eqb c DQ then Some ([], r)
      else if byte_eqb c BSL then
        match r with
        | e :: r2 =>
            match e with
            | x22 => jcons DQ (jparse_chars r2)
            | x5c => jcons BSL (jparse_chars r2)
            | x2f => jcons "/"%byte (jparse_chars r2)
            | x6e => jcons x0a (jparse_chars r2)
            | x72 => jcons x0d (jparse_chars r2)
            | x74 => jcons x09 (jparse_chars r2)
            | x62 => jcons x08 (jparse_chars r2)
            | x66 => jcons x0c (jparse_chars r2)
            | x75 =>
                match r2 with
                | a :: b :: h :: l :: r3 =>
                    match hexval a, hexval b, hexval h, hexval l with
                    | Some 0%N, Some 0%N, Some hi, Some lo => jcons (byte_of_N (hi * 16 + lo)) (jparse_chars r3)
                    | _, _, _, _ => None
                    end
                | _ => None
                end
            | _ => None
            end
        | [] => None
        end
      else if N.ltb (Byte.to_N c) 32 then None           (* control characters must be escaped (strict) *)
      else jcons c (jparse_chars r)
  end.

Section Items.
  Variable pv : str -> option (tree * str).
  (* after '[' (non-empty list) or ',': a value, then ',' or ']' *)
  Fixpoint jlist_items (n : nat) (s : str) : option (list tree * str) :=
    match n with
    | O => None
    | S m =>
        match pv s with
        | Some (v, s1) =>
            match jskip s1 with
            | x2c :: s2 => match jlist_items m s2 with Some (vs, y) => Some (v :: vs, y) | None => None end
            | x5d :: y => Some ([v], y)
            | _ => None
            end
        | None => None
        end
    end.
  (* after '{' (non-empty object) or ',': "key" : value, then ',' or '}' *)
  Fixpoint jdict_items (n : nat) (s : str) : option (list (str * tree) * str) :=
    match n with
    | O => None
    | S m =>
        match jskip s with
        | x22 :: s0 =>
            match jparse_chars s0 with
            | Some (key, s1) =>
                match jskip s1 with
                | x3a :: s2 =>
                    match pv s2 with
                    | Some (v, s3) =>
                        match jskip s3 with
                        | x2c :: s4 => match jdict_items m s4 with Some (vs, y) => Some ((key, v) :: vs, y) | None => None end
                        | x7d :: y => Some ([(key, v)], y)
                        | _ => None
                        end
                    | None => None
                    end
                | _ => None
                end
            | None => None
            end
        | _ => None
        end
    end.
End Items.

(* a value; fuel bounds the nesting depth and the number of items of one container *)
Fixpoint jparse_val (fuel : nat) (s : str) : option (tree * str) :=
  match fuel with
  | O => None
  | S k =>
      match jskip s with
      | x22 :: r => match jparse_chars r with Some (x, y) => Some (TStr x, y) | None => None end
      | x6e :: r => match strip_prefix (bs "ull"%bs) r with Some y => Some (TNull, y) | None => None end
      | x5b :: r =>
          match jskip r with
          | x5d :: y => Some (TList [], y)
          | _ => match jlist_items (jparse_val k) k r with Some (vs, y) => Some (TList vs, y) | None => None end
          end
      | x7b :: r =>
          match jskip r with
          | x7d :: y => Some (TDict [], y)
          | _ => match jdict_items (jparse_val k) k r with Some (vs, y) => Some (TDict vs, y) | None => None end
          end
      | _ => None
      end
  end.

(* json.load of the characters of a file: one value, nothing but whitespace after it; the object hook of sjson.py on the tree *)
Definition jload (t : str) : option tree :=
  match jparse_val (length t) t with
  | Some (tr, rest) => match jskip rest with [] => Some tr | _ => None end
  | None => None
  end.
Definition read_sjson_text (t : str) : res (list bseq) :=
  match jload t with Some tr => dec_basket tr | None => Err E_Value end.
(* read(f, fmt) of a file with these characters *)
Definition read_bytes (f : fmt) (t : str) : res (list bseq) :=
  match f with
  | Sjson => bind (read_sjson_text t) (fun b => Ok (map (set_fmt Sjson) b))
  | _ => read_content f (CText t)
  end.

(* ---------------------------------------------------------------- the sniffers, in the order of their plugins *)
(* f.read(n) on the text layer (universal newlines) *)
Definition sniff_head (n : nat) (t : str) : str := firstn n (univ_nl t).
(* fasta.py:13-15 *)
Definition is_fasta (t : str) : bool := startswith [GT] (strip (sniff_head 50 t)).
(* genbank.py:11-13 *)
Definition is_genbank (t : str) : bool := str_eqb (lower (sniff_head 5 t)) (bs "locus"%bs).
(* stockholm.py:16-18 *)
Definition is_stockholm (t : str) : bool := str_eqb (sniff_head 11 t) STK_HEAD.
(* gff.py:20-27; int() of a column: optional sign and decimal digits after stripping (underscores: outside the domain) *)
Definition GFF_VERSION : str := bs "##gff-version 3"%bs.
Definition int_ok (s : str) : bool := is_some (Z_of_dec (strip s)).
Definition is_gff (t : str) : bool :=
  let c := sniff_head 100 t in
  if startswith GFF_VERSION (strip c) then true
  else match split_on TAB c with
       | _ :: _ :: _ :: start :: stop :: _ :: strand :: phase :: _ =>
           int_ok start && int_ok stop && is_substring strand STRANDS && is_substring phase (bs ".012"%bs)
       | _ => false                                        (* tuple unpacking fails: ValueError, swallowed by detect() *)
       end.
(* sjson.py:67-69 *)
Definition is_sjson (t : str) : bool :=
  is_substring (lower (firstn 17 SJSON_COMMENT)) (lower (sniff_head 51 t)).

Definition fmt_of_name (nm : str) : option fmt :=
  if str_eqb nm (bs "fasta"%bs) then Some Fasta
  else if str_eqb nm (bs "stockholm"%bs) then Some Stockholm
  else if str_eqb nm (bs "sjson"%bs) then Some Sjson
  else if str_eqb nm (bs "gff"%bs) then Some Gff
  else None.
Definition sniffer (nm : str) : option (str -> bool) :=
  if str_eqb nm (bs "fasta"%bs) then Some is_fasta
  else if str_eqb nm (bs "genbank"%bs) then Some is_genbank
  else if str_eqb nm (bs "stockholm"%bs) then Some is_stockholm
  else if str_eqb nm (bs "gff"%bs) then Some is_gff
  else if str_eqb nm (bs "sjson"%bs) then Some is_sjson
  else None.
(* detect(), main.py:76-103: the first plugin (in FMTS_ALL order) whose sniffer accepts; every sniffer starts at the same
   file position (f.seek(fpos)) *)
Fixpoint detect_in (order : list str) (t : str) : option str :=
  match order with
  | [] => None
  | nm :: r =>
      match sniffer nm with
      | Some s => if s t then Some nm else detect_in r t
      | None => detect_in r t
      end
  end.
Definition detect (t : str) : option str := detect_in SEQ_SNIFF_ORDER t.
(* texts on which the model of the sniffers is exact: no '_' in the coordinate columns is_gff hands to int() *)
Definition sniff_dom (t : str) : bool :=
  match split_on TAB (sniff_head 100 t) with
  | _ :: _ :: _ :: start :: stop :: _ :: _ :: _ :: _ => negb (mem "_"%byte start) && negb (mem "_"%byte stop)
  | _ => true
  end.

(* read() without fmt, main.py:307-331: 'Format cannot be auto-detected' is an IOError; a detected format that is not one
   of the four writable ones (genbank) is outside this model *)
Definition E_NotModelled : str := bs "NotModelled"%bs.
Definition read_auto (c : content) : res (list bseq) :=
  match detect (content_text c) with
  | None => Err E_OS
  | Some nm => match fmt_of_name nm with Some f => read_content f c | None => Err E_NotModelled end
  end.

(* the same on the characters of a file *)
Definition read_auto_bytes (t : str) : res (list bseq) :=
  match detect t with
  | None => Err E_OS
  | Some nm => match fmt_of_name nm with Some f => read_bytes f t | None => Err E_NotModelled end
  end.

(* ---------------------------------------------------------------- os.path.splitext on POSIX names, detect_ext, write by name *)
Definition SLASH : byte := "/"%byte.
Definition DOTB : byte := "."%byte.
(* the part after the last occurrence of c (p[p.rfind(c)+1:]); None when c does not occur *)
Fixpoint after_last (c : byte) (s : str) : option str :=
  match s with
  | [] => None
  | x :: r => match after_last c r with
              | Some t => Some t
              | None => if byte_eqb x c then Some r else None
              end
  end.
(* the part before the last occurrence of c *)
Fixpoint before_last (c : byte) (s : str) : option str :=
  match s with
  | [] => None
  | x :: r => match before_last c r with
              | Some t => Some (x :: t)
              | None => if byte_eqb x c then Some [] else None
              end
  end.
Definition basename (p : str) : str := match after_last SLASH p with Some b => b | None => p end.
Definition all_dots (s : str) : bool := forallb (fun c => byte_eqb c DOTB) s.
(* genericpath._splitext: the extension starts at the last dot of the base name, unless only dots precede it;
   detect_ext removes the dot: os.path.splitext(fname)[1].removeprefix('.') *)
Definition ext_of (p : str) : str :=
  let b := basename p in
  match before_last DOTB b, after_last DOTB b with
  | Some stem, Some e => if all_dots stem then [] else e
  | _, _ => []
  end.
(* detect_ext(), main.py:105-121: first plugin in FMTS_ALL order whose filename_extensions_<fmt> contains the extension *)
Fixpoint detect_ext_in (tbl : list (str * list str)) (e : str) : option str :=
  match tbl with
  | [] => None
  | (nm, exts) :: r => if existsb (str_eqb e) exts then Some nm else detect_ext_in r e
  end.
Definition detect_ext (p : str) : option str := detect_ext_in SEQ_EXT_TABLE (ext_of p).
(* write(seqs, fname) with fmt=None, main.py:425-446 *)
Definition write_byname (p : str) (b : list bseq) : res content :=
  match detect_ext p with
  | None => Err E_OS                                      (* 'Format cannot be auto-detected' *)
  | Some nm => match fmt_of_name nm with Some f => write_w f b | None => Err E_Runtime end
  end.

(* ---------------------------------------------------------------- harness entry points *)
Definition show_name (o : option str) : val := VOpt VStr o.
Definition show_read (r : res (list bseq)) : val := show_res (bind r (fun o => Ok (show_basket o))).
(* mode 0: write the basket as fmt, detect the format of the bytes, read them without fmt;
   mode 1: detect / read a literal text; mode 2: read SJSON bytes with the format given *)
(* reader-side domain for SJSON bytes: JSON of the subset that decodes to a non-empty basket of legal records *)
Definition wf_sjson_text (t : str) : bool :=
  forallb text_char_ok t
  && match read_bytes Sjson t with
     | Ok b => match b with [] => false | _ => true end && forallb (rec_ok Sjson) b
     | Err _ => false
     end.
Definition wf_detect_text (t : str) : bool :=
  forallb text_char_ok t && sniff_dom t
  && match detect t with
     | None => true
     | Some nm => match fmt_of_name nm with
                  | Some Sjson => wf_sjson_text t
                  | Some f => wf_text f t
                  | None => true
                  end
     end.
Definition run_C01_det (mode fmtn : N) (xs : list input_seq) (fl : list input_ft) (t : str) : val :=
  let f := fmt_of_N fmtn in
  let fts := build_fts fl in
  match mode with
  | 0%N => VL [VB (wf_C01 0 f xs [] fts []);
               show_res (bind (write_w_fts f fts (build xs)) (fun c =>
                         Ok (VL [VS (content_text c); show_name (detect (content_text c)); show_read (read_auto c)])))]
  | 1%N => VL [VB (wf_detect_text t); VL [show_name (detect t); show_read (read_auto_bytes t)]]
  | _ => VL [VB (wf_sjson_text t); show_read (read_bytes Sjson t)]          (* read(text, 'sjson') *)
  end.
(* write(basket, name): extension, detected plugin, written bytes, what read(name) returns *)
Definition name_char (c : byte) : bool := is_alnum c || mem c (bs "._-/"%bs).
Definition comp_ok (c : str) : bool :=
  match c with [] => false | _ => true end && negb (str_eqb c [DOTB]) && negb (str_eqb c [DOTB; DOTB]).
Definition name_ok (p : str) : bool := forallb name_char p && forallb comp_ok (split_on SLASH p).
Definition run_C01_byname (p : str) (xs : list input_seq) : val :=
  VL [VB (name_ok p && match detect_ext p with
                       | Some nm => match fmt_of_name nm with Some f => wf_basket f xs | None => true end
                       | None => true
                       end);
      VL [VS (ext_of p); show_name (detect_ext p);
          show_res (bind (write_byname p (build xs)) (fun c =>
                    Ok (VL [VS (content_text c); show_read (read_auto c)])))]].

(* ---------------------------------------------------------------- BioSeq(data, id='', meta=None, type=None), seq.py:213-243 *)
(* data: a str, or an object with a .meta attribute (a BioSeq); mappings with a 'meta' key are not modelled *)
Inductive bdata :=
| DStr (s : str)
| DSeq (b : bseq).
Definition truthy (o : option str) : bool := match o with Some (_ :: _) => true | _ => false end.
(* [id]: None = Python None, Some "" = the default; [meta]: None = not given, Some m = a mapping whose 'id' entry is m
   (None = no such key, Some None = None, Some (Some s) = s); [ty]: None = not given *)
Definition bioseq_init (d : bdata) (id : option str) (meta : option (option (option str))) (ty : option str) : res bseq :=
  let data := upper (match d with DStr s => s | DSeq b => b_data b end) in                 (* str(data).upper() *)
  let mid : option (option str) :=                                                         (* the mapping Meta() is built from *)
    match d with
    | DSeq b => Some (b_id b)                                                              (* hasattr(data, 'meta') *)
    | DStr _ => match meta with Some m => m | None => None end
    end in
  let id' := if truthy id || negb (is_some mid) then id                                     (* if id or 'id' not in self.meta *)
             else match mid with Some x => x | None => None end in
  let hdr := match d with DSeq b => b_header b | DStr _ => None end in
  let fm := match d with DSeq b => b_fmt b | DStr _ => None end in
  match ty with
  | None => Ok (mk_bseq data id' (infer_nt data) hdr fm)
  | Some t => if str_eqb t (bs "nt"%bs) then Ok (mk_bseq data id' true hdr fm)
              else if str_eqb t (bs "aa"%bs) then Ok (mk_bseq data id' false hdr fm)
              else Err E_Assertion                                                          (* assert type in (None, 'nt', 'aa') *)
  end.
(* harness: the source object is BioSeq(sdata, id=sid, type=sty) with an optional _fasta.header when from_seq, else the str *)
Definition run_C01_init (from_seq : bool) (sdata : str) (sid : option str) (sty : option str) (shdr : option str)
                        (id : option str) (meta : option (option (option str))) (ty : option str) : val :=
  let src := if from_seq
             then bind (bioseq_init (DStr sdata) sid None sty)
                       (fun b => Ok (DSeq (match shdr with Some h => set_header h b | None => b end)))
             else Ok (DStr sdata) in
  VL [VB (forallb is_print_or_tab sdata);
      show_res (bind src (fun d => bind (bioseq_init d id meta ty) (fun b => Ok (show_seq b))))].
