(* C13 model: sugar.core.cane.match() (cane.py:167-255), BioMatch.span (cane.py:137-141),
   BioSeq.match/matchall (seq.py:541-553), BioBasket.match/matchall (seq.py:1019-1038).
   The reverse complement is the C05 model of BioSeq.rc (tables regenerated from /repo).
   Regular expressions: only the codon-alternation patterns of DESIGN 5.5 (words over ASCII letters and '.',
   separated by '|', with the "[gap]*" rewriting) are modelled, by a hand-written backtracking matcher with
   CPython's priorities (ordered alternation, greedy star, leftmost non-overlapping finditer).
   No proofs here. *)
From Coq Require Import List ZArith NArith Bool.
From Coq.Strings Require Import Byte.
Import ListNotations.
From SV Require Import Text G_codes C05_Model.
Local Open Scope Z_scope.

(* ---------------------------------------------------------------- rf argument, cane.py:200-209 *)
Inductive rfarg := RNone | RInt (z : Z) | RStr (s : str) | RList (l : list Z).

(* None = AssertionError (rf is a string that is not fwd/bwd/both); Some None = rf None *)
Definition norm_rf (r : rfarg) : option (option (list Z)) :=
  match r with
  | RNone => Some None
  | RInt z => Some (Some [z])                                   (* cane.py:200-201 *)
  | RList l => Some (Some l)
  | RStr s =>                                                   (* cane.py:202-209 *)
      if str_eqb s (bs "fwd"%bs) then Some (Some [0; 1; 2])
      else if str_eqb s (bs "bwd"%bs) then Some (Some [-1; -2; -3])
      else if str_eqb s (bs "both"%bs) then Some (Some [0; 1; 2; -1; -2; -3])
      else None
  end.

Definition zmem (z : Z) (l : list Z) : bool := existsb (Z.eqb z) l.
(* len(set(rf) & {0,1,2}) > 0 and len(set(rf) & {-1,-2,-3}) > 0, cane.py:228-230 *)
Definition has_fwd (l : list Z) : bool := existsb (fun z => zmem z [0; 1; 2]) l.
Definition has_bwd (l : list Z) : bool := existsb (fun z => zmem z [-1; -2; -3]) l.

(* ---------------------------------------------------------------- pattern, cane.py:212-222 *)
Definition expand_sub (sub : str) : str :=
  if str_eqb sub (bs "start"%bs) then bs "AUG|ATG"%bs
  else if str_eqb sub (bs "stop"%bs) then bs "UAG|UAA|UGA|TAG|TAA|TGA"%bs
  else sub.

(* IStar g: the character class "[gap]*" over the characters of the gap string g *)
Inductive item := ILit (c : byte) | IDot | IStar (g : str).

(* str.isalpha restricted to ASCII (the domain predicate excludes everything else) *)
Definition is_alpha (c : byte) : bool :=
  let n := Byte.to_N c in (((65 <=? n) && (n <=? 90)) || ((97 <=? n) && (n <=? 122)))%N.
Definition cdot : byte := "."%byte.
Definition cbar : byte := "|"%byte.
Definition cnl : byte := "010"%byte.
Definition wordch (c : byte) : bool := is_alpha c || byte_eqb c cdot.

Fixpoint split_on (c : byte) (s : str) : list str :=
  match s with
  | [] => [[]]
  | x :: r =>
      if byte_eqb x c then [] :: split_on c r
      else match split_on c r with
           | [] => [[x]]
           | w :: ws => (x :: w) :: ws
           end
  end.

Definition item_of (c : byte) : item := if byte_eqb c cdot then IDot else ILit c.
(* cane.py:218-222: "[gap]*" is inserted after a letter or '.' that is followed by a letter or '.';
   inside the domain that is exactly between two consecutive characters of one word *)
Fixpoint compile_word (gap : option str) (w : str) : list item :=
  match w with
  | [] => []
  | [c] => [item_of c]
  | c :: r => match gap with
              | Some g => item_of c :: IStar g :: compile_word gap r
              | None => item_of c :: compile_word gap r
              end
  end.
Definition compile (gap : option str) (sub : str) : list (list item) :=
  map (compile_word gap) (split_on cbar sub).

(* backtracking matcher: number of characters consumed by the first successful path (CPython sre order:
   a greedy star first tries to take one more character, then falls back to the continuation [k]) *)
Fixpoint star_aux (g : str) (k : str -> option nat) (s : str) : option nat :=
  match s with
  | x :: s' =>
      if has x g then
        match star_aux g k s' with
        | Some n => Some (S n)
        | None => k s
        end
      else k s
  | [] => k []
  end.
Fixpoint m_items (its : list item) (s : str) {struct its} : option nat :=
  match its with
  | [] => Some 0%nat
  | ILit c :: r =>
      match s with
      | x :: s' => if byte_eqb x c then option_map S (m_items r s') else None
      | [] => None
      end
  | IDot :: r =>
      match s with
      | x :: s' => if byte_eqb x cnl then None else option_map S (m_items r s')
      | [] => None
      end
  | IStar g :: r => star_aux g (m_items r) s
  end.

(* ordered alternation *)
Fixpoint m_alts (alts : list (list item)) (s : str) : option nat :=
  match alts with
  | [] => None
  | a :: r => match m_items a s with Some n => Some n | None => m_alts r s end
  end.

(* re.finditer: leftmost, non-overlapping; [skip] characters of an earlier match remain to be stepped over.
   All words are non-empty inside the domain, so a match has positive length. *)
Fixpoint finditer (alts : list (list item)) (s : str) (pos skip : nat) : list (nat * nat) :=
  match s with
  | [] => []
  | _ :: s' =>
      match skip with
      | S k => finditer alts s' (S pos) k
      | O =>
          match m_alts alts s with
          | Some (S n) => (pos, (pos + S n)%nat) :: finditer alts s' (S pos) n
          | _ => finditer alts s' (S pos) 0%nat
          end
      end
  end.

(* ---------------------------------------------------------------- gaps and frames, cane.py:223-226, 234 *)
(* [i for i, nt in enumerate(str(seq)) if nt in gap if i >= start] *)
Fixpoint gap_positions (g : str) (s : str) (pos start : Z) : list Z :=
  match s with
  | [] => []
  | x :: r => (if has x g && (start <=? pos) then [pos] else []) ++ gap_positions g r (pos + 1) start
  end.
(* cane.py:195 "from bisect import bisect_left as bisect"; on an ascending list: the number of leading elements < i *)
Fixpoint bisect (l : list Z) (i : Z) : Z :=
  match l with
  | [] => 0
  | g :: r => if g <? i then 1 + bisect r i else 0
  end.
Definition frame_of (gaps : option (list Z)) (start i : Z) : Z :=
  (i - start - match gaps with Some l => bisect l i | None => 0 end) mod 3.

Definition slice (b e : nat) (s : str) : str := firstn (e - b) (skipn b s).

(* a BioMatch as observed: span() (already mirrored for rf < 0), group(), rf *)
Record bm := mk_bm { bm_b : Z; bm_e : Z; bm_group : str; bm_rf : option Z }.

(* matches of the pattern at columns >= start, cane.py:232-233 / 246-247 *)
Definition raw_pass (alts : list (list item)) (s : str) (start : Z) : list (nat * nat) :=
  filter (fun be => start <=? Z.of_nat (fst be)) (finditer alts s 0 0).

(* forward loop body, cane.py:233-241 *)
Definition fwd_one (s : str) (start : Z) (gaps : option (list Z)) (rf : option (list Z)) (be : nat * nat) : option bm :=
  let (b, e) := be in
  match rf with
  | None => Some (mk_bm (Z.of_nat b) (Z.of_nat e) (slice b e s) None)
  | Some l =>
      let t := frame_of gaps start (Z.of_nat b) in
      if zmem t l then Some (mk_bm (Z.of_nat b) (Z.of_nat e) (slice b e s) (Some t)) else None
  end.
(* backward loop body, cane.py:247-255, with BioMatch.span mirroring cane.py:137-141; [r] is the reverse complement *)
Definition bwd_one (r : str) (start : Z) (gaps : option (list Z)) (l : list Z) (be : nat * nat) : option bm :=
  let (b, e) := be in
  let t := frame_of gaps start (Z.of_nat b) in
  let f := -1 * t - 1 in
  let L := Z.of_nat (length r) in
  if zmem f l then Some (mk_bm (L - Z.of_nat e) (L - Z.of_nat b) (slice b e r) (Some f)) else None.

Fixpoint filter_map {A B} (f : A -> option B) (l : list A) : list B :=
  match l with
  | [] => []
  | x :: r => match f x with Some y => y :: filter_map f r | None => filter_map f r end
  end.
(* the loop with "return m" at the first hit (matchall=False) *)
Fixpoint first_some {A B} (f : A -> option B) (l : list A) : option B :=
  match l with
  | [] => None
  | x :: r => match f x with Some y => Some y | None => first_some f r end
  end.

Definition fwd_gaps (gap : option str) (rfn : option (list Z)) (s : str) (start : Z) : option (list Z) :=
  match gap, rfn with
  | Some g, Some _ => Some (gap_positions g s 0 start)       (* cane.py:223-226 *)
  | _, _ => None
  end.
Definition bwd_gaps (gap : option str) (r : str) (start : Z) : option (list Z) :=
  option_map (fun g => gap_positions g r 0 start) gap.       (* cane.py:244-245 *)

Definition runs_fwd (rfn : option (list Z)) : bool :=
  match rfn with None => true | Some l => has_fwd l end.     (* cane.py:231 *)
Definition runs_bwd (rfn : option (list Z)) : bool :=
  match rfn with None => false | Some l => has_bwd l end.    (* cane.py:242 *)

Definition fwd_list (alts : list (list item)) (s : str) (start : Z) (gap : option str) (rfn : option (list Z)) : list bm :=
  if runs_fwd rfn then filter_map (fwd_one s start (fwd_gaps gap rfn s start) rfn) (raw_pass alts s start) else [].
Definition bwd_list (alts : list (list item)) (s : str) (start : Z) (gap : option str) (rfn : option (list Z)) : list bm :=
  match rfn with
  | Some l => if has_bwd l then let r := rc s in filter_map (bwd_one r start (bwd_gaps gap r start) l) (raw_pass alts r start) else []
  | None => []
  end.

(* match(..., matchall=True); None = AssertionError *)
Definition matchall (s sub : str) (rf : rfarg) (start : Z) (gap : option str) : option (list bm) :=
  match norm_rf rf with
  | None => None
  | Some rfn =>
      let alts := compile gap (expand_sub sub) in
      Some (fwd_list alts s start gap rfn ++ bwd_list alts s start gap rfn)
  end.

(* match(..., matchall=False): early return of the first hit; None = AssertionError, Some None = returns None *)
Definition match_first (s sub : str) (rf : rfarg) (start : Z) (gap : option str) : option (option bm) :=
  match norm_rf rf with
  | None => None
  | Some rfn =>
      let alts := compile gap (expand_sub sub) in
      let f := if runs_fwd rfn then first_some (fwd_one s start (fwd_gaps gap rfn s start) rfn) (raw_pass alts s start) else None in
      match f with
      | Some m => Some (Some m)
      | None =>
          match rfn with
          | Some l => if has_bwd l then let r := rc s in Some (first_some (bwd_one r start (bwd_gaps gap r start) l) (raw_pass alts r start)) else Some None
          | None => Some None
          end
      end
  end.

(* BioBasket.matchall: extend per sequence; BioBasket.match: append per sequence (seq.py:1019-1038) *)
Fixpoint basket_matchall (seqs : list str) (sub : str) (rf : rfarg) (start : Z) (gap : option str) : option (list bm) :=
  match seqs with
  | [] => Some []
  | s :: r =>
      match matchall s sub rf start gap with
      | None => None
      | Some l => option_map (app l) (basket_matchall r sub rf start gap)
      end
  end.
Fixpoint basket_match (seqs : list str) (sub : str) (rf : rfarg) (start : Z) (gap : option str) : option (list (option bm)) :=
  match seqs with
  | [] => Some []
  | s :: r =>
      match match_first s sub rf start gap with
      | None => None
      | Some m => option_map (cons m) (basket_match r sub rf start gap)
      end
  end.

(* ---------------------------------------------------------------- domain *)
(* sequences: printable ASCII without lower-case letters (the BioSeq constructor upper-cases its data, seq.py:213) *)
Definition seq_char_ok (c : byte) : bool :=
  let n := Byte.to_N c in ((32 <=? n) && (n <=? 126) && negb ((97 <=? n) && (n <=? 122)))%N.
Definition wf_seq (s : str) : bool := forallb seq_char_ok s.
Definition nonempty (w : str) : bool := match w with [] => false | _ => true end.
Definition wf_sub (sub : str) : bool :=
  let e := expand_sub sub in
  forallb (fun c => wordch c || byte_eqb c cbar) e && forallb nonempty (split_on cbar e).
(* gap: None or a non-empty string over the gap symbols '-', '.', '~' in which '-' is the first or the last character, so that
   "[gap]*" is the class of exactly these characters (no range, no '^', ']' or backslash) and "nt in gap" is membership *)
Definition gap_char_ok (c : byte) : bool := has c (bs "-.~"%bs).
Definition wf_gap (gap : option str) : bool :=
  match gap with
  | None => true
  | Some g => match g with
              | [] => false
              | _ :: r => forallb gap_char_ok g && negb (has "-"%byte (removelast r))
              end
  end.
Definition wf_rf (rf : rfarg) : bool := match norm_rf rf with Some _ => true | None => false end.

Definition wf_C13 (seqs : list str) (sub : str) (rf : rfarg) (start : Z) (gap : option str) : bool :=
  forallb wf_seq seqs && wf_sub sub && wf_rf rf && (0 <=? start) && wf_gap gap.


(* ---------------------------------------------------------------- specification side (used in the theorem statements) *)
(* declarative meaning of a compiled word: which strings it matches *)
Inductive irel : list item -> str -> Prop :=
| irel_nil : irel [] []
| irel_lit c r t : irel r t -> irel (ILit c :: r) (c :: t)
| irel_dot x r t : x <> cnl -> irel r t -> irel (IDot :: r) (x :: t)
| irel_star g gs r t : forallb (fun x => has x g) gs = true -> irel r t -> irel (IStar g :: r) (gs ++ t).

Definition is_gap (gap : option str) (c : byte) : bool :=
  match gap with Some g => has c g | None => false end.
(* number of residues (non-gap characters) of a string *)
Definition residues (gap : option str) (t : str) : Z :=
  Z.of_nat (length (filter (fun c => negb (is_gap gap c)) t)).
Definition degap (g : str) (t : str) : str := filter (fun c => negb (has c g)) t.
(* spans are ascending and disjoint *)
Fixpoint chain (lo : nat) (l : list (nat * nat)) : Prop :=
  match l with
  | [] => True
  | (b, e) :: r => (lo <= b)%nat /\ (b < e)%nat /\ chain e r
  end.
(* per-character complement used by BioSeq.complement for a sequence with / without U (seq.py:493-500) *)
Definition cmap (u : bool) (c : byte) : byte :=
  if u then (if byte_eqb (trans1 (if byte_eqb c cU then cT else c)) cT then cU else trans1 (if byte_eqb c cU then cT else c))
  else trans1 c.
Definition words (sub : str) : list str := split_on cbar (expand_sub sub).
(* the string t is an occurrence of one of the words of the pattern (gap characters tolerated between its letters when gap is set) *)
Definition word_match (gap : option str) (sub t : str) : Prop :=
  exists w, In w (words sub) /\ irel (compile_word gap w) t.

(* span of a reported match as columns; for backward matches the columns on the reverse complement *)
Definition span_of (m : bm) : nat * nat := (Z.to_nat (bm_b m), Z.to_nat (bm_e m)).
Definition rc_span_of (L : nat) (m : bm) : nat * nat := ((L - Z.to_nat (bm_e m))%nat, (L - Z.to_nat (bm_b m))%nat).
(* one pattern character against one sequence character (no gap tolerance) *)
Definition cmatch (c x : byte) : bool := if byte_eqb c cdot then negb (byte_eqb x cnl) else byte_eqb x c.

(* what the property says about one reported forward match *)
Definition fwd_spec (s sub : str) (rfn : option (list Z)) (start : Z) (gap : option str) (m : bm) : Prop :=
  exists b e : nat, (b < e <= length s)%nat /\ start <= Z.of_nat b /\
    bm_b m = Z.of_nat b /\ bm_e m = Z.of_nat e /\ bm_group m = slice b e s /\ word_match gap sub (bm_group m) /\
    match rfn with
    | None => bm_rf m = None
    | Some l => exists t, bm_rf m = Some t /\ In t l /\ 0 <= t < 3 /\
        t = residues gap (slice (Z.to_nat start) b s) mod 3
    end.
(* ... and about one reported backward match; b, e are columns of the reverse complement, the span is mirrored *)
Definition bwd_spec (s sub : str) (l : list Z) (start : Z) (gap : option str) (m : bm) : Prop :=
  let r := rc s in
  let L := length s in
  exists b e : nat, (b < e <= L)%nat /\ start <= Z.of_nat b /\
    bm_b m = Z.of_nat (L - e) /\ bm_e m = Z.of_nat (L - b) /\ bm_group m = slice b e r /\
    bm_group m = rev (map (cmap (has cU s)) (slice (L - e) (L - b) s)) /\
    word_match gap sub (bm_group m) /\
    exists f, bm_rf m = Some f /\ In f l /\ -3 <= f <= -1 /\
      - f - 1 = residues gap (slice (Z.to_nat start) b r) mod 3.

(* ---------------------------------------------------------------- harness entry point *)
Definition show_bm (m : bm) : val :=
  VL [VI (bm_b m); VI (bm_e m); VS (bm_group m); VOpt VI (bm_rf m)].
Definition assertion_error : val := VE (bs "AssertionError"%bs).

(* op 0: BioSeq.matchall, 1: BioSeq.match, 2: BioBasket.matchall, 3: BioBasket.match *)
Definition run_C13 (op : N) (seqs : list str) (sub : str) (rf : rfarg) (start : Z) (gap : option str) : val :=
  let s := hd [] seqs in
  let res :=
    match op with
    | 0%N => match matchall s sub rf start gap with Some l => VL (map show_bm l) | None => assertion_error end
    | 1%N => match match_first s sub rf start gap with Some m => VOpt show_bm m | None => assertion_error end
    | 2%N => match basket_matchall seqs sub rf start gap with Some l => VL (map show_bm l) | None => assertion_error end
    | _ => match basket_match seqs sub rf start gap with Some l => VL (map (VOpt show_bm) l) | None => assertion_error end
    end in
  VL [VB (wf_C13 seqs sub rf start gap); res].

(* histories (state independence): the model is pure, so a history of calls is the list of the models of its calls;
   in the domain iff every call is *)
Definition hist_join (l : list val) : val :=
  VL [VB (forallb (fun v => match v with VL [VB true; _] => true | _ => false end) l);
      VL (map (fun v => match v with VL [_; r] => r | _ => VNone end) l)].
