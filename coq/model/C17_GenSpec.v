(* C17: specification-side definitions used in the statements about the model of convert.py (C17_Convert). No proofs. *)
From Coq Require Import List ZArith NArith Bool.
From Coq.Strings Require Import Byte.
Import ListNotations.
From SV Require Import Text C17_Convert.

(* value of a codon over the alphabet as seen from the 64 base entries alone: the common amino acid of its expansions *)
Definition amb_val (codes : list (byte * str)) (base : list (str * byte)) (c : str) : option byte :=
  match vals_of base (expand3 codes c) with inr vs => allsame vs | inl _ => None end.
(* the entries loop 3 adds to tt *)
Definition added (codes : list (byte * str)) (base : list (str * byte)) (cs : list str) : list (str * byte) :=
  flat_map (fun c => if memkey c base then []
                     else match amb_val codes base c with Some a => [(c, a)] | None => [] end) cs.
(* every expansion of every codon of cs is one of [keys] *)
Definition exp_in (codes : list (byte * str)) (keys : list str) (cs : list str) : bool :=
  forallb (fun c => forallb (fun e => memS e keys) (expand3 codes c)) cs.
Fixpoint nodup_s (l : list str) : bool := match l with [] => true | x :: r => negb (memS x r) && nodup_s r end.
(* side condition on the alphabet (independent of the table): expansions are base codons, code letters are distinct *)
Definition conv_codes_ok (codes : list (byte * str)) (ac : str) : bool :=
  exp_in codes base_codons (product3 ac) && nodup_s (product3 ac).
(* ttinv[a] ([] when a is no key) *)
Fixpoint row (a : byte) (inv : list (byte * list str)) : list str :=
  match inv with [] => [] | (a', cs) :: r => if byte_eqb a' a then cs else row a r end.
