(* C06 model: feature-addressed subsequences and coordinate tracking.
   Models BioSeq._getitem / _slice_locs / rc(update_fts) (sugar/core/seq.py:347-355, 407-483),
   FeatureList.get / slice / rc, Feature.rc, LocationTuple.__new__ / _reverse, Location.__init__ / _reverse,
   Defect._reverse, Strand._reverse (sugar/core/fts.py:52-71, 84-96, 151-156, 159-190, 246-247, 390-400, 632-646, 733-781).
   rc / complement of residues come from the C05 model (which uses the regenerated tables); the Defect and Strand
   values come from the regenerated G_flags.  No proofs here. *)
From Coq Require Import List ZArith NArith Bool.
From Coq.Strings Require Import Byte.
Import ListNotations.
From SV Require Import Text G_codes G_flags C05_Model.
Local Open Scope Z_scope.

(* ---- exceptions ---- *)
Inductive res (A : Type) := Ok (a : A) | Err (e : str).
Arguments Ok {A} a.
Arguments Err {A} e.
Definition bind {A B} (r : res A) (f : A -> res B) : res B :=
  match r with Ok a => f a | Err e => Err e end.
Definition E_Value : str := bs "ValueError"%bs.
Definition E_Index : str := bs "IndexError"%bs.
Definition E_Type : str := bs "TypeError"%bs.

(* ---- objects (DESIGN 5.4; metadata other than the type is not observed) ---- *)
Record loc := mkLoc { lstart : Z; lstop : Z; lstrand : byte; ldefect : N }.
Record feature := mkFt { ftype : option str; flocs : list loc }.

(* ---- Python str pieces ---- *)
(* str.upper / str.lower on ASCII (BioSeq.__init__ upper-cases, seq.py:213; FeatureList.get lower-cases, fts.py:643) *)
Definition upper1 (c : byte) : byte :=
  let n := Byte.to_N c in
  if (N.leb 97 n && N.leb n 122)%bool then match Byte.of_N (n - 32) with Some b => b | None => c end else c.
Definition lower1 (c : byte) : byte :=
  let n := Byte.to_N c in
  if (N.leb 65 n && N.leb n 90)%bool then match Byte.of_N (n + 32) with Some b => b | None => c end else c.
Definition upper (s : str) : str := map upper1 s.
Definition lower (s : str) : str := map lower1 s.
Definition is_ascii (c : byte) : bool := N.ltb (Byte.to_N c) 128.

(* residues of the half-open interval [x, y) *)
Definition sub {A} (s : list A) (x y : nat) : list A := firstn (y - x) (skipn x s).
(* slice.indices(len) for step 1: clamp one bound (CPython PySlice_AdjustIndices) *)
Definition clampZ (len : Z) (dflt : Z) (o : option Z) : Z :=
  match o with
  | None => dflt
  | Some i => if i <? 0 then Z.max (i + len) 0 else Z.min i len
  end.
Definition slice_bounds (len : Z) (a b : option Z) : Z * Z := (clampZ len 0 a, clampZ len len b).
(* s[a:b] *)
Definition py_slice {A} (s : list A) (a b : option Z) : list A :=
  let '(lo, hi) := slice_bounds (Z.of_nat (length s)) a b in
  sub s (Z.to_nat lo) (Z.to_nat hi).
(* n * str *)
Fixpoint repeat_str (n : nat) (f : str) : str := match n with O => [] | S k => f ++ repeat_str k f end.

(* ---- Strand / Defect (fts.py:52-71) ---- *)
Definition valid_strand (c : byte) : bool :=
  byte_eqb c S_FORWARD || byte_eqb c S_REVERSE || byte_eqb c S_NONE || byte_eqb c S_UNKNOWN.
(* Strand._reverse, fts.py:70-71 *)
Definition strand_reverse (c : byte) : byte :=
  if byte_eqb c S_FORWARD then S_REVERSE else if byte_eqb c S_REVERSE then S_FORWARD else c.
Fixpoint popcount_pos (p : positive) : nat :=
  match p with xH => 1 | xO q => popcount_pos q | xI q => S (popcount_pos q) end.
Definition popcount (n : N) : nat := match n with N0 => 0 | Npos p => popcount_pos p end.
(* one `if len((A | B) & self) == 1: defect ^= A | B`, fts.py:54-59 (tests read self, xors accumulate) *)
Definition swap_pair (a b self d : N) : N :=
  if Nat.eqb (popcount (N.land (N.lor a b) self)) 1 then N.lxor d (N.lor a b) else d.
(* Defect._reverse, fts.py:52-60 *)
Definition defect_reverse (d : N) : N :=
  swap_pair D_UNKNOWN_LEFT D_UNKNOWN_RIGHT d
    (swap_pair D_BEYOND_LEFT D_BEYOND_RIGHT d
       (swap_pair D_MISS_LEFT D_MISS_RIGHT d d)).

(* ---- Location / LocationTuple ---- *)
(* Location.__init__, fts.py:84-96 *)
Definition mk_loc (start stop : Z) (strand : byte) (defect : N) : res loc :=
  if stop <=? start then Err E_Value
  else if valid_strand strand then Ok (mkLoc start stop strand defect) else Err E_Value.
(* sorted(..., key) is stable: x is placed before the first element that is not strictly smaller *)
Fixpoint insert_by (lt : loc -> loc -> bool) (x : loc) (l : list loc) : list loc :=
  match l with
  | [] => [x]
  | y :: t => if lt y x then y :: insert_by lt x t else x :: y :: t
  end.
Definition sort_by (lt : loc -> loc -> bool) (l : list loc) : list loc := fold_right (insert_by lt) [] l.
Definition lt_start (a b : loc) : bool := lstart a <? lstart b.      (* key=loc.start *)
Definition gt_stop (a b : loc) : bool := lstop b <? lstop a.         (* key=loc.stop, reverse=True *)
Definition is_minus (l : loc) : bool := byte_eqb (lstrand l) S_REVERSE.
Definition sort_locs (ls : list loc) : list loc :=
  match ls with
  | [] => []
  | l0 :: _ => if is_minus l0 then sort_by gt_stop ls else sort_by lt_start ls
  end.
Definition same_strand (ls : list loc) : bool :=
  match ls with [] => true | l0 :: r => forallb (fun l => byte_eqb (lstrand l) (lstrand l0)) r end.
(* LocationTuple.__new__, fts.py:163-190: at least one location, one strand value, 5'->3' order *)
Definition mk_loctuple (ls : list loc) : res (list loc) :=
  match ls with
  | [] => Err E_Value
  | _ => if same_strand ls then Ok (sort_locs ls) else Err E_Value
  end.
(* LocationTuple.range, fts.py:192-204 *)
Definition range_start (ls : list loc) : Z :=
  match ls with [] => 0 | l0 :: r => fold_left (fun m l => Z.min m (lstart l)) r (lstart l0) end.
Definition range_stop (ls : list loc) : Z :=
  match ls with [] => 0 | l0 :: r => fold_left (fun m l => Z.max m (lstop l)) r (lstop l0) end.

(* Location._reverse, fts.py:151-156 (start < stop is preserved, the constructor cannot raise) *)
Definition loc_reverse (seqlen : Z) (l : loc) : loc :=
  mkLoc (seqlen - lstop l) (seqlen - lstart l) (strand_reverse (lstrand l)) (defect_reverse (ldefect l)).
(* Feature.rc, fts.py:390-400: LocationTuple._reverse builds a new LocationTuple (re-sorted); the locs setter
   wraps it in LocationTuple once more, which re-sorts an already sorted tuple and is not repeated here *)
Definition feature_rc (seqlen : Z) (f : feature) : feature :=
  mkFt (ftype f) (sort_locs (map (loc_reverse seqlen) (flocs f))).
(* FeatureList.rc, fts.py:771-781 *)
Definition fts_rc (seqlen : Z) (fts : list feature) : list feature := map (feature_rc seqlen) fts.

(* ---- FeatureList.slice, fts.py:733-768 (start/stop are never None on the paths modelled here) ---- *)
(* `max(loc.start, start) < min(loc.stop, stop)`, fts.py:749: the intersection with the window is non-empty *)
Definition overlaps (start stop : Z) (l : loc) : bool := Z.max (lstart l) start <? Z.min (lstop l) stop.
Definition cut_defect (start stop : Z) (l : loc) : N :=
  let d := ldefect l in
  let d := if lstart l <? start then N.lor d D_MISS_LEFT else d in
  if stop <? lstop l then N.lor d D_MISS_RIGHT else d.
Definition cut_loc (start stop rel : Z) (l : loc) : res loc :=
  mk_loc (Z.max start (lstart l) - rel) (Z.min stop (lstop l) - rel) (lstrand l) (cut_defect start stop l).
Fixpoint cut_locs (start stop rel : Z) (ls : list loc) : res (list loc) :=
  match ls with
  | [] => Ok []
  | l :: r =>
      if overlaps start stop l then
        bind (cut_loc start stop rel l) (fun l' => bind (cut_locs start stop rel r) (fun r' => Ok (l' :: r')))
      else cut_locs start stop rel r
  end.
Fixpoint fts_slice (start stop rel : Z) (fts : list feature) : res (list feature) :=
  match fts with
  | [] => Ok []
  | f :: r =>
      bind (cut_locs start stop rel (flocs f)) (fun ls =>
        match ls with
        | [] => fts_slice start stop rel r
        | _ => bind (mk_loctuple ls) (fun ls' =>
                 bind (fts_slice start stop rel r) (fun r' => Ok (mkFt (ftype f) ls' :: r')))
        end)
  end.

(* FeatureList.get(type) for a str argument, fts.py:632-646 *)
Fixpoint fts_get (name : str) (fts : list feature) : option feature :=
  match fts with
  | [] => None
  | f :: r =>
      match ftype f with
      | None => fts_get name r
      | Some t => if str_eqb (lower t) (lower name) then Some f else fts_get name r
      end
  end.

(* ---- BioSeq ---- *)
Record bioseq := mkSeq { sdata : str; sfts : list feature }.
(* BioSeq.__init__, seq.py:211-213 *)
Definition new_seq (data : str) (fts : list feature) : bioseq := mkSeq (upper data) fts.

(* residues addressed by one location: self.sl()[loc.start:loc.stop], rc() on the minus strand (seq.py:412-414) *)
Definition piece (s : str) (l : loc) : str :=
  let p := py_slice s (Some (lstart l)) (Some (lstop l)) in
  if is_minus l then rc p else p.
(* filler between prev_loc and loc, seq.py:415-421 *)
Definition fill_num (prev l : loc) : Z :=
  if is_minus l then lstart prev - lstop l else lstart l - lstop prev.
(* the loop of _slice_locs, seq.py:411-425: the list sub_seqs *)
Fixpoint join_locs (s : str) (filler splitter : option str) (prev : option loc) (ls : list loc) : list str :=
  match ls with
  | [] => []
  | l :: r =>
      (match filler, prev with
       | Some f, Some p => if 0 <? fill_num p l then [repeat_str (Z.to_nat (fill_num p l)) f] else []
       | _, _ => []
       end) ++
      (match splitter, prev with Some sp, Some _ => [sp] | _, _ => [] end) ++
      [piece s l] ++ join_locs s filler splitter (Some l) r
  end.
(* fts.extend(self.fts.slice(loc.start, loc.stop, rel=start)) for loc in locs, seq.py:432-433 *)
Fixpoint slice_each (fts : list feature) (rel : Z) (ls : list loc) : res (list feature) :=
  match ls with
  | [] => Ok []
  | l :: r => bind (fts_slice (lstart l) (lstop l) rel fts) (fun a => bind (slice_each fts rel r) (fun b => Ok (a ++ b)))
  end.
(* BioSeq._slice_locs, seq.py:407-437 (gap=None) *)
Definition slice_locs (q : bioseq) (ls : list loc) (splitter filler : option str) (update_fts : bool) : res bioseq :=
  let data := upper (concat (join_locs (sdata q) filler splitter None ls)) in     (* BioSeq(''.join(sub_seqs)) *)
  if update_fts then
    if (1 <? Z.of_nat (length ls)) then Err E_Value
    else
      let start := range_start ls in
      let stop := range_stop ls in
      bind (slice_each (sfts q) start ls) (fun fts =>
        let fts := match ls with
                   | l0 :: _ => if is_minus l0 then fts_rc (stop - start) fts else fts
                   | [] => fts
                   end in
        Ok (mkSeq data fts))
  else Ok (mkSeq data (sfts q)).                                                   (* meta=self.meta.copy() *)

(* the index objects of BioSeq.__getitem__ *)
Inductive window :=
| WInt (i : Z)
| WSlice (a b step : option Z)
| WLoc (l : loc)                 (* a bare Location *)
| WFeat (ls : list loc)          (* a Feature: its LocationTuple *)
| WType (name : str)             (* a feature-type name *)
| WOwn (idx : nat)               (* the driver's seq.fts[idx % len(seq.fts)]: a feature of the sequence itself *)
| WBad.                          (* any other object (the driver passes a float): TypeError('Index not supported'), seq.py:462 *)

(* BioSeq._getitem, seq.py:439-483 (inplace=False, gap=None; kw = splitter / filler) *)
Definition getitem (q : bioseq) (w : window) (update_fts : bool) (splitter filler : option str) : res bioseq :=
  let len := Z.of_nat (length (sdata q)) in
  match w with
  | WInt i =>
      let k := if i <? 0 then i + len else i in
      if (k <? 0) || (len <=? k) then Err E_Index                                  (* self.data[index] *)
      else
        let data := upper (sub (sdata q) (Z.to_nat k) (Z.to_nat (k + 1))) in
        if update_fts then
          bind (fts_slice k (k + 1) k (sfts q)) (fun fts => Ok (mkSeq data fts))
        else Ok (mkSeq data (sfts q))
  | WSlice a b step =>
      match step with
      | Some 0 => Err E_Value                                                      (* slice step cannot be zero *)
      | _ =>
        let data := upper (py_slice (sdata q) a b) in     (* only used for step in (None, 1), see wf_C06 *)
        if update_fts then
          match step with
          | None | Some 1 =>
              let '(start, stop) := slice_bounds len a b in
              bind (fts_slice start stop start (sfts q)) (fun fts => Ok (mkSeq data fts))
          | _ => Err E_Value
          end
        else Ok (mkSeq data (sfts q))
      end
  | WLoc l => slice_locs q [l] splitter filler update_fts                          (* LocationTuple([index]) *)
  | WFeat ls => slice_locs q ls splitter filler update_fts
  | WType name =>
      match fts_get name (sfts q) with
      | None => Err E_Value
      | Some f => slice_locs q (flocs f) splitter filler update_fts
      end
  | WOwn idx =>
      match nth_error (sfts q) (Nat.modulo idx (length (sfts q))) with
      | None => Err E_Value
      | Some f => slice_locs q (flocs f) splitter filler update_fts
      end
  | WBad => Err E_Type
  end.

(* BioSeq.rc(update_fts), seq.py:347-355 *)
Definition seq_rc (q : bioseq) (update_fts : bool) : bioseq :=
  let data := rc (sdata q) in
  mkSeq data (if update_fts then fts_rc (Z.of_nat (length data)) (sfts q) else sfts q).

(* ---- the gap option: gap-aware windows count residues, gap columns are skipped ---- *)
(* nogaps = [i for i, nt in enumerate(self.data) if nt not in gap], seq.py:466 *)
Fixpoint nogaps_from (k : Z) (gap s : str) : list Z :=
  match s with
  | [] => []
  | c :: r => if has c gap then nogaps_from (k + 1) gap r else k :: nogaps_from (k + 1) gap r
  end.
Definition nogaps (gap s : str) : list Z := nogaps_from 0 gap s.
(* adj(i), seq.py:467-473: residue numbering -> column numbering for one slice bound *)
Definition adj (gap s : str) (o : option Z) : option Z :=
  match o with
  | None => None
  | Some i =>
      let ng := nogaps gap s in
      let n := Z.of_nat (length ng) in
      let i := if i <? 0 then Z.max (i + n) 0 else i in
      Some (if i <? n then nth (Z.to_nat i) ng 0 else Z.of_nat (length s))
  end.
(* self.sl(gap=gap)[a:b] for step None *)
Definition gslice (gap : option str) (s : str) (a b : option Z) : str :=
  match gap with
  | None => py_slice s a b
  | Some g => py_slice s (adj g s a) (adj g s b)
  end.
(* seq.py:412-414 with the gap option forwarded *)
Definition gpiece (gap : option str) (s : str) (l : loc) : str :=
  let p := gslice gap s (Some (lstart l)) (Some (lstop l)) in
  if is_minus l then rc p else p.
Fixpoint join_locs_g (gap : option str) (s : str) (filler splitter : option str) (prev : option loc) (ls : list loc)
  : list str :=
  match ls with
  | [] => []
  | l :: r =>
      (match filler, prev with
       | Some f, Some p => if 0 <? fill_num p l then [repeat_str (Z.to_nat (fill_num p l)) f] else []
       | _, _ => []
       end) ++
      (match splitter, prev with Some sp, Some _ => [sp] | _, _ => [] end) ++
      [gpiece gap s l] ++ join_locs_g gap s filler splitter (Some l) r
  end.
(* BioSeq._slice_locs, seq.py:407-437, all options; [slice_locs] above is the instance gap=None (lemma getitem_g_None) *)
Definition slice_locs_g (gap : option str) (q : bioseq) (ls : list loc) (splitter filler : option str) (update_fts : bool)
  : res bioseq :=
  let data := upper (concat (join_locs_g gap (sdata q) filler splitter None ls)) in
  if update_fts then
    if (1 <? Z.of_nat (length ls)) then Err E_Value
    else
      let start := range_start ls in
      let stop := range_stop ls in
      bind (slice_each (sfts q) start ls) (fun fts =>
        let fts := match ls with
                   | l0 :: _ => if is_minus l0 then fts_rc (stop - start) fts else fts
                   | [] => fts
                   end in
        Ok (mkSeq data fts))
  else Ok (mkSeq data (sfts q)).
(* BioSeq._getitem, seq.py:439-483, all options but inplace (handled by the caller: self.data = subseq.data);
   [getitem] above is the instance gap=None *)
Definition getitem_g (q : bioseq) (w : window) (update_fts : bool) (splitter filler gap : option str) : res bioseq :=
  let len := Z.of_nat (length (sdata q)) in
  match w with
  | WInt i =>
      match gap with
      | None => getitem q w update_fts splitter filler
      | Some g =>
          let ng := nogaps g (sdata q) in
          let n := Z.of_nat (length ng) in
          let r := if i <? 0 then i + n else i in
          if (r <? 0) || (n <=? r) then Err E_Index                                (* nogaps[index] *)
          else
            let k := nth (Z.to_nat r) ng 0 in
            let data := upper (sub (sdata q) (Z.to_nat k) (Z.to_nat (k + 1))) in
            if update_fts then
              bind (fts_slice k (k + 1) k (sfts q)) (fun fts => Ok (mkSeq data fts))
            else Ok (mkSeq data (sfts q))
      end
  | WSlice a b step =>
      match gap with
      | None => getitem q w update_fts splitter filler
      | Some g => getitem q (WSlice (adj g (sdata q) a) (adj g (sdata q) b) step) update_fts splitter filler
      end
  | WLoc l => slice_locs_g gap q [l] splitter filler update_fts
  | WFeat ls => slice_locs_g gap q ls splitter filler update_fts
  | WType name =>
      match fts_get name (sfts q) with
      | None => Err E_Value
      | Some f => slice_locs_g gap q (flocs f) splitter filler update_fts
      end
  | WOwn idx =>
      match nth_error (sfts q) (Nat.modulo idx (length (sfts q))) with
      | None => Err E_Value
      | Some f => slice_locs_g gap q (flocs f) splitter filler update_fts
      end
  | WBad => Err E_Type
  end.

(* ---- harness input: raw constructor arguments, as the driver passes them to Location / Feature / BioSeq ---- *)
Definition rawloc := (Z * Z * Z * Z)%type.      (* start, stop, ord(strand), defect *)
Definition rawft := (option str * list rawloc)%type.
Definition byte_of_Z (z : Z) : option byte := if (z <? 0) || (255 <? z) then None else Byte.of_N (Z.to_N z).
Definition build_loc (r : rawloc) : res loc :=
  let '(a, b, s, d) := r in
  match byte_of_Z s with
  | Some c => mk_loc a b c (Z.to_N d)
  | None => Err E_Value
  end.
Fixpoint build_locs (rs : list rawloc) : res (list loc) :=
  match rs with
  | [] => Ok []
  | r :: t => bind (build_loc r) (fun l => bind (build_locs t) (fun ls => Ok (l :: ls)))
  end.
(* Feature(type, locs=[Location(...), ...]) *)
Definition build_ft (r : rawft) : res feature :=
  bind (build_locs (snd r)) (fun ls => bind (mk_loctuple ls) (fun ls' => Ok (mkFt (fst r) ls'))).
Fixpoint build_fts (rs : list rawft) : res (list feature) :=
  match rs with
  | [] => Ok []
  | r :: t => bind (build_ft r) (fun f => bind (build_fts t) (fun fs => Ok (f :: fs)))
  end.

(* the other argument forms of Feature / LocationTuple.__new__ (fts.py:163-178), selected by the driver for the whole case:
   mode 0: locs=[Location, ...] (and, for defect-free single locations, start=/stop=/strand= keywords: same exceptions);
   mode 1: locs=[(start, stop, strand, defect), ...] tuples: a bad location raises TypeError (fts.py:176-178);
   mode 2: the first feature is given no location at all or both locs= and start=: ValueError (fts.py:166, 169) *)
Definition build_ft_m (mode : Z) (r : rawft) : res feature :=
  match build_locs (snd r) with
  | Err e => Err (if mode =? 1 then E_Type else e)
  | Ok ls => bind (mk_loctuple ls) (fun ls' => Ok (mkFt (fst r) ls'))
  end.
Fixpoint build_fts_m (mode : Z) (rs : list rawft) : res (list feature) :=
  match rs with
  | [] => Ok []
  | r :: t => if mode =? 2 then Err E_Value
              else bind (build_ft_m mode r) (fun f => bind (build_fts_m mode t) (fun fs => Ok (f :: fs)))
  end.

Inductive rawwin :=
| RInt (i : Z)
| RSlice (a b step : option Z)
| RLoc (l : rawloc)
| RFeat (ls : list rawloc)
| RType (name : str)
| ROwn (idx : Z)
| RBad
| RRc.

Definition build_win (w : rawwin) : res (option window) :=
  match w with
  | RInt i => Ok (Some (WInt i))
  | RSlice a b st => Ok (Some (WSlice a b st))
  | RLoc l => bind (build_loc l) (fun l' => Ok (Some (WLoc l')))
  | RFeat ls => bind (build_locs ls) (fun ls' => bind (mk_loctuple ls') (fun t => Ok (Some (WFeat t))))
  | RType n => Ok (Some (WType n))
  | ROwn i => Ok (Some (WOwn (Z.to_nat i)))
  | RBad => Ok (Some WBad)
  | RRc => Ok None
  end.

Definition run_op_m (mode : Z) (data : str) (fts : list rawft) (w : rawwin) (update_fts : bool) (splitter filler gap : option str)
  : res bioseq :=
  bind (build_fts_m mode fts) (fun fs =>
    let q := new_seq data fs in
    bind (build_win w) (fun ow =>
      match ow with
      | Some win => getitem_g q win update_fts splitter filler gap
      | None => Ok (seq_rc q update_fts)
      end)).
Definition run_op (data : str) (fts : list rawft) (w : rawwin) (update_fts : bool) (splitter filler gap : option str)
  : res bioseq :=
  bind (build_fts fts) (fun fs =>
    let q := new_seq data fs in
    bind (build_win w) (fun ow =>
      match ow with
      | Some win => getitem_g q win update_fts splitter filler gap
      | None => Ok (seq_rc q update_fts)
      end)).

(* ---- domain predicate ---- *)
Definition ascii_str (s : str) : bool := forallb is_ascii s.
Definition opt_ascii (o : option str) : bool := match o with Some s => ascii_str s | None => true end.
Definition loc_in (len : Z) (l : loc) : bool :=
  (0 <=? lstart l) && (lstart l <? lstop l) && (lstop l <=? len) && valid_strand (lstrand l) && N.ltb (ldefect l) 256.
Definition ft_in (len : Z) (f : feature) : bool :=
  negb (Nat.eqb (length (flocs f)) 0) && forallb (loc_in len) (flocs f) && same_strand (flocs f) && opt_ascii (ftype f).
Definition win_ok_len (len : Z) (fts : list feature) (w : window) (update_fts : bool) : bool :=
  match w with
  | WInt i => true
  | WSlice a b step =>
      (match step with None | Some 1 => true | _ => false end)
  | WLoc l => loc_in len l
  | WFeat ls => ft_in len (mkFt None ls) && negb (update_fts && (1 <? Z.of_nat (length ls)))
  | WType name =>
      ascii_str name &&
      match fts_get name fts with
      | Some f => negb (update_fts && (1 <? Z.of_nat (length (flocs f))))
      | None => true
      end
  | WOwn idx =>
      match nth_error fts (Nat.modulo idx (length fts)) with
      | Some f => negb (update_fts && (1 <? Z.of_nat (length (flocs f))))
      | None => true
      end
  | WBad => true
  end.
Definition win_ok (q : bioseq) (w : window) (update_fts : bool) : bool :=
  win_ok_len (Z.of_nat (length (sdata q))) (sfts q) w update_fts.
(* with gap= the coordinates of windows and features count residues: they must lie inside [0, number of residues] *)
Definition dlen (gap : option str) (s : str) : Z :=
  match gap with None => Z.of_nat (length s) | Some g => Z.of_nat (length (nogaps g s)) end.
(* NOTE gap x update_fts is under-specified in sugar: sl(gap=g, update_fts=True)[int | slice] cuts the features at the COLUMN
   bounds of the window (pinned by sugar's test_seqs_getitem_special), whereas sl(gap=g, update_fts=True)[Location | Feature | name]
   cuts them at the RESIDUE numbers of the window.  Both paths are modelled as they are and compared on every run; no theorem
   below speaks about this combination. *)
Definition win_ok_g (q : bioseq) (w : window) (update_fts : bool) (gap : option str) : bool :=
  win_ok_len (dlen gap (sdata q)) (sfts q) w update_fts.
(* a sequence object inside the domain: upper-case nucleotide alphabet, features inside the (residue) range *)
(* the nucleotide alphabet plus U: BioSeq.complement handles RNA by U->T, translate, T->U (C05 model [complement]) *)
Definition in_alpha_u (c : byte) : bool := in_alpha c || byte_eqb c cU.
Definition state_ok (gap : option str) (q : bioseq) : bool :=
  forallb in_alpha_u (sdata q) && forallb (ft_in (dlen gap (sdata q))) (sfts q).
Definition wf_C06 (data : str) (fts : list rawft) (w : rawwin) (update_fts : bool) (splitter filler gap : option str) : bool :=
  ascii_str data && forallb in_alpha (upper data) && opt_ascii splitter && opt_ascii filler && opt_ascii gap &&
  match build_fts fts, build_win w with
  | Ok fs, Ok ow =>
      let q := new_seq data fs in
      forallb (ft_in (dlen gap (sdata q))) fs &&
      match ow with Some win => win_ok_g q win update_fts gap | None => true end
  | _, _ => false
  end.

(* ---- output ---- *)
Definition show_loc (l : loc) : val := VL [VI (lstart l); VI (lstop l); VS [lstrand l]; VI (Z.of_N (ldefect l))].
Definition show_ft (f : feature) : val := VL [VOpt VS (ftype f); VL (map show_loc (flocs f))].
Definition show_seq (q : bioseq) : val := VL [VS (sdata q); VL (map show_ft (sfts q))].
Definition show_res (r : res bioseq) : val := match r with Ok q => show_seq q | Err e => VE e end.

(* the domain the harness decides with: wf_C06 (DNA, what the theorems are stated on) widened to RNA; the model functions are
   the same, only the alphabet test differs (theorem C06_wf_dna_in_rna: wf_C06 implies wf_C06u) *)
Definition wf_C06u (data : str) (fts : list rawft) (w : rawwin) (update_fts : bool) (splitter filler gap : option str) : bool :=
  ascii_str data && forallb in_alpha_u (upper data) && opt_ascii splitter && opt_ascii filler && opt_ascii gap &&
  match build_fts fts, build_win w with
  | Ok fs, Ok ow =>
      let q := new_seq data fs in
      forallb (ft_in (dlen gap (sdata q))) fs &&
      match ow with Some win => win_ok_g q win update_fts gap | None => true end
  | _, _ => false
  end.

Definition run_C06 (mode : Z) (data : str) (fts : list rawft) (w : rawwin) (update_fts : bool) (splitter filler gap : option str) : val :=
  VL [VB (wf_C06u data fts w update_fts splitter filler gap && negb (mode =? 2));
      show_res (run_op_m mode data fts w update_fts splitter filler gap)].

(* ---- histories on ONE sequence object: windows interleaved with in-place edits (the model is pure: every step is the
   model applied to the current value) ---- *)
Inductive hstep :=
| HWin (w : rawwin) (update_fts : bool) (splitter filler gap : option str) (inplace : bool)
| HReverse                         (* seq.reverse(), seq.py:584-589 *)
| HComplement                      (* seq.complement(), seq.py:486-494 *)
| HSetItem (i : Z) (c : str)       (* seq[i] = c, BioSeq.__setitem__ seq.py:251-254 *)
| HSetData (data : str)            (* seq.data = text (plain attribute) *)
| HSetFts (fts : list rawft)       (* seq.fts = FeatureList([...]) *)
| HNew (data : str) (fts : list rawft)    (* continue on a fresh object with the same id *)
| HShare (idx : nat)               (* seq.fts = seq.fts + [Feature('shared', locs=seq.fts[idx % n].locs)]: two features sharing Location objects *)
(* round 7: the in-place str methods of the BioSeq.str namespace (seq.py:36-170: self.data = self.data.<method>(...)) *)
| HStrCase (k : Z)                 (* seq.str.upper() (0) / lower() (1) / swapcase() (2) *)
| HStrReplace (old new : str)      (* seq.str.replace(old, new), old a single character *)
| HStrStrip (side : Z) (chars : str).   (* seq.str.strip(chars) (0) / lstrip(chars) (1) / rstrip(chars) (2) *)

(* str.swapcase / str.replace(c, new) / str.lstrip(chars) on ASCII *)
Definition swap1 (c : byte) : byte := if byte_eqb (upper1 c) c then lower1 c else upper1 c.
Definition replace1 (c : byte) (new : str) (s : str) : str := flat_map (fun x => if byte_eqb x c then new else [x]) s.
Fixpoint lstrip_chars (chars s : str) : str :=
  match s with
  | [] => []
  | c :: r => if has c chars then lstrip_chars chars r else s
  end.
Definition rstrip_chars (chars s : str) : str := rev (lstrip_chars chars (rev s)).

Definition set_item (s : str) (i : Z) (c : str) : res str :=
  let len := Z.of_nat (length s) in
  let k := if i <? 0 then i + len else i in
  if (k <? 0) || (len <=? k) then Err E_Index
  else Ok (firstn (Z.to_nat k) s ++ c ++ skipn (Z.to_nat k + 1) s).

(* one step: (in domain?, value returned / exception, object afterwards) *)
Definition hstep_run (q : bioseq) (st : hstep) : bool * val * bioseq :=
  match st with
  | HWin w u sp fi gap inplace =>
      match build_win w with
      | Err e => (false, VE e, q)
      | Ok None => (state_ok None q, VNone, seq_rc q u)
      | Ok (Some win) =>
          let r := getitem_g q win u sp fi gap in
          (state_ok gap q && opt_ascii sp && opt_ascii fi && opt_ascii gap && win_ok_g q win u gap,
           show_res r,
           match r with
           | Ok x => if inplace then mkSeq (sdata x) (sfts q) else q               (* self.data = subseq.data *)
           | Err _ => q
           end)
      end
  | HReverse => (state_ok None q, VNone, mkSeq (reverse (sdata q)) (sfts q))
  | HComplement => (state_ok None q, VNone, mkSeq (complement (sdata q)) (sfts q))
  | HSetItem i c =>
      match set_item (sdata q) i c with
      | Ok d => (ascii_str c, VNone, mkSeq d (sfts q))
      | Err e => (true, VE e, q)
      end
  | HSetData d => (ascii_str d, VNone, mkSeq d (sfts q))
  | HSetFts fts =>
      match build_fts fts with
      | Ok fs => (true, VNone, mkSeq (sdata q) fs)
      | Err e => (false, VE e, q)
      end
  | HNew d fts =>
      match build_fts fts with
      | Ok fs => (ascii_str d, VNone, new_seq d fs)
      | Err e => (false, VE e, q)
      end
  | HShare idx =>
      match nth_error (sfts q) (Nat.modulo idx (length (sfts q))) with
      | Some f => (true, VNone, mkSeq (sdata q) (sfts q ++ [mkFt (Some (bs "shared"%bs)) (flocs f)]))
      | None => (true, VE E_Value, q)
      end
  | HStrCase k =>
      (ascii_str (sdata q), VNone,
       mkSeq (if k =? 0 then upper (sdata q) else if k =? 1 then lower (sdata q) else map swap1 (sdata q)) (sfts q))
  | HStrReplace old new =>
      match old with
      | [c] => (ascii_str new && ascii_str old, VNone, mkSeq (replace1 c new (sdata q)) (sfts q))
      | _ => (false, VNone, q)
      end
  | HStrStrip side chars =>
      (ascii_str chars, VNone,
       mkSeq (if side =? 0 then rstrip_chars chars (lstrip_chars chars (sdata q))
              else if side =? 1 then lstrip_chars chars (sdata q) else rstrip_chars chars (sdata q)) (sfts q))
  end.
Fixpoint hist_run (q : bioseq) (steps : list hstep) : bool * list val :=
  match steps with
  | [] => (true, [])
  | st :: r =>
      let '(ok, v, q') := hstep_run q st in
      let '(ok', vs) := hist_run q' r in
      (ok && ok', VL [v; show_seq q'] :: vs)
  end.
Definition run_C06h (data : str) (fts : list rawft) (steps : list hstep) : val :=
  match build_fts fts with
  | Ok fs =>
      let '(ok, vs) := hist_run (new_seq data fs) steps in
      VL [VB (ascii_str data && ok); VL vs]
  | Err e => VL [VB false; VE e]
  end.

(* ---- specification side: what the property says, stated without the loops of the code ---- *)
(* residues of the half-open interval [x, y) of s, integer coordinates *)
Definition zsub (s : str) (x y : Z) : str := sub s (Z.to_nat x) (Z.to_nat y).
(* residues addressed by [x, y) on a strand: reverse complement on the minus strand *)
Definition spiece (s : str) (x y : Z) (minus : bool) : str := if minus then rc (zsub s x y) else zsub s x y.
(* the part of a location inside the window [lo, hi), in window coordinates (rel = lo on every modelled path) *)
Definition cut_spec (lo hi rel : Z) (l : loc) : loc :=
  mkLoc (Z.max lo (lstart l) - rel) (Z.min hi (lstop l) - rel) (lstrand l) (cut_defect lo hi l).
Definition slice_ft_spec (lo hi rel : Z) (f : feature) : list feature :=
  match map (cut_spec lo hi rel) (filter (overlaps lo hi) (flocs f)) with
  | [] => []
  | ls => [mkFt (ftype f) (sort_locs ls)]
  end.
Definition slice_spec (lo hi rel : Z) (fts : list feature) : list feature := flat_map (slice_ft_spec lo hi rel) fts.
(* what is inserted between two consecutive locations *)
Definition sep_spec (filler splitter : option str) (p l : loc) : list str :=
  (match filler with
   | Some f => if 0 <? fill_num p l then [repeat_str (Z.to_nat (fill_num p l)) f] else []
   | None => []
   end) ++ (match splitter with Some sp => [sp] | None => [] end).
Definition extract_spec (s : str) (filler splitter : option str) (ls : list loc) : list str :=
  match ls with
  | [] => []
  | l0 :: r => piece s l0 :: flat_map (fun pl => sep_spec filler splitter (fst pl) (snd pl) ++ [piece s (snd pl)]) (combine ls r)
  end.
(* str.join *)
Fixpoint py_join (sp : str) (xs : list str) : str :=
  match xs with [] => [] | [x] => x | x :: r => x ++ sp ++ py_join sp r end.
Definition type_matches (name : str) (f : feature) : bool :=
  match ftype f with Some t => str_eqb (lower t) (lower name) | None => false end.
(* adjacent elements are in key order (what sorted() guarantees and needs to be the identity) *)
Fixpoint ordered (lt : loc -> loc -> bool) (l : list loc) : bool :=
  match l with
  | x :: ((y :: _) as t) => negb (lt y x) && ordered lt t
  | _ => true
  end.
Definition is_pm (c : byte) : bool := byte_eqb c S_FORWARD || byte_eqb c S_REVERSE.

(* ---- round 6: the two feature-cutting paths under gap x update_fts, stated side by side ---- *)
(* adj(i) as a number (adj never returns None for a given bound) *)
Definition adj_z (g s : str) (i : Z) : Z := match adj g s (Some i) with Some c => c | None => i end.
(* the residue-numbered bounds [a, b) fall on the columns with the same numbers (no gap column before residue b) *)
Definition aligned (g s : str) (a b : Z) : bool := (adj_z g s a =? a) && (adj_z g s b =? b).

(* ---- round 6: BioBasket._getitem, seq.py:848-874 ---- *)
(* a basket element: an opaque tag (the id in its metadata, carried along) and the sequence *)
Definition belem := (Z * bioseq)%type.
(* PySlice_AdjustIndices for one bound (CPython sliceobject.c), any step *)
Definition adj_idx (len step i : Z) : Z :=
  if i <? 0 then (if i + len <? 0 then (if step <? 0 then -1 else 0) else i + len)
  else if len <=? i then (if step <? 0 then len - 1 else len) else i.
Definition slice_len (start stop step : Z) : Z :=
  if step <? 0 then (if stop <? start then (start - stop - 1) / (- step) + 1 else 0)
  else (if start <? stop then (stop - start - 1) / step + 1 else 0).
(* for (cur = start, i = 0; i < slicelength; cur += step, i++) dest[i] = src[cur], listobject.c list_subscript *)
Fixpoint take_step {A} (n : nat) (cur step : Z) (l : list A) : list A :=
  match n with
  | O => []
  | S k => match nth_error l (Z.to_nat cur) with
           | Some x => x :: take_step k (cur + step) step l
           | None => []
           end
  end.
(* list[a:b:step] *)
Definition list_slice {A} (l : list A) (a b st : option Z) : res (list A) :=
  let len := Z.of_nat (length l) in
  let step := match st with None => 1 | Some k => k end in
  if step =? 0 then Err E_Value
  else
    let start := match a with None => if step <? 0 then len - 1 else 0 | Some i => adj_idx len step i end in
    let stop := match b with None => if step <? 0 then -1 else len | Some i => adj_idx len step i end in
    Ok (take_step (Z.to_nat (slice_len start stop step)) start step l).
(* list[i] *)
Definition list_item {A} (l : list A) (i : Z) : res A :=
  let len := Z.of_nat (length l) in
  let k := if i <? 0 then i + len else i in
  if (k <? 0) || (len <=? k) then Err E_Index
  else match nth_error l (Z.to_nat k) with Some x => Ok x | None => Err E_Index end.
(* [f(x) for x in l]: the first exception ends the comprehension *)
Fixpoint map_res {A B} (f : A -> res B) (l : list A) : res (list B) :=
  match l with
  | [] => Ok []
  | x :: r => bind (f x) (fun y => bind (map_res f r) (fun ys => Ok (y :: ys)))
  end.

Inductive bindex :=
| BInt (i : Z)                                   (* seqs[i] *)
| BSlice (a b st : option Z)                     (* seqs[a:b:st] *)
| BWin (w : window)                              (* seqs['type'], seqs[feature], seqs[location] *)
| BPairI (i : Z) (w : window)                    (* seqs[i, w] *)
| BPairS (a b st : option Z) (w : window)        (* seqs[a:b:st, w] *)
| BPairBad (w : window)                          (* seqs['x', w]: first component neither int nor slice *)
| BBad                                           (* a tuple of another length / an object without len *)
| BRc.                                           (* not an index: seqs.rc(update_fts=u), BioBasket.rc seq.py:780-787 (in place) *)
Inductive bres := BOne (e : belem) | BMany (l : list belem).

(* seq._getitem(w, **kw) on one element; the metadata (tag) goes along *)
Definition elem_getitem (w : window) (u : bool) (sp fi gap : option str) (e : belem) : res belem :=
  bind (getitem_g (snd e) w u sp fi gap) (fun r => Ok (fst e, r)).
(* BioBasket.rc: for seq in self: seq.rc(update_fts=...) - every sequence about its OWN length *)
Definition basket_rc (qs : list belem) (u : bool) : list belem := map (fun e => (fst e, seq_rc (snd e) u)) qs.
Definition basket_getitem (qs : list belem) (ix : bindex) (u : bool) (sp fi gap : option str) : res bres :=
  match ix with
  | BRc => Ok (BMany (basket_rc qs u))
  | BInt i => bind (list_item qs i) (fun e => Ok (BOne e))                                  (* seq.py:856-857 *)
  | BSlice a b st => bind (list_slice qs a b st) (fun l => Ok (BMany l))                     (* seq.py:858-859 *)
  | BWin w => bind (map_res (elem_getitem w u sp fi gap) qs) (fun l => Ok (BMany l))         (* seq.py:860-862 *)
  | BPairI i w => bind (list_item qs i) (fun e => bind (elem_getitem w u sp fi gap e) (fun r => Ok (BOne r)))   (* 865-866 *)
  | BPairS a b st w =>                                                                       (* seq.py:867-869 *)
      bind (list_slice qs a b st) (fun l => bind (map_res (elem_getitem w u sp fi gap) l) (fun r => Ok (BMany r)))
  | BPairBad _ => Err E_Type                                                                 (* seq.py:870-871 *)
  | BBad => Err E_Type                                                                       (* seq.py:872-873 *)
  end.

(* harness input *)
Inductive rawbidx :=
| QInt (i : Z) | QSlice (a b st : option Z) | QWin (w : rawwin) | QPairI (i : Z) (w : rawwin)
| QPairS (a b st : option Z) (w : rawwin) | QPairBad (w : rawwin) | QBad | QRc.
(* the driver builds the window object first (its constructor may raise); rc is no basket index *)
Definition build_bwin (w : rawwin) : res window :=
  bind (build_win w) (fun ow => match ow with Some x => Ok x | None => Err E_Value end).
Definition build_bidx (ix : rawbidx) : res bindex :=
  match ix with
  | QInt i => Ok (BInt i)
  | QSlice a b st => Ok (BSlice a b st)
  | QWin w => bind (build_bwin w) (fun x => Ok (BWin x))
  | QPairI i w => bind (build_bwin w) (fun x => Ok (BPairI i x))
  | QPairS a b st w => bind (build_bwin w) (fun x => Ok (BPairS a b st x))
  | QPairBad w => bind (build_bwin w) (fun x => Ok (BPairBad x))
  | QBad => Ok BBad
  | QRc => Ok BRc
  end.
Fixpoint build_basket (k : Z) (raw : list (str * list rawft)) : res (list belem) :=
  match raw with
  | [] => Ok []
  | (d, fts) :: r => bind (build_fts fts) (fun fs => bind (build_basket (k + 1) r) (fun t => Ok ((k, new_seq d fs) :: t)))
  end.
Definition bindex_win (ix : bindex) : option window :=
  match ix with
  | BWin w | BPairI _ w | BPairS _ _ _ w | BPairBad w => Some w
  | _ => None
  end.
(* domain: every sequence of the basket (selected or not) is a sequence of the C06 domain and the window is inside each *)
Definition wf_C06b (raw : list (str * list rawft)) (ix : rawbidx) (u : bool) (sp fi gap : option str) : bool :=
  forallb (fun r => ascii_str (fst r)) raw && opt_ascii sp && opt_ascii fi && opt_ascii gap &&
  match build_basket 0 raw, build_bidx ix with
  | Ok qs, Ok bx =>
      forallb (fun e => state_ok gap (snd e)) qs &&
      (match bx with BWin (WLoc _) | BWin (WFeat _) | BWin (WType _) => true | BWin _ => false | _ => true end) &&
      match bindex_win bx with
      | Some w => (match w with WOwn _ => false | _ => true end) && forallb (fun e => win_ok_g (snd e) w u gap) qs
      | None => true
      end
  | _, _ => false
  end.
Definition show_elem (e : belem) : val := VL [VI (fst e); show_seq (snd e)].
Definition show_bres (r : res bres) : val :=
  match r with
  | Ok (BOne e) => VL [VS (bs "seq"%bs); show_elem e]
  | Ok (BMany l) => VL [VS (bs "basket"%bs); VL (map show_elem l)]
  | Err e => VE e
  end.
Definition run_C06b (raw : list (str * list rawft)) (ix : rawbidx) (u : bool) (sp fi gap : option str) : val :=
  VL [VB (wf_C06b raw ix u sp fi gap);
      show_bres (bind (build_basket 0 raw) (fun qs => bind (build_bidx ix) (fun bx => basket_getitem qs bx u sp fi gap)))].

(* ---- round 7: histories over the FEATURE LIST (in-place edits of seq.fts interleaved with lookups by type name), on several
   objects side by side.  The model is a pure function of the current value: every lookup is the lookup on the list produced by
   the edits so far; any memo / cache / stale state in the code disagrees at the first wrong step. ---- *)
(* sorted(objs, key): stable; x goes before the first element that is not strictly smaller (insert_by above, any element type) *)
Fixpoint insert_gen {A} (lt : A -> A -> bool) (x : A) (l : list A) : list A :=
  match l with
  | [] => [x]
  | y :: t => if lt y x then y :: insert_gen lt x t else x :: y :: t
  end.
Definition sort_gen {A} (lt : A -> A -> bool) (l : list A) : list A := fold_right (insert_gen lt) [] l.
(* sorted(..., reverse=True) (listobject.c list_sort_impl): reverse, sort ascending, reverse: equal elements keep their order *)
Definition sort_dir {A} (lt : A -> A -> bool) (reverse : bool) (l : list A) : list A :=
  if reverse then rev (sort_gen lt (rev l)) else sort_gen lt l.
(* key None: Feature.__lt__ (fts.py:365-369, equal seqids) -> LocationTuple.__lt__ (fts.py:204-208): by range, lexicographically *)
Definition ft_key (f : feature) : Z * Z := (range_start (flocs f), range_stop (flocs f)).
Definition pair_lt (a b : Z * Z) : bool := (fst a <? fst b) || ((fst a =? fst b) && (snd a <? snd b)).
Definition ft_pos_lt (a b : feature) : bool := pair_lt (ft_key a) (ft_key b).
(* key len: Feature.__len__, fts.py:375-377 *)
Definition ft_len (f : feature) : Z := range_stop (flocs f) - range_start (flocs f).
Definition ft_len_lt (a b : feature) : bool := ft_len a <? ft_len b.
Definition key_lt (k : Z) : feature -> feature -> bool := if k =? 0 then ft_pos_lt else ft_len_lt.
(* FeatureList.sort(keys, reverse) fts.py:783-803 -> _sorted, cane.py:61-64:
   for keyfunc in keyfuncs[::-1]: objs = sorted(objs, key=keyfunc, reverse=reverse); keys=None is the one key None (code 0) *)
Definition fts_sort (keys : list Z) (reverse : bool) (l : list feature) : list feature :=
  fold_left (fun acc k => sort_dir (key_lt k) reverse acc) (rev keys) l.

(* list indexing: l[i] with a negative index counted from the end *)
Definition norm_idx (len i : Z) : option nat :=
  let k := if i <? 0 then i + len else i in
  if (k <? 0) || (len <=? k) then None else Some (Z.to_nat k).
Definition list_set {A} (l : list A) (k : nat) (x : A) : list A := firstn k l ++ x :: skipn (S k) l.     (* l[k] = x *)
Definition list_del {A} (l : list A) (k : nat) : list A := firstn k l ++ skipn (S k) l.                (* del l[k] *)
(* list.insert(i, x): the index is clamped (listobject.c ins1) *)
Definition list_ins {A} (l : list A) (i : Z) (x : A) : list A :=
  let len := Z.of_nat (length l) in
  let k := Z.to_nat (if i <? 0 then Z.max (i + len) 0 else Z.min i len) in
  firstn k l ++ x :: skipn k l.
(* Location.__eq__ fts.py:99-107, tuple equality, Feature.__eq__ fts.py:358-363 (the metadata of the driver's features is their type) *)
Definition loc_eqb (a b : loc) : bool :=
  (lstart a =? lstart b) && (lstop a =? lstop b) && byte_eqb (lstrand a) (lstrand b) && N.eqb (ldefect a) (ldefect b).
Fixpoint locs_eqb (a b : list loc) : bool :=
  match a, b with
  | [], [] => true
  | x :: r, y :: t => loc_eqb x y && locs_eqb r t
  | _, _ => false
  end.
Definition opt_str_eqb (a b : option str) : bool :=
  match a, b with Some x, Some y => str_eqb x y | None, None => true | _, _ => false end.
Definition ft_eqb (a b : feature) : bool := opt_str_eqb (ftype a) (ftype b) && locs_eqb (flocs a) (flocs b).
(* list.remove(x): the first element equal to x goes *)
Fixpoint remove_first (x : feature) (l : list feature) : option (list feature) :=
  match l with
  | [] => None
  | y :: t => if ft_eqb y x then Some t else match remove_first x t with Some r => Some (y :: r) | None => None end
  end.

(* FeatureList.get / select with a list or tuple of names, fts.py:639-640, 645; 657-658, 664 *)
Definition type_in (names : list str) (f : feature) : bool :=
  match ftype f with
  | Some t => existsb (fun n => str_eqb (lower t) (lower n)) names
  | None => false
  end.
(* FeatureList.select(type) for a str argument, fts.py:648-666 *)
Definition fts_select (name : str) (fts : list feature) : list feature := filter (type_matches name) fts.

(* in-place edits of the feature list of one object (UserList methods act on .data) *)
Inductive fedit :=
| ESort (keys : list Z) (reverse : bool)   (* fts.sort(keys, reverse) *)
| EReverse                                 (* fts.reverse() *)
| ESetItem (i : Z) (f : rawft)             (* fts[i] = Feature(...) *)
| EInsert (i : Z) (f : rawft)              (* fts.insert(i, Feature(...)) *)
| EAppend (f : rawft)                      (* fts.append(Feature(...)) *)
| EExtend (fs : list rawft)                (* fts.extend([...]) / fts += [...] *)
| EPop (i : Z)                             (* fts.pop(i) / del fts[i] *)
| ERemove (i : Z)                          (* fts.remove(fts[i]) *)
| ESetType (i : Z) (t : str)               (* fts[i].type = t *)
| ESetLocs (i : Z) (ls : list rawloc)      (* fts[i].locs = [Location(...), ...] *)
| ESwap (i j : Z)                          (* fts[i], fts[j] = fts[j], fts[i] *)
| EClear                                   (* fts.clear() *)
| EAddFts (fs : list rawft).               (* seq.add_fts([...]), seq.py:332-341: self.fts = self.fts + FeatureList(fts); self.fts.sort() *)

(* (in domain?, value returned / exception, list afterwards); an exception leaves the list as it was *)
Definition fedit_run (l : list feature) (e : fedit) : bool * val * list feature :=
  let len := Z.of_nat (length l) in
  match e with
  | ESort keys reverse => (true, VNone, fts_sort keys reverse l)
  | EReverse => (true, VNone, rev l)
  | ESetItem i f =>
      match build_ft f with
      | Err x => (false, VE x, l)
      | Ok ft => match norm_idx len i with
                 | Some k => (true, VNone, list_set l k ft)
                 | None => (true, VE E_Index, l)
                 end
      end
  | EInsert i f =>
      match build_ft f with
      | Err x => (false, VE x, l)
      | Ok ft => (true, VNone, list_ins l i ft)
      end
  | EAppend f =>
      match build_ft f with
      | Err x => (false, VE x, l)
      | Ok ft => (true, VNone, l ++ [ft])
      end
  | EExtend fs =>
      match build_fts fs with
      | Err x => (false, VE x, l)
      | Ok r => (true, VNone, l ++ r)
      end
  | EPop i =>
      match norm_idx len i with
      | Some k => match nth_error l k with
                  | Some f => (true, show_ft f, list_del l k)
                  | None => (true, VE E_Index, l)
                  end
      | None => (true, VE E_Index, l)
      end
  | ERemove i =>
      match norm_idx len i with
      | Some k => match nth_error l k with
                  | Some f => match remove_first f l with
                              | Some r => (true, VNone, r)
                              | None => (true, VE E_Value, l)
                              end
                  | None => (true, VE E_Index, l)
                  end
      | None => (true, VE E_Index, l)
      end
  | ESetType i t =>
      match norm_idx len i with
      | Some k => match nth_error l k with
                  | Some f => (ascii_str t, VNone, list_set l k (mkFt (Some t) (flocs f)))
                  | None => (true, VE E_Index, l)
                  end
      | None => (true, VE E_Index, l)
      end
  | ESetLocs i ls =>
      match build_locs ls with
      | Err x => (false, VE x, l)
      | Ok ls1 =>
          match norm_idx len i with
          | Some k => match nth_error l k with
                      | Some f => match mk_loctuple ls1 with
                                  | Ok ls2 => (true, VNone, list_set l k (mkFt (ftype f) ls2))
                                  | Err x => (false, VE x, l)
                                  end
                      | None => (true, VE E_Index, l)
                      end
          | None => (true, VE E_Index, l)
          end
      end
  | ESwap i j =>
      match norm_idx len j, norm_idx len i with
      | Some kj, Some ki =>
          match nth_error l kj, nth_error l ki with
          | Some fj, Some fi => (true, VNone, list_set (list_set l ki fj) kj fi)
          | _, _ => (true, VE E_Index, l)
          end
      | _, _ => (true, VE E_Index, l)
      end
  | EClear => (true, VNone, [])
  | EAddFts fs =>
      match build_fts fs with
      | Err x => (false, VE x, l)
      | Ok r => (true, VNone, fts_sort [0] false (l ++ r))
      end
  end.

Inductive fstep :=
| FSeq (st : hstep)                        (* a step of the sequence-level history language (windows, rc, edits of the data) *)
| FEdit (e : fedit)                        (* an in-place edit of seq.fts *)
| FGet (name : str)                        (* seq.fts.get(name) *)
| FGetAny (names : list str)               (* seq.fts.get([names]) *)
| FSelect (name : str)                     (* seq.fts.select(name) *)
| FSelectAny (names : list str)            (* seq.fts.select([names]) *)
| FBasket (ix : rawbidx) (u : bool) (sp fi gap : option str)     (* BioBasket(all objects)[ix] / .rc(update_fts=u): every object *)
| FAllGet (name : str)                     (* BioBasket(all objects).fts.get(name), seq.py:740-749: the features of all sequences in basket order *)
| FAllSelect (name : str).                 (* BioBasket(all objects).fts.select(name) *)

Definition basket_ok (qs : list belem) (bx : bindex) (u : bool) (gap : option str) : bool :=
  forallb (fun e => state_ok gap (snd e)) qs &&
  (match bx with BWin (WLoc _) | BWin (WFeat _) | BWin (WType _) => true | BWin _ => false | _ => true end) &&
  match bindex_win bx with
  | Some w => (match w with WOwn _ => false | _ => true end) && forallb (fun e => win_ok_g (snd e) w u gap) qs
  | None => true
  end.
Fixpoint tag_from {A} (k : Z) (l : list A) : list (Z * A) :=
  match l with [] => [] | x :: r => (k, x) :: tag_from (k + 1) r end.
Definition opt_show (o : option feature) : val := match o with Some f => show_ft f | None => VNone end.

(* one step addressed to object number obj (mod the number of objects): (in domain?, value / exception, all objects afterwards) *)
Definition fstep_run (qs : list bioseq) (obj : nat) (st : fstep) : bool * val * list bioseq :=
  let k := Nat.modulo obj (length qs) in
  match nth_error qs k with
  | None => (false, VE E_Index, qs)
  | Some q =>
      match st with
      | FSeq h => let '(ok, v, q') := hstep_run q h in (ok, v, list_set qs k q')
      | FEdit e => let '(ok, v, l') := fedit_run (sfts q) e in (ok, v, list_set qs k (mkSeq (sdata q) l'))
      | FGet name => (ascii_str name, opt_show (fts_get name (sfts q)), qs)
      | FGetAny names => (forallb ascii_str names, opt_show (find (type_in names) (sfts q)), qs)
      | FSelect name => (ascii_str name, VL (map show_ft (fts_select name (sfts q))), qs)
      | FSelectAny names => (forallb ascii_str names, VL (map show_ft (filter (type_in names) (sfts q))), qs)
      | FAllGet name => (ascii_str name, opt_show (fts_get name (flat_map sfts qs)), qs)
      | FAllSelect name => (ascii_str name, VL (map show_ft (fts_select name (flat_map sfts qs))), qs)
      | FBasket ix u sp fi gap =>
          match build_bidx ix with
          | Err e => (false, VE e, qs)
          | Ok bx =>
              let es := tag_from 0 qs in
              let r := basket_getitem es bx u sp fi gap in
              (opt_ascii sp && opt_ascii fi && opt_ascii gap && basket_ok es bx u gap,
               show_bres r,
               match bx, r with
               | BRc, Ok (BMany l) => map snd l           (* BioBasket.rc works in place on every sequence *)
               | _, _ => qs
               end)
          end
      end
  end.
Fixpoint fhist_run (qs : list bioseq) (steps : list (nat * fstep)) : bool * list val :=
  match steps with
  | [] => (true, [])
  | (obj, st) :: r =>
      let '(ok, v, qs') := fstep_run qs obj st in
      let '(ok', vs) := fhist_run qs' r in
      (ok && ok', VL [v; VL (map show_seq qs')] :: vs)
  end.
Definition run_C06f (objs : list (str * list rawft)) (steps : list (nat * fstep)) : val :=
  match build_basket 0 objs with
  | Ok es =>
      let qs := map snd es in
      let '(ok, vs) := fhist_run qs steps in
      VL [VB (forallb (fun o => ascii_str (fst o)) objs && negb (Nat.eqb (length qs) 0) && ok); VL vs]
  | Err e => VL [VB false; VE e]
  end.
