(* C14 model: SJSON writer/reader of sugar at the level of JSON trees (sugar/_io/sjson.py).
   The JSON text layer (json.dump / json.load) is trusted: json.dump calls _SJSONEncoder.default exactly on the objects that
   are not dict/list/tuple/str/int/float/bool/None (so Strand = StrEnum and Defect = IntFlag are written natively as a string
   and a number, LocationTuple as an array), json.load calls object_hook on every JSON object, innermost first.
   One universe [obj] of Python values is used for metadata and for sugar objects, because the encoder and the hook are
   generic: any sugar object may sit anywhere inside metadata.  No proofs here. *)
From Coq Require Import List ZArith NArith Bool.
From Coq.Strings Require Import Byte.
Import ListNotations.
From SV Require Import Text G_codes G_flags G_sjson.

(* ---- error monad ---------------------------------------------------------------------------------------------- *)
Inductive res (A : Type) := Ok (a : A) | Err (e : str).
Arguments Ok {A} a.
Arguments Err {A} e.
Definition bind {A B} (r : res A) (f : A -> res B) : res B :=
  match r with Ok a => f a | Err e => Err e end.
Definition mapM {A B} (f : A -> res B) : list A -> res (list B) :=
  fix go l := match l with
              | [] => Ok []
              | x :: r => bind (f x) (fun y => bind (go r) (fun ys => Ok (y :: ys)))
              end.
Definition mapMkv {A B} (f : A -> res B) : list (str * A) -> res (list (str * B)) :=
  fix go l := match l with
              | [] => Ok []
              | (k, x) :: r => bind (f x) (fun y => bind (go r) (fun ys => Ok ((k, y) :: ys)))
              end.
Definition E_Type : str := bs "TypeError"%bs.
Definition E_Value : str := bs "ValueError"%bs.
Definition E_Key : str := bs "KeyError"%bs.
Definition E_Assert : str := bs "AssertionError"%bs.
Definition E_Attribute : str := bs "AttributeError"%bs.

(* ---- Python values (DESIGN 5.4) ------------------------------------------------------------------------------- *)
Inductive acls := CAttr | CMeta.                         (* sugar.core.meta.Attr / Meta *)
Inductive obj :=
| ONone
| OBool (b : bool)
| OInt (z : Z)
| OFloat (lit : str)                                     (* repr() of the float; opaque (DESIGN 5.3) *)
| OStr (s : str)
| OList (l : list obj)
| ODict (kv : list (str * obj))                          (* plain dict, insertion ordered *)
| OAttr (c : acls) (kv : list (str * obj))               (* Attr/Meta: items = instance __dict__, meta.py:46-57 *)
| OLoc (start stop : Z) (strand : str) (defect : Z) (meta : option (list (str * obj)))
                                                         (* Location: start, stop, _strand, _defect, _meta (None or Meta), fts.py:84-97 *)
| OFeat (meta : list (str * obj)) (locs : list obj)      (* Feature: meta (Meta), _locs (LocationTuple), fts.py:281-287 *)
| OFts (data : list obj)                                 (* FeatureList(UserList): data, fts.py:411-420 *)
| OSeq (data : str) (meta : list (str * obj)) (typ : str)(* BioSeq: data, meta (Meta), type, seq.py:213-235 *)
| OBasket (data : list obj) (meta : list (str * obj)).   (* BioBasket(UserList): data, meta (Meta), seq.py:647-661 *)

(* what json.dump writes / json.load parses *)
Inductive json :=
| JNull | JBool (b : bool) | JInt (z : Z) | JFloat (lit : str) | JStr (s : str)
| JArr (l : list json)
| JObj (kv : list (str * json)).

(* ---- association lists (Python dicts keep insertion order; keys are unique) --------------------------------- *)
Fixpoint lookup {A} (k : str) (l : list (str * A)) : option A :=
  match l with
  | [] => None
  | (a, v) :: r => if str_eqb a k then Some v else lookup k r
  end.
Definition has_key {A} (k : str) (l : list (str * A)) : bool := existsb (fun p => str_eqb (fst p) k) l.
(* d.pop(k, None) *)
Definition remove_key {A} (k : str) (l : list (str * A)) : list (str * A) :=
  filter (fun p => negb (str_eqb (fst p) k)) l.
(* d[k] = v : replaces in place, else appends *)
Definition set_key {A} (k : str) (v : A) (l : list (str * A)) : list (str * A) :=
  if has_key k l then map (fun p => if str_eqb (fst p) k then (k, v) else p) l else l ++ [(k, v)].
Definition mem_str (k : str) (l : list str) : bool := existsb (str_eqb k) l.
Fixpoint nodup_keys (l : list str) : bool :=
  match l with [] => true | k :: r => negb (mem_str k r) && nodup_keys r end.
Definition keys {A} (l : list (str * A)) : list str := map fst l.
(* cls(KW d): every keyword must be a parameter name *)
Definition only_keys {A} (allowed : list str) (d : list (str * A)) : bool :=
  forallb (fun p => mem_str (fst p) allowed) d.

(* ---- the key filter of the encoder, sjson.py:32-33 ------------------------------------------------------------ *)
Definition K_cls : str := bs "_cls"%bs.
Definition K_fmtcomment : str := bs "_fmtcomment"%bs.
Definition K_str : str := bs "str"%bs.
Definition K_fmt : str := bs "_fmt"%bs.
Definition starts_us (k : str) : bool := match k with c :: _ => byte_eqb c "_"%byte | [] => false end.
Fixpoint prefix_b (a b : str) : bool :=
  match a, b with
  | [], _ => true
  | x :: a', y :: b' => byte_eqb x y && prefix_b a' b'
  | _, [] => false
  end.
(* Python `a in b` for strings *)
Fixpoint substr_b (a b : str) : bool :=
  prefix_b a b || match b with [] => false | _ :: b' => substr_b a b' end.
(* `not k.startswith("_") or k in '_fmtcomment'`  (a substring test: "_", "_f", "_fmt", ... are kept as well) *)
Definition keep_key (k : str) : bool := negb (starts_us k) || substr_b k K_fmtcomment.

(* ---- encoder: _SJSONEncoder.default + native json encoding, sjson.py:25-42 ---------------------------------- *)
Definition cls_name (c : acls) : str := match c with CAttr => bs "Attr"%bs | CMeta => bs "Meta"%bs end.
Definition N_Location : str := bs "Location"%bs.
Definition N_Feature : str := bs "Feature"%bs.
Definition N_FeatureList : str := bs "FeatureList"%bs.
Definition N_BioSeq : str := bs "BioSeq"%bs.
Definition N_BioBasket : str := bs "BioBasket"%bs.
Definition jcls (n : str) : str * json := (K_cls, JStr n).      (* obj['_cls'] = type(o).__name__, written last *)
Definition keepj (p : str * json) : bool := keep_key (fst p).
(* Attr/Meta: {k: v for k, v in o.__dict__.items() if keep} + _cls *)
Definition enc_attr_j (c : acls) (ekv : list (str * json)) : json :=
  JObj (filter keepj ekv ++ [jcls (cls_name c)]).
Definition K_start := bs "start"%bs.  Definition K_stop := bs "stop"%bs.  Definition K_strand := bs "strand"%bs.
Definition K_defect := bs "defect"%bs. Definition K_meta := bs "meta"%bs.  Definition K_locs := bs "locs"%bs.
Definition K_data := bs "data"%bs.    Definition K_type := bs "type"%bs.  Definition K_id := bs "id"%bs.

Fixpoint enc (o : obj) : json :=
  match o with
  | ONone => JNull
  | OBool b => JBool b
  | OInt z => JInt z
  | OFloat l => JFloat l
  | OStr s => JStr s
  | OList l => JArr (map enc l)
  | ODict kv => JObj (map (fun p => match p with (k, v) => (k, enc v) end) kv)
  | OAttr c kv => enc_attr_j c (map (fun p => match p with (k, v) => (k, enc v) end) kv)
  | OLoc a b s d m =>
      (* public start, stop survive the filter; strand, defect, meta added from the properties (sjson.py:36-41) *)
      JObj ([(K_start, JInt a); (K_stop, JInt b); (K_strand, JStr s); (K_defect, JInt d)]
            ++ match m with
               | None => []
               | Some kv => [(K_meta, enc_attr_j CMeta (map (fun p => match p with (k, v) => (k, enc v) end) kv))]
               end
            ++ [jcls N_Location])
  | OFeat m locs =>
      JObj [(K_meta, enc_attr_j CMeta (map (fun p => match p with (k, v) => (k, enc v) end) m));
            (K_locs, JArr (map enc locs)); jcls N_Feature]
  | OFts data => JObj [(K_data, JArr (map enc data)); jcls N_FeatureList]
  | OSeq d m t =>
      JObj [(K_data, JStr d);
            (K_meta, enc_attr_j CMeta (map (fun p => match p with (k, v) => (k, enc v) end) m));
            (K_type, JStr t); jcls N_BioSeq]
  | OBasket data m =>
      JObj [(K_data, JArr (map enc data));
            (K_meta, enc_attr_j CMeta (map (fun p => match p with (k, v) => (k, enc v) end) m));
            jcls N_BioBasket]
  end.

(* write_sjson, sjson.py:78-86: seqs.__dict__ = dict(_fmtcomment=COMMENT, **seqs.__dict__); '_fmtcomment' passes the filter *)
Definition write_sjson (b : obj) : json :=
  match enc b with
  | JObj kv => JObj ((K_fmtcomment, JStr SJSON_COMMENT) :: kv)
  | j => j
  end.

(* ---- constructors run by the hook ----------------------------------------------------------------------------- *)
(* Attr.__setitem__, meta.py:49-54: a Mapping that is not an Attr becomes Attr(value), recursively through update() *)
Fixpoint conv_val (v : obj) : obj :=
  match v with
  | ODict kv => OAttr CAttr (map (fun p => match p with (k, x) => (k, conv_val x) end) kv)
  | _ => v
  end.
Definition conv_kv (kv : list (str * obj)) : list (str * obj) :=
  map (fun p => match p with (k, x) => (k, conv_val x) end) kv.
(* Attr(d) / Meta(d), meta.py:31-40: self.update(dict(d)); any key is fine *)
Definition mk_attr (c : acls) (d : list (str * obj)) : res obj := Ok (OAttr c (conv_kv d)).
(* Meta(v) for a mapping v (dict(v) then update) *)
Definition as_meta (o : obj) : res (list (str * obj)) :=
  match o with
  | OAttr _ kv => Ok (conv_kv kv)
  | ODict kv => Ok (conv_kv kv)
  | OList [] => Ok []
  | _ => Err E_Type
  end.
Definition opt_meta (o : option obj) : res (list (str * obj)) :=       (* `if meta is None: meta = {}`; Meta(meta) *)
  match o with None | Some ONone => Ok [] | Some m => as_meta m end.

Definition is_strand (s : str) : bool :=
  match s with
  | [c] => byte_eqb c S_FORWARD || byte_eqb c S_REVERSE || byte_eqb c S_NONE || byte_eqb c S_UNKNOWN
  | _ => false
  end.
Definition S_plus : str := [S_FORWARD].
Definition S_minus : str := [S_REVERSE].

(* Location(KW d), fts.py:84-149 *)
Definition construct_loc (d : list (str * obj)) : res obj :=
  if negb (only_keys SJSON_INIT_Location d) then Err E_Type else
  match lookup K_start d, lookup K_stop d with
  | Some (OInt a), Some (OInt b) =>
      if Z.geb a b then Err E_Value else
      bind (match lookup K_strand d with
            | None => Ok S_plus
            | Some (OStr s) => if is_strand s then Ok s else Err E_Value
            | Some _ => Err E_Value
            end) (fun s =>
      bind (match lookup K_defect d with
            | None => Ok 0%Z
            | Some (OInt z) => Ok z
            | Some _ => Err E_Value
            end) (fun df =>
      bind (match lookup K_meta d with
            | None | Some ONone => Ok None
            | Some m => bind (as_meta m) (fun kv => Ok (Some kv))
            end) (fun m =>
      Ok (OLoc a b s df m))))
  | _, _ => Err E_Type
  end.

(* LocationTuple.__new__, fts.py:152-180 *)
Definition is_loc (o : obj) : bool := match o with OLoc _ _ _ _ _ => true | _ => false end.
Definition loc_strand (o : obj) : str := match o with OLoc _ _ s _ _ => s | _ => [] end.
Definition loc_start (o : obj) : Z := match o with OLoc a _ _ _ _ => a | _ => 0%Z end.
Definition loc_stop (o : obj) : Z := match o with OLoc _ b _ _ _ => b | _ => 0%Z end.
Definition same_strands (l : list obj) : bool :=
  match l with [] => true | x :: r => forallb (fun y => str_eqb (loc_strand y) (loc_strand x)) r end.
(* sorted(..., key) is stable; with reverse=True equal keys keep their order too.  [lt y x]: y must stay before x *)
Fixpoint insert_by (lt : obj -> obj -> bool) (x : obj) (l : list obj) : list obj :=
  match l with
  | [] => [x]
  | y :: r => if lt y x then y :: insert_by lt x r else x :: l
  end.
Definition sort_by (lt : obj -> obj -> bool) (l : list obj) : list obj := fold_right (insert_by lt) [] l.
Definition lt_start (y x : obj) : bool := Z.ltb (loc_start y) (loc_start x).
Definition gt_stop (y x : obj) : bool := Z.gtb (loc_stop y) (loc_stop x).
Definition loc_order (l : list obj) : obj -> obj -> bool :=
  match l with
  | x :: _ => if str_eqb (loc_strand x) S_minus then gt_stop else lt_start
  | [] => lt_start
  end.
(* `locs[i] = Location( *loc )` for an element that is not a Location (fts.py:173-178): positional binding of a list;
   any exception inside becomes TypeError *)
Definition loc_of_list (l : list obj) : res obj :=
  match l with
  | a :: b :: rest =>
      match rest with
      | [] => construct_loc [(K_start, a); (K_stop, b)]
      | [s] => construct_loc [(K_start, a); (K_stop, b); (K_strand, s)]
      | [s; d] => construct_loc [(K_start, a); (K_stop, b); (K_strand, s); (K_defect, d)]
      | [s; d; m] => construct_loc [(K_start, a); (K_stop, b); (K_strand, s); (K_defect, d); (K_meta, m)]
      | _ => Err E_Type
      end
  | _ => Err E_Type
  end.
Definition coerce_loc (o : obj) : res obj :=
  match o with
  | OLoc _ _ _ _ _ => Ok o
  | OList l => match loc_of_list l with Ok x => Ok x | Err _ => Err E_Type end
  | _ => Err E_Type
  end.
Definition location_tuple (l : list obj) : res (list obj) :=
  match l with
  | [] => Err E_Value
  | _ => bind (mapM coerce_loc l) (fun l' =>
         if negb (same_strands l') then Err E_Value
         else Ok (sort_by (loc_order l') l'))
  end.

(* Feature(KW d), fts.py:281-287; the other keywords go to LocationTuple(locs=locs, start=, stop=, strand=), fts.py:156-168 *)
Definition non_none (o : option obj) : option obj := match o with Some ONone => None | x => x end.
Definition construct_feat (d : list (str * obj)) : res obj :=
  if negb (only_keys [K_type; K_locs; K_meta; K_start; K_stop; K_strand] d) then Err E_Type else
  bind (opt_meta (lookup K_meta d)) (fun m =>
  let m' := match lookup K_type d with
            | None | Some ONone => m
            | Some t => set_key K_type (conv_val t) m
            end in
  match non_none (lookup K_start d), non_none (lookup K_stop d) with
  | None, None =>
      match lookup K_locs d with
      | Some (OList l) => bind (location_tuple l) (fun ls => Ok (OFeat m' ls))
      | None | Some ONone => Err E_Value                     (* 'No location specified' *)
      | Some _ => Err E_Type
      end
  | st, sp =>
      match non_none (lookup K_locs d) with
      | Some _ => Err E_Value                                (* 'One of locs or start/stop can be given' *)
      | None =>
          bind (construct_loc ((match st with Some a => [(K_start, a)] | None => [] end)
                               ++ (match sp with Some b => [(K_stop, b)] | None => [] end)
                               ++ (match lookup K_strand d with Some s => [(K_strand, s)] | None => [] end)))
               (fun lc => Ok (OFeat m' [lc]))
      end
  end).

(* FeatureList(KW d), fts.py:411-420 *)
Definition construct_fts (d : list (str * obj)) : res obj :=
  if negb (only_keys SJSON_INIT_FeatureList d) then Err E_Type else
  match lookup K_data d with
  | None | Some ONone => Ok (OFts [])
  | Some (OList l) => Ok (OFts l)
  | Some (OFts l) => Ok (OFts l)                              (* hasattr(data, 'data'): data = data.data *)
  | Some (OBasket l _) => Ok (OFts l)
  | Some _ => Err E_Type
  end.

(* str.upper on ASCII (other code points are outside the domain) *)
Definition upper1 (c : byte) : byte :=
  let n := Byte.to_N c in
  if (N.leb 97 n && N.leb n 122)%N then match Byte.of_N (n - 32) with Some b => b | None => c end else c.
Definition upper (s : str) : str := map upper1 s.
Definition N_nt : str := bs "nt"%bs.
Definition N_aa : str := bs "aa"%bs.
(* seq.py:229-231: codes = set(CODES) | {'U'}; 'nt' if all residues are codes *)
Definition is_code (c : byte) : bool := existsb (fun p => byte_eqb (fst p) c) CODES || byte_eqb c "U"%byte.
Definition infer_type (data : str) : str := if forallb is_code data then N_nt else N_aa.
Definition truthy (o : obj) : bool :=
  match o with
  | ONone => false | OBool b => b | OInt z => negb (Z.eqb z 0)
  | OFloat l => negb (str_eqb l (bs "0.0"%bs) || str_eqb l (bs "-0.0"%bs))     (* floats travel as their repr *)
  | OStr s => match s with [] => false | _ => true end
  | OList l => match l with [] => false | _ => true end
  | ODict kv | OAttr _ kv => match kv with [] => false | _ => true end
  | OFts l => match l with [] => false | _ => true end
  | OBasket l _ => match l with [] => false | _ => true end
  | OSeq d _ _ => match d with [] => false | _ => true end
  | _ => true
  end.

(* BioSeq(KW d), seq.py:213-235 *)
Definition construct_seq (d : list (str * obj)) : res obj :=
  if negb (only_keys SJSON_INIT_BioSeq d) then Err E_Type else
  match lookup K_data d with
  | Some (OSeq s0 m0 _) =>                                    (* hasattr(data, 'meta'): str(data), meta = data.meta *)
      let s := s0 in
      bind (as_meta (OAttr CMeta m0)) (fun m =>
      let id := match lookup K_id d with Some i => i | None => OStr [] end in
      let m' := if truthy id || negb (has_key K_id m) then set_key K_id (conv_val id) m else m in
      match lookup K_type d with
      | None | Some ONone => Ok (OSeq (upper s) m' (infer_type (upper s)))
      | Some (OStr t) => if str_eqb t N_nt || str_eqb t N_aa then Ok (OSeq (upper s) m' t) else Err E_Assert
      | Some _ => Err E_Assert
      end)
  | Some (OStr s) =>
      bind (opt_meta (lookup K_meta d)) (fun m =>
      let id := match lookup K_id d with Some i => i | None => OStr [] end in
      let m' := if truthy id || negb (has_key K_id m) then set_key K_id (conv_val id) m else m in
      match lookup K_type d with
      | None | Some ONone => Ok (OSeq (upper s) m' (infer_type (upper s)))
      | Some (OStr t) => if str_eqb t N_nt || str_eqb t N_aa then Ok (OSeq (upper s) m' t) else Err E_Assert
      | Some _ => Err E_Assert
      end)
  | _ => Err E_Type
  end.

(* BioBasket(KW d), seq.py:647-661 *)
Definition is_seq (o : obj) : bool := match o with OSeq _ _ _ => true | _ => false end.
Definition eq_meta_word (o : obj) : bool :=      (* 'meta' == x, for `'meta' in data` *)
  match o with
  | OStr s => str_eqb s K_meta
  | OSeq d _ _ => str_eqb d K_meta
  | _ => false
  end.
Definition construct_basket (d : list (str * obj)) : res obj :=
  if negb (only_keys SJSON_INIT_BioBasket d) then Err E_Type else
  match lookup K_data d with
  | None | Some ONone => bind (opt_meta (lookup K_meta d)) (fun m => Ok (OBasket [] m))
  | Some (OList l) =>
      if existsb eq_meta_word l then Err E_Type
      else bind (opt_meta (lookup K_meta d)) (fun m => Ok (OBasket l m))
  | Some (OFts l) =>
      if existsb eq_meta_word l then Err E_Type
      else bind (opt_meta (lookup K_meta d)) (fun m => Ok (OBasket l m))
  | Some (OBasket l m0) => bind (as_meta (OAttr CMeta m0)) (fun m => Ok (OBasket l m))   (* hasattr(data, 'meta') *)
  | Some _ => Err E_Type
  end.

Definition construct (name : str) (d : list (str * obj)) : res obj :=
  if str_eqb name (cls_name CAttr) then mk_attr CAttr d
  else if str_eqb name (cls_name CMeta) then mk_attr CMeta d
  else let d' := remove_key K_str d in              (* d.pop('str', None) only for the classes built with cls(KW d) *)
  if str_eqb name N_Location then construct_loc d'
  else if str_eqb name N_Feature then construct_feat d'
  else if str_eqb name N_FeatureList then construct_fts d'
  else if str_eqb name N_BioSeq then construct_seq d'
  else if str_eqb name N_BioBasket then construct_basket d'
  else Err E_Key.                                   (* globals()[cls]; Strand/Defect/other globals: not written by the encoder *)

(* _json_hook, sjson.py:51-65: issubclass(cls, Attr) -> cls(d), else pop 'str' and cls(KW d) *)
Definition hook (d : list (str * obj)) : res obj :=
  match lookup K_cls d with
  | None => Ok (ODict d)
  | Some c =>
      let d1 := remove_key K_cls d in                                   (* d.pop('_cls', None) happens before the test *)
      if truthy c then
        let d2 := remove_key K_fmtcomment d1 in                         (* d.pop('_fmtcomment', None) *)
        match c with
        | OStr name => construct name d2
        | OList _ | ODict _ => Err E_Type
        | _ => Err E_Key
        end
      else Ok (ODict d1)
  end.

(* json.load(f, object_hook=_json_hook): bottom-up *)
Fixpoint dec (j : json) : res obj :=
  match j with
  | JNull => Ok ONone
  | JBool b => Ok (OBool b)
  | JInt z => Ok (OInt z)
  | JFloat l => Ok (OFloat l)
  | JStr s => Ok (OStr s)
  | JArr l => bind (mapM dec l) (fun l' => Ok (OList l'))
  | JObj kv => bind (mapMkv dec kv) hook
  end.
Definition read_sjson (j : json) : res obj := dec j.

(* sugar.read glue, _io/main.py:327-330: seqs = BioBasket(seqs); seq.meta._fmt = fmt *)
Definition V_sjson : obj := OStr (bs "sjson"%bs).
Definition add_fmt (o : obj) : obj :=
  match o with OSeq d m t => OSeq d (set_key K_fmt V_sjson m) t | _ => o end.
Definition read_glue (o : obj) : res obj :=
  match o with
  | OBasket data m => if forallb is_seq data then Ok (OBasket (map add_fmt data) m) else Err E_Attribute
  | _ => Err E_Type
  end.
Definition write_read (b : obj) : res obj := bind (read_sjson (write_sjson b)) read_glue.

(* ---- specification side ----------------------------------------------------------------------------------------- *)
(* what the round trip is allowed to do and does: in every Attr/Meta mapping the keys rejected by the encoder filter are gone,
   '_fmtcomment' is popped by the hook *)
Definition keep_final (k : str) : bool :=
  keep_key k && negb (str_eqb k K_fmtcomment).
Definition keepo (p : str * obj) : bool := keep_final (fst p).
Fixpoint strip (o : obj) : obj :=
  match o with
  | OList l => OList (map strip l)
  | ODict kv => ODict (map (fun p => match p with (k, v) => (k, strip v) end) kv)
  | OAttr c kv => OAttr c (filter keepo (map (fun p => match p with (k, v) => (k, strip v) end) kv))
  | OLoc a b s d m =>
      OLoc a b s d match m with
                   | None => None
                   | Some kv => Some (filter keepo (map (fun p => match p with (k, v) => (k, strip v) end) kv))
                   end
  | OFeat m locs => OFeat (filter keepo (map (fun p => match p with (k, v) => (k, strip v) end) m)) (map strip locs)
  | OFts data => OFts (map strip data)
  | OSeq d m t => OSeq d (filter keepo (map (fun p => match p with (k, v) => (k, strip v) end) m)) t
  | OBasket data m => OBasket (map strip data) (filter keepo (map (fun p => match p with (k, v) => (k, strip v) end) m))
  | _ => o
  end.
Definition strip_items (kv : list (str * obj)) : list (str * obj) :=
  filter keepo (map (fun p => match p with (k, v) => (k, strip v) end) kv).
(* the public part of a graph: every '_'-prefixed key of every Attr/Meta mapping removed *)
Definition pubo (p : str * obj) : bool := negb (starts_us (fst p)).
Fixpoint pub (o : obj) : obj :=
  match o with
  | OList l => OList (map pub l)
  | ODict kv => ODict (map (fun p => match p with (k, v) => (k, pub v) end) kv)
  | OAttr c kv => OAttr c (filter pubo (map (fun p => match p with (k, v) => (k, pub v) end) kv))
  | OLoc a b s d m =>
      OLoc a b s d match m with
                   | None => None
                   | Some kv => Some (filter pubo (map (fun p => match p with (k, v) => (k, pub v) end) kv))
                   end
  | OFeat m locs => OFeat (filter pubo (map (fun p => match p with (k, v) => (k, pub v) end) m)) (map pub locs)
  | OFts data => OFts (map pub data)
  | OSeq d m t => OSeq d (filter pubo (map (fun p => match p with (k, v) => (k, pub v) end) m)) t
  | OBasket data m => OBasket (map pub data) (filter pubo (map (fun p => match p with (k, v) => (k, pub v) end) m))
  | _ => o
  end.

Definition pub_items (kv : list (str * obj)) : list (str * obj) :=
  filter pubo (map (fun p => match p with (k, v) => (k, pub v) end) kv).
(* classes that carry a `_cls` tag, the tag, and the constructor the hook dispatches to *)
Inductive kind := KAttr | KMeta | KLoc | KFeat | KFts | KSeq | KBasket.
Definition tag (k : kind) : str :=
  match k with
  | KAttr => cls_name CAttr | KMeta => cls_name CMeta | KLoc => N_Location | KFeat => N_Feature
  | KFts => N_FeatureList | KSeq => N_BioSeq | KBasket => N_BioBasket
  end.
Definition kind_of (o : obj) : option kind :=
  match o with
  | OAttr CAttr _ => Some KAttr | OAttr CMeta _ => Some KMeta | OLoc _ _ _ _ _ => Some KLoc | OFeat _ _ => Some KFeat
  | OFts _ => Some KFts | OSeq _ _ _ => Some KSeq | OBasket _ _ => Some KBasket
  | _ => None
  end.
Definition json_cls (j : json) : option json := match j with JObj kv => lookup K_cls kv | _ => None end.
Definition constructor_of (k : kind) : list (str * obj) -> res obj :=
  match k with
  | KAttr => mk_attr CAttr | KMeta => mk_attr CMeta
  | KLoc => fun d => construct_loc (remove_key K_str d) | KFeat => fun d => construct_feat (remove_key K_str d)
  | KFts => fun d => construct_fts (remove_key K_str d) | KSeq => fun d => construct_seq (remove_key K_str d)
  | KBasket => fun d => construct_basket (remove_key K_str d)
  end.

(* ---- domain ------------------------------------------------------------------------------------------------------- *)
Definition is_dict (o : obj) : bool := match o with ODict _ => true | _ => false end.
(* keys of an Attr/Meta mapping *)
Definition ok_attr_key (k : str) : bool :=
  negb (mem_str k SJSON_ATTR_RESERVED).       (* open finding F20: key shadows a mapping method of Attr *)
Definition ok_attr_shape (kv : list (str * obj)) : bool :=
  nodup_keys (keys kv) && forallb ok_attr_key (keys kv)
  && forallb (fun p => negb (is_dict (snd p))) kv.    (* class invariant of Attr: direct mapping values are Attr *)
Definition no_lower_ascii (c : byte) : bool :=
  let n := Byte.to_N c in (N.ltb n 128 && negb (N.leb 97 n && N.leb n 122))%N.
Fixpoint sorted_by (lt : obj -> obj -> bool) (l : list obj) : bool :=
  match l with
  | x :: r => match r with y :: _ => negb (lt y x) | [] => true end && sorted_by lt r
  | [] => true
  end.
Fixpoint wf (o : obj) : bool :=
  match o with
  | OList l => forallb wf l
  | ODict kv => nodup_keys (keys kv) && negb (has_key K_cls kv)     (* '_cls' is the format's own tag *)
                && forallb (fun p => wf (snd p)) kv
  | OAttr _ kv => ok_attr_shape kv && forallb (fun p => wf (snd p)) kv
  | OLoc a b s d m =>
      Z.ltb a b && is_strand s && Z.leb 0 d && Z.ltb d 256
      && match m with None => true | Some kv => ok_attr_shape kv && forallb (fun p => wf (snd p)) kv end
  | OFeat m locs =>
      ok_attr_shape m && forallb (fun p => wf (snd p)) m
      && match locs with [] => false | _ => true end
      && forallb is_loc locs && same_strands locs && sorted_by (loc_order locs) locs   (* invariant of LocationTuple *)
      && forallb wf locs
  | OFts data => forallb wf data
  | OSeq d m t =>
      forallb no_lower_ascii d                                   (* constructor invariant data = str(data).upper() *)
      && (str_eqb t N_nt || str_eqb t N_aa)
      && has_key K_id m                                          (* constructor invariant: meta.id exists *)
      && ok_attr_shape m && forallb (fun p => wf (snd p)) m
  | OBasket data m =>
      forallb is_seq data && forallb wf data && ok_attr_shape m && forallb (fun p => wf (snd p)) m
  | _ => true
  end.
Definition is_basket (o : obj) : bool := match o with OBasket _ _ => true | _ => false end.
Definition wf_C14 (b : obj) : bool := is_basket b && wf b.

(* ---- the observables the property names, as a flat view of a basket -------------------------------------------------------- *)
(* per sequence: residues, type, and per feature of meta['fts'] the coordinates of every location *)
Definition loc_view (o : obj) : Z * Z * str * Z :=
  match o with OLoc a b s d _ => (a, b, s, d) | _ => (0%Z, 0%Z, [], 0%Z) end.
Definition feat_view (o : obj) : list (Z * Z * str * Z) :=
  match o with OFeat _ locs => map loc_view locs | _ => [] end.
Definition K_fts : str := bs "fts"%bs.
Definition seq_view (o : obj) : str * str * list (list (Z * Z * str * Z)) :=
  match o with
  | OSeq d m t => (d, t, match lookup K_fts m with Some (OFts fl) => map feat_view fl | _ => [] end)
  | _ => ([], [], [])
  end.
Definition basket_view (o : obj) : list (str * str * list (list (Z * Z * str * Z))) :=
  match o with OBasket data _ => map seq_view data | _ => [] end.
(* JSON without any `_cls` key is returned as plain Python data *)
Fixpoint plain_of (j : json) : obj :=
  match j with
  | JNull => ONone | JBool b => OBool b | JInt z => OInt z | JFloat l => OFloat l | JStr s => OStr s
  | JArr l => OList (map plain_of l)
  | JObj kv => ODict (map (fun p => match p with (k, v) => (k, plain_of v) end) kv)
  end.
Fixpoint no_cls (j : json) : bool :=
  match j with
  | JArr l => forallb no_cls l
  | JObj kv => negb (has_key K_cls kv) && forallb (fun p => no_cls (snd p)) kv
  | _ => true
  end.
Definition documented_error (e : str) : bool := mem_str e [E_Type; E_Value; E_Key; E_Assert].

(* ---- hand-written SJSON: the domain on which the hook model claims to be faithful, errors included ---------------------- *)
Definition is_jint (j : json) : bool := match j with JInt _ => true | _ => false end.
Definition is_jnull (j : json) : bool := match j with JNull => true | _ => false end.
Definition is_jstr (j : json) : bool := match j with JStr _ => true | _ => false end.
Definition is_jobj (j : json) : bool := match j with JObj _ => true | _ => false end.
Definition is_jarr (j : json) : bool := match j with JArr _ => true | _ => false end.
Definition jstr_ascii (j : json) : bool :=
  match j with JStr s => forallb (fun c => N.ltb (Byte.to_N c) 128) s | _ => false end.
Definition jdefect_ok (j : json) : bool := match j with JInt z => Z.leb 0 z && Z.ltb z 256 | JNull => true | _ => false end.
Definition jtag (j : json) : option str :=
  match j with
  | JObj kv => match lookup K_cls kv with Some (JStr n) => Some n | _ => None end
  | _ => None
  end.
Definition jtag_in (names : list str) (j : json) : bool :=
  match jtag j with Some n => mem_str n names | None => false end.
Definition jopt (f : json -> bool) (o : option json) : bool := match o with None => true | Some j => f j end.
Definition jor (f g : json -> bool) (j : json) : bool := f j || g j.
(* a location written as a list: [start, stop(, strand(, defect(, meta)))] *)
Definition jloc_list_ok (j : json) : bool :=
  match j with
  | JArr (JInt _ :: JInt _ :: rest) =>
      match rest with
      | [] => true
      | s :: rest1 => jor is_jstr is_jnull s &&
          match rest1 with
          | [] => true
          | d :: rest2 => jdefect_ok d &&
              match rest2 with
              | [] => true
              | m :: rest3 => jor is_jnull is_jobj m && forallb (fun x => negb (is_jobj x) && negb (is_jarr x)) rest3
              end
          end
      end
  | _ => false
  end.
Definition jlocs_ok (j : json) : bool :=
  match j with
  | JNull => true
  | JArr l => forallb (fun x => jtag_in [N_Location] x || jloc_list_ok x) l
  | _ => false
  end.
Definition jfields_ok (name : str) (kv : list (str * json)) : bool :=
  let f := fun k => lookup k kv in
  if str_eqb name N_Location then
    jopt is_jint (f K_start) && jopt is_jint (f K_stop) && jopt (jor is_jstr is_jnull) (f K_strand)
    && jopt jdefect_ok (f K_defect) && jopt (jor is_jnull is_jobj) (f K_meta)
  else if str_eqb name N_Feature then
    jopt (jor is_jint is_jnull) (f K_start) && jopt (jor is_jint is_jnull) (f K_stop) && jopt (jor is_jstr is_jnull) (f K_strand)
    && jopt jlocs_ok (f K_locs) && jopt (jor is_jnull is_jobj) (f K_meta)
  else if str_eqb name N_FeatureList then
    jopt (fun j => is_jnull j || is_jarr j || jtag_in [N_FeatureList; N_BioBasket] j) (f K_data)
  else if str_eqb name N_BioSeq then
    jopt (fun j => jstr_ascii j || jtag_in [N_BioSeq] j) (f K_data)
    && jopt (fun j => negb (is_jobj j) && negb (is_jarr j)) (f K_id)
    && jopt (jor is_jnull is_jobj) (f K_meta)
  else if str_eqb name N_BioBasket then
    jopt (fun j => is_jnull j || is_jarr j || jtag_in [N_FeatureList; N_BioBasket] j) (f K_data)
    && jopt (jor is_jnull is_jobj) (f K_meta)
  else true.
(* the value of `_cls`: a class of SUGAR that is modelled, a name that is no global of the module (KeyError), or a
   non-string whose truth value / hashability the model reproduces *)
Definition jcls_ok (c : json) : bool :=
  match c with
  | JStr n => mem_str n [cls_name CAttr; cls_name CMeta; N_Location; N_Feature; N_FeatureList; N_BioSeq; N_BioBasket]
              || negb (mem_str n SJSON_GLOBALS)
  | JFloat _ => false
  | JObj kv => negb (has_key K_cls kv)
  | _ => true
  end.
Fixpoint jshape (j : json) : bool :=
  match j with
  | JArr l => forallb jshape l
  | JObj kv =>
      nodup_keys (keys kv) && forallb (fun k => negb (mem_str k SJSON_ATTR_RESERVED)) (keys kv)
      && forallb (fun p => jshape (snd p)) kv
      && match lookup K_cls kv with
         | None => true
         | Some c => jcls_ok c && match c with JStr n => jfields_ok n kv | _ => true end
         end
  | _ => true
  end.
(* read_sjson on arbitrary JSON (viaread = false), or sugar.read of a file whose top-level object is a tagged BioBasket *)
Definition read_any (viaread : bool) (j : json) : res obj :=
  if viaread then
    bind (dec (match j with JObj kv => JObj ((K_fmtcomment, JStr SJSON_COMMENT) :: kv) | _ => j end)) read_glue
  else dec j.
Definition wf_json (viaread : bool) (j : json) : bool :=
  jshape j &&
  (negb viaread ||
   (jtag_in [N_BioBasket] j && negb (match j with JObj kv => has_key K_fmtcomment kv | _ => false end) &&
    match dec j with Ok (OBasket data _) => forallb is_seq data | Ok _ => false | Err _ => true end)).

(* ---- the sniffer is_sjson, sjson.py:68-70, on the head of the written text ------------------------------------------------ *)
Definition lower1 (c : byte) : byte :=
  let n := Byte.to_N c in
  if (N.leb 65 n && N.leb n 90)%N then match Byte.of_N (n + 32) with Some b => b | None => c end else c.
Definition lower (s : str) : str := map lower1 s.
Definition is_sjson (content : str) : bool :=
  substr_b (lower (firstn SJSON_SNIFF_PREFIX SJSON_COMMENT)) (lower (firstn SJSON_SNIFF_READ content)).
(* trusted text layer: json.dump with default separators starts an object whose first entry is a plain ASCII string pair with
   brace, quoted key, colon, space, opening quote, value   (checked against the real text on every case by the driver) *)
Definition plain_char (c : byte) : bool :=
  let n := Byte.to_N c in (N.leb 32 n && N.ltb n 127 && negb (N.eqb n 34) && negb (N.eqb n 92))%N.
Definition text_head (j : json) : str :=
  match j with
  | JObj ((k, JStr v) :: _) =>
      if forallb plain_char k && forallb plain_char v then bs "{"""%bs ++ k ++ bs """: """%bs ++ v else []
  | _ => []
  end.

(* ---- harness entry point -------------------------------------------------------------------------------------------- *)
Fixpoint show_obj (o : obj) : val :=
  match o with
  | ONone => VNone
  | OBool b => VB b
  | OInt z => VI z
  | OFloat l => VL [VS (bs "f"%bs); VS l]
  | OStr s => VS s
  | OList l => VL (VS (bs "l"%bs) :: map show_obj l)
  | ODict kv => VL (VS (bs "d"%bs) :: map (fun p => match p with (k, v) => VL [VS k; show_obj v] end) kv)
  | OAttr c kv => VL (VS (cls_name c) :: map (fun p => match p with (k, v) => VL [VS k; show_obj v] end) kv)
  | OLoc a b s d m =>
      VL [VS N_Location; VI a; VI b; VS s; VI d;
          VL (VS (cls_name CMeta) ::
              match m with
              | None => []                 (* the public property loc.meta shows an empty Meta *)
              | Some kv => map (fun p => match p with (k, v) => VL [VS k; show_obj v] end) kv
              end)]
  | OFeat m locs =>
      VL [VS N_Feature; VL (VS (cls_name CMeta) :: map (fun p => match p with (k, v) => VL [VS k; show_obj v] end) m);
          VL (map show_obj locs)]
  | OFts data => VL (VS N_FeatureList :: map show_obj data)
  | OSeq d m t =>
      VL [VS N_BioSeq; VS d; VS t; VL (VS (cls_name CMeta) :: map (fun p => match p with (k, v) => VL [VS k; show_obj v] end) m)]
  | OBasket data m =>
      VL [VS N_BioBasket; VL (map show_obj data);
          VL (VS (cls_name CMeta) :: map (fun p => match p with (k, v) => VL [VS k; show_obj v] end) m)]
  end.
Definition show_res (r : res obj) : val := match r with Ok o => show_obj o | Err e => VE e end.
Definition run_C14 (b : obj) : val := VL [VB (wf_C14 b); show_res (write_read b)].
Definition run_C14_json (viaread : bool) (j : json) : val := VL [VB (wf_json viaread j); show_res (read_any viaread j)].
