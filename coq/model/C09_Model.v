(* C09 model: sugar.index.fastaindex (scanner, extraction, pack/unpack, lookup) and the part of sugar._io.fasta.iter_fasta
   that FastaIndex.get applies to the extracted text.  Files are flat [list byte]; positions are [nat].
   The storage back ends (binarysearchfile, dbm) and the header persistence are NOT modelled: the index is the list of
   scanner entries (trusted stores, compared relationally by the harness: binary = dbm = reopened).  No proofs here. *)
From Coq Require Import List Arith ZArith NArith Bool.
From Coq.Strings Require Import Byte.
Import ListNotations.
From SV Require Import Text.

Definition GT : byte := ">"%byte.
Definition LF : byte := x0a.
Definition CR : byte := x0d.
Definition SEMI : byte := ";"%byte.

(* ------------------------------------------------------------------ abstract FASTA files (the quantifier of C09) *)
Record arec := ARec { rid : str; rdesc : str; rseq : str; rw : nat }.
Inductive finput :=
| FRaw (b : str)                                        (* arbitrary bytes: never well-formed, compared for drift only *)
| FAbs (crlf final : bool) (recs : list arec).          (* records wrapped at their own width, one newline style *)

Definition nl_of (crlf : bool) : str := if crlf then [CR; LF] else [LF].

(* residues wrapped at width w: the newline follows every w-th residue (DESIGN appendix A, [wrap_from]) *)
Definition brk (nl : str) (w k : nat) : str := if (S k) mod w =? 0 then nl else [].
Fixpoint wrap_from (nl : str) (w k : nat) (s : str) : str :=
  match s with
  | [] => []
  | c :: s' => c :: brk nl w k ++ wrap_from nl w (S k) s'
  end.
(* the record as text, every line terminated *)
Definition header_line (nl : str) (r : arec) : str := GT :: rid r ++ rdesc r ++ nl.
Definition body (nl : str) (r : arec) : str :=
  wrap_from nl (rw r) 0 (rseq r) ++ (if (length (rseq r)) mod (rw r) =? 0 then [] else nl).
Definition render_rec (nl : str) (r : arec) : str := header_line nl r ++ body nl r.
Definition render_recs (nl : str) (rs : list arec) : str := concat (map (render_rec nl) rs).
(* without a final newline the last line terminator of the file is dropped *)
Definition render_file (crlf final : bool) (rs : list arec) : str :=
  let t := render_recs (nl_of crlf) rs in
  if final then t else firstn (length t - length (nl_of crlf)) t.
Definition file_bytes (f : finput) : str :=
  match f with FRaw b => b | FAbs crlf final rs => render_file crlf final rs end.
(* helper for the case printer: k copies of a unit (long sequences without long literals) *)
Fixpoint rep (k : nat) (u : str) : str := match k with 0 => [] | S k' => u ++ rep k' u end.

(* ------------------------------------------------------------------ mmap primitives *)
Fixpoint find_b (c : byte) (s : str) : option nat :=
  match s with
  | [] => None
  | x :: r => if byte_eqb x c then Some 0 else option_map S (find_b c r)
  end.
(* mmap.find(c, lo[, hi]) ; None = -1 *)
Definition mfind (c : byte) (f : str) (lo : nat) (hi : option nat) : option nat :=
  let t := skipn lo f in
  let t := match hi with None => t | Some h => firstn (h - lo) t end in
  option_map (Nat.add lo) (find_b c t).
(* the bytes readline() returns from a position: up to and including the first LF *)
Fixpoint take_line (s : str) : str :=
  match s with
  | [] => []
  | x :: r => if byte_eqb x LF then [x] else x :: take_line r
  end.
Definition readline_at (f : str) (pos : nat) : str := take_line (skipn pos f).
(* f.read(n) from a position; None or a negative count reads to the end of the map *)
Definition read_at (f : str) (pos : nat) (n : option nat) : str :=
  match n with None => skipn pos f | Some k => firstn k (skipn pos f) end.

(* bytes.split()[0] : first maximal run of non-whitespace bytes *)
Definition is_ws_bytes (c : byte) : bool :=
  match c with " " | x09 | x0a | x0b | x0c | x0d => true | _ => false end%byte.
Fixpoint drop_ws (s : str) : str :=
  match s with [] => [] | c :: r => if is_ws_bytes c then drop_ws r else s end.
Fixpoint take_word (s : str) : str :=
  match s with [] => [] | c :: r => if is_ws_bytes c then [] else c :: take_word r end.
Definition first_word (s : str) : option str :=
  match take_word (drop_ws s) with [] => None | w => Some w end.

(* ------------------------------------------------------------------ _iter_fasta_index, fastaindex.py:41-86 *)
Record entry := Entry { e_id : str; e_fn : nat; e_linelen : nat; e_start : nat }.
Inductive res (A : Type) := Ok (a : A) | Err (kind : str).
Arguments Ok {A} a. Arguments Err {A} kind.

Definition opt_nat_eqb (o : option nat) (n : nat) : bool := match o with Some k => k =? n | None => false end.
Definition is_none {A} (o : option A) : bool := match o with None => true | Some _ => false end.

(* one pass of the while loop at fastaindex.py:59-78; [start] is the position of a '>' *)
Definition scan_step (f : str) (fn start : nat) : res (entry * option nat) :=
  let line := readline_at f (start + 1) in                                   (* :61-63 *)
  match first_word line with
  | None => Err (bs "ValueError"%bs)                                          (* :64-65 empty id *)
  | Some seqid =>
      let startline := start + 1 + length line in                            (* :66 *)
      let endline := if opt_nat_eqb (mfind GT f startline (Some (startline + 1))) startline
                     then startline                                          (* :67-69 empty record *)
                     else startline + length (readline_at f startline) in    (* :71-72 *)
      let next := mfind GT f endline None in                                 (* :73 *)
      let linelen := if opt_nat_eqb next endline || (is_none next && (endline =? length f))
                     then 0 else endline - startline in                      (* :74-77 *)
      Ok (Entry seqid fn linelen start, next)
  end.
Fixpoint scan_loop (fuel : nat) (f : str) (fn start : nat) : res (list entry) :=
  match fuel with
  | 0 => Err (bs "Fuel"%bs)
  | S fuel' =>
      match scan_step f fn start with
      | Err k => Err k
      | Ok (e, None) => Ok [e]
      | Ok (e, Some nxt) =>
          match scan_loop fuel' f fn nxt with
          | Ok es => Ok (e :: es)
          | Err k => Err k
          end
      end
  end.
Definition scan_file (f : str) (fn : nat) : res (list entry) :=
  match f with
  | [] => Err (bs "ValueError"%bs)                      (* mmap refuses an empty file *)
  | _ => match mfind GT f 0 None with                   (* :58 *)
         | None => Ok []
         | Some st => scan_loop (S (length f)) f fn st
         end
  end.

(* ------------------------------------------------------------------ _pack / _unpack, fastaindex.py:150-157 *)
(* int.to_bytes(len) big endian; None = OverflowError *)
Fixpoint to_bytes_rev (len : nat) (n : N) : option (list byte) :=
  match len with
  | 0 => if N.eqb n 0 then Some [] else None
  | S len' =>
      match Byte.of_N (N.modulo n 256), to_bytes_rev len' (N.div n 256) with
      | Some b, Some r => Some (b :: r)
      | _, _ => None
      end
  end.
Definition to_bytes (len : nat) (n : N) : option (list byte) := option_map (@rev byte) (to_bytes_rev len n).
Definition from_bytes (b : list byte) : N := fold_left (fun acc c => (acc * 256 + Byte.to_N c)%N) b 0%N.
Definition bit_length (n : N) : nat := N.to_nat (N.size n).
Definition pack (fn linelen start : N) : option (list byte) :=
  match to_bytes 2 fn, to_bytes 2 linelen, to_bytes (bit_length start) start with
  | Some a, Some b, Some c => Some (a ++ b ++ c)
  | _, _, _ => None
  end.
Definition unpack (b : list byte) : N * N * N :=
  (from_bytes (firstn 2 b), from_bytes (firstn 2 (skipn 2 b)), from_bytes (skipn 4 b)).

(* ------------------------------------------------------------------ _extract_seqdata, fastaindex.py:89-138 *)
Inductive qkind := QHeader | QFull | QRange (i j : option Z).

Definition ends_crlf (h : str) : bool :=
  match rev h with a :: b :: _ => byte_eqb a LF && byte_eqb b CR | _ => false end.
Definition opt_or (o : option nat) (d : nat) : nat := match o with Some k => k | None => d end.

Definition extract (f : str) (linelen start : nat) (q : qkind) : res str :=
  match q with
  | QHeader => Ok (readline_at f start)                                       (* :94-95 *)
  | QFull =>
      let k := mfind GT f (start + 1) None in                                (* :98 *)
      Ok (read_at f start (option_map (fun k => k - start) k))               (* :99-100 *)
  | QRange i j =>
      let header := readline_at f start in                                   (* :103 *)
      let offset := start + length header in                                 (* :104 *)
      let nlec := if ends_crlf header then 2 else 1 in                       (* :106-111 *)
      let bad := negb (linelen =? 0) && (linelen <=? nlec) in                (* x // 0 (or a negative divisor) *)
      let comp x := if linelen =? 0 then x else x + (x / (linelen - nlec)) * nlec in
      (* :112-118 *)
      let ri := match i with
                | None => Ok 0
                | Some z => if (z <? 0)%Z then Ok 0
                            else if bad then Err (bs "ZeroDivisionError"%bs)
                            else Ok (comp (Z.to_nat z))
                end in
      match ri with
      | Err k => Err k
      | Ok i1 =>
          let recend := opt_or (mfind GT f offset None) (length f) - offset in      (* :120-121 *)
          let i2 := if recend <? i1 then recend else i1 in                           (* :122-123 *)
          match j with
          | None =>                                                                  (* :124-127 *)
              let k := mfind GT f (offset + i2) None in
              Ok (header ++ read_at f (offset + i2) (option_map (fun k => k - offset - i2) k))
          | Some z =>
              if (z <? 0)%Z then Err (bs "ValueError"%bs)                            (* :128-129 *)
              else if bad then Err (bs "ZeroDivisionError"%bs)
              else
                let j1 := comp (Z.to_nat z) in                                       (* :131-132 *)
                let j2 := match mfind GT f (offset + i2) (Some (offset + j1)) with   (* :133-135 *)
                          | Some k => k - offset
                          | None => j1
                          end in
                (* :136-138; a negative count reads to the end of the map *)
                Ok (header ++ read_at f (offset + i2) (if j2 <? i2 then None else Some (j2 - i2)))
          end
      end
  end.

(* ------------------------------------------------------------------ sugar._io.fasta.iter_fasta on the extracted text, [0] *)
(* str.strip() / \s.  The text the reader sees is the UTF-8 decoding of the bytes (FastaIndex._search decodes latin1,
   BioBasket.fromfmtstr encodes latin1 again, read() decodes UTF-8; sugar.read of the file decodes UTF-8 too), so a byte
   >= 0x80 is never white space by itself; multi-byte white space (NBSP, NEL, U+2000.. ) is excluded from the domain by
   [desc_text_ok]. *)
Definition is_ws_str (c : byte) : bool :=
  match c with " " | x09 | x0a | x0b | x0c | x0d | x1c | x1d | x1e | x1f => true | _ => false end%byte.
Fixpoint lstrip_ws (s : str) : str :=
  match s with [] => [] | c :: r => if is_ws_str c then lstrip_ws r else s end.
Definition strip_ws (s : str) : str := rev (lstrip_ws (rev (lstrip_ws s))).
Fixpoint lstrip_gt (s : str) : str :=
  match s with [] => [] | c :: r => if byte_eqb c GT then lstrip_gt r else s end.
(* iteration over a text stream: lines keep their LF *)
Fixpoint lines_keep_aux (cur : str) (s : str) : list str :=
  match s with
  | [] => match cur with [] => [] | _ => [rev cur] end
  | c :: r => if byte_eqb c LF then rev (c :: cur) :: lines_keep_aux [] r else lines_keep_aux (c :: cur) r
  end.
Definition lines_keep (s : str) : list str := lines_keep_aux [] s.
Definition starts_with (c : byte) (s : str) : bool := match s with x :: _ => byte_eqb x c | [] => false end.
Definition upper1 (c : byte) : byte :=
  let n := Byte.to_N c in
  if (N.leb 97 n && N.leb n 122)%bool then match Byte.of_N (n - 32) with Some b => b | None => c end else c.
Definition upper (s : str) : str := map upper1 s.
(* CHS = [^,|;\s] ; third alternative of IDPATTERN (fasta.py:26-33); the first two need ':' or '|' *)
Definition is_chs (c : byte) : bool :=
  negb (is_ws_str c || byte_eqb c ","%byte || byte_eqb c "|"%byte || byte_eqb c ";"%byte).
Fixpoint take_chs (s : str) : str :=
  match s with [] => [] | c :: r => if is_chs c then c :: take_chs r else [] end.
Definition id_from_header (h : str) : option str :=
  match take_chs h with [] => None | w => Some w end.

(* fasta.py:47-84 restricted to the first yielded record; state = header and data so far *)
Fixpoint fasta_first (ls : list str) (cur : option (str * str)) : res (str * str) :=
  match ls with
  | [] => match cur with Some hd => Ok hd | None => Err (bs "IndexError"%bs) end
  | l :: r =>
      if starts_with GT l then
        match cur with
        | Some hd => Ok hd
        | None => fasta_first r (Some (strip_ws (lstrip_gt l), []))
        end
      else if starts_with SEMI l then fasta_first r cur
      else match cur with
           | None => match strip_ws l with                                   (* :78-81 *)
                     | [] => fasta_first r cur                                (* blank line before the first header *)
                     | _ => Err (bs "ValueError"%bs)
                     end
           | Some (h, d) => fasta_first r (Some (h, d ++ strip_ws l))
           end
  end.
(* (id, header, residues) of BioBasket.fromfmtstr(text, 'fasta')[0]; BioSeq upper-cases its data (seq.py:214) *)
Definition parse_get (txt : str) : res (option str * str * str) :=
  match fasta_first (lines_keep txt) None with
  | Ok (h, d) => Ok (id_from_header h, h, upper d)
  | Err k => Err k
  end.

(* the whole-file reader: fasta.py:47-84, every record in order ("reading the file").  Lines are split at LF; what
   CPython's text layer does before (universal newlines: CRLF and a lone CR become LF) is not modelled -- on files without
   a lone CR the stripped lines are the same. *)
Definition push_rec (cur : option (str * str)) (acc : list (str * str)) : list (str * str) :=
  match cur with Some hd => hd :: acc | None => acc end.
Fixpoint fasta_all (ls : list str) (cur : option (str * str)) (acc : list (str * str)) : res (list (str * str)) :=
  match ls with
  | [] => Ok (rev (push_rec cur acc))
  | l :: r =>
      if starts_with GT l then fasta_all r (Some (strip_ws (lstrip_gt l), [])) (push_rec cur acc)
      else if starts_with SEMI l then fasta_all r cur acc
      else match cur with
           | None => match strip_ws l with
                     | [] => fasta_all r cur acc
                     | _ => Err (bs "ValueError"%bs)
                     end
           | Some (h, d) => fasta_all r (Some (h, d ++ strip_ws l)) acc
           end
  end.
(* sugar.read(file, 'fasta'): (id, header, residues) of every record *)
Definition read_fasta (txt : str) : res (list (option str * str * str)) :=
  match fasta_all (lines_keep txt) None [] with
  | Ok l => Ok (map (fun hd => (id_from_header (fst hd), fst hd, upper (snd hd))) l)
  | Err k => Err k
  end.

(* ------------------------------------------------------------------ FastaIndex.add / _search / get* , fastaindex.py:243-335 *)
Fixpoint scan_files (fs : list str) (fn : nat) : res (list entry) :=
  match fs with
  | [] => Ok []
  | f :: r =>
      match scan_file f fn with
      | Err k => Err k
      | Ok es => match scan_files r (S fn) with Ok es' => Ok (es ++ es') | Err k => Err k end
      end
  end.
(* dbm: later assignments overwrite (fastaindex.py:262); ids are distinct on the claimed domain *)
Fixpoint lookup (id : str) (es : list entry) (acc : option entry) : option entry :=
  match es with
  | [] => acc
  | e :: r => lookup id r (if str_eqb (e_id e) id then Some e else acc)
  end.
Definition MODE_BINARY : N := 0%N.
Definition MODE_DB : N := 1%N.
(* what the store hands back for an entry: dbm values go through _pack/_unpack *)
Definition stored (mode : N) (e : entry) : res (nat * nat * nat) :=
  if N.eqb mode MODE_DB then
    match pack (N.of_nat (e_fn e)) (N.of_nat (e_linelen e)) (N.of_nat (e_start e)) with
    | None => Err (bs "OverflowError"%bs)
    | Some b => let '(a, l, s) := unpack b in Ok (N.to_nat a, N.to_nat l, N.to_nat s)
    end
  else Ok (e_fn e, e_linelen e, e_start e).
Fixpoint all_stored (mode : N) (es : list entry) : option str :=
  match es with
  | [] => None
  | e :: r => match stored mode e with Err k => Some k | Ok _ => all_stored mode r end
  end.

(* api: 0 get, 1 get_fasta, 2 get_fastaheader *)
Record query := Query { q_api : N; q_id : str; q_rng : option (option Z * option Z) }.
Definition qkind_of (q : query) : qkind :=
  if N.eqb (q_api q) 2 then QHeader                                           (* onlyheader wins, :94 *)
  else match q_rng q with
       | None | Some (None, None) => QFull                                   (* :96 *)
       | Some (i, j) => QRange i j
       end.
Definition VStrO (o : option str) : val := match o with Some s => VS s | None => VNone end.
Definition answer (mode : N) (files : list str) (es : list entry) (q : query) : val :=
  match lookup (q_id q) es None with
  | None => VE (if N.eqb mode MODE_DB then bs "KeyError"%bs else bs "ValueError"%bs)
  | Some e =>
      match stored mode e with
      | Err k => VE k
      | Ok (fn, linelen, start) =>
          match extract (nth fn files []) linelen start (qkind_of q) with
          | Err k => VE k
          | Ok txt =>
              if N.eqb (q_api q) 0 then
                match parse_get txt with
                | Ok (id, h, d) => VL [VStrO id; VS h; VS d]
                | Err k => VE k
                end
              else VS txt
          end
      end
  end.

(* number of distinct ids = len(index) *)
Fixpoint distinct_ids (es : list entry) (seen : list str) : nat :=
  match es with
  | [] => 0
  | e :: r => if existsb (str_eqb (e_id e)) seen then distinct_ids r seen else S (distinct_ids r (e_id e :: seen))
  end.

(* adler32 of the file bytes: ties the harness' renderer to [render_file] *)
Definition adler32 (s : str) : N :=
  let '(a, b) := fold_left (fun '(a, b) c => let a' := ((a + Byte.to_N c) mod 65521)%N in (a', ((b + a') mod 65521)%N))
                           s (1%N, 0%N) in (b * 65536 + a)%N.

(* ------------------------------------------------------------------ domain predicate *)
Definition printable (c : byte) : bool := let n := Byte.to_N c in (N.leb 33 n && N.leb n 126)%bool.
Definition is_colon (c : byte) : bool := byte_eqb c ":"%byte.
Definition id_char (c : byte) : bool :=
  printable c && negb (byte_eqb c GT || byte_eqb c ","%byte || byte_eqb c "|"%byte || byte_eqb c SEMI || is_colon c).
Definition desc_char (c : byte) : bool :=
  (printable c || byte_eqb c " "%byte || byte_eqb c x09 || N.leb 128 (Byte.to_N c)) && negb (byte_eqb c GT).
Definition res_char (c : byte) : bool := printable c && negb (byte_eqb c GT || byte_eqb c SEMI).
Definition wf_id (s : str) : bool := negb (match s with [] => true | _ => false end) && forallb id_char s.
Definition wf_desc (s : str) : bool :=
  match s with
  | [] => true
  | c :: _ => (byte_eqb c " "%byte || byte_eqb c x09) && forallb desc_char s
  end.
Definition HEADER_KEY : str := bs "header"%bs.
(* F15 (open): dbm mode cannot store a line length >= 65536; the scanner reports a line length only for records that
   continue after their first line.  F16 (open): dbm mode keeps its own header under the key 'header'. *)
Definition wf_rec (mode : N) (nllen : nat) (r : arec) : bool :=
  wf_id (rid r) && wf_desc (rdesc r) && forallb res_char (rseq r) && (1 <=? rw r)
  && (if N.eqb mode MODE_DB
      then negb (str_eqb (rid r) HEADER_KEY)                                   (* F16 *)
           && ((length (rseq r) <=? rw r) || N.ltb (N.of_nat (rw r + nllen)) 65536)        (* F15 *)
      else true).
(* header descriptions may hold non-ASCII text as UTF-8 bytes.  Well-formed UTF-8 (CPython's strict decoder: no overlong
   forms, no surrogates, <= U+10FFFF), and none of the multi-byte white-space characters str.strip()/\s would remove
   (conservatively: no C2 85, C2 A0, E1 9A .., E2 80 .., E2 81 .., E3 80 ..). *)
Definition in_rng (c : byte) (lo hi : N) : bool := let n := Byte.to_N c in (N.leb lo n && N.leb n hi)%bool.
Definition cont (c : byte) : bool := in_rng c 128 191.
Fixpoint utf8_valid (s : str) : bool :=
  match s with
  | [] => true
  | b :: r =>
      let n := Byte.to_N b in
      if N.ltb n 128 then utf8_valid r
      else if in_rng b 194 223 then match r with c1 :: r1 => cont c1 && utf8_valid r1 | _ => false end
      else if N.eqb n 224 then match r with c1 :: c2 :: r2 => in_rng c1 160 191 && cont c2 && utf8_valid r2 | _ => false end
      else if N.eqb n 237 then match r with c1 :: c2 :: r2 => in_rng c1 128 159 && cont c2 && utf8_valid r2 | _ => false end
      else if in_rng b 225 239 then match r with c1 :: c2 :: r2 => cont c1 && cont c2 && utf8_valid r2 | _ => false end
      else if N.eqb n 240 then match r with c1 :: c2 :: c3 :: r3 => in_rng c1 144 191 && cont c2 && cont c3 && utf8_valid r3 | _ => false end
      else if in_rng b 241 243 then match r with c1 :: c2 :: c3 :: r3 => cont c1 && cont c2 && cont c3 && utf8_valid r3 | _ => false end
      else if N.eqb n 244 then match r with c1 :: c2 :: c3 :: r3 => in_rng c1 128 143 && cont c2 && cont c3 && utf8_valid r3 | _ => false end
      else false
  end.
Fixpoint no_uni_ws (s : str) : bool :=
  match s with
  | [] => true
  | b :: r =>
      let n := Byte.to_N b in
      negb (match r with
            | c1 :: _ => (N.eqb n 194 && (N.eqb (Byte.to_N c1) 133 || N.eqb (Byte.to_N c1) 160))
                         || (N.eqb n 225 && N.eqb (Byte.to_N c1) 154)
                         || (N.eqb n 226 && (N.eqb (Byte.to_N c1) 128 || N.eqb (Byte.to_N c1) 129))
                         || (N.eqb n 227 && N.eqb (Byte.to_N c1) 128)
            | [] => false
            end)
      && no_uni_ws r
  end.
Definition desc_text_ok (s : str) : bool := utf8_valid s && no_uni_ws s.
Definition wf_file (mode : N) (f : finput) : bool :=
  match f with
  | FRaw _ => false
  | FAbs crlf final rs =>
      negb (match rs with [] => true | _ => false end) && forallb (wf_rec mode (length (nl_of crlf))) rs
      && forallb (fun r => desc_text_ok (rdesc r)) rs
  end.
Definition ids_of (f : finput) : list str := match f with FRaw _ => [] | FAbs _ _ rs => map rid rs end.
Fixpoint nodup_str (l : list str) : bool :=
  match l with [] => true | x :: r => negb (existsb (str_eqb x) r) && nodup_str r end.
Definition wf_query (q : query) : bool :=
  (N.ltb (q_api q) 3) &&
  match q_rng q with
  | None => true
  | Some (i, j) =>
      let i0 := match i with Some z => z | None => 0%Z end in
      (0 <=? i0)%Z && match j with Some z => (i0 <? z)%Z | None => true end
  end.
(* history: addmode 0 = one add call with a glob, 1 = one add call with a list, 2 = one add call per file (binary: force=True);
   reopen = the index object is discarded and the index file opened again before the queries.  All histories are in the
   domain (the duplicated header start line after add(force=True) was repaired in /repo, commit 056c3d1; the witness stays
   in corpus/C09). *)
Definition wf_hist (mode addmode : N) (reopen : bool) (nfiles : nat) : bool := N.ltb addmode 3.
(* registration order (fastaindex.py:253-259): [order] lists the positions (in the name-sorted file list) of the files in the
   order in which add() registers them; the file number stored with every record is the position in THAT list.  One add call
   sorts its file names (:249-251), so only one-call-per-file histories can register in another order. *)
Fixpoint nat_list_eqb (a b : list nat) : bool :=
  match a, b with
  | [], [] => true
  | x :: a', y :: b' => (x =? y) && nat_list_eqb a' b'
  | _, _ => false
  end.
Definition is_perm (order : list nat) (n : nat) : bool :=
  (length order =? n) && forallb (fun k => existsb (Nat.eqb k) order) (seq 0 n).
Definition wf_order (addmode : N) (order : list nat) (nfiles : nat) : bool :=
  is_perm order nfiles && (N.eqb addmode 2 || nat_list_eqb order (seq 0 nfiles)).
(* self.files of the index: the registered files in registration order *)
Definition registered {A} (order : list nat) (fs : list A) (d : A) : list A := map (fun k => nth k fs d) order.
Definition wf_C09 (mode addmode : N) (reopen : bool) (order : list nat) (files : list finput) (qs : list query) : bool :=
  (N.ltb mode 2) && negb (match files with [] => true | _ => false end) && wf_hist mode addmode reopen (length files)
  && wf_order addmode order (length files)
  && forallb (wf_file mode) files && nodup_str (concat (map ids_of files)) && forallb wf_query qs.

(* all ranges 0 <= i < j <= m on one record, api alternating get / get_fasta (expanded identically by the harness) *)
Definition box_queries (id : str) (m : nat) : list query :=
  flat_map (fun i => map (fun j => Query (N.of_nat ((i + j) mod 2)) id (Some (Some (Z.of_nat i), Some (Z.of_nat j))))
                         (seq (i + 1) (m - i))) (seq 0 m).

(* ------------------------------------------------------------------ header persistence: FastaIndex.add :268-275, _read_header :235-241 *)
(* str.split(c): always at least one element *)
Fixpoint split_on_aux (c : byte) (cur : str) (s : str) : list str :=
  match s with
  | [] => [rev cur]
  | x :: r => if byte_eqb x c then rev cur :: split_on_aux c [] r else split_on_aux c (x :: cur) r
  end.
Definition split_on (c : byte) (s : str) : list str := split_on_aux c [] s.
Fixpoint join_with (c : byte) (l : list str) : str :=
  match l with
  | [] => []
  | [x] => x
  | x :: r => x ++ c :: join_with c r
  end.
Definition COMMA : byte := ","%byte.
Definition spaces50 : str := repeat " "%byte 50.
(* header = ','.join([path + ' ' * 50 * (mode == 'binary')] + self.files)   -- files in REGISTRATION order *)
Definition header_bytes (mode : N) (path : str) (files : list str) : str :=
  join_with COMMA ((if N.eqb mode MODE_BINARY then path ++ spaces50 else path) :: files).
(* what the store keeps: binary = headerstart + header (BinarySearchFile.write), db = db['header'] *)
Definition stored_header (mode : N) (headerstart path : str) (files : list str) : str :=
  if N.eqb mode MODE_BINARY then headerstart ++ header_bytes mode path files else header_bytes mode path files.
(* _read_header: binary  map(str.strip, header.split('\n')[1].split(','))  ;  db  header.split(',')  ; None = IndexError *)
Definition read_header (mode : N) (stored : str) : option (str * list str) :=
  if N.eqb mode MODE_BINARY then
    match split_on LF stored with
    | _ :: l1 :: _ => match map strip_ws (split_on COMMA l1) with p :: fs => Some (p, fs) | [] => None end
    | _ => None
    end
  else match split_on COMMA stored with p :: fs => Some (p, fs) | [] => None end.
Definition no_byte (c : byte) (s : str) : bool := forallb (fun x => negb (byte_eqb x c)) s.
Definition wf_name (s : str) : bool := no_byte COMMA s && no_byte LF s && str_eqb (strip_ws s) s.
Definition wf_header (mode : N) (headerstart path : str) (files : list str) : bool :=
  N.ltb mode 2 && wf_name path && forallb wf_name files
  && match rev headerstart with x :: r => byte_eqb x LF && no_byte LF r | [] => false end
  (* the stored header is decoded as latin1, where 0x85 / 0xa0 would be white space for str.strip: names are ASCII here *)
  && forallb (forallb (fun c => N.ltb (Byte.to_N c) 128)) (path :: files).
Definition run_C09_header (mode : N) (headerstart path : str) (files : list str) : val :=
  let st := stored_header mode headerstart path files in
  VL [VB (wf_header mode headerstart path files); VS st;
      match read_header mode st with
      | Some (p, fs) => VL [VS p; VL (map VS fs)]
      | None => VE (bs "IndexError"%bs)
      end].

(* ------------------------------------------------------------------ harness entry point *)
(* the answers do not depend on addmode/reopen (the stores are trusted and compared relationally); they do depend on the
   registration order: file numbers index the registered list, which a reopened index reads back from its header *)
Definition run_C09 (mode addmode : N) (reopen : bool) (order : list nat) (files : list finput) (qs : list query) : val :=
  let fbs := map file_bytes files in
  let reg := registered order fbs [] in
  let rd b := match read_fasta b with
              | Ok l => VL (map (fun x => VL [VStrO (fst (fst x)); VS (snd (fst x)); VS (snd x)]) l)
              | Err k => VE k
              end in
  let sums := VL (map (fun b => VL [VI (Z.of_nat (length b)); VI (Z.of_N (adler32 b)); rd b]) fbs) in
  VL [VB (wf_C09 mode addmode reopen order files qs); sums;
      match scan_files reg 0 with
      | Err k => VE k
      | Ok es =>
          (* fastaindex.py:244-247: a non-empty binary index refuses a further add call without force (addmode 3) *)
          if N.eqb mode MODE_BINARY && N.eqb addmode 3 && (2 <=? length order)
             && match scan_file (nth 0 reg []) 0 with Ok (_ :: _) => true | _ => false end
          then VE (bs "ValueError"%bs) else
          match all_stored mode es with
          | Some k => VE k
          | None => VL [VI (Z.of_nat (distinct_ids es [])); VL (map (answer mode reg es) qs)]
          end
      end].
