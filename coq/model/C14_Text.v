(* C14 text layer: the bytes json.dump(seqs, f, cls=_SJSONEncoder) writes for a JSON tree (sjson.py:85: default options, i.e.
   ensure_ascii=True, allow_nan=True, separators ', ' and ': ', no indent, sort_keys=False) and the scanner json.load runs
   (CPython Lib/json/encoder.py: py_encode_basestring_ascii, _make_iterencode; Lib/json/decoder.py: py_scanstring, JSONObject,
   JSONArray; Lib/json/scanner.py: py_make_scanner, NUMBER_RE).  Python str = Latin-1 code points (Text.str), floats are the
   opaque literal float.__repr__ produced (CPython decides the digits).  No proofs here. *)
From Coq Require Import List ZArith NArith Bool.
From Coq.Strings Require Import Byte.
Import ListNotations.
From SV Require Import Text C14_Model.

(* ---- printer --------------------------------------------------------------------------------------------------------- *)
(* encoder.py ESCAPE_ASCII: backslash, double quote and everything outside space..tilde are escaped; ESCAPE_DCT for the short
   forms, backslash-u with four lower-case hex digits otherwise *)
Definition esc_char (c : byte) : str :=
  let n := Byte.to_N c in
  if byte_eqb c """"%byte then bs "\"""%bs
  else if byte_eqb c "\"%byte then bs "\\"%bs
  else if N.eqb n 8 then bs "\b"%bs
  else if N.eqb n 9 then bs "\t"%bs
  else if N.eqb n 10 then bs "\n"%bs
  else if N.eqb n 12 then bs "\f"%bs
  else if N.eqb n 13 then bs "\r"%bs
  else if (N.leb 32 n && N.leb n 126)%bool then [c]
  else bs "\u00"%bs ++ hex [c].
Definition jstring (s : str) : str := """"%byte :: flat_map esc_char s ++ [""""%byte].

(* encoder.py floatstr: NaN / Infinity / -Infinity for the three non-finite values (allow_nan=True), float.__repr__ otherwise *)
Definition L_nan : str := bs "nan"%bs.
Definition L_inf : str := bs "inf"%bs.
Definition L_ninf : str := bs "-inf"%bs.
Definition float_text (lit : str) : str :=
  if str_eqb lit L_nan then bs "NaN"%bs
  else if str_eqb lit L_inf then bs "Infinity"%bs
  else if str_eqb lit L_ninf then bs "-Infinity"%bs
  else lit.

Definition SEP : str := bs ", "%bs.                      (* item_separator *)
Definition KSEP : str := bs ": "%bs.                     (* key_separator *)
Fixpoint tails (close : byte) (ss : list str) : str :=
  match ss with [] => [close] | s :: r => SEP ++ s ++ tails close r end.
Definition bracket (o c : byte) (ss : list str) : str :=
  match ss with [] => [o; c] | s :: r => o :: s ++ tails c r end.

Fixpoint print (j : json) : str :=
  match j with
  | JNull => bs "null"%bs
  | JBool true => bs "true"%bs
  | JBool false => bs "false"%bs
  | JInt z => dec_of_Z z                                 (* int.__repr__ *)
  | JFloat l => float_text l
  | JStr s => jstring s
  | JArr l => bracket "["%byte "]"%byte (map print l)
  | JObj kv => bracket "{"%byte "}"%byte (map (fun p => jstring (fst p) ++ KSEP ++ print (snd p)) kv)
  end.

(* ---- what json.dump does to Python values that are not JSON: tuples and keys that are not strings ----------------- *)
(* encoder.py _iterencode_dict: str keys as they are, float -> repr, True/False/None -> true/false/null, int -> repr,
   anything else TypeError (skipkeys=False); _iterencode: list and tuple both become arrays *)
Inductive pykey := KStr (s : str) | KInt (z : Z) | KBool (b : bool) | KNone | KFloat (lit : str) | KOther.
Inductive pyv :=
| PNone | PBool (b : bool) | PInt (z : Z) | PFloat (lit : str) | PStr (s : str)
| PList (l : list pyv) | PTuple (l : list pyv) | PDict (kv : list (pykey * pyv)).
Definition key_text (k : pykey) : option str :=
  match k with
  | KStr s => Some s
  | KInt z => Some (dec_of_Z z)
  | KBool true => Some (bs "true"%bs)
  | KBool false => Some (bs "false"%bs)
  | KNone => Some (bs "null"%bs)
  | KFloat l => Some (float_text l)
  | KOther => None
  end.
Definition mapO {A B} (f : A -> option B) : list A -> option (list B) :=
  fix go l := match l with
              | [] => Some []
              | x :: r => match f x, go r with Some a, Some b => Some (a :: b) | _, _ => None end
              end.
Fixpoint native (v : pyv) : option json :=
  match v with
  | PNone => Some JNull | PBool b => Some (JBool b) | PInt z => Some (JInt z) | PFloat l => Some (JFloat l)
  | PStr s => Some (JStr s)
  | PList l | PTuple l => option_map JArr (mapO native l)
  | PDict kv =>
      option_map JObj (mapO (fun p => match key_text (fst p), native (snd p) with
                                      | Some a, Some b => Some (a, b)
                                      | _, _ => None
                                      end) kv)
  end.
(* json.load without `_cls`: what comes back *)
Fixpoint back (j : json) : pyv :=
  match j with
  | JNull => PNone | JBool b => PBool b | JInt z => PInt z | JFloat l => PFloat l | JStr s => PStr s
  | JArr l => PList (map back l)
  | JObj kv => PDict (map (fun p => (KStr (fst p), back (snd p))) kv)
  end.
(* the values json leaves alone: no tuple, every key a str *)
Definition is_kstr (k : pykey) : bool := match k with KStr _ => true | _ => false end.
Fixpoint json_native (v : pyv) : bool :=
  match v with
  | PList l => forallb json_native l
  | PTuple _ => false
  | PDict kv => forallb (fun p => is_kstr (fst p) && json_native (snd p)) kv
  | _ => true
  end.

(* ---- scanner ------------------------------------------------------------------------------------------------------------ *)
(* decoder.py WHITESPACE = [ \t\n\r]* *)
Definition is_ws (c : byte) : bool :=
  let n := Byte.to_N c in (N.eqb n 32 || N.eqb n 9 || N.eqb n 10 || N.eqb n 13)%bool.
Fixpoint skip_ws (s : str) : str :=
  match s with c :: r => if is_ws c then skip_ws r else s | [] => [] end.
Fixpoint strip_prefix (p s : str) : option str :=
  match p, s with
  | [], _ => Some s
  | a :: p', b :: s' => if byte_eqb a b then strip_prefix p' s' else None
  | _ :: _, [] => None
  end.

(* decoder.py py_scanstring (strict=True): after the opening quote.  BACKSLASH table, \uXXXX with [0-9A-Fa-f]{4};
   code points >= 256 (and surrogate pairs) are outside Text.str: None *)
Definition unescape (e : byte) : option byte :=
  if byte_eqb e """"%byte then Some """"%byte
  else if byte_eqb e "\"%byte then Some "\"%byte
  else if byte_eqb e "/"%byte then Some "/"%byte
  else if byte_eqb e "b"%byte then Some x08
  else if byte_eqb e "f"%byte then Some x0c
  else if byte_eqb e "n"%byte then Some x0a
  else if byte_eqb e "r"%byte then Some x0d
  else if byte_eqb e "t"%byte then Some x09
  else None.
Definition hexv (c : byte) : option N := hexval (lower1 c).
Definition hex4 (a b c d : byte) : option byte :=
  match hexv a, hexv b, hexv c, hexv d with
  | Some x, Some y, Some z, Some w =>
      let n := (((x * 16 + y) * 16 + z) * 16 + w)%N in
      if N.ltb n 256 then Byte.of_N n else None
  | _, _, _, _ => None
  end.
Definition cons_res (c : byte) (r : option (str * str)) : option (str * str) :=
  match r with Some (s, rest) => Some (c :: s, rest) | None => None end.
Fixpoint scan_str (s : str) : option (str * str) :=
  match s with
  | [] => None                                             (* Unterminated string *)
  | c :: r =>
      if byte_eqb c """"%byte then Some ([], r)
      else if byte_eqb c "\"%byte then
        match r with
        | [] => None
        | e :: r1 =>
            if byte_eqb e "u"%byte then
              match r1 with
              | a :: b :: c' :: d :: r2 =>
                  match hex4 a b c' d with Some ch => cons_res ch (scan_str r2) | None => None end
              | _ => None
              end
            else match unescape e with Some ch => cons_res ch (scan_str r1) | None => None end
        end
      else if N.ltb (Byte.to_N c) 32 then None             (* Invalid control character (strict) *)
      else cons_res c (scan_str r)
  end.

(* scanner.py NUMBER_RE: optional minus, then 0 or a digit run without leading zero, optional fraction (dot, digits), optional
   exponent (e or E, optional sign, digits); int if there is neither fraction nor exponent.
   The token is the maximal run of characters that can occur in a number; a run that is no number is an error here (CPython
   would stop the number earlier and then fail with Expecting delimiter / Extra data: an error too) *)
Definition is_digit (c : byte) : bool := let n := Byte.to_N c in (N.leb 48 n && N.leb n 57)%bool.
Definition is_numstart (c : byte) : bool := is_digit c || byte_eqb c "-"%byte.
Definition is_numchar (c : byte) : bool :=
  is_digit c || byte_eqb c "-"%byte || byte_eqb c "+"%byte || byte_eqb c "."%byte || byte_eqb c "e"%byte || byte_eqb c "E"%byte.
Fixpoint span (p : byte -> bool) (s : str) : str * str :=
  match s with
  | c :: r => if p c then let (a, b) := span p r in (c :: a, b) else ([], s)
  | [] => ([], [])
  end.
(* exactly the texts int.__repr__ produces, plus minus zero *)
Definition int_of_lit (t : str) : option Z :=
  if str_eqb t (bs "-0"%bs) then Some 0%Z
  else match t with
       | "+"%byte :: _ => None
       | _ => match Z_of_dec t with
              | Some z => if str_eqb (dec_of_Z z) t then Some z else None
              | None => None
              end
       end.
Definition nonempty (s : str) : bool := match s with [] => false | _ => true end.
Definition float_grammar (t : str) : bool :=
  let d := match t with c :: r => if byte_eqb c "-"%byte then r else t | [] => t end in
  let (ip, r1) := span is_digit d in
  let ip_ok := match ip with
               | [] => false
               | c :: r => if byte_eqb c "0"%byte then match r with [] => true | _ => false end else true
               end in
  let '(has_frac, frac_ok, r3) :=
    match r1 with
    | c :: r2 => if byte_eqb c "."%byte then let (fp, r3) := span is_digit r2 in (true, nonempty fp, r3) else (false, true, r1)
    | [] => (false, true, r1)
    end in
  let '(has_exp, exp_ok) :=
    match r3 with
    | [] => (false, true)
    | c :: r4 =>
        if byte_eqb c "e"%byte || byte_eqb c "E"%byte then
          let r5 := match r4 with s :: r' => if byte_eqb s "+"%byte || byte_eqb s "-"%byte then r' else r4 | [] => r4 end in
          let (ep, r6) := span is_digit r5 in (true, nonempty ep && negb (nonempty r6))
        else (false, false)
    end in
  ip_ok && frac_ok && exp_ok && (has_frac || has_exp).
Definition scan_number (s : str) : option (json * str) :=
  let (t, r) := span is_numchar s in
  if str_eqb t (bs "-"%bs) then
    match strip_prefix (bs "Infinity"%bs) r with Some r' => Some (JFloat L_ninf, r') | None => None end
  else match int_of_lit t with
       | Some z => Some (JInt z, r)
       | None => if float_grammar t then Some (JFloat t, r) else None
       end.
(* the float literals the round trip is claimed for: what float.__repr__ produces *)
Definition jfloat_ok (l : str) : bool :=
  str_eqb l L_nan || str_eqb l L_inf || str_eqb l L_ninf
  || (forallb is_numchar l && match l with c :: _ => is_numstart c | [] => false end
      && match int_of_lit l with None => true | Some _ => false end && float_grammar l).

Definition lit (p : str) (j : json) (r : str) : option (json * str) :=
  match strip_prefix p r with Some r' => Some (j, r') | None => None end.
(* '"key" ws : ws' of an object member *)
Definition scan_key (s : str) : option (str * str) :=
  match s with
  | c :: r =>
      if byte_eqb c """"%byte then
        match scan_str r with
        | Some (k, r1) =>
            match skip_ws r1 with
            | c1 :: r2 => if byte_eqb c1 ":"%byte then Some (k, skip_ws r2) else None
            | [] => None
            end
        | None => None
        end
      else None
  | [] => None
  end.

(* scanner.py _scan_once + decoder.py JSONArray / JSONObject; [fuel] bounds the nesting and the number of elements *)
Fixpoint parse (fuel : nat) (s : str) {struct fuel} : option (json * str) :=
  match fuel with
  | O => None
  | S f =>
      match s with
      | [] => None
      | c :: r =>
          if is_numstart c then scan_number s
          else if byte_eqb c "n"%byte then lit (bs "ull"%bs) JNull r
          else if byte_eqb c "t"%byte then lit (bs "rue"%bs) (JBool true) r
          else if byte_eqb c "f"%byte then lit (bs "alse"%bs) (JBool false) r
          else if byte_eqb c "N"%byte then lit (bs "aN"%bs) (JFloat L_nan) r
          else if byte_eqb c "I"%byte then lit (bs "nfinity"%bs) (JFloat L_inf) r
          else if byte_eqb c """"%byte then
            match scan_str r with Some (x, r') => Some (JStr x, r') | None => None end
          else if byte_eqb c "["%byte then
            match skip_ws r with
            | [] => None
            | c1 :: r2 =>
                if byte_eqb c1 "]"%byte then Some (JArr [], r2)
                else match parse f (c1 :: r2) with
                     | Some (x, r3) =>
                         match parse_tail f r3 with Some (xs, r4) => Some (JArr (x :: xs), r4) | None => None end
                     | None => None
                     end
            end
          else if byte_eqb c "{"%byte then
            match skip_ws r with
            | [] => None
            | c1 :: r2 =>
                if byte_eqb c1 "}"%byte then Some (JObj [], r2)
                else match scan_key (c1 :: r2) with
                     | Some (k, r3) =>
                         match parse f r3 with
                         | Some (x, r4) =>
                             match parse_otail f r4 with Some (xs, r5) => Some (JObj ((k, x) :: xs), r5) | None => None end
                         | None => None
                         end
                     | None => None
                     end
            end
          else None
      end
  end
with parse_tail (fuel : nat) (s : str) {struct fuel} : option (list json * str) :=
  match fuel with
  | O => None
  | S f =>
      match skip_ws s with
      | [] => None
      | c :: r =>
          if byte_eqb c "]"%byte then Some ([], r)
          else if byte_eqb c ","%byte then
            match parse f (skip_ws r) with
            | Some (x, r1) => match parse_tail f r1 with Some (xs, r2) => Some (x :: xs, r2) | None => None end
            | None => None
            end
          else None
      end
  end
with parse_otail (fuel : nat) (s : str) {struct fuel} : option (list (str * json) * str) :=
  match fuel with
  | O => None
  | S f =>
      match skip_ws s with
      | [] => None
      | c :: r =>
          if byte_eqb c "}"%byte then Some ([], r)
          else if byte_eqb c ","%byte then
            match scan_key (skip_ws r) with
            | Some (k, r1) =>
                match parse f r1 with
                | Some (x, r2) => match parse_otail f r2 with Some (xs, r3) => Some ((k, x) :: xs, r3) | None => None end
                | None => None
                end
            | None => None
            end
          else None
      end
  end.

(* json.loads: leading whitespace, one value, only whitespace after it ("Extra data" otherwise) *)
Definition loads (fuel : nat) (s : str) : option json :=
  match parse fuel (skip_ws s) with
  | Some (j, r) => match skip_ws r with [] => Some j | _ => None end
  | None => None
  end.

(* enough fuel for a tree, and the trees the text round trip is claimed for *)
Fixpoint jsize (j : json) : nat :=
  match j with
  | JArr l => S (list_sum (map jsize l) + List.length l)
  | JObj kv => S (list_sum (map (fun p => jsize (snd p)) kv) + List.length kv)
  | _ => 1
  end.
Fixpoint wfj (j : json) : bool :=
  match j with
  | JFloat l => jfloat_ok l
  | JArr l => forallb wfj l
  | JObj kv => forallb (fun p => wfj (snd p)) kv
  | _ => true
  end.
(* the floats of an object graph *)
Definition wfo_kv (f : obj -> bool) (kv : list (str * obj)) : bool := forallb (fun p => f (snd p)) kv.
Fixpoint wfo (o : obj) : bool :=
  match o with
  | OFloat l => jfloat_ok l
  | OList l => forallb wfo l
  | ODict kv | OAttr _ kv => wfo_kv wfo kv
  | OLoc _ _ _ _ m => match m with None => true | Some kv => wfo_kv wfo kv end
  | OFeat m locs => wfo_kv wfo m && forallb wfo locs
  | OFts data => forallb wfo data
  | OSeq _ m _ => wfo_kv wfo m
  | OBasket data m => forallb wfo data && wfo_kv wfo m
  | _ => true
  end.

(* the wider domain on which the model is claimed faithful (border stream): wf without the clauses `one strand per feature`,
   `locations in order` and `no lower-case residue` (ASCII residues: upper1 models str.upper on ASCII only) *)
Fixpoint wfx (o : obj) : bool :=
  match o with
  | OList l => forallb wfx l
  | ODict kv => nodup_keys (keys kv) && negb (has_key K_cls kv) && forallb (fun p => wfx (snd p)) kv
  | OAttr _ kv => ok_attr_shape kv && forallb (fun p => wfx (snd p)) kv
  | OLoc a b s d m =>
      Z.ltb a b && is_strand s && Z.leb 0 d && Z.ltb d 256
      && match m with None => true | Some kv => ok_attr_shape kv && forallb (fun p => wfx (snd p)) kv end
  | OFeat m locs =>
      ok_attr_shape m && forallb (fun p => wfx (snd p)) m
      && match locs with [] => false | _ => true end && forallb is_loc locs && forallb wfx locs
  | OFts data => forallb wfx data
  | OSeq d m t =>
      forallb (fun c => N.ltb (Byte.to_N c) 128) d && (str_eqb t N_nt || str_eqb t N_aa) && has_key K_id m
      && ok_attr_shape m && forallb (fun p => wfx (snd p)) m
  | OBasket data m =>
      forallb is_seq data && forallb wfx data && ok_attr_shape m && forallb (fun p => wfx (snd p)) m
  | _ => true
  end.

(* ---- the byte level of write / read ---------------------------------------------------------------------------------------- *)
Definition write_bytes (b : obj) : str := print (write_sjson b).
(* json.JSONDecodeError is a ValueError *)
Definition read_bytes (s : str) : res obj :=
  match loads (S (List.length s)) s with Some j => read_sjson j | None => Err E_Value end.
Definition write_read_bytes (b : obj) : res obj := bind (read_bytes (write_bytes b)) read_glue.

(* ---- harness entry points ---------------------------------------------------------------------------------------------------- *)
Fixpoint show_json (j : json) : val :=
  match j with
  | JNull => VNone | JBool b => VB b | JInt z => VI z | JFloat l => VL [VS (bs "f"%bs); VS l] | JStr s => VS s
  | JArr l => VL (VS (bs "a"%bs) :: map show_json l)
  | JObj kv => VL (VS (bs "o"%bs) :: map (fun p => VL [VS (fst p); show_json (snd p)]) kv)
  end.
(* the written text of a basket, and what reading that text gives *)
Definition run_C14_text (b : obj) : val :=
  VL [VB (wf_C14 b && wfo b); VS (write_bytes b); show_res (write_read_bytes b)].
Definition run_C14_border (b : obj) : val :=
  VL [VB (is_basket b && wfx b && wfo b); VS (write_bytes b); show_res (write_read_bytes b)].
(* json.loads of an arbitrary text: [in-domain flag; tree or error] *)
Definition run_C14_loads (s : str) : val :=
  match loads (S (List.length s)) s with
  | Some j => VL [VB true; show_json j; VS (print j)]
  | None => VL [VB true; VE E_Value]
  end.
Fixpoint show_pyv (v : pyv) : val :=
  match v with
  | PNone => VNone | PBool b => VB b | PInt z => VI z | PFloat l => VL [VS (bs "f"%bs); VS l] | PStr s => VS s
  | PList l => VL (VS (bs "l"%bs) :: map show_pyv l)
  | PTuple l => VL (VS (bs "t"%bs) :: map show_pyv l)
  | PDict kv => VL (VS (bs "d"%bs) :: map (fun p => VL [match fst p with
                                                         | KStr s => VS s | KInt z => VI z | KBool b => VB b | KNone => VNone
                                                         | KFloat l => VL [VS (bs "f"%bs); VS l] | KOther => VE (bs "other"%bs)
                                                         end; show_pyv (snd p)]) kv)
  end.
(* json.loads(json.dumps(v)) for a Python value with tuples and arbitrary keys: [json leaves it alone?; text; what comes back] *)
Definition run_C14_native (v : pyv) : val :=
  match native v with
  | Some j => VL [VB (json_native v); VS (print j); show_pyv (back j)]
  | None => VL [VB (json_native v); VE E_Type]
  end.
