(* C17: specification of a genetic-code table in terms of the NCBI definition (ncbieaa / sncbieaa lines of gc.prt)
   and the IUPAC nucleotide code. Nothing of sugar's table *content* is written here: shipped tables come from the
   regenerated G_gc_<id>.v (gc.json, what gcode() loads), the NCBI lines from the regenerated G_gc_prt.v. *)
From Coq Require Import List ZArith NArith Bool.
From Coq.Strings Require Import Byte.
Import ListNotations.
From SV Require Import Text C05_Model G_gc_ids G_gc_prt.
Open Scope N_scope.

Record table := {
  t_key : N; t_id : N; t_name : str;
  t_tt : list (N * byte); t_starts : list N; t_stops : list N; t_astarts : list N; t_astops : list N;
  t_ttinv : list (byte * list N) }.

(* codon number over the 15-letter alphabet [letters] -> three letter indexes *)
Definition codon_letters (c : N) : N * N * N := (c / 225, (c / 15) mod 15, c mod 15).
Definition letter_byte (l : N) : byte := nth (N.to_nat l) letters "?"%byte.
(* base index in NCBI order T C A G *)
Definition ncbi_ix (b : byte) : N :=
  match b with "T"%byte => 0 | "C"%byte => 1 | "A"%byte => 2 | _ => 3 end.
(* IUPAC expansion of one letter, as NCBI base indexes; [iupac] is the hand-written IUPAC code of C05_Model *)
Definition exps (l : N) : list N := map ncbi_ix (iupac (letter_byte l)).
(* all unambiguous codons denoted by an IUPAC codon, as indexes 0..63 into the ncbieaa line *)
Definition expand (c : N) : list N :=
  let '(l1, l2, l3) := codon_letters c in
  flat_map (fun b1 => flat_map (fun b2 => map (fun b3 => b1 * 16 + b2 * 4 + b3) (exps l3)) (exps l2)) (exps l1).
Definition memN (x : N) (l : list N) : bool := existsb (N.eqb x) l.
Fixpoint lookupNb (x : N) (l : list (N * byte)) : option byte :=
  match l with [] => None | (k, v) :: r => if k =? x then Some v else lookupNb x r end.
Definition allsame (l : list byte) : option byte :=
  match l with [] => None | x :: r => if forallb (byte_eqb x) r then Some x else None end.
Definition opt_byte_eqb (a b : option byte) : bool :=
  match a, b with Some x, Some y => byte_eqb x y | None, None => true | _, _ => false end.
Definition all_codons : list N := map N.of_nat (seq 0 3375).

Section Spec.
Variables (prt_aa prt_sc : str) (t : table).
Definition aa_at (i : N) : byte := nth (N.to_nat i) prt_aa "?"%byte.
Definition sc_at (i : N) : byte := nth (N.to_nat i) prt_sc "?"%byte.
Definition is_stop_ix (i : N) := byte_eqb (sc_at i) "*"%byte.
Definition is_start_ix (i : N) := byte_eqb (sc_at i) "M"%byte.
Definition unamb (c : N) : bool := Nat.eqb (length (expand c)) 1.

(* the per-codon clauses of the property *)
Definition tt_ok (c : N) : bool := opt_byte_eqb (lookupNb c (t_tt t)) (allsame (map aa_at (expand c))).
Definition astops_ok (c : N) : bool := Bool.eqb (memN c (t_astops t)) (negb (unamb c) && existsb is_stop_ix (expand c)).
Definition astarts_ok (c : N) : bool := Bool.eqb (memN c (t_astarts t)) (negb (unamb c) && existsb is_start_ix (expand c)).
Definition stops_ok (c : N) : bool := Bool.eqb (memN c (t_stops t)) (unamb c && existsb is_stop_ix (expand c)).
Definition starts_ok (c : N) : bool := Bool.eqb (memN c (t_starts t)) (unamb c && existsb is_start_ix (expand c)).
(* inverse table: exactly the unambiguous codons per amino acid *)
Definition ttinv_fwd_ok (c : N) : bool :=
  negb (unamb c) ||
  match expand c with
  | [i] => match lookupB (aa_at i) (t_ttinv t) with Some cs => memN c cs | None => false end
  | _ => false
  end.
Definition ttinv_entry_ok (e : byte * list N) : bool :=
  let '(a, cs) := e in
  negb (match cs with [] => true | _ => false end) &&
  forallb (fun c => (c <? 3375) && unamb c && match expand c with [i] => byte_eqb (aa_at i) a | _ => false end) cs.
Definition check_codon (c : N) : bool :=
  tt_ok c && astops_ok c && astarts_ok c && stops_ok c && starts_ok c && ttinv_fwd_ok c.
Definition in_range (l : list N) : bool := forallb (fun c => c <? 3375) l.
Definition check_table : bool :=
  forallb check_codon all_codons
  && forallb ttinv_entry_ok (t_ttinv t)
  && in_range (map fst (t_tt t)) && in_range (t_starts t) && in_range (t_stops t)
  && in_range (t_astarts t) && in_range (t_astops t)
  && (length prt_aa =? 64)%nat && (length prt_sc =? 64)%nat.
End Spec.

Fixpoint lookup_prt (i : N) (l : list (N * (str * str * str))) : option (str * str * str) :=
  match l with [] => None | (k, v) :: r => if k =? i then Some v else lookup_prt i r end.
(* a shipped table against the NCBI definition with the same id *)
Definition check_table_prt (t : table) : bool :=
  (t_key t =? t_id t) &&
  match lookup_prt (t_id t) prt_tables with
  | Some (_, aa, sc) => check_table aa sc t
  | None => false
  end.
Definition ids_match (ts : list table) : bool :=
  forallb (fun i => memN i (map fst prt_tables)) (map t_key ts)
  && forallb (fun i => memN i (map t_key ts)) (map fst prt_tables)
  && (length ts =? length prt_tables)%nat.

(* ---- harness entry: what gcode(id) must answer for one codon ---- *)
Definition run_C17 (t : table) (c : N) : val :=
  VL [VOpt (fun b => VS [b]) (lookupNb c (t_tt t));
      VB (memN c (t_starts t)); VB (memN c (t_stops t)); VB (memN c (t_astarts t)); VB (memN c (t_astops t))].

(* harness entry: the whole inverse table of gcode(id), rows and codons in the order of the regenerated table *)
Definition run_C17_ttinv (t : table) : val :=
  VL (map (fun e : byte * list N => VL [VS [fst e]; VZs (map Z.of_N (snd e))]) (t_ttinv t)).
