(* C17: executable model of sugar/data/data_gcode/convert.py (gc.prt -> gc.json), line by line.
   No proofs here.  Codons are Python strings (3 bytes); dicts are association lists in insertion order; Python sets
   are lists in *some* order (the order of `all_codes` is a parameter: CPython iterates a set of str in hash order). *)
From Coq Require Import List ZArith NArith Bool.
From Coq.Strings Require Import Byte.
Import ListNotations.
From SV Require Import Text.

Definition res (A : Type) : Type := (str + A)%type.      (* inl "KeyError" = the exception class that propagates *)
Definition ok {A} (a : A) : res A := inr a.
Definition err {A} (e : bstr) : res A := inl (bs e).

(* ---------------------------------------------------------------- Python str helpers *)
Fixpoint starts_with (p s : str) : bool :=                 (* s.startswith(p) *)
  match p, s with
  | [], _ => true
  | a :: p', b :: s' => byte_eqb a b && starts_with p' s'
  | _ :: _, [] => false
  end.
(* s.replace(old, '') for non-empty old: left to right, non-overlapping; [skip] = characters of a match still to drop *)
Fixpoint remove_sub (old : str) (skip : nat) (s : str) : str :=
  match s with
  | [] => []
  | c :: r => match skip with
              | S k => remove_sub old k r
              | O => if starts_with old s then remove_sub old (length old - 1) r else c :: remove_sub old 0 r
              end
  end.
Definition py_remove (old s : str) : str := remove_sub old 0 s.
(* str.isspace() on ASCII: \t \n \v \f \r, FS GS RS US, space *)
Definition is_space (b : byte) : bool :=
  match b with x09 | x0a | x0b | x0c | x0d | x1c | x1d | x1e | x1f | x20 => true | _ => false end.
Fixpoint lstrip (s : str) : str := match s with c :: r => if is_space c then lstrip r else s | [] => [] end.
Definition strip (s : str) : str := rev (lstrip (rev (lstrip s))).
(* `for line in f` in text mode (universal newlines): \n, \r\n and \r end a line; every use of `line` strips it,
   so the terminator itself is not kept *)
Fixpoint lines_of (s : str) (cur : str) : list str :=
  match s with
  | [] => match cur with [] => [] | _ => [rev cur] end
  | c :: r =>
      if byte_eqb c x0a then rev cur :: lines_of r []
      else if byte_eqb c x0d then
        match r with
        | x0a :: r' => rev cur :: lines_of r' []
        | _ => rev cur :: lines_of r []
        end
      else lines_of r (c :: cur)
  end.

(* convert.py:59-60  def filter_line(line, s): return line.replace(s, '').replace(',', '').replace(DQUOTE, '').strip() *)
Definition filter_line (line s : str) : str :=
  strip (py_remove [x22] (py_remove [x2c] (py_remove s line))).

Definition is_digit (b : byte) : bool :=
  match b with x30 | x31 | x32 | x33 | x34 | x35 | x36 | x37 | x38 | x39 => true | _ => false end.
Definition digit_N (b : byte) : N := Byte.to_N b - 48.
(* int(s) for s already stripped: decimal digits (sign / underscore spellings are outside the domain, see wf_conv) *)
Definition py_int (s : str) : res N :=
  match s with
  | [] => err "ValueError"%bs
  | _ => if forallb is_digit s then ok (fold_left (fun a b => 10 * a + digit_N b)%N s 0%N) else err "ValueError"%bs
  end.

(* ---------------------------------------------------------------- generate_gc (convert.py:7-56) *)
Definition tcag : str := bs "TCAG"%bs.
(* itertools.product(l, repeat=3): last position varies fastest *)
Definition product3 (l : str) : list str :=
  flat_map (fun a => flat_map (fun b => map (fun c => [a; b; c]) l) l) l.
Fixpoint lookupS {V} (k : str) (t : list (str * V)) : option V :=
  match t with [] => None | (k', v) :: r => if str_eqb k k' then Some v else lookupS k r end.
Definition memS (k : str) (l : list str) : bool := existsb (str_eqb k) l.
Definition memkey {V} (k : str) (t : list (str * V)) : bool := existsb (fun e => str_eqb k (fst e)) t.
Fixpoint lookupC (k : byte) (t : list (byte * str)) : str :=      (* CODES[b]; b always is a key of CODES here *)
  match t with [] => [] | (k', v) :: r => if byte_eqb k k' then v else lookupC k r end.
(* for bb1 in CODES[b1] for bb2 in CODES[b2] for bb3 in CODES[b3]: bb1+bb2+bb3 *)
Definition expand3 (codes : list (byte * str)) (c : str) : list str :=
  match c with
  | [b1; b2; b3] =>
      flat_map (fun x => flat_map (fun y => map (fun z => [x; y; z]) (lookupC b3 codes)) (lookupC b2 codes)) (lookupC b1 codes)
  | _ => []
  end.
(* line 23: all_codes = set(CODES.keys()) - {'.', '-'}; here in the order of the keys of CODES *)
Definition all_codes (codes : list (byte * str)) : str :=
  filter (fun b => negb (byte_eqb b x2e || byte_eqb b x2d)) (map fst codes).
(* len(s := set(values)) == 1 and then s.pop() *)
Definition allsame (l : list byte) : option byte :=
  match l with [] => None | x :: r => if forallb (byte_eqb x) r then Some x else None end.

Record gc := {
  g_id : N; g_name : str; g_aa : str; g_sc : str;
  g_tt : list (str * byte); g_ttinv : list (byte * list str);
  g_starts : list str; g_astarts : list str; g_stops : list str; g_astops : list str }.

Fixpoint enumerate {A} (i : nat) (l : list A) : list (nat * A) :=
  match l with [] => [] | x :: r => (i, x) :: enumerate (S i) r end.
Definition base_codons : list str := product3 tcag.
(* lines 10-19: for i, (b1, b2, b3) in enumerate(product('TCAG', repeat=3)): tt[codon] = aas[i]; starts / stops.
   aas[i] / special_codons[i] raise IndexError iff a line is shorter than 64 (extra characters are ignored). *)
Definition base_tt (aas : str) : list (str * byte) :=
  map (fun ic => (snd ic, nth (fst ic) aas x3f)) (enumerate 0 base_codons).
Definition flagged (f : byte) (sc : str) : list str :=
  map snd (filter (fun ic => byte_eqb (nth (fst ic) sc x3f) f) (enumerate 0 base_codons)).
(* lines 20-22: for k, v in tt.items(): ttinv.setdefault(v, []).append(k) *)
Fixpoint ttinv_add (inv : list (byte * list str)) (k : str) (v : byte) : list (byte * list str) :=
  match inv with
  | [] => [(v, [k])]
  | (a, cs) :: r => if byte_eqb a v then (a, cs ++ [k]) :: r else (a, cs) :: ttinv_add r k v
  end.
Definition ttinv_of (tt : list (str * byte)) : list (byte * list str) :=
  fold_left (fun inv kv => ttinv_add inv (fst kv) (snd kv)) tt [].
(* lines 25-32 / 34-41: codons over all_codes that are no key of tt and have at least one expansion in [marked] *)
Definition amb_marked (codes : list (byte * str)) (ac : str) (tt : list (str * byte)) (marked : list str) : list str :=
  filter (fun c => negb (memkey c tt) && existsb (fun e => memS e marked) (expand3 codes c)) (product3 ac).
(* lines 43-51: tt grows while the loop runs; tt[...] raises KeyError for an expansion that is no key *)
Fixpoint vals_of (tt : list (str * byte)) (es : list str) : res (list byte) :=
  match es with
  | [] => ok []
  | e :: r => match lookupS e tt with
              | None => err "KeyError"%bs
              | Some v => match vals_of tt r with inl x => inl x | inr vs => ok (v :: vs) end
              end
  end.
Definition body3 (codes : list (byte * str)) (tt : list (str * byte)) (c : str) : res (list (str * byte)) :=
  if memkey c tt then ok tt
  else match vals_of tt (expand3 codes c) with
       | inl x => inl x
       | inr vs => match allsame vs with Some a => ok (tt ++ [(c, a)]) | None => ok tt end
       end.
Fixpoint loop3 (codes : list (byte * str)) (cs : list str) (tt : list (str * byte)) : res (list (str * byte)) :=
  match cs with
  | [] => ok tt
  | c :: r => match body3 codes tt c with inl x => inl x | inr tt' => loop3 codes r tt' end
  end.

Definition generate_gc_ac (codes : list (byte * str)) (ac : str) (id_ : N) (name aas sc : str) : res gc :=
  if ((length aas <? 64) || (length sc <? 64))%nat then err "IndexError"%bs
  else
    let tt := base_tt aas in
    let starts := flagged x4d sc in
    let stops := flagged x2a sc in
    let ttinv := ttinv_of tt in
    let astops := amb_marked codes ac tt stops in
    let astarts := amb_marked codes ac tt starts in
    match loop3 codes (product3 ac) tt with
    | inl x => inl x
    | inr tt' => ok {| g_id := id_; g_name := name; g_aa := aas; g_sc := sc; g_tt := tt'; g_ttinv := ttinv;
                       g_starts := starts; g_astarts := astarts; g_stops := stops; g_astops := astops |}
    end.

(* ---------------------------------------------------------------- the script body (convert.py:62-80) *)
Record pst := { p_name : option str; p_id : option N; p_aas : option str; p_sc : option str }.
Record entry := { e_id : N; e_name : str; e_aas : str; e_sc : str }.
Definition st0 : pst := {| p_name := None; p_id := None; p_aas := None; p_sc := None |}.
Definition kw_name : str := bs "name"%bs.
Definition kw_id : str := bs "id"%bs.
Definition kw_aa : str := bs "ncbieaa"%bs.
Definition kw_sc : str := bs "sncbieaa"%bs.
Definition kw_sgc : str := bs "SGC"%bs.

(* one iteration of `for line in f`; Some entry = the arguments of the generate_gc call of this line *)
Definition step (line : str) (st : pst) : res (pst * option entry) :=
  let sl := strip line in
  let st1 :=
    if starts_with kw_name sl then
      let pname := filter_line line kw_name in
      if negb (starts_with kw_sgc pname)
      then {| p_name := Some pname; p_id := p_id st; p_aas := p_aas st; p_sc := p_sc st |} else st
    else st in
  if starts_with kw_id sl then
    match py_int (filter_line line kw_id) with
    | inl x => inl x
    | inr n => ok ({| p_name := p_name st1; p_id := Some n; p_aas := p_aas st1; p_sc := p_sc st1 |}, None)
    end
  else if starts_with kw_aa sl then
    ok ({| p_name := p_name st1; p_id := p_id st1; p_aas := Some (filter_line line kw_aa); p_sc := p_sc st1 |}, None)
  else if starts_with kw_sc sl then
    let sc := filter_line line kw_sc in
    let st2 := {| p_name := p_name st1; p_id := p_id st1; p_aas := p_aas st1; p_sc := Some sc |} in
    match p_id st2, p_name st2, p_aas st2 with
    | Some i, Some n, Some a => ok (st2, Some {| e_id := i; e_name := n; e_aas := a; e_sc := sc |})
    | _, _, _ => err "NameError"%bs
    end
  else ok (st1, None).

(* gcs[id_] = value : a dict keeps the position of the first insertion *)
Fixpoint set_assoc {V} (d : list (N * V)) (k : N) (v : V) : list (N * V) :=
  match d with
  | [] => [(k, v)]
  | (k', v') :: r => if N.eqb k' k then (k', v) :: r else (k', v') :: set_assoc r k v
  end.
Fixpoint lookupNV {V} (k : N) (d : list (N * V)) : option V :=
  match d with [] => None | (k', v) :: r => if N.eqb k' k then Some v else lookupNV k r end.

(* the loop, parametric in what is done with an entry (generate_gc in the script; the identity gives the parse alone) *)
Fixpoint convert_with {V} (g : entry -> res V) (lines : list str) (st : pst) (gcs : list (N * V)) : res (list (N * V)) :=
  match lines with
  | [] => ok gcs
  | l :: r =>
      match step l st with
      | inl x => inl x
      | inr (st', None) => convert_with g r st' gcs
      | inr (st', Some en) =>
          match g en with
          | inl x => inl x
          | inr v => convert_with g r st' (set_assoc gcs (e_id en) v)
          end
      end
  end.
(* every entry handed to generate_gc, in file order (also the ones overwritten later by a table with the same id) *)
Fixpoint emitted (lines : list str) (st : pst) : res (list entry) :=
  match lines with
  | [] => ok []
  | l :: r =>
      match step l st with
      | inl x => inl x
      | inr (st', None) => emitted r st'
      | inr (st', Some en) => match emitted r st' with inl x => inl x | inr es => ok (en :: es) end
      end
  end.

Definition gen_entry (codes : list (byte * str)) (ac : str) (en : entry) : res gc :=
  generate_gc_ac codes ac (e_id en) (e_name en) (e_aas en) (e_sc en).
Definition generate_gc (codes : list (byte * str)) (en : entry) : res gc := gen_entry codes (all_codes codes) en.
(* the whole script: text of gc.prt, CODES -> the object dumped to gc.json *)
Definition convert (codes : list (byte * str)) (text : str) : res (list (N * gc)) :=
  convert_with (generate_gc codes) (lines_of text []) st0 [].

(* ---------------------------------------------------------------- domain of the correspondence *)
Definition is_ascii (b : byte) : bool := N.ltb (Byte.to_N b) 128.
Definition id_line_ok (line : str) : bool :=
  negb (starts_with kw_id (strip line))
  || forallb (fun b => negb (byte_eqb b x2b || byte_eqb b x2d || byte_eqb b x5f)) (filter_line line kw_id).
Definition has_b (b : byte) (s : str) : bool := existsb (byte_eqb b) s.
(* a CODES value letter outside TCAG that is itself a code letter makes line 47 depend on the iteration order of a set *)
Fixpoint nodup_b (l : str) : bool := match l with [] => true | x :: r => negb (has_b x r) && nodup_b r end.
Definition codes_ok (codes : list (byte * str)) : bool :=
  forallb (fun k => forallb (fun x => has_b x tcag || negb (has_b x (all_codes codes))) (lookupC k codes)) (all_codes codes)
  && nodup_b (map fst codes).
Definition wf_conv (codes : list (byte * str)) (text : str) : bool :=
  forallb is_ascii text && forallb id_line_ok (lines_of text []) && codes_ok codes.

(* ---------------------------------------------------------------- harness entry *)
Definition show_gc (kg : N * gc) : val :=
  let g := snd kg in
  VL [VI (Z.of_N (fst kg)); VI (Z.of_N (g_id g)); VS (g_name g); VS (g_aa g); VS (g_sc g);
      VL (map (fun ca : str * byte => VS (fst ca ++ [snd ca])) (g_tt g));
      VL (map (fun acs : byte * list str => VS (fst acs :: concat (snd acs))) (g_ttinv g));
      VS (concat (g_starts g)); VS (concat (g_astarts g)); VS (concat (g_stops g)); VS (concat (g_astops g))].
Definition run_C17_conv (codes : list (byte * str)) (text : str) : val :=
  VL [VB (wf_conv codes text);
      match convert codes text with inl e => VE e | inr gcs => VL (map show_gc gcs) end].
