(* C17: model of the loader sugar.data.gcode (sugar/data/__init__.py:124-148) as a state machine over its lru_cache.
   What is modelled: how a call is turned into a cache key (functools._make_key, typed=False), str(tt) as key of the JSON
   object, KeyError for an unknown key, TypeError for an unhashable argument, hit / miss, identity of the returned object.
   Not modelled: the content of the object (compared by the other cases), eviction (maxsize=128 is never reached by
   successful keys: at most three call forms x two spellings per table), mutation through aliases (history stream). *)
From Coq Require Import List ZArith NArith Bool.
From Coq.Strings Require Import Byte.
Import ListNotations.
From SV Require Import Text C17_Convert.

Inductive pykey :=
| KInt (z : Z)            (* int *)
| KStr (s : str)          (* str *)
| KFloat (z : Z)          (* float with integral value z, e.g. 1.0 *)
| KBool (b : bool)
| KNone
| KList.                  (* an unhashable argument, e.g. [1] *)
Inductive form := FPos | FKw | FDefault.          (* gcode(x) | gcode(tt=x) | gcode() *)
Record call := { c_form : form; c_key : pykey }.
(* the value bound to the parameter tt *)
Definition arg (c : call) : pykey := match c_form c with FDefault => KInt 1 | _ => c_key c end.

(* Python == between the argument values *)
Definition num (k : pykey) : option Z :=
  match k with KInt z => Some z | KFloat z => Some z | KBool b => Some (if b then 1 else 0)%Z | _ => None end.
Definition py_eq (a b : pykey) : bool :=
  match a, b with
  | KStr s, KStr t => str_eqb s t
  | KNone, KNone => true
  | _, _ => match num a, num b with Some x, Some y => Z.eqb x y | _, _ => false end
  end.
(* functools._make_key: a single positional argument of type int or str is the key itself, everything else is wrapped
   in a _HashedSeq (a list): a plain key and a wrapped key never compare equal, wrapped keys compare element-wise *)
Definition fast (k : pykey) : bool := match k with KInt _ | KStr _ => true | _ => false end.
Definition same_fast (a b : pykey) : bool :=
  match a, b with KInt x, KInt y => Z.eqb x y | KStr s, KStr t => str_eqb s t | _, _ => false end.
Definition ckey_eqb (c1 c2 : call) : bool :=
  match c_form c1, c_form c2 with
  | FDefault, FDefault => true
  | FPos, FPos => if fast (c_key c1) || fast (c_key c2) then same_fast (c_key c1) (c_key c2) else py_eq (c_key c1) (c_key c2)
  | FKw, FKw => py_eq (c_key c1) (c_key c2)
  | _, _ => false
  end.

(* gcs[str(tt)]: str() of a float / bool / None is never the decimal spelling of an id *)
Definition load (ids : list N) (k : pykey) : option N :=
  match k with
  | KInt z => find (fun i => Z.eqb (Z.of_N i) z) ids
  | KStr s => find (fun i => str_eqb (dec_of_Z (Z.of_N i)) s) ids
  | _ => None
  end.

(* cache entry: the call that created it, the object (number of the creating call, table id) *)
Definition obj : Type := (nat * N)%type.
Definition cache : Type := list (call * obj).
Definition is_klist (k : pykey) : bool := match k with KList => true | _ => false end.
Definition gcode_step (ids : list N) (ch : cache) (n : nat) (c : call) : cache * res obj :=
  if is_klist (arg c) then (ch, err "TypeError"%bs)        (* hash() of the key fails inside lru_cache *)
  else match find (fun e => ckey_eqb c (fst e)) ch with
       | Some e => (ch, ok (snd e))
       | None => match load ids (arg c) with
                 | Some i => (ch ++ [(c, (n, i))], ok (n, i))
                 | None => (ch, err "KeyError"%bs)
                 end
       end.
(* the table a successful call asked for: equal to the id as a number (1, 1.0, True) or its decimal spelling *)
Definition requested (k : pykey) (i : N) : Prop := num k = Some (Z.of_N i) \/ k = KStr (dec_of_Z (Z.of_N i)).
Definition cache_inv (ids : list N) (ch : cache) : Prop :=
  forall c o, In (c, o) ch -> is_klist (arg c) = false /\ load ids (arg c) = Some (snd o).
Fixpoint gcode_run (ids : list N) (ch : cache) (n : nat) (cs : list call) : cache * list (res obj) :=
  match cs with
  | [] => (ch, [])
  | c :: r => let '(ch1, x) := gcode_step ids ch n c in
              let '(ch2, xs) := gcode_run ids ch1 (S n) r in (ch2, x :: xs)
  end.

(* harness entry: a sequence of calls on a cleared cache -> per call the exception class or [table id, number of the
   call that created the returned object] *)
Definition mk_call (f : N) (kind : N) (z : Z) (s : str) : call :=
  {| c_form := match f with 0%N => FPos | 1%N => FKw | _ => FDefault end;
     c_key := match kind with 0%N => KInt z | 1%N => KStr s | 2%N => KFloat z | 3%N => KBool (Z.eqb z 1) | 4%N => KNone | _ => KList end |}.
Definition run_C17_gcode (ids : list N) (cs : list (N * N * Z * str)) : val :=
  VL (map (fun x : res obj => match x with
                              | inl e => VE e
                              | inr o => VL [VI (Z.of_N (snd o)); VI (Z.of_nat (fst o))]
                              end)
          (snd (gcode_run ids [] 0 (map (fun q => mk_call (fst (fst (fst q))) (snd (fst (fst q))) (snd (fst q)) (snd q)) cs)))).
