(* C13 model, second part: the pattern language.
   REGEX SUBSET covered by the Gallina matcher (abstract syntax [rx], concrete syntax [show], domain [rx_ok]):
     literal characters (printable ASCII that is no regex metacharacter), ".", character classes "[...]" and negated classes
     "[^...]" over letters, ".", "*" and a leading "-" (no ranges, no escapes), concatenation, ordered alternation "|",
     the greedy quantifiers "*", "+", "?" on an atom (character, ".", class, group) that cannot match the empty string,
     capturing "(...)" and non-capturing "(?:...)" groups.  The whole pattern must not match the empty string.
   Outside (compared with CPython re by a relational stream only): anchors, "{m,n}", lazy quantifiers, ranges, escapes,
   back-references, look-around, flags, patterns that match the empty string.
   Modelled here: the gap-tolerant rewriting of cane.py:217-223 as a function on the pattern TEXT ([rw]: the units of
   re.findall, a class '[...]' being one letter unit, as the code does since fix 7e33c72) and as a function on the syntax tree ([gapify]); a backtracking matcher with CPython's
   priorities (ordered alternation, greedy quantifiers, backtracking into groups); BioMatch.span (cane.py:137-141);
   BioMatchList.groupby for one key (cane.py:28-45,148-157); the rf argument as a total decision table incl. the error class.
   No proofs here. *)
From Coq Require Import List ZArith NArith Bool.
From Coq.Strings Require Import Byte.
Import ListNotations.
From SV Require Import Text G_codes C05_Model C13_Model.
Local Open Scope Z_scope.

(* ---------------------------------------------------------------- syntax *)
Inductive rx :=
| XChr (c : byte) | XDot | XCls (neg : bool) (cs : str)
| XCat (a b : rx) | XAlt (a b : rx)
| XStar (a : rx) | XPlus (a : rx) | XOpt (a : rx)
| XGrp (cap : bool) (a : rx).

Definition show_cls (neg : bool) (cs : str) : str :=
  "["%byte :: (if neg then ["^"%byte] else []) ++ cs ++ ["]"%byte].
(* the pattern text of a syntax tree *)
Fixpoint show (r : rx) : str :=
  match r with
  | XChr c => [c]
  | XDot => [cdot]
  | XCls neg cs => show_cls neg cs
  | XCat a b => show a ++ show b
  | XAlt a b => show a ++ cbar :: show b
  | XStar a => show a ++ ["*"%byte]
  | XPlus a => show a ++ ["+"%byte]
  | XOpt a => show a ++ ["?"%byte]
  | XGrp cap a => "("%byte :: (if cap then [] else ["?"%byte; ":"%byte]) ++ show a ++ [")"%byte]
  end.

(* characters that stand for themselves *)
Definition lit_ok (c : byte) : bool :=
  let n := Byte.to_N c in
  ((32 <=? n) && (n <=? 126))%N && negb (has c (bs ".^$*+?{}[]\|()"%bs)).
Definition cls_char_ok (c : byte) : bool := is_alpha c || has c (bs ".*-"%bs).
(* class body: non-empty, "-" only as the first character (so that it is literal) *)
Definition cls_ok (cs : str) : bool :=
  match cs with
  | [] => false
  | _ :: r => forallb cls_char_ok cs && negb (has "-"%byte r)
  end.

Fixpoint nullable (r : rx) : bool :=
  match r with
  | XChr _ | XDot | XCls _ _ => false
  | XCat a b => nullable a && nullable b
  | XAlt a b => nullable a || nullable b
  | XStar _ | XOpt _ => true
  | XPlus a => nullable a
  | XGrp _ a => nullable a
  end.
Definition is_atom (r : rx) : bool := match r with XChr _ | XDot | XCls _ _ | XGrp _ _ => true | _ => false end.
Definition is_alt (r : rx) : bool := match r with XAlt _ _ => true | _ => false end.
(* the tree is what CPython's parser reads from [show r] (precedences; quantifiers on atoms), quantified atoms consume *)
Fixpoint rx_ok (r : rx) : bool :=
  match r with
  | XChr c => lit_ok c
  | XDot => true
  | XCls _ cs => cls_ok cs
  | XCat a b => rx_ok a && rx_ok b && negb (is_alt a) && negb (is_alt b)
  | XAlt a b => rx_ok a && rx_ok b
  | XStar a | XPlus a | XOpt a => rx_ok a && is_atom a && negb (nullable a)
  | XGrp _ a => rx_ok a
  end.

(* ---------------------------------------------------------------- gap-tolerant rewriting *)
(* f'[{gap}]*', cane.py:218 *)
Definition gapstr (g : str) : str := "["%byte :: g ++ ["]"%byte; "*"%byte].
(* cane.py:219-223 (after fix 7e33c72) on the pattern text:
     units = re.findall(r'\[\^?\]?[^\]]*\]|.', sub, flags=re.S)        a character class '[...]' is one unit, else one character
     isletter(u) = u.isalpha() or u == '.' or (len(u) > 1 and u[0] == '[')
     the gap class goes after a letter unit that is followed by a letter unit *)
Definition cbo : byte := "["%byte.
Definition cbc : byte := "]"%byte.
Definition chat : byte := "^"%byte.
(* [^\]]*\] : everything up to and including the first "]" *)
Fixpoint to_close (s : str) : option (str * str) :=
  match s with
  | [] => None
  | x :: r => if byte_eqb x cbc then Some ([x], r)
              else match to_close r with Some (a, b) => Some (x :: a, b) | None => None end
  end.
(* \^?\]?[^\]]*\] after the opening "[" (greedy optionals; the optional "]" is given back when nothing closes after it) *)
Definition class_unit (s : str) : option (str * str) :=
  let '(p1, s1) := match s with x :: r => if byte_eqb x chat then ([x], r) else ([], s) | [] => ([], s) end in
  let '(p2, s2) := match s1 with x :: r => if byte_eqb x cbc then ([x], r) else ([], s1) | [] => ([], s1) end in
  match to_close s2 with
  | Some (a, b) => Some (p1 ++ p2 ++ a, b)
  | None => match p2 with [] => None | _ => Some (p1 ++ p2, s2) end
  end.
(* re.findall of the alternation, left to right; every unit consumes, so length s rounds of fuel are enough *)
Fixpoint units (fuel : nat) (s : str) : list str :=
  match fuel with
  | O => []
  | S f =>
      match s with
      | [] => []
      | x :: r =>
          if byte_eqb x cbo then
            match class_unit r with
            | Some (u, rest) => (x :: u) :: units f rest
            | None => [x] :: units f r
            end
          else [x] :: units f r
      end
  end.
Definition isletter (u : str) : bool :=
  match u with
  | [] => false
  | [c] => wordch c
  | c :: _ :: _ => byte_eqb c cbo
  end.
Fixpoint join_units (g : str) (us : list str) : str :=
  match us with
  | [] => []
  | u :: r => u ++ (match r with
                    | n :: _ => if isletter u && isletter n then gapstr g else []
                    | [] => []
                    end) ++ join_units g r
  end.
Definition rw (g : str) (s : str) : str := join_units g (units (length s) s).

(* the same on the syntax tree: the filler goes between two neighbours of a concatenation whose texts end / begin with a
   letter unit (a letter, "." or a class) *)
Definition filler (g : str) : rx := XStar (XCls false g).
Fixpoint first_plain (r : rx) : bool :=
  match r with
  | XChr c => wordch c
  | XDot => true
  | XCls _ _ => true
  | XGrp _ _ => false
  | XCat a _ | XAlt a _ | XStar a | XPlus a | XOpt a => first_plain a
  end.
Fixpoint last_plain (r : rx) : bool :=
  match r with
  | XChr c => wordch c
  | XDot => true
  | XCls _ _ => true
  | XGrp _ _ | XStar _ | XPlus _ | XOpt _ => false
  | XCat _ b | XAlt _ b => last_plain b
  end.
Fixpoint gapify (g : str) (r : rx) : rx :=
  match r with
  | XChr _ | XDot | XCls _ _ => r
  | XCat a b => XCat (gapify g a) (if last_plain a && first_plain b then XCat (filler g) (gapify g b) else gapify g b)
  | XAlt a b => XAlt (gapify g a) (gapify g b)
  | XStar a => XStar (gapify g a)
  | XPlus a => XPlus (gapify g a)
  | XOpt a => XOpt (gapify g a)
  | XGrp c a => XGrp c (gapify g a)
  end.
Definition eff_rx (gap : option str) (r : rx) : rx := match gap with Some g => gapify g r | None => r end.
Definition eff_text (gap : option str) (t : str) : str := match gap with Some g => rw g t | None => t end.

(* ---------------------------------------------------------------- matcher *)
(* greedy repetition of a consuming body [ma]; every round must consume, so length s + 1 rounds of fuel are enough *)
Definition star_loop (ma : str -> (str -> option nat) -> option nat) (k : str -> option nat) : nat -> str -> option nat :=
  fix go (fuel : nat) (s : str) {struct fuel} : option nat :=
    match fuel with
    | O => k s
    | S f => match ma s (fun s' => if (length s' <? length s)%nat then go f s' else None) with
             | Some n => Some n
             | None => k s
             end
    end.
(* number of characters consumed by r followed by the continuation k, first successful path in CPython's order *)
Fixpoint mrx (r : rx) (s : str) (k : str -> option nat) {struct r} : option nat :=
  match r with
  | XChr c => match s with x :: s' => if byte_eqb x c then option_map S (k s') else None | [] => None end
  | XDot => match s with x :: s' => if byte_eqb x cnl then None else option_map S (k s') | [] => None end
  | XCls neg cs => match s with x :: s' => if Bool.eqb (has x cs) (negb neg) then option_map S (k s') else None | [] => None end
  | XCat a b => mrx a s (fun s' => mrx b s' k)
  | XAlt a b => match mrx a s k with Some n => Some n | None => mrx b s k end
  | XStar a => star_loop (mrx a) k (S (length s)) s
  | XPlus a => mrx a s (fun s' => star_loop (mrx a) k (S (length s')) s')
  | XOpt a => match mrx a s k with Some n => Some n | None => k s end
  | XGrp _ a => mrx a s k
  end.
Definition m_rx (r : rx) (s : str) : option nat := mrx r s (fun _ => Some 0%nat).

(* re.finditer for an arbitrary prefix matcher (same loop as C13_Model.finditer) *)
Fixpoint finditer_m (m : str -> option nat) (s : str) (pos skip : nat) : list (nat * nat) :=
  match s with
  | [] => []
  | _ :: s' =>
      match skip with
      | S k => finditer_m m s' (S pos) k
      | O =>
          match m s with
          | Some (S n) => (pos, (pos + S n)%nat) :: finditer_m m s' (S pos) n
          | _ => finditer_m m s' (S pos) 0%nat
          end
      end
  end.

(* ---------------------------------------------------------------- match() over an arbitrary matcher, cane.py:223-255 *)
Definition raw_pass_m (m : str -> option nat) (s : str) (start : Z) : list (nat * nat) :=
  filter (fun be => start <=? Z.of_nat (fst be)) (finditer_m m s 0 0).
Definition fwd_list_m (m : str -> option nat) (s : str) (start : Z) (gap : option str) (rfn : option (list Z)) : list bm :=
  if runs_fwd rfn then filter_map (fwd_one s start (fwd_gaps gap rfn s start) rfn) (raw_pass_m m s start) else [].
Definition bwd_list_m (m : str -> option nat) (s : str) (start : Z) (gap : option str) (rfn : option (list Z)) : list bm :=
  match rfn with
  | Some l => if has_bwd l then let r := rc s in filter_map (bwd_one r start (bwd_gaps gap r start) l) (raw_pass_m m r start) else []
  | None => []
  end.
Definition matchall_m (m : str -> option nat) (s : str) (rfn : option (list Z)) (start : Z) (gap : option str) : list bm :=
  fwd_list_m m s start gap rfn ++ bwd_list_m m s start gap rfn.
(* matchall=False: return at the first hit *)
Definition match_first_m (m : str -> option nat) (s : str) (rfn : option (list Z)) (start : Z) (gap : option str) : option bm :=
  let f := if runs_fwd rfn then first_some (fwd_one s start (fwd_gaps gap rfn s start) rfn) (raw_pass_m m s start) else None in
  match f with
  | Some x => Some x
  | None =>
      match rfn with
      | Some l => if has_bwd l then let r := rc s in first_some (bwd_one r start (bwd_gaps gap r start) l) (raw_pass_m m r start) else None
      | None => None
      end
  end.

(* ---------------------------------------------------------------- rf argument: total decision table, cane.py:200-209,227-230 *)
(* RfArg: None / int / str / collection of ints; RfBool: bool is an int in Python; RfNonIter: any other value that cannot be
   iterated (float, object()): set(rf) raises TypeError at cane.py:229 *)
Inductive rfany := RfArg (r : rfarg) | RfBool (b : bool) | RfNonIter.
Definition rf_decide (a : rfany) : str + option (list Z) :=
  match a with
  | RfArg r => match norm_rf r with Some x => inr x | None => inl (bs "AssertionError"%bs) end
  | RfBool b => inr (Some [if b then 1 else 0])
  | RfNonIter => inl (bs "TypeError"%bs)
  end.

(* ---------------------------------------------------------------- BioMatch.span, cane.py:137-141 *)
Definition span_mirror (rf : option Z) (lenseq : Z) (be : Z * Z) : Z * Z :=
  match rf with
  | Some f => if f <? 0 then (lenseq - snd be, lenseq - fst be) else be
  | None => be
  end.

(* ---------------------------------------------------------------- BioMatchList.groupby(key), cane.py:28-45 (one key) *)
(* d.setdefault(key(obj), cls()).append(obj) on an insertion-ordered dict *)
Fixpoint gb_insert {K V} (keq : K -> K -> bool) (k : K) (v : V) (d : list (K * list V)) : list (K * list V) :=
  match d with
  | [] => [(k, [v])]
  | (k', vs) :: r => if keq k k' then (k', vs ++ [v]) :: r else (k', vs) :: gb_insert keq k v r
  end.
Definition groupby_l {K V} (keq : K -> K -> bool) (key : V -> K) (l : list V) : list (K * list V) :=
  fold_left (fun d v => gb_insert keq (key v) v d) l [].
Definition oz_eqb (a b : option Z) : bool :=
  match a, b with Some x, Some y => x =? y | None, None => true | _, _ => false end.
Definition groupby_rf (l : list bm) : list (option Z * list bm) := groupby_l oz_eqb bm_rf l.
(* specification side: the distinct keys in order of first occurrence *)
Fixpoint dedup {K} (keq : K -> K -> bool) (ks : list K) : list K :=
  match ks with
  | [] => []
  | k :: r => k :: filter (fun x => negb (keq x k)) (dedup keq r)
  end.

(* ---------------------------------------------------------------- specification side: the language of a pattern *)
Inductive lang : rx -> str -> Prop :=
| L_chr c : lang (XChr c) [c]
| L_dot x : x <> cnl -> lang XDot [x]
| L_cls neg cs x : has x cs = negb neg -> lang (XCls neg cs) [x]
| L_cat a b t u : lang a t -> lang b u -> lang (XCat a b) (t ++ u)
| L_altl a b t : lang a t -> lang (XAlt a b) t
| L_altr a b t : lang b t -> lang (XAlt a b) t
| L_star0 a : lang (XStar a) []
| L_starS a t u : lang a t -> lang (XStar a) u -> lang (XStar a) (t ++ u)
| L_plus a t u : lang a t -> lang (XStar a) u -> lang (XPlus a) (t ++ u)
| L_opt0 a : lang (XOpt a) []
| L_opt1 a t : lang a t -> lang (XOpt a) t
| L_grp c a t : lang a t -> lang (XGrp c a) t.
(* patterns whose characters are residues: no ".", no negated class, no gap character *)
Fixpoint gapfree (g : str) (r : rx) : bool :=
  match r with
  | XChr c => negb (has c g)
  | XDot => false
  | XCls neg cs => negb neg && forallb (fun c => negb (has c g)) cs
  | XCat a b | XAlt a b => gapfree g a && gapfree g b
  | XStar a | XPlus a | XOpt a | XGrp _ a => gapfree g a
  end.
(* what the property says about one reported match when the group satisfies P (for the regex layer: P = language of the
   effective pattern); same shape as fwd_spec / bwd_spec of C13_Model *)
Definition fwd_spec_m (P : str -> Prop) (s : str) (rfn : option (list Z)) (start : Z) (gap : option str) (m : bm) : Prop :=
  exists b e : nat, (b < e <= length s)%nat /\ start <= Z.of_nat b /\
    bm_b m = Z.of_nat b /\ bm_e m = Z.of_nat e /\ bm_group m = slice b e s /\ P (bm_group m) /\
    match rfn with
    | None => bm_rf m = None
    | Some l => exists t, bm_rf m = Some t /\ In t l /\ 0 <= t < 3 /\
        t = residues gap (slice (Z.to_nat start) b s) mod 3
    end.
Definition bwd_spec_m (P : str -> Prop) (s : str) (l : list Z) (start : Z) (gap : option str) (m : bm) : Prop :=
  let r := rc s in
  let L := length s in
  exists b e : nat, (b < e <= L)%nat /\ start <= Z.of_nat b /\
    (bm_b m, bm_e m) = span_mirror (bm_rf m) (Z.of_nat L) (Z.of_nat b, Z.of_nat e) /\
    bm_b m = Z.of_nat (L - e) /\ bm_e m = Z.of_nat (L - b) /\ bm_group m = slice b e r /\
    bm_group m = rev (map (cmap (has cU s)) (slice (L - e) (L - b) s)) /\
    P (bm_group m) /\
    exists f, bm_rf m = Some f /\ In f l /\ -3 <= f <= -1 /\
      - f - 1 = residues gap (slice (Z.to_nat start) b r) mod 3.

(* ---------------------------------------------------------------- harness entry points *)
Definition wf_rx (seqs : list str) (sub : str) (r : rx) (rf : rfany) (start : Z) (gap : option str) : bool :=
  forallb wf_seq seqs && rx_ok r && negb (nullable r) && str_eqb (show r) (expand_sub sub) && (0 <=? start) && wf_gap gap &&
  match gap with
  | Some g => str_eqb (rw g (show r)) (show (gapify g r))      (* always true inside rx_ok: theorem C13_rx_rewrite_text_is_tree *)
  | None => true
  end.

Definition show_group (kv : option Z * list bm) : val := VL [VOpt VI (fst kv); VL (map show_bm (snd kv))].
Fixpoint cat_opts {A} (l : list (option A)) : list A :=
  match l with [] => [] | Some x :: r => x :: cat_opts r | None :: r => cat_opts r end.

(* op 0: BioSeq.matchall, 1: BioSeq.match, 2: BioBasket.matchall, 3: BioBasket.match,
   4: BioSeq.matchall(...).groupby('rf'), 5: BioBasket.matchall(...).groupby('rf');
   third component: the pattern text that is handed to re (observable as BioMatch.re.pattern) *)
Definition run_C13_rx (op : N) (seqs : list str) (sub : str) (r : rx) (rf : rfany) (start : Z) (gap : option str) : val :=
  let s := hd [] seqs in
  let m := m_rx (eff_rx gap r) in
  let res :=
    match rf_decide rf with
    | inl e => match op, seqs with
               | 2%N, [] | 3%N, [] | 5%N, [] => VL []          (* the basket loops call match() once per sequence *)
               | _, _ => VE e
               end
    | inr rfn =>
        match op with
        | 0%N => VL (map show_bm (matchall_m m s rfn start gap))
        | 1%N => VOpt show_bm (match_first_m m s rfn start gap)
        | 2%N => VL (map show_bm (flat_map (fun s => matchall_m m s rfn start gap) seqs))
        | 3%N => VL (map (fun s => VOpt show_bm (match_first_m m s rfn start gap)) seqs)
        | 4%N => VL (map show_group (groupby_rf (matchall_m m s rfn start gap)))
        | _ => VL (map show_group (groupby_rf (flat_map (fun s => matchall_m m s rfn start gap) seqs)))
        end
    end in
  VL [VB (wf_rx seqs sub r rf start gap); res; VS (eff_text gap (expand_sub sub))].

(* BioMatch(m, rf=rf, lenseq=lenseq).span() for a re.Match with span (b, e) *)
Definition run_C13_span (rf : option Z) (lenseq b e : Z) : val :=
  let be := span_mirror rf lenseq (b, e) in
  VL [VB true; VL [VI (fst be); VI (snd be)]; VNone].
