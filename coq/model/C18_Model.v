(* C18 model, part 1: the metadata containers Attr / Meta of sugar/core/meta.py as pure values.
   A metadata object is a JSON-like rose tree whose mapping nodes carry the Python class (dict / Attr / Meta);
   insertion order of keys is kept (CPython dicts are ordered, and order is observable through iteration).
   No aliasing here: this file is the value-level model (mapping laws); aliasing, copy() and the frame property
   are modelled over a heap in lib/C18_Heap.v.  No proofs in this file. *)
From Coq Require Import List ZArith NArith Bool.
From Coq.Strings Require Import Byte.
Import ListNotations.
From SV Require Import Text G_attr.

Inductive tag := TgDict | TgAttr | TgMeta.
Inductive tree :=
| TNull | TBool (b : bool) | TInt (z : Z) | TStr (s : str)
| TList (l : list tree)
| TMap (g : tag) (kvs : list (str * tree)).

Definition is_attr (g : tag) : bool := match g with TgDict => false | _ => true end.

(* ---- ordered association lists = CPython dict restricted to str keys ---- *)
Fixpoint aget {A} (k : str) (m : list (str * A)) : option A :=
  match m with
  | [] => None
  | (k', v) :: r => if str_eqb k' k then Some v else aget k r
  end.
(* d[k] = v : an existing key keeps its position, a new key is appended *)
Fixpoint aset {A} (k : str) (v : A) (m : list (str * A)) : list (str * A) :=
  match m with
  | [] => [(k, v)]
  | (k', v') :: r => if str_eqb k' k then (k', v) :: r else (k', v') :: aset k v r
  end.
(* del d[k] : None = KeyError *)
Fixpoint adel {A} (k : str) (m : list (str * A)) : option (list (str * A)) :=
  match m with
  | [] => None
  | (k', v') :: r => if str_eqb k' k then Some r else option_map (cons (k', v')) (adel k r)
  end.
Definition akeys {A} (m : list (str * A)) : list str := map fst m.
Definition amem {A} (k : str) (m : list (str * A)) : bool := match aget k m with Some _ => true | None => false end.

(* ---- Attr.__setitem__ (meta.py:49-54): a Mapping that is not an Attr is replaced by Attr(value);
        Attr.__init__ (meta.py:31-40) = self.update(dict(value)); update (meta.py:72-75) = __setitem__ per item.
        Hence the conversion is recursive through mappings, but does NOT descend into lists. *)
Fixpoint conv (v : tree) : tree :=
  match v with
  | TMap TgDict kvs =>
      TMap TgAttr ((fix go (l : list (str * tree)) (acc : list (str * tree)) : list (str * tree) :=
                      match l with
                      | [] => acc
                      | (k, x) :: r => go r (aset k (conv x) acc)
                      end) kvs [])
  | _ => v
  end.
(* Attr.update(adict) on the item list of an Attr, meta.py:72-75 *)
Definition attr_update (m : list (str * tree)) (kvs : list (str * tree)) : list (str * tree) :=
  fold_left (fun acc kv => aset (fst kv) (conv (snd kv)) acc) kvs m.
(* Attr(d) / Meta(d) for a mapping d (dict, Attr or Meta): a NEW top-level object; meta.py:31-40 *)
Definition attr_init (g : tag) (kvs : list (str * tree)) : tree := TMap g (attr_update [] kvs).
(* item assignment on a mapping node of class g *)
Definition map_set (g : tag) (k : str) (v : tree) (kvs : list (str * tree)) : list (str * tree) :=
  aset k (if is_attr g then conv v else v) kvs.

(* the plain-dict view: what dict(...) applied recursively gives (used by the to_dict/of_dict law) *)
Fixpoint to_dict (t : tree) : tree :=
  match t with
  | TList l => TList (map to_dict l)
  | TMap _ kvs => TMap TgDict (map (fun kv => (fst kv, to_dict (snd kv))) kvs)
  | _ => t
  end.

(* ---- Python == on these values.  bool is an int (True == 1); Mapping.__eq__ (collections.abc) is
        dict(self.items()) == dict(other.items()): same key set, equal values, order and class irrelevant. *)
Definition b2z (b : bool) : Z := if b then 1%Z else 0%Z.
Fixpoint py_eq (a b : tree) : bool :=
  match a, b with
  | TNull, TNull => true
  | TBool x, TBool y => Bool.eqb x y
  | TBool x, TInt y => Z.eqb (b2z x) y
  | TInt x, TBool y => Z.eqb x (b2z y)
  | TInt x, TInt y => Z.eqb x y
  | TStr x, TStr y => str_eqb x y
  | TList la, TList lb =>
      (fix go (la lb : list tree) : bool :=
         match la, lb with
         | [], [] => true
         | x :: ra, y :: rb => py_eq x y && go ra rb
         | _, _ => false
         end) la lb
  | TMap _ ka, TMap _ kb =>
      Nat.eqb (length ka) (length kb) &&
      (fix go (l : list (str * tree)) : bool :=
         match l with
         | [] => true
         | (k, x) :: r => match aget k kb with Some y => py_eq x y | None => false end && go r
         end) ka
  | _, _ => false
  end.

(* ---- domain: keys outside the reserved set R (open finding F20), literals are plain dict trees without
        duplicate keys ---- *)
Definition is_dunder (k : str) : bool :=
  match k with
  | "_"%byte :: "_"%byte :: r => match rev r with "_"%byte :: "_"%byte :: _ => true | _ => false end
  | _ => false
  end.
Definition reserved (k : str) : bool := is_dunder k || existsb (str_eqb k) ATTR_RESERVED.
Fixpoint nodupb (l : list str) : bool :=
  match l with [] => true | k :: r => negb (existsb (str_eqb k) r) && nodupb r end.
(* a literal handed to the library: only dict nodes, keys unique and not reserved *)
Fixpoint wf_lit (t : tree) : bool :=
  match t with
  | TList l => forallb wf_lit l
  | TMap TgDict kvs =>
      nodupb (map fst kvs) && forallb (fun kv => negb (reserved (fst kv))) kvs
      && forallb (fun kv => wf_lit (snd kv)) kvs
  | TMap _ _ => false
  | _ => true
  end.

(* ---- navigation: obj[e1][e2]... ---- *)
Inductive pelem := PK (k : str) | PI (i : Z).
Inductive err := EKey | EType | EIndex | EAttr | EOut.   (* EOut: outside the modelled domain *)
Definition nth_py {A} (l : list A) (i : Z) : option A :=
  let n := Z.of_nat (length l) in
  let j := if Z.ltb i 0 then (i + n)%Z else i in
  if Z.ltb j 0 || Z.leb n j then None else nth_error l (Z.to_nat j).
Fixpoint set_nth {A} (l : list A) (n : nat) (x : A) : list A :=
  match l, n with
  | [], _ => []
  | _ :: r, O => x :: r
  | y :: r, S n' => y :: set_nth r n' x
  end.
Definition set_py {A} (l : list A) (i : Z) (x : A) : list A :=
  let n := Z.of_nat (length l) in
  let j := if Z.ltb i 0 then (i + n)%Z else i in
  if Z.ltb j 0 || Z.leb n j then l else set_nth l (Z.to_nat j) x.
Definition step (t : tree) (e : pelem) : tree + err :=
  match t, e with
  | TMap _ kvs, PK k => match aget k kvs with Some v => inl v | None => inr EKey end
  | TMap _ _, PI _ => inr EKey
  | TList l, PI i => match nth_py l i with Some v => inl v | None => inr EIndex end
  | TStr s, PI i => match nth_py s i with Some c => inl (TStr [c]) | None => inr EIndex end
  | _, _ => inr EType
  end.
(* put a (mutated) child back: the parent keeps its identity, so no conversion happens here *)
Definition put (t : tree) (e : pelem) (c : tree) : tree :=
  match t, e with
  | TMap g kvs, PK k => TMap g (aset k c kvs)
  | TList l, PI i => TList (set_py l i c)
  | _, _ => t
  end.
Fixpoint upd {R} (p : list pelem) (f : tree -> (tree * R) + err) (t : tree) : (tree * R) + err :=
  match p with
  | [] => f t
  | e :: p' =>
      match step t e with
      | inr x => inr x
      | inl c => match upd p' f c with
                 | inr x => inr x
                 | inl (c', r) => inl (put t e c', r)
                 end
      end
  end.

(* ---- result encoding (shared with the Python snapshot): ['L', ...] / ['D'|'A'|'M', [k, v], ...] ---- *)
Definition tagname (g : tag) : str :=
  match g with TgDict => bs "D"%bs | TgAttr => bs "A"%bs | TgMeta => bs "M"%bs end.
Fixpoint enc (t : tree) : val :=
  match t with
  | TNull => VNone | TBool b => VB b | TInt z => VI z | TStr s => VS s
  | TList l => VL (VS (bs "L"%bs) :: map enc l)
  | TMap g kvs => VL (VS (tagname g) :: map (fun kv => VL [VS (fst kv); enc (snd kv)]) kvs)
  end.
Definition enc_err (e : err) : val :=
  VE (match e with EKey => bs "KeyError"%bs | EType => bs "TypeError"%bs | EIndex => bs "IndexError"%bs
               | EAttr => bs "AttributeError"%bs | EOut => bs "OutOfDomain"%bs end).

(* ---- the public operations on the object reached by a path ---- *)
Inductive op :=
| OSetItem (p : list pelem) (k : str) (v : tree)      (* nav(p)[k] = v ;                meta.py:49-54 *)
| OSetAttr (p : list pelem) (k : str) (v : tree)      (* setattr(nav(p), k, v) ;        meta.py:65 *)
| ODelItem (p : list pelem) (k : str)                 (* del nav(p)[k] ;                meta.py:56-57 *)
| ODelAttr (p : list pelem) (k : str)                 (* delattr(nav(p), k) ;           meta.py:66 *)
| OGetItem (p : list pelem) (k : str)                 (* nav(p)[k] ;                    meta.py:46-47 *)
| OGetAttr (p : list pelem) (k : str)                 (* getattr(nav(p), k) ;           meta.py:59-63 *)
| OGet (p : list pelem) (k : str) (d : tree)          (* nav(p).get(k, d) ;             Mapping.get *)
| OPop (p : list pelem) (k : str)                     (* nav(p).pop(k) ;                MutableMapping.pop *)
| OPopItem (p : list pelem)                           (* nav(p).popitem() : FIRST item for Attr, LAST for dict *)
| OSetDefault (p : list pelem) (k : str) (v : tree)   (* nav(p).setdefault(k, v) *)
| OClear (p : list pelem)
| OUpdate (p : list pelem) (d : tree)                 (* nav(p).update(d) ;             meta.py:72-75 *)
| OLen (p : list pelem)
| OKeys (p : list pelem)                              (* list(nav(p)) ;                 meta.py:77-78 *)
| OContains (p : list pelem) (k : str)                (* k in nav(p) *)
| OEq (p : list pelem) (d : tree)                     (* nav(p) == d *)
| OListAppend (p : list pelem) (v : tree)             (* nav(p).append(v) on a nested list *)
| OListSet (p : list pelem) (i : Z) (v : tree).       (* nav(p)[i] = v on a nested list *)

Definition ret {R} (t : tree) (r : R) : (tree * R) + err := inl (t, r).
Definition apply_op (o : op) (root : tree) : (tree * val) + err :=
  match o with
  | OSetItem p k v => upd p (fun t => match t with
        | TMap g kvs => ret (TMap g (map_set g k v kvs)) VNone
        | _ => inr EType end) root
  | OSetAttr p k v => upd p (fun t => match t with
        | TMap g kvs => if is_attr g then ret (TMap g (map_set g k v kvs)) VNone else inr EOut
        | _ => inr EOut end) root
  | ODelItem p k => upd p (fun t => match t with
        | TMap g kvs => match adel k kvs with Some kvs' => ret (TMap g kvs') VNone | None => inr EKey end
        | _ => inr EType end) root
  | ODelAttr p k => upd p (fun t => match t with         (* __delattr__ = __delitem__ : KeyError, not AttributeError *)
        | TMap g kvs => if is_attr g then
                          match adel k kvs with Some kvs' => ret (TMap g kvs') VNone | None => inr EKey end
                        else inr EOut
        | _ => inr EOut end) root
  | OGetItem p k => upd p (fun t => match step t (PK k) with inl v => ret t (enc v) | inr e => inr e end) root
  | OGetAttr p k => upd p (fun t => match t with
        | TMap g kvs => if is_attr g then
                          match aget k kvs with Some v => ret t (enc v) | None => inr EAttr end
                        else inr EOut
        | _ => inr EOut end) root
  | OGet p k d => upd p (fun t => match t with
        | TMap g kvs => ret t (enc (match aget k kvs with Some v => v | None => d end))
        | _ => inr EOut end) root
  | OPop p k => upd p (fun t => match t with
        | TMap g kvs => match aget k kvs, adel k kvs with
                        | Some v, Some kvs' => ret (TMap g kvs') (enc v)
                        | _, _ => inr EKey end
        | _ => inr EOut end) root
  | OPopItem p => upd p (fun t => match t with
        | TMap g kvs =>
            if is_attr g then       (* MutableMapping.popitem: key = next(iter(self)) *)
              match kvs with (k, v) :: r => ret (TMap g r) (VL [VS k; enc v]) | [] => inr EKey end
            else                    (* dict.popitem: LIFO *)
              match rev kvs with (k, v) :: r => ret (TMap g (rev r)) (VL [VS k; enc v]) | [] => inr EKey end
        | _ => inr EOut end) root
  | OSetDefault p k v => upd p (fun t => match t with
        | TMap g kvs => match aget k kvs with
                        | Some x => ret t (enc x)
                        | None => ret (TMap g (map_set g k v kvs)) (enc v)   (* returns the default AS PASSED *)
                        end
        | _ => inr EOut end) root
  | OClear p => upd p (fun t => match t with
        | TMap g kvs => ret (TMap g []) VNone
        | _ => inr EOut end) root
  | OUpdate p d => upd p (fun t => match t, d with
        | TMap g kvs, TMap _ dk =>
            if is_attr g then ret (TMap g (attr_update kvs dk)) VNone
            else ret (TMap g (fold_left (fun acc kv => aset (fst kv) (snd kv) acc) dk kvs)) VNone
        | _, _ => inr EOut end) root
  | OLen p => upd p (fun t => match t with
        | TMap _ kvs => ret t (VI (Z.of_nat (length kvs)))
        | TList l => ret t (VI (Z.of_nat (length l)))
        | TStr s => ret t (VI (Z.of_nat (length s)))
        | _ => inr EType end) root
  | OKeys p => upd p (fun t => match t with
        | TMap _ kvs => ret t (VL (map VS (akeys kvs)))
        | _ => inr EOut end) root
  | OContains p k => upd p (fun t => match t with
        | TMap _ kvs => ret t (VB (amem k kvs))
        | _ => inr EOut end) root
  | OEq p d => upd p (fun t => ret t (VB (py_eq t d))) root
  | OListAppend p v => upd p (fun t => match t with
        | TList l => ret (TList (l ++ [v])) VNone
        | _ => inr EOut end) root
  | OListSet p i v => upd p (fun t => match t with
        | TList l => match nth_py l i with Some _ => ret (TList (set_py l i v)) VNone | None => inr EIndex end
        | _ => inr EOut end) root
  end.

Definition op_lits (o : op) : list tree :=
  match o with
  | OSetItem _ _ v | OSetAttr _ _ v | OGet _ _ v | OSetDefault _ _ v | OUpdate _ v | OEq _ v
  | OListAppend _ v | OListSet _ _ v => [v]
  | _ => []
  end.
Definition pelem_ok (e : pelem) : bool := match e with PK k => negb (reserved k) | PI _ => true end.
Definition op_keys_ok (o : op) : bool :=
  match o with
  | OSetItem p k _ | OSetAttr p k _ | ODelItem p k | ODelAttr p k | OGetItem p k | OGetAttr p k | OGet p k _
  | OPop p k | OSetDefault p k _ | OContains p k => negb (reserved k) && forallb pelem_ok p
  | OPopItem p | OClear p | OUpdate p _ | OLen p | OKeys p | OEq p _ | OListAppend p _ | OListSet p _ _ => forallb pelem_ok p
  end.
Definition wf_op (o : op) : bool := op_keys_ok o && forallb wf_lit (op_lits o).

(* a history: an exception leaves the object unchanged (every modelled operation checks before it writes) *)
Fixpoint run_ops (ops : list op) (root : tree) (okd : bool) (acc : list val) : bool * list val * tree :=
  match ops with
  | [] => (okd, rev acc, root)
  | o :: r =>
      match apply_op o root with
      | inl (root', v) => run_ops r root' okd (v :: acc)
      | inr EOut => run_ops r root false (enc_err EOut :: acc)
      | inr e => run_ops r root okd (enc_err e :: acc)
      end
  end.

(* domain predicate of the value-level theorems and of the correspondence:
   the initial literal is a dict (root) of well-formed literals, all operations use unreserved keys, and no
   operation left the modelled fragment (attribute access on something that is not an Attr, ...) *)
Definition wf_C18 (d : tree) (ops : list op) : bool :=
  match d with
  | TMap TgDict kvs =>
      wf_lit d && forallb wf_op ops
      && (let '(okd, _, _) := run_ops ops (attr_init TgMeta kvs) true [] in okd)
  | _ => false
  end.

(* harness entry point: x = Meta(d); apply the history; report [in-domain, per-op results, final snapshot,
   x == to_dict(x), Meta(x) snapshot] *)
Definition run_C18 (d : tree) (ops : list op) : val :=
  match d with
  | TMap _ kvs =>
      let '(okd, res, final) := run_ops ops (attr_init TgMeta kvs) true [] in
      VL [VB (wf_C18 d ops); VL [VL res; enc final; VB (py_eq final (to_dict final))]]
  | _ => VL [VB false; VNone]
  end.
