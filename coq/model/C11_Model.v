(* C11 model: the tabular hit readers (BLAST outfmt 6/7/10, MMseqs2 fmtmode 0/4, Infernal tblout fmt 1/2/3).
   Models sugar/_io/tab/core.py:245-348 (_headers_from_fmtstrings, read_tabular) as reached through
   sugar.read_fts(f, 'blast'|'mmseqs'|'infernal') (blast.py:20-34, mmseqs.py:36-49, infernal.py:24-32, main.py:334-369).
   The column tables come from the regenerated G_tab.v; only control flow is written by hand. No proofs here. *)
From Coq Require Import List ZArith NArith Bool.
From Coq.Strings Require Import Byte.
Import ListNotations.
From SV Require Import Text G_tab.
Local Open Scope Z_scope.

(* ------------------------------------------------------------------ CPython str helpers (Latin-1) *)

(* str.isspace per code point 0..255 *)
Definition is_space (c : byte) : bool :=
  match c with
  | x09 | x0a | x0b | x0c | x0d | x1c | x1d | x1e | x1f | x20 | x85 | xa0 => true
  | _ => false
  end.
Fixpoint lstrip_ws (s : str) : str :=
  match s with c :: r => if is_space c then lstrip_ws r else s | [] => [] end.
Definition rstrip_ws (s : str) : str := rev (lstrip_ws (rev s)).
(* str.strip() *)
Definition strip_ws (s : str) : str := rstrip_ws (lstrip_ws s).
(* str.lstrip(ch) for a single character *)
Fixpoint lstrip_ch (ch : byte) (s : str) : str :=
  match s with c :: r => if byte_eqb c ch then lstrip_ch ch r else s | [] => [] end.
Fixpoint starts_with (p s : str) : bool :=
  match p, s with
  | [], _ => true
  | a :: p', b :: s' => byte_eqb a b && starts_with p' s'
  | _ :: _, [] => false
  end.
Definition remove_prefix (p s : str) : str := if starts_with p s then skipn (length p) s else s.
(* p in s *)
Fixpoint contains (p s : str) : bool :=
  match s with
  | [] => match p with [] => true | _ => false end
  | _ :: r => starts_with p s || contains p r
  end.
Definition has (c : byte) (s : str) : bool := existsb (byte_eqb c) s.

(* str.split(c) for a one-character separator, no maxsplit *)
Fixpoint split_on (c : byte) (s : str) : list str :=
  match s with
  | [] => [[]]
  | x :: r => if byte_eqb x c then [] :: split_on c r
              else match split_on c r with h :: t => (x :: h) :: t | [] => [[x]] end
  end.
(* str.split(None, maxsplit): [n] = number of splits still allowed, [cur] = token being read (reversed) *)
Fixpoint split_ws_go (n : nat) (cur : option str) (s : str) : list str :=
  match s with
  | [] => match cur with Some t => [rev t] | None => [] end
  | c :: r =>
      match cur with
      | Some t => if is_space c then rev t :: split_ws_go n None r else split_ws_go n (Some (c :: t)) r
      | None => if is_space c then split_ws_go n None r
                else match n with
                     | O => [s]
                     | S n' => split_ws_go n' (Some [c]) r
                     end
      end
  end.
Definition split_ws_max (n : nat) (s : str) : list str := split_ws_go n None s.
(* str.split(): every token costs one split at most, so length s splits are "unlimited" *)
Definition split_ws (s : str) : list str := split_ws_max (length s) s.
(* line.strip().split(sep, maxsplit) as used in core.py:286,297 *)
Definition py_split (sep : option byte) (maxsplit : option nat) (s : str) : list str :=
  match sep with
  | Some c => split_on c s                     (* maxsplit is -1 whenever sep is given (only Infernal sets it, with sep=None) *)
  | None => match maxsplit with Some n => split_ws_max n s | None => split_ws s end
  end.

(* iteration over a text file: lines keep their terminator *)
Fixpoint lines_keep (s : str) : list str :=
  match s with
  | [] => []
  | x :: r => if byte_eqb x x0a then [x] :: lines_keep r
              else match lines_keep r with h :: t => (x :: h) :: t | [] => [[x]] end
  end.
(* universal newlines of open(fname, 'r'): "\r\n" and "\r" become "\n" *)
Fixpoint univ_nl (s : str) : str :=
  match s with
  | [] => []
  | x0d :: r => x0a :: match r with x0a :: r' => univ_nl r' | _ => univ_nl r end
  | x :: r => x :: univ_nl r
  end.

Fixpoint repeat_str (n : nat) (s : str) : str := match n with O => [] | S n' => s ++ repeat_str n' s end.
Definition lower1 (c : byte) : byte :=
  match c with
  | "A" => "a" | "B" => "b" | "C" => "c" | "D" => "d" | "E" => "e" | "F" => "f" | "G" => "g" | "H" => "h" | "I" => "i"
  | "J" => "j" | "K" => "k" | "L" => "l" | "M" => "m" | "N" => "n" | "O" => "o" | "P" => "p" | "Q" => "q" | "R" => "r"
  | "S" => "s" | "T" => "t" | "U" => "u" | "V" => "v" | "W" => "w" | "X" => "x" | "Y" => "y" | "Z" => "z" | x => x
  end%byte.

(* ------------------------------------------------------------------ int(v), float(v) *)

(* int() and float() skip a narrower set of blanks than str.strip(): the C isspace characters and, beyond ASCII, U+0085 and
   U+00A0; the information separators 0x1c-0x1f are whitespace for str.strip()/split() but int('7\x1f') is a ValueError *)
Definition is_space_num (c : byte) : bool := match c with x1c | x1d | x1e | x1f => false | _ => is_space c end.
Fixpoint lstrip_num (s : str) : str :=
  match s with c :: r => if is_space_num c then lstrip_num r else s | [] => [] end.
Definition strip_num (s : str) : str := rev (lstrip_num (rev (lstrip_num s))).
Definition all_space_num (s : str) : bool := forallb is_space_num s.
(* int(str): surrounding whitespace, optional sign, decimal digits ('_' grouping is excluded by wf) *)
Definition py_int (v : str) : option Z := Z_of_dec (strip_num v).

(* decimal literal kept exactly (DESIGN 5.3): value = (-1)^neg * mant * 10^e10 *)
Inductive flit := FNum (neg : bool) (mant : Z) (e10 : Z) | FInf (neg : bool) | FNan.

(* consume decimal digits: accumulated value, number of digits, rest *)
Fixpoint span_digits (s : str) (acc : Z) (n : Z) : Z * Z * str :=
  match s with
  | c :: r => match digit_val c with Some d => span_digits r (acc * 10 + d) (n + 1) | None => (acc, n, s) end
  | [] => (acc, n, [])
  end.
Definition split_sign (s : str) : bool * str :=
  match s with
  | "-"%byte :: r => (true, r)
  | "+"%byte :: r => (false, r)
  | _ => (false, s)
  end.
(* float(str): [ws] [sign] (inf|infinity|nan | digits [. digits] | . digits) [e [sign] digits] [ws] *)
Definition py_float (v : str) : option flit :=
  let '(neg, s) := split_sign (strip_num v) in
  let l := map lower1 s in
  if str_eqb l (bs "inf"%bs) || str_eqb l (bs "infinity"%bs) then Some (FInf neg)
  else if str_eqb l (bs "nan"%bs) then Some FNan
  else
    let '(ip, ni, r1) := span_digits s 0 0 in
    let '(m, nf, r2) := match r1 with
                        | "."%byte :: r => span_digits r ip 0
                        | _ => (ip, 0, r1)
                        end in
    if (ni + nf =? 0) then None
    else match r2 with
         | [] => Some (FNum neg m (- nf))
         | c :: r3 =>
             if byte_eqb c "e"%byte || byte_eqb c "E"%byte then
               let '(eneg, r4) := split_sign r3 in
               match span_digits r4 0 0 with
               | (e, ne, []) => if ne =? 0 then None else Some (FNum neg m ((if eneg then - e else e) - nf))
               | _ => None
               end
             else None
         end.

(* ------------------------------------------------------------------ tables *)

Inductive dialect := Blast | Mmseqs | Infernal.
Definition hdr : Type := (str * str * coltype * option str).
Definition hname (h : hdr) : str := let '(n, _, _, _) := h in n.
Definition hlong (h : hdr) : str := let '(_, l, _, _) := h in l.
Definition htype (h : hdr) : coltype := let '(_, _, t, _) := h in t.
Definition hbeq (h : hdr) : option str := let '(_, _, _, b) := h in b.

Definition dialect_name (d : dialect) : str :=
  match d with Blast => bs "blast"%bs | Mmseqs => bs "mmseqs"%bs | Infernal => bs "infernal"%bs end.
Definition header_of (d : dialect) : list hdr :=
  match d with Blast => HEADER_blast | Mmseqs => HEADER_mmseqs | Infernal => HEADER_infernal end.
Definition converth_of (d : dialect) : list (option str * str) :=
  match d with Blast => CONVERTH_blast | Mmseqs => CONVERTH_mmseqs | Infernal => CONVERTH_infernal end.

Fixpoint assoc {V} (k : str) (t : list (str * V)) : option V :=
  match t with
  | [] => None
  | (a, b) :: r => if str_eqb a k then Some b else assoc k r
  end.
(* c[k] for c = _CONVERTH[fmt] (keys are str or None) *)
Fixpoint cget (c : list (option str * str)) (k : str) : option str :=
  match c with
  | [] => None
  | (Some a, b) :: r => if str_eqb a k then Some b else cget r k
  | (None, _) :: r => cget r k
  end.
Fixpoint zassoc {V} (k : Z) (t : list (Z * V)) : option V :=
  match t with
  | [] => None
  | (a, b) :: r => if Z.eqb a k then Some b else zassoc k r
  end.
(* dict[k] = v keeping insertion order *)
Fixpoint dict_set {V} (k : str) (v : V) (d : list (str * V)) : list (str * V) :=
  match d with
  | [] => [(k, v)]
  | (a, b) :: r => if str_eqb a k then (a, v) :: r else (a, b) :: dict_set k v r
  end.
Definition mem (k : str) (l : list str) : bool := existsb (str_eqb k) l.

Inductive res (A : Type) := Ok (a : A) | Err (e : str).
Arguments Ok {A} a.
Arguments Err {A} e.
Definition eValue : str := bs "ValueError"%bs.
Definition eKey : str := bs "KeyError"%bs.
Definition eType : str := bs "TypeError"%bs.

(* _headers_from_fmtstrings, core.py:245-257: first header whose attr equals the string; ValueError if none *)
Fixpoint find_hdr (by_long : bool) (s : str) (hs : list hdr) : option hdr :=
  match hs with
  | [] => None
  | h :: r => if str_eqb (if by_long then hlong h else hname h) s then Some h else find_hdr by_long s r
  end.
Fixpoint headers_from (by_long : bool) (d : dialect) (fmtstrs : list str) : res (list hdr) :=
  match fmtstrs with
  | [] => Ok []
  | s :: r => match find_hdr by_long s (header_of d) with
              | None => Err eValue
              | Some h => match headers_from by_long d r with Ok hs => Ok (h :: hs) | Err e => Err e end
              end
  end.

(* ------------------------------------------------------------------ one data row, core.py:297-347 *)

Inductive aval :=
| AStr (s : str)
| AInt (z : Z)
| AFlt (f : flit)
| AFdiv (f : flit)     (* float(f) / 100   (core.py:340) *)
| AFmul (f : flit).    (* float(f) * 100   (core.py:342) *)

(* headers[i].type(v) with "except ValueError: pass", core.py:303-306 *)
Definition conv (t : coltype) (v : str) : aval :=
  match t with
  | TStr => AStr v
  | TInt => match py_int v with Some z => AInt z | None => AStr v end
  | TFloat => match py_float v with Some f => AFlt f | None => AStr v end
  end.
Definition attrs_t := list (str * aval).
Fixpoint fill_attrs (hs : list hdr) (toks : list str) (acc : attrs_t) : attrs_t :=
  match hs, toks with
  | h :: hs', v :: toks' => fill_attrs hs' toks' (dict_set (hname h) (conv (htype h) v) acc)
  | _, _ => acc
  end.
Definition row_attrs (hs : list hdr) (toks : list str) : attrs_t := fill_attrs hs toks [].

Definition aval_is_str (a : option aval) (s : str) : bool :=
  match a with Some (AStr t) => str_eqb t s | _ => false end.
(* attrs.get('sstrand') in (None, a, b) *)
Definition sstrand_in (ss : option aval) (a b : str) : bool :=
  match ss with None => true | Some (AStr t) => str_eqb t a || str_eqb t b | Some _ => false end.
(* Strand(v), fts.py:64-75,139-141: one of + - . ? *)
Definition valid_strand (s : str) : bool :=
  str_eqb s (bs "+"%bs) || str_eqb s (bs "-"%bs) || str_eqb s (bs "."%bs) || str_eqb s (bs "?"%bs).

(* the orientation decision, core.py:313-335 (+ Location(), fts.py:84-91) on integer coordinates *)
(* {'plus': '+', 'minus': '-'}.get(v, v), core.py:331-333 *)
Definition strand_word (t : str) : str :=
  if str_eqb t (bs "plus"%bs) then bs "+"%bs else if str_eqb t (bs "minus"%bs) then bs "-"%bs else t.
Definition orient_fin (start stop : Z) (strand : str) : res (Z * Z * str) :=
  let '(start, stop) := if start >? stop then (stop, start) else (start, stop) in        (* core.py:332-334 *)
  if start - 1 >=? stop then Err eValue                                                    (* fts.py:85 *)
  else if valid_strand strand then Ok (start - 1, stop, strand) else Err eValue.           (* fts.py:141 *)
Definition orient (start stop qstart qstop : Z) (ss : option aval) : res (Z * Z * str) :=
  let fin := orient_fin in
  if aval_is_str ss (bs "N/A"%bs) then fin start stop (bs "."%bs)
  else if ((start >? stop) && (qstart <? qstop)) || ((start <? stop) && (qstart >? qstop)) then
    if sstrand_in ss (bs "-"%bs) (bs "minus"%bs) then fin start stop (bs "-"%bs) else Err eValue
  else if ((start <? stop) && (qstart <? qstop)) || ((start >? stop) && (qstart >? qstop)) then
    if sstrand_in ss (bs "+"%bs) (bs "plus"%bs) then fin start stop (bs "+"%bs) else Err eValue
  else
    match ss with
    | None => fin start stop (bs "."%bs)
    | Some (AStr t) => fin start stop (strand_word t)
    | Some _ => Err eValue
    end.

Record feat := mkFeat {
  f_start : Z; f_stop : Z; f_strand : str;
  f_common : attrs_t;     (* ft.meta without the format sub-dict: type, score, evalue, seqid, name *)
  f_fmt : attrs_t         (* ft.meta['_blast'|'_mmseqs'|'_infernal'] *)
}.

(* core.py:339-342 *)
Definition complete_ident (a : attrs_t) : res attrs_t :=
  match assoc (bs "pident"%bs) a, assoc (bs "fident"%bs) a with
  | Some p, None =>
      match p with
      | AFlt f => Ok (dict_set (bs "fident"%bs) (AFdiv f) a)
      | _ => Err eType                      (* str / 100 *)
      end
  | None, Some p =>
      match p with
      | AFlt f => Ok (dict_set (bs "pident"%bs) (AFmul f) a)
      | AStr s => Ok (dict_set (bs "pident"%bs) (AStr (repeat_str 100 s)) a)     (* str * 100 *)
      | AInt z => Ok (dict_set (bs "pident"%bs) (AInt (z * 100)) a)
      | _ => Err eType
      end
  | _, _ => Ok a
  end.
(* core.py:344-346 *)
Fixpoint copy_attrs (c : list (option str * str)) (cp : list (str * str)) (a : attrs_t) (common : attrs_t) : res attrs_t :=
  match cp with
  | [] => Ok common
  | (battr, mattr) :: r =>
      match cget c battr with
      | None => Err eKey
      | Some col => match assoc col a with
                    | Some v => copy_attrs c r a (dict_set mattr v common)
                    | None => copy_attrs c r a common
                    end
      end
  end.
Definition as_int (a : aval) : option Z := match a with AInt z => Some z | _ => None end.

(* attrs[c[k]] *)
Definition cattr (d : dialect) (a : attrs_t) (k : str) : option aval :=
  match cget (converth_of d) k with Some col => assoc col a | None => None end.

Definition feature_of_attrs (d : dialect) (ftype : option str) (a : attrs_t) : res feat :=
  match cattr d a (bs "sstart"%bs), cattr d a (bs "send"%bs), cattr d a (bs "qstart"%bs), cattr d a (bs "qend"%bs) with
  | Some v1, Some v2, Some v3, Some v4 =>
      match as_int v1, as_int v2, as_int v3, as_int v4 with
      | Some start, Some stop, Some qstart, Some qstop =>
          match orient start stop qstart qstop (assoc (bs "sstrand"%bs) a) with
          | Err e => Err e
          | Ok (lo, hi, strand) =>
              let ty := match ftype with                                         (* attrs.get(ftype, ftype), core.py:337 *)
                        | None => None
                        | Some k => match assoc k a with Some v => Some v | None => Some (AStr k) end
                        end in
              let common0 := match ty with Some v => [(bs "type"%bs, v)] | None => [] end in   (* fts.py:285-286 *)
              match complete_ident a with
              | Err e => Err e
              | Ok a' =>
                  match copy_attrs (converth_of d) copyattrs a' common0 with
                  | Err e => Err e
                  | Ok common => Ok (mkFeat lo hi strand common a')
                  end
              end
          end
      | _, _, _, _ => Err eType      (* comparison of str with int (coarse: str/str comparisons are outside wf) *)
      end
  | _, _, _, _ => Err eKey
  end.

Definition row_feature (d : dialect) (ftype : option str) (hs : list hdr) (toks : list str) : res feat :=
  if negb (Nat.eqb (length toks) (length hs)) then Err eValue              (* core.py:298-300 *)
  else feature_of_attrs d ftype (row_attrs hs toks).

(* ------------------------------------------------------------------ the line loop, core.py:266-296 *)

Record state := mkState { s_headers : option (list hdr); s_maxsplit : option nat; s_fts : list feat (* reversed *) }.

Definition subset (a b : list str) : bool := forallb (fun x => mem x b) a.

(* numeric / typed tokens on which the model of int()/float() is exact: no '_' digit grouping *)
Definition tok_ok (h : hdr) (v : str) : bool :=
  match htype h with TStr => true | _ => negb (has "_"%byte v) end.
Fixpoint toks_ok (hs : list hdr) (toks : list str) : bool :=
  match hs, toks with
  | h :: hs', v :: toks' => tok_ok h v && toks_ok hs' toks'
  | _, _ => true
  end.
(* the four coordinates are integers, or one of them is missing (then attrs[c[...]] is a KeyError whatever the others are,
   core.py:309-312; round 7: such rows are inside the domain) *)
Definition coords_int (d : dialect) (a : attrs_t) : bool :=
  match cattr d a (bs "sstart"%bs), cattr d a (bs "send"%bs), cattr d a (bs "qstart"%bs), cattr d a (bs "qend"%bs) with
  | Some (AInt _), Some (AInt _), Some (AInt _), Some (AInt _) => true
  | Some _, Some _, Some _, Some _ => false
  | _, _, _, _ => true
  end.
(* a row whose number of tokens is not the number of columns is inside the domain: the ValueError of core.py:298-300 is
   raised before any token is converted (round 7) *)
Definition row_wf (d : dialect) (hs : list hdr) (toks : list str) : bool :=
  if Nat.eqb (length toks) (length hs) then toks_ok hs toks && coords_int d (row_attrs hs toks) else true.

(* one line; returns the domain flag of this line and the new state *)
Definition step (d : dialect) (sep : option byte) (outfmt_none : bool) (ftype : option str)
           (st : state) (line : str) : bool * res state :=
  let is_blast := match d with Blast => true | _ => false end in
  let is_infernal := match d with Infernal => true | _ => false end in
  let is_mmseqs := match d with Mmseqs => true | _ => false end in
  let hnone := match s_headers st with None => true | Some _ => false end in
  if is_blast && outfmt_none && starts_with (bs "# Fields:"%bs) line then                       (* core.py:274-277 *)
    let headerline := remove_prefix (bs "# Fields:"%bs) line in
    match headers_from true d (map strip_ws (split_on ","%byte headerline)) with
    | Err e => (true, Err e)
    | Ok hs => (true, Ok (mkState (Some hs) (s_maxsplit st) (s_fts st)))
    end
  else if is_infernal && hnone && contains (bs "--"%bs) line then                                (* core.py:278-282 *)
    let nheaders := length (split_ws (lstrip_ch "#"%byte line)) in
    match zassoc (Z.of_nat nheaders) INFERNAL_NCOLS with
    | None => (true, Err eKey)
    | Some fmtv =>
        match assoc (dialect_name d ++ "_"%byte :: fmtv) DEFAULT_OUTFMT with
        | None => (true, Err eKey)
        | Some names =>
            match headers_from false d names with
            | Err e => (true, Err e)
            | Ok hs => (true, Ok (mkState (Some hs) (Some (Nat.pred nheaders)) (s_fts st)))
            end
        end
    end
  else if starts_with (bs "#"%bs) line || (match strip_ws line with [] => true | _ => false end) then   (* core.py:283 *)
    (true, Ok st)
  else if is_mmseqs && (let hf := py_split sep None (strip_ws line) in
                        Nat.ltb 1 (length hf) && subset hf MMSEQS_HEADER_NAMES) then              (* core.py:285-289 *)
    if hnone then
      match headers_from false d (py_split sep None (strip_ws line)) with
      | Err e => (true, Err e)
      | Ok hs => (true, Ok (mkState (Some hs) (s_maxsplit st) (s_fts st)))
      end
    else (true, Ok st)
  else                                                                                           (* core.py:290-347 *)
    match (match s_headers st with
           | Some hs => Ok hs
           | None => match assoc (dialect_name d) DEFAULT_OUTFMT with
                     | None => Err eKey
                     | Some names => headers_from false d names
                     end
           end) with
    | Err e => (true, Err e)
    | Ok hs =>
        let toks := py_split sep (s_maxsplit st) (strip_ws line) in
        (row_wf d hs toks,
         match row_feature d ftype hs toks with
         | Err e => Err e
         | Ok ft => Ok (mkState (Some hs) (s_maxsplit st) (ft :: s_fts st))
         end)
    end.

Fixpoint loop (d : dialect) (sep : option byte) (outfmt_none : bool) (ftype : option str)
         (st : state) (ok : bool) (ls : list str) : bool * res (list feat) :=
  match ls with
  | [] => (ok, Ok (rev (s_fts st)))
  | l :: r => match step d sep outfmt_none ftype st l with
              | (k, Err e) => (ok && k, Err e)
              | (k, Ok st') => loop d sep outfmt_none ftype st' (ok && k) r
              end
  end.

(* read_tabular on the lines of a file *)
Definition read_lines (d : dialect) (sep : option byte) (outfmt : option str) (ftype : option str)
           (ls : list str) : bool * res (list feat) :=
  match outfmt with
  | None => loop d sep true ftype (mkState None None []) true ls
  | Some o => match headers_from false d (split_ws o) with                                      (* core.py:269-270 *)
              | Err e => (true, Err e)
              | Ok hs => loop d sep false ftype (mkState (Some hs) None []) true ls
              end
  end.

Definition all_ascii (s : str) : bool := forallb (fun c => N.ltb (Byte.to_N c) 128) s.

(* the reader wrappers: Infernal has no sep parameter and always passes sep=None (infernal.py:32) *)
Definition eff_sep (d : dialect) (sep : option byte) : option byte :=
  match d with Infernal => None | _ => sep end.
Definition read_content (d : dialect) (sep : option byte) (outfmt : option str) (ftype : option str)
           (univ : bool) (content : str) : bool * res (list feat) :=
  read_lines d (eff_sep d sep) (match d with Infernal => None | _ => outfmt end) ftype
             (lines_keep (if univ then univ_nl content else content)).

(* domain: Latin-1 text (str methods, int() and float() are modelled on code points 0..255; the decoding of the file's
   bytes is Python's and is exercised by the encoding= stream of the harness), typed tokens without '_' grouping,
   integer coordinates *)
Definition wf_C11 (d : dialect) (sep : option byte) (outfmt : option str) (ftype : option str)
           (univ : bool) (content : str) : bool :=
  fst (read_content d sep outfmt ftype univ content).

(* ------------------------------------------------------------------ rendering results for the harness *)

Definition flit_val (f : flit) : val :=
  match f with
  | FNum neg m e => VL [VS (bs "f"%bs); VB neg; VI m; VI e]
  | FInf neg => VL [VS (bs "inf"%bs); VB neg]
  | FNan => VL [VS (bs "nan"%bs)]
  end.
Definition aval_val (a : aval) : val :=
  match a with
  | AStr s => VS s
  | AInt z => VI z
  | AFlt f => flit_val f
  | AFdiv f => VL [VS (bs "div100"%bs); flit_val f]
  | AFmul f => VL [VS (bs "mul100"%bs); flit_val f]
  end.
Definition attrs_val (a : attrs_t) : val := VL (map (fun kv => VL [VS (fst kv); aval_val (snd kv)]) a).
Definition feat_val (f : feat) : val :=
  VL [VI (f_start f); VI (f_stop f); VS (f_strand f); attrs_val (f_common f); attrs_val (f_fmt f)].

Definition dialect_of_N (n : N) : dialect := match n with 0%N => Blast | 1%N => Mmseqs | _ => Infernal end.

(* the optional comments=[] argument collects every line starting with '#', core.py:272-273 (observable after a
   successful read, when all lines have been visited) *)
Definition comment_lines (ls : list str) : list str := filter (starts_with (bs "#"%bs)) ls.
Definition content_lines (univ : bool) (content : str) : list str :=
  lines_keep (if univ then univ_nl content else content).

(* harness entry point: [domain flag; result; comment lines] *)
Definition run_C11 (dn : N) (sep : option byte) (outfmt : option str) (ftype : option str) (univ : bool)
           (content : str) : val :=
  let d := dialect_of_N dn in
  VL [VB (wf_C11 d sep outfmt ftype univ content);
      match snd (read_content d sep outfmt ftype univ content) with
      | Err e => VE e
      | Ok fts => VL (map feat_val fts)
      end;
      VL (map VS (comment_lines (content_lines univ content)))].

(* a history of reads in one process: the model is pure, so every step is the model applied to that step's input
   (state-independence stream); [domain flag of all steps; results; comment lines per step] *)
Definition hstep : Type := (N * option byte * option str * option str * bool * str)%type.
Definition hstep_wf (s : hstep) : bool :=
  let '(dn, sep, outfmt, ftype, univ, content) := s in wf_C11 (dialect_of_N dn) sep outfmt ftype univ content.
Definition hstep_result (s : hstep) : val :=
  let '(dn, sep, outfmt, ftype, univ, content) := s in
  match snd (read_content (dialect_of_N dn) sep outfmt ftype univ content) with
  | Err e => VE e
  | Ok fts => VL (map feat_val fts)
  end.
Definition hstep_comments (s : hstep) : val :=
  let '(dn, sep, outfmt, ftype, univ, content) := s in VL (map VS (comment_lines (content_lines univ content))).
Definition run_C11_hist (steps : list hstep) : val :=
  VL [VB (forallb hstep_wf steps); VL (map hstep_result steps); VL (map hstep_comments steps)].

(* ------------------------------------------------------------------ specification side *)

(* abstract hit: what every dialect has to carry *)
Record hit := mkHit {
  h_sseqid : str; h_qseqid : str;
  h_sstart : Z; h_send : Z; h_qstart : Z; h_qend : Z;
  h_evalue : str; h_bitscore : str          (* decimal literals as written *)
}.
Definition sgn (z : Z) : Z := Z.sgn z.
(* expected strand from the two directions *)
Definition spec_strand (h : hit) : str :=
  let p := sgn (h_send h - h_sstart h) * sgn (h_qend h - h_qstart h) in
  if p <? 0 then bs "-"%bs else if p >? 0 then bs "+"%bs else bs "."%bs.
(* the orientation decision stated through the two directions ds = sign(send - sstart), dq = sign(qend - qstart) *)
Definition orient_spec (start stop qstart qstop : Z) (ss : option aval) : res (Z * Z * str) :=
  let p := sgn (stop - start) * sgn (qstop - qstart) in
  let iv (strand : str) : res (Z * Z * str) := Ok (Z.min start stop - 1, Z.max start stop, strand) in
  if aval_is_str ss (bs "N/A"%bs) then iv (bs "."%bs)
  else if p <? 0 then (if sstrand_in ss (bs "-"%bs) (bs "minus"%bs) then iv (bs "-"%bs) else Err eValue)
  else if p >? 0 then (if sstrand_in ss (bs "+"%bs) (bs "plus"%bs) then iv (bs "+"%bs) else Err eValue)
  else match ss with
       | None => iv (bs "."%bs)
       | Some (AStr t) => if valid_strand (strand_word t) then iv (strand_word t) else Err eValue
       | Some _ => Err eValue
       end.
(* an explicit sstrand value that contradicts the sign p of the direction product *)
Definition sstrand_contradicts (p : Z) (ss : option aval) : bool :=
  negb (aval_is_str ss (bs "N/A"%bs)) &&
  negb (if p <? 0 then sstrand_in ss (bs "-"%bs) (bs "minus"%bs) else sstrand_in ss (bs "+"%bs) (bs "plus"%bs)).
(* location, strand and common metadata (without type) of a feature *)
Definition loc_meta (f : feat) : Z * Z * str * option aval * option aval * option aval * option aval :=
  (f_start f, f_stop f, f_strand f,
   assoc (bs "seqid"%bs) (f_common f), assoc (bs "name"%bs) (f_common f),
   assoc (bs "evalue"%bs) (f_common f), assoc (bs "score"%bs) (f_common f)).
Definition spec_loc_meta (h : hit) : Z * Z * str * option aval * option aval * option aval * option aval :=
  (Z.min (h_sstart h) (h_send h) - 1, Z.max (h_sstart h) (h_send h), spec_strand h,
   Some (AStr (h_sseqid h)), Some (AStr (h_qseqid h)),
   Some (conv TFloat (h_evalue h)), Some (conv TFloat (h_bitscore h))).

(* the attribute dict of a row carries the abstract hit [h] in the columns _CONVERTH names *)
Definition carries (d : dialect) (a : attrs_t) (h : hit) : Prop :=
  cattr d a (bs "sstart"%bs) = Some (AInt (h_sstart h)) /\ cattr d a (bs "send"%bs) = Some (AInt (h_send h)) /\
  cattr d a (bs "qstart"%bs) = Some (AInt (h_qstart h)) /\ cattr d a (bs "qend"%bs) = Some (AInt (h_qend h)) /\
  cattr d a (bs "sseqid"%bs) = Some (AStr (h_sseqid h)) /\ cattr d a (bs "qseqid"%bs) = Some (AStr (h_qseqid h)) /\
  cattr d a (bs "evalue"%bs) = Some (conv TFloat (h_evalue h)) /\
  cattr d a (bs "bitscore"%bs) = Some (conv TFloat (h_bitscore h)).
(* an sstrand column, when present, states the strand the directions imply *)
Definition sstrand_agrees (h : hit) (ss : option aval) : bool :=
  match ss with
  | None => true
  | Some _ => let p := sgn (h_send h - h_sstart h) * sgn (h_qend h - h_qstart h) in
              negb (aval_is_str ss (bs "N/A"%bs)) &&
              ((p <? 0) && sstrand_in ss (bs "-"%bs) (bs "minus"%bs) || (p >? 0) && sstrand_in ss (bs "+"%bs) (bs "plus"%bs))
  end.
(* pident / fident completion (core.py:339-342) does not raise *)
Definition ident_ok (a : attrs_t) : bool :=
  match complete_ident a with Ok _ => true | Err _ => false end.

(* domain flag and location/common metadata of a one-hit file (used by the non-vacuity examples) *)
Definition lm_of (r : bool * res (list feat)) :=
  match snd r with Ok [f] => Some (fst r, loc_meta f) | _ => None end.

(* ---- text level: a file of data rows ---- *)
Fixpoint join (c : byte) (l : list str) : str :=
  match l with [] => [] | [x] => x | x :: r => x ++ c :: join c r end.
Definition line_of (c : byte) (toks : list str) : str := join c toks ++ [x0a].
(* no leading / trailing whitespace and not empty *)
Definition edge_ok (s : str) : bool :=
  match s with [] => false | x :: _ => negb (is_space x) end &&
  match rev s with [] => false | y :: _ => negb (is_space y) end.
(* the token list would be taken for an MMseqs2 fmtmode-4 header line (core.py:285-287) *)
Definition mm_header_toks (d : dialect) (toks : list str) : bool :=
  match d with Mmseqs => Nat.ltb 1 (length toks) && subset toks MMSEQS_HEADER_NAMES | _ => false end.
(* a renderable data row for separator c *)
Definition row_ok (d : dialect) (c : byte) (toks : list str) : bool :=
  forallb (fun t => negb (has c t) && negb (has x0a t)) toks && negb (has x0a [c]) && edge_ok (join c toks) &&
  negb (starts_with (bs "#"%bs) (join c toks)) && negb (mm_header_toks d toks).
(* all rows through row_feature, first error wins (the loop of core.py:271-347 on data lines) *)
Fixpoint rows_features (d : dialect) (ftype : option str) (hs : list hdr) (rows : list (list str)) : res (list feat) :=
  match rows with
  | [] => Ok []
  | r :: rs => match row_feature d ftype hs r with
               | Err e => Err e
               | Ok f => match rows_features d ftype hs rs with Ok fs => Ok (f :: fs) | Err e => Err e end
               end
  end.

(* ---- text level: whole files of the eight renderings ---- *)
Definition unlines (ls : list str) : str := concat (map (fun l => l ++ [x0a]) ls).
Definition blank (l : str) : bool := match strip_ws l with [] => true | _ => false end.
(* a comment / blank line that none of the header-discovery branches (core.py:274-282) picks up;
   [hnone] = no headers known yet (only matters for the Infernal ruler test) *)
Definition skip_ok (d : dialect) (outfmt_none hnone : bool) (line : str) : bool :=
  (starts_with (bs "#"%bs) line || blank line) &&
  negb (match d with Blast => outfmt_none && starts_with (bs "# Fields:"%bs) line | _ => false end) &&
  negb (match d with Infernal => hnone && contains (bs "--"%bs) line | _ => false end).
(* the same for a line given without its terminator *)
Definition skip_line (d : dialect) (outfmt_none hnone : bool) (l : str) : bool :=
  negb (has x0a l) && skip_ok d outfmt_none hnone (l ++ [x0a]).
(* BLAST outfmt 7: "# Fields: long1, long2, ..." *)
Definition fields_line (hs : list hdr) : str :=
  bs "# Fields:"%bs ++ join ","%byte (map (fun h => " "%byte :: hlong h) hs).
Definition long_ok (l : str) : bool := negb (has ","%byte l) && negb (has x0a l) && edge_ok l.
(* MMseqs2 fmtmode 4: the column names joined by the separator *)
Definition names_line (c : byte) (hs : list hdr) : str := join c (map hname hs).
(* Infernal tblout: a row is tokens separated by runs of blanks; only the last token (description) may contain blanks *)
Definition all_space (s : str) : bool := forallb is_space s.
Definition simple_tok (t : str) : bool := match t with [] => false | _ => forallb (fun c => negb (is_space c)) t end.
Definition spacer (s : str) : bool := match s with [] => false | _ => forallb (fun c => is_space c && negb (byte_eqb c x0a)) s end.
Definition render_ws (cells : list (str * str)) (last : str) : str :=
  concat (map (fun p => fst p ++ snd p) cells) ++ last.
Record wsrow := mkWsrow { w_lead : str; w_cells : list (str * str); w_last : str; w_trail : str }.
Definition wsrow_toks (r : wsrow) : list str := map fst (w_cells r) ++ [w_last r].
Definition wsrow_line (r : wsrow) : str := w_lead r ++ render_ws (w_cells r) (w_last r) ++ w_trail r.
Definition wsrow_ok (n : nat) (r : wsrow) : bool :=
  Nat.eqb (S (length (w_cells r))) n &&
  forallb (fun p => simple_tok (fst p) && spacer (snd p)) (w_cells r) &&
  edge_ok (w_last r) && negb (has x0a (w_last r)) &&
  forallb (fun c => is_space c && negb (byte_eqb c x0a)) (w_lead r) &&
  forallb (fun c => is_space c && negb (byte_eqb c x0a)) (w_trail r) &&
  negb (starts_with (bs "#"%bs) (wsrow_line r)).
(* the ruler line "#---- --- ..." announcing n columns *)
Definition ruler_ok (n : nat) (l : str) : bool :=
  contains (bs "--"%bs) l && negb (has x0a l) && Nat.eqb (length (split_ws (lstrip_ch "#"%byte (l ++ [x0a])))) n.
(* headers of Infernal tblout with n columns: the version the column-count map names, core.py:279-282 *)
Definition infernal_headers (n : nat) : res (list hdr) :=
  match zassoc (Z.of_nat n) INFERNAL_NCOLS with
  | None => Err eKey
  | Some v => match assoc (dialect_name Infernal ++ "_"%byte :: v) DEFAULT_OUTFMT with
              | None => Err eKey
              | Some names => headers_from false Infernal names
              end
  end.

(* a token row that carries the abstract hit h under the header list hs (hypotheses of C11_hit_row_spec) *)
Definition row_carries (d : dialect) (hs : list hdr) (toks : list str) (h : hit) : Prop :=
  length toks = length hs /\ carries d (row_attrs hs toks) h /\
  sstrand_agrees h (assoc (bs "sstrand"%bs) (row_attrs hs toks)) = true /\ ident_ok (row_attrs hs toks) = true.
(* the header row of MMseqs2 fmtmode 4 is recognised as such (core.py:285-287) and can be written with separator c *)
Definition names_ok (c : byte) (hs : list hdr) : bool :=
  forallb (fun t => negb (has c t) && negb (has x0a t)) (map hname hs) && negb (has x0a [c]) &&
  edge_ok (names_line c hs) && negb (starts_with (bs "#"%bs) (names_line c hs)) &&
  Nat.ltb 1 (length hs) && subset (map hname hs) MMSEQS_HEADER_NAMES.

(* ---- rendering an abstract hit with the default column lists ---- *)
Definition default_hs (key : str) (d : dialect) : list hdr :=
  match assoc key DEFAULT_OUTFMT with
  | Some names => match headers_from false d names with Ok hs => hs | Err _ => [] end
  | None => []
  end.
(* BLAST outfmt 6/7/10 default columns; pident, length, mismatch, gapopen are free tokens *)
Definition blast_row (x : str * str * str * str) (h : hit) : list str :=
  let '(pid, len, mis, gap) := x in
  [h_qseqid h; h_sseqid h; pid; len; mis; gap; dec_of_Z (h_qstart h); dec_of_Z (h_qend h);
   dec_of_Z (h_sstart h); dec_of_Z (h_send h); h_evalue h; h_bitscore h].
(* MMseqs2 fmtmode 0/4 default columns; fident, alnlen, mismatch, gapopen are free tokens *)
Definition mmseqs_row (x : str * str * str * str) (h : hit) : list str := blast_row x h.
(* Infernal fmt 1: the strand column says what the directions imply; the other eight columns are free tokens *)
Definition strand_sign (h : hit) : str :=
  if sgn (h_send h - h_sstart h) * sgn (h_qend h - h_qstart h) <? 0 then bs "-"%bs else bs "+"%bs.
Definition infernal1_toks (x : str * str * str * str * str * str * str * str * str) (h : hit) : list str :=
  let '(acc1, acc2, mdl, trunc, pass, gc, bias, inc, desc) := x in
  [h_sseqid h; acc1; h_qseqid h; acc2; mdl; dec_of_Z (h_qstart h); dec_of_Z (h_qend h); dec_of_Z (h_sstart h);
   dec_of_Z (h_send h); strand_sign h; trunc; pass; gc; bias; h_bitscore h; h_evalue h; inc; desc].
Definition has_direction (h : hit) : bool := negb (h_sstart h =? h_send h) && negb (h_qstart h =? h_qend h).

(* ---- finite checks over the regenerated tables ---- *)
Definition type_of_col (d : dialect) (col : str) : option coltype :=
  option_map htype (find_hdr false col (header_of d)).
Definition coltype_eqb (a b : coltype) : bool :=
  match a, b with TStr, TStr | TInt, TInt | TFloat, TFloat => true | _, _ => false end.
Definition required_cols : list (str * coltype) :=
  [(bs "sstart"%bs, TInt); (bs "send"%bs, TInt); (bs "qstart"%bs, TInt); (bs "qend"%bs, TInt);
   (bs "evalue"%bs, TFloat); (bs "bitscore"%bs, TFloat); (bs "sseqid"%bs, TStr); (bs "qseqid"%bs, TStr)].
Definition dialects : list dialect := [Blast; Mmseqs; Infernal].
(* _CONVERTH maps every required BLAST name to a column of the declared type *)
Definition converth_ok (d : dialect) : bool :=
  forallb (fun kt => match cget (converth_of d) (fst kt) with
                     | Some col => match type_of_col d col with Some t => coltype_eqb t (snd kt) | None => false end
                     | None => false
                     end) required_cols.
(* every name of every default column list resolves in the header table of its dialect, and carries the required columns *)
Definition dialect_of_key (k : str) : dialect :=
  if starts_with (bs "blast"%bs) k then Blast else if starts_with (bs "mmseqs"%bs) k then Mmseqs else Infernal.
Definition default_ok (kv : str * list str) : bool :=
  let d := dialect_of_key (fst kv) in
  forallb (fun n => match find_hdr false n (header_of d) with Some _ => true | None => false end) (snd kv) &&
  forallb (fun kt => match cget (converth_of d) (fst kt) with Some col => mem col (snd kv) | None => false end) required_cols.
Fixpoint nodup_str (l : list str) : bool :=
  match l with [] => true | x :: r => negb (mem x r) && nodup_str r end.
Fixpoint nodup_Z (l : list Z) : bool :=
  match l with [] => true | x :: r => negb (existsb (Z.eqb x) r) && nodup_Z r end.
(* the Infernal column-count map: injective, every version names a default list with exactly that many columns *)
Definition ncols_ok : bool :=
  nodup_Z (map fst INFERNAL_NCOLS) && nodup_str (map snd INFERNAL_NCOLS) &&
  forallb (fun kv => match assoc (bs "infernal_"%bs ++ snd kv) DEFAULT_OUTFMT with
                     | Some names => Z.eqb (Z.of_nat (length names)) (fst kv) && nodup_str names
                     | None => false
                     end) INFERNAL_NCOLS &&
  forallb (fun n => existsb (Z.eqb n) (map fst INFERNAL_NCOLS)) INFERNAL_SNIFF_NCOLS &&
  forallb (fun n => existsb (Z.eqb n) INFERNAL_SNIFF_NCOLS) (map fst INFERNAL_NCOLS).
(* copyattrs is exactly bitscore->score, evalue->evalue, sseqid->seqid, qseqid->name (in some order) *)
Definition copyattrs_ok : bool :=
  forallb (fun p => existsb (fun q => str_eqb (fst p) (fst q) && str_eqb (snd p) (snd q)) copyattrs)
    [(bs "bitscore"%bs, bs "score"%bs); (bs "evalue"%bs, bs "evalue"%bs); (bs "sseqid"%bs, bs "seqid"%bs);
     (bs "qseqid"%bs, bs "name"%bs)] &&
  Nat.eqb (length copyattrs) 4 && nodup_str (map snd copyattrs).
Definition header_names_ok (d : dialect) : bool := nodup_str (map hname (header_of d)).
Definition tables_ok : bool :=
  forallb converth_ok dialects && forallb default_ok DEFAULT_OUTFMT && ncols_ok && copyattrs_ok &&
  forallb header_names_ok dialects &&
  forallb (fun n => match find_hdr false n HEADER_mmseqs with Some _ => true | None => false end) MMSEQS_HEADER_NAMES.

(* ---- rendering an abstract hit under an arbitrary column selection ---- *)
(* the column _CONVERTH names for a BLAST-equivalent key ([] if none) *)
Definition ccol (d : dialect) (k : str) : str := match cget (converth_of d) k with Some col => col | None => [] end.
(* what the hit dictates for the columns it determines; a strand column (named sstrand in BLAST and Infernal) gets the sign *)
Definition tok_table (d : dialect) (h : hit) : list (str * str) :=
  [(ccol d (bs "sstart"%bs), dec_of_Z (h_sstart h)); (ccol d (bs "send"%bs), dec_of_Z (h_send h));
   (ccol d (bs "qstart"%bs), dec_of_Z (h_qstart h)); (ccol d (bs "qend"%bs), dec_of_Z (h_qend h));
   (ccol d (bs "sseqid"%bs), h_sseqid h); (ccol d (bs "qseqid"%bs), h_qseqid h);
   (ccol d (bs "evalue"%bs), h_evalue h); (ccol d (bs "bitscore"%bs), h_bitscore h);
   (bs "sstrand"%bs, strand_sign h)].
(* the token of column hd in the row of hit h; every other column is a free token chosen by [free] *)
Definition hit_tok (d : dialect) (free : str -> str) (h : hit) (hd : hdr) : str :=
  match assoc (hname hd) (tok_table d h) with Some t => t | None => free (hname hd) end.
Definition hit_row (d : dialect) (free : str -> str) (hs : list hdr) (h : hit) : list str := map (hit_tok d free h) hs.
(* a column selection the readers accept and the property talks about: distinct names, every column is one of the
   dialect's table with its declared type, and the eight required columns are present *)
Definition sel_ok (d : dialect) (hs : list hdr) : bool :=
  nodup_str (map hname hs) &&
  forallb (fun hd => match find_hdr false (hname hd) (header_of d) with
                     | Some hd' => coltype_eqb (htype hd') (htype hd)
                     | None => false
                     end) hs &&
  forallb (fun kt => mem (ccol d (fst kt)) (map hname hs)) required_cols.
(* a hit can be written under the selection: with a strand column it must have a direction (the column then says + or -) *)
Definition hit_sel_ok (hs : list hdr) (h : hit) : bool :=
  has_direction h || negb (mem (bs "sstrand"%bs) (map hname hs)).
(* the columns the hit determines are pairwise different, and a strand column has type str (finite, per dialect) *)
Definition cols_distinct (d : dialect) : bool :=
  nodup_str (map (fun kt => ccol d (fst kt)) required_cols ++ [bs "sstrand"%bs]) &&
  match find_hdr false (bs "sstrand"%bs) (header_of d) with Some hd => coltype_eqb (htype hd) TStr | None => true end.

(* ---- BLAST outfmt 7 with several queries: one block of comments, '# Fields:' line, comments and rows per query ---- *)
Record block := mkBlock { b_pre : list str; b_hs : list hdr; b_mid : list str; b_rows : list (list str) }.
Definition block_lines (c : byte) (b : block) : list str :=
  b_pre b ++ [fields_line (b_hs b)] ++ b_mid b ++ map (join c) (b_rows b).
Definition block_ok (c : byte) (b : block) : Prop :=
  b_hs b <> [] /\ forallb long_ok (map hlong (b_hs b)) = true /\
  headers_from true Blast (map hlong (b_hs b)) = Ok (b_hs b) /\
  forallb (skip_line Blast true true) (b_pre b) = true /\ forallb (skip_line Blast true true) (b_mid b) = true /\
  forallb (row_ok Blast c) (b_rows b) = true.
(* every block read with its own column list, first error wins *)
Fixpoint blocks_features (ftype : option str) (bs : list block) : res (list feat) :=
  match bs with
  | [] => Ok []
  | b :: r => match rows_features Blast ftype (b_hs b) (b_rows b) with
              | Err e => Err e
              | Ok fs => match blocks_features ftype r with Ok gs => Ok (fs ++ gs) | Err e => Err e end
              end
  end.
(* ---- sep=None for BLAST / MMseqs2: rows of blank-free tokens separated by runs of blanks ---- *)
Definition wsrow_simple_ok (d : dialect) (r : wsrow) : bool :=
  wsrow_ok (S (length (w_cells r))) r && simple_tok (w_last r) && negb (mm_header_toks d (wsrow_toks r)).

(* ================================================================== round 7 *)

(* ---- any list of lines: which lines are data lines, and what they read to ---- *)
(* the tokens of a data line, core.py:297 *)
Definition line_toks (sep : option byte) (maxsplit : option nat) (line : str) : list str := py_split sep maxsplit (strip_ws line).
(* the MMseqs2 name-row test of core.py:285-287 on a line *)
Definition names_row (d : dialect) (sep : option byte) (line : str) : bool :=
  match d with
  | Mmseqs => let hf := py_split sep None (strip_ws line) in Nat.ltb 1 (length hf) && subset hf MMSEQS_HEADER_NAMES
  | _ => false
  end.
(* a data line: neither a '#' line nor blank nor an MMseqs2 name row *)
Definition data_line (d : dialect) (sep : option byte) (line : str) : bool :=
  negb (starts_with (bs "#"%bs) line || blank line) && negb (names_row d sep line).
(* what the data lines of a text read to when the columns hs are known: row_feature of each, in order, first error wins *)
Definition lines_features (d : dialect) (ftype : option str) (hs : list hdr) (sep : option byte) (maxsplit : option nat)
           (ls : list str) : res (list feat) :=
  rows_features d ftype hs (map (line_toks sep maxsplit) (filter (data_line d sep) ls)).
(* a line that would start header discovery when no outfmt= is given (core.py:274, 285) *)
Definition discovery_line (d : dialect) (sep : option byte) (line : str) : bool :=
  match d with
  | Blast => starts_with (bs "# Fields:"%bs) line
  | Mmseqs => names_row Mmseqs sep line
  | Infernal => true
  end.
Definition skip_any (line : str) : bool := starts_with (bs "#"%bs) line || blank line.

(* ---- every column has a declared type (written from the BLAST+ / MMseqs2 / Infernal manuals, not read from sugar) ---- *)
Definition DECLARED_blast : list (str * coltype) :=
  [((bs "bitscore"%bs), TFloat); ((bs "btop"%bs), TStr); ((bs "evalue"%bs), TFloat); ((bs "frames"%bs), TStr);
   ((bs "gapopen"%bs), TInt); ((bs "gaps"%bs), TInt); ((bs "length"%bs), TInt); ((bs "mismatch"%bs), TInt);
   ((bs "nident"%bs), TInt); ((bs "pident"%bs), TFloat); ((bs "positive"%bs), TInt); ((bs "ppos"%bs), TFloat);
   ((bs "qacc"%bs), TStr); ((bs "qaccver"%bs), TStr); ((bs "qcovhsp"%bs), TFloat); ((bs "qcovs"%bs), TFloat);
   ((bs "qcovus"%bs), TFloat); ((bs "qend"%bs), TInt); ((bs "qframe"%bs), TInt); ((bs "qgi"%bs), TStr);
   ((bs "qlen"%bs), TInt); ((bs "qseq"%bs), TStr); ((bs "qseqid"%bs), TStr); ((bs "qstart"%bs), TInt);
   ((bs "sacc"%bs), TStr); ((bs "saccver"%bs), TStr); ((bs "sallacc"%bs), TStr); ((bs "sallgi"%bs), TStr);
   ((bs "sallseqid"%bs), TStr); ((bs "salltitles"%bs), TStr); ((bs "sblastname"%bs), TStr); ((bs "scomname"%bs), TStr);
   ((bs "scomnames"%bs), TStr); ((bs "score"%bs), TFloat); ((bs "send"%bs), TInt); ((bs "sframe"%bs), TInt);
   ((bs "sgi"%bs), TStr); ((bs "slen"%bs), TInt); ((bs "ssciname"%bs), TStr); ((bs "sscinames"%bs), TStr);
   ((bs "sseq"%bs), TStr); ((bs "sseqid"%bs), TStr); ((bs "sskingdom"%bs), TStr); ((bs "sskingdoms"%bs), TStr);
   ((bs "sstart"%bs), TInt); ((bs "sstrand"%bs), TStr); ((bs "staxid"%bs), TStr); ((bs "staxids"%bs), TStr);
   ((bs "stitle"%bs), TStr)].
Definition DECLARED_mmseqs : list (str * coltype) :=
  [((bs "alnlen"%bs), TInt); ((bs "bits"%bs), TFloat); ((bs "cigar"%bs), TStr); ((bs "evalue"%bs), TFloat);
   ((bs "fident"%bs), TFloat); ((bs "gapopen"%bs), TInt); ((bs "mismatch"%bs), TInt); ((bs "nident"%bs), TInt);
   ((bs "pident"%bs), TFloat); ((bs "ppos"%bs), TFloat); ((bs "qaln"%bs), TStr); ((bs "qcov"%bs), TFloat);
   ((bs "qend"%bs), TInt); ((bs "qframe"%bs), TStr); ((bs "qheader"%bs), TStr); ((bs "qlen"%bs), TInt);
   ((bs "qorfend"%bs), TInt); ((bs "qorfstart"%bs), TInt); ((bs "qseq"%bs), TStr); ((bs "qset"%bs), TStr);
   ((bs "qsetid"%bs), TStr); ((bs "qstart"%bs), TInt); ((bs "query"%bs), TStr); ((bs "raw"%bs), TStr);
   ((bs "taln"%bs), TStr); ((bs "target"%bs), TStr); ((bs "taxid"%bs), TStr); ((bs "taxlineage"%bs), TStr);
   ((bs "taxname"%bs), TStr); ((bs "tcov"%bs), TFloat); ((bs "tend"%bs), TInt); ((bs "tframe"%bs), TStr);
   ((bs "theader"%bs), TStr); ((bs "tlen"%bs), TInt); ((bs "torfend"%bs), TInt); ((bs "torfstart"%bs), TInt);
   ((bs "tseq"%bs), TStr); ((bs "tset"%bs), TStr); ((bs "tsetid"%bs), TStr); ((bs "tstart"%bs), TInt)].
Definition DECLARED_infernal : list (str * coltype) :=
  [((bs "anyfrct1"%bs), TFloat); ((bs "anyfrct2"%bs), TFloat); ((bs "anyidx"%bs), TFloat); ((bs "bias"%bs), TFloat);
   ((bs "bitscore"%bs), TFloat); ((bs "clan"%bs), TStr); ((bs "description"%bs), TStr); ((bs "evalue"%bs), TFloat);
   ((bs "gc"%bs), TFloat); ((bs "idx"%bs), TInt); ((bs "inc"%bs), TStr); ((bs "mend"%bs), TInt); ((bs "mlen"%bs), TInt);
   ((bs "model"%bs), TStr); ((bs "mstart"%bs), TInt); ((bs "overlap"%bs), TStr); ((bs "pass"%bs), TInt);
   ((bs "query"%bs), TStr); ((bs "query_acc"%bs), TStr); ((bs "send"%bs), TInt); ((bs "slen"%bs), TInt);
   ((bs "sstart"%bs), TInt); ((bs "sstrand"%bs), TStr); ((bs "target"%bs), TStr); ((bs "target_acc"%bs), TStr);
   ((bs "trunc"%bs), TStr); ((bs "winfrct1"%bs), TFloat); ((bs "winfrct2"%bs), TFloat); ((bs "winidx"%bs), TFloat)].
Definition declared_types (d : dialect) : list (str * coltype) :=
  match d with Blast => DECLARED_blast | Mmseqs => DECLARED_mmseqs | Infernal => DECLARED_infernal end.
Definition opt_coltype_eqb (a b : option coltype) : bool :=
  match a, b with Some x, Some y => coltype_eqb x y | None, None => true | _, _ => false end.
(* sugar's header table and the declared table name the same columns with the same types *)
Definition declared_ok (d : dialect) : bool :=
  forallb (fun hd => opt_coltype_eqb (assoc (hname hd) (declared_types d)) (Some (htype hd))) (header_of d) &&
  forallb (fun kt => opt_coltype_eqb (type_of_col d (fst kt)) (Some (snd kt))) (declared_types d) &&
  nodup_str (map fst (declared_types d)).
(* _CONVERTH: every entry (k, col) names a column of the dialect whose blast_equivalent is k, and - apart from the frame
   columns, which MMseqs2 writes as text - its type is the type of BLAST's column k *)
Definition frame_keys : list str := [bs "qframe"%bs; bs "sframe"%bs].
Definition converth_entry_ok (d : dialect) (e : option str * str) : bool :=
  match find_hdr false (snd e) (header_of d) with
  | None => false
  | Some hd =>
      match fst e, hbeq hd with
      | Some k, Some k' => str_eqb k k' &&
                           (mem k frame_keys || opt_coltype_eqb (type_of_col Blast k) (Some (htype hd)))
      | None, None => true
      | _, _ => false
      end
  end.
Definition converth_typed_ok : bool :=
  forallb (fun d => forallb (converth_entry_ok d) (converth_of d)) dialects &&
  forallb (fun d => forallb (fun hd => match hbeq hd with
                                       | Some k => match cget (converth_of d) k with Some c => str_eqb c (hname hd) | None => false end
                                       | None => true end) (header_of d)) dialects.

(* ---- the common metadata is the documented projection of the format metadata ---- *)
(* target key of the common metadata <- BLAST-equivalent column (documentation of read_fts for the three readers) *)
Definition documented_common : list (str * str) :=
  [(bs "score"%bs, bs "bitscore"%bs); (bs "evalue"%bs, bs "evalue"%bs); (bs "seqid"%bs, bs "sseqid"%bs);
   (bs "name"%bs, bs "qseqid"%bs)].
Definition common_projection (d : dialect) (fmt : attrs_t) : attrs_t :=
  flat_map (fun bm => match assoc (ccol d (fst bm)) fmt with Some v => [(snd bm, v)] | None => [] end) copyattrs.
Definition type_entry (ftype : option str) (fmt : attrs_t) : attrs_t :=
  match ftype with
  | None => []
  | Some k => [(bs "type"%bs, match assoc k fmt with Some v => v | None => AStr k end)]
  end.
Definition same_pairs (a b : list (str * str)) : bool :=
  Nat.eqb (length a) (length b) &&
  forallb (fun p => existsb (fun q => str_eqb (fst p) (fst q) && str_eqb (snd p) (snd q)) b) a.

(* ---- float(): the grammar [ws] [sign] digits [. digits] [(e|E) [sign] digits] [ws] ---- *)
Definition is_digit (c : byte) : bool := match digit_val c with Some _ => true | None => false end.
Definition all_digits (s : str) : bool := forallb is_digit s.
(* value of a digit string *)
Definition digits_val (s : str) : Z := fst (fst (span_digits s 0 0)).
Definition sign_ok (s : str) : bool := match s with [] => true | [c] => byte_eqb c "+"%byte || byte_eqb c "-"%byte | _ => false end.
Definition sign_neg (s : str) : bool := match s with [c] => byte_eqb c "-"%byte | _ => false end.
Definition exp_mark (c : byte) : bool := byte_eqb c "e"%byte || byte_eqb c "E"%byte.
(* the text of a decimal literal: sign, integer digits, optional fraction (Some fp = a point followed by fp), optional
   exponent (mark, sign, digits) *)
Definition float_text (sg ip : str) (fp : option str) (ex : option (byte * str * str)) : str :=
  sg ++ ip ++ (match fp with Some f => "."%byte :: f | None => [] end) ++
  (match ex with Some (m, es, ed) => m :: es ++ ed | None => [] end).
Definition float_text_ok (sg ip : str) (fp : option str) (ex : option (byte * str * str)) : bool :=
  sign_ok sg && all_digits ip && (match fp with Some f => all_digits f | None => true end) &&
  negb (Nat.eqb (length ip + match fp with Some f => length f | None => 0 end) 0) &&
  (match ex with
   | Some (m, es, ed) => exp_mark m && sign_ok es && all_digits ed && negb (Nat.eqb (length ed) 0)
   | None => true
   end).
Definition float_text_val (sg ip : str) (fp : option str) (ex : option (byte * str * str)) : flit :=
  let f := match fp with Some f => f | None => [] end in
  FNum (sign_neg sg) (digits_val (ip ++ f))
       ((match ex with Some (_, es, ed) => if sign_neg es then - digits_val ed else digits_val ed | None => 0 end)
        - Z.of_nat (length f)).

(* harness entry point for the float-literal stream: py_float of every literal *)
Definition run_C11_floats (lits : list str) : val :=
  VL (map (fun v => match py_float v with Some f => flit_val f | None => VNone end) lits).
(* ... and for int() *)
Definition run_C11_ints (lits : list str) : val :=
  VL (map (fun v => match py_int v with Some z => VI z | None => VNone end) lits).
