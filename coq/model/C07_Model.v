(* C07 model: sugar.core.cane.translate (cane.py:345-434) over the regenerated genetic-code tables
   (G_c07_tabs.v: the 27 tables of gc.json as records, what sugar.data.gcode() loads, data/__init__.py:124-148),
   and the BioSeq/BioBasket wrappers (seq.py:599-608, 892-900). No proofs here. *)
From Coq Require Import List ZArith NArith Bool MSetPositive.
From Coq.Strings Require Import Byte.
Import ListNotations.
From SV Require Import Text C05_Model G_gc_ids G_c07_tabs.

(* ---------------------------------------------------------------- table access *)
(* A Python codon string is a key of gc.tt / member of gc.starts ... iff it is a 3-letter word over [letters]
   (checked by the translator for every table entry) whose base-15 number is listed. *)
Fixpoint index_from (b : byte) (l : str) (i : N) : option N :=
  match l with
  | [] => None
  | x :: r => if byte_eqb x b then Some i else index_from b r (N.succ i)
  end.
(* position in the translator's letter order G_gc_ids.letters (tie: C07_Lemmas.letter_ix_tie, for all 256 bytes) *)
Definition letter_ix (b : byte) : option N :=
  match b with
  | "A" => Some 0 | "C" => Some 1 | "G" => Some 2 | "T" => Some 3 | "R" => Some 4 | "Y" => Some 5 | "S" => Some 6
  | "W" => Some 7 | "K" => Some 8 | "M" => Some 9 | "B" => Some 10 | "D" => Some 11 | "H" => Some 12 | "V" => Some 13
  | "N" => Some 14 | _ => None
  end%byte%N.
Definition codon_num (c : str) : option N :=
  match c with
  | [a; b; d] =>
      match letter_ix a, letter_ix b, letter_ix d with
      | Some x, Some y, Some z => Some (x * 225 + y * 15 + z)%N
      | _, _, _ => None
      end
  | _ => None
  end.
Definition memN (x : N) (l : list N) : bool := existsb (N.eqb x) l.
Fixpoint lookupNb (x : N) (l : list (N * byte)) : option byte :=
  match l with [] => None | (k, v) :: r => if N.eqb k x then Some v else lookupNb x r end.
(* codon in <set of codons> *)
Definition in_set (c : str) (l : list N) : bool :=
  match codon_num c with Some n => memN n l | None => false end.
(* gc.tt.get(codon) *)
Definition tt_get (t : gtab) (c : str) : option byte :=
  match codon_num c with Some n => lookupNb n (g_tt t) | None => None end.
Definition cX : byte := "X"%byte.
(* cane.py:403-406  try: aa = gc.tt[codon] except KeyError: aa = 'X' *)
Definition base_aa (t : gtab) (c : str) : byte := match tt_get t c with Some a => a | None => cX end.
(* cane.py:403-410: table lookup first, then the astops override *)
Definition aa_of (t : gtab) (astop : byte) (c : str) : byte :=
  let aa := base_aa t c in
  if in_set c (g_astops t) then astop else aa.
(* cane.py:411 codon in gc.stops *)
Definition is_stop (t : gtab) (c : str) : bool := in_set c (g_stops t).
(* cane.py:388 not (codon not in gc.starts and codon not in gc.astarts) *)
Definition can_start (t : gtab) (c : str) : bool := in_set c (g_starts t) || in_set c (g_astarts t).

(* ---------------------------------------------------------------- options (cane.py:345-347; warn=False) *)
Record opts := { o_complete : bool; o_check_start : option bool; o_check_stop : bool; o_final_stop : option bool;
                 o_astop : byte; o_gap : option byte; o_gap_after : option Z }.
Definition mk_opts (complete : bool) (check_start : option bool) (check_stop : bool) (final_stop : option bool)
  (astop : byte) (gap : option byte) (gap_after : option Z) : opts :=
  {| o_complete := complete; o_check_start := check_start; o_check_stop := check_stop; o_final_stop := final_stop;
     o_astop := astop; o_gap := gap; o_gap_after := gap_after |}.
(* cane.py:374, 376 *)
Definition eff_check_start (o : opts) : bool :=
  match o_check_start o with Some b => b | None => negb (o_complete o) end.
Definition eff_final_stop (o : opts) : bool :=
  match o_final_stop o with Some b => b | None => o_complete o end.
(* cane.py:382 nt == gap *)
Definition is_gap (o : opts) (x : byte) : bool :=
  match o_gap o with Some g => byte_eqb x g | None => false end.

Inductive err := ENoStart | EStopNotLast | ENoStop.      (* the three ValueErrors: cane.py:391, 416, 428 *)
Inductive res := Ok (out : str) | Err (e : err).

Record st := { aas : list byte;      (* output so far, reversed *)
               ngap : Z; codon : str; cs : bool (* check_start still pending *);
               nres : nat            (* residues (non-gap characters) following the current position *) }.

(* cane.py:387-389  if gap and gap_after is not None and ngap == gap_after: aas.append(gap); ngap -= 3 *)
Definition emit_gap (o : opts) (a : list byte) (n : Z) : list byte * Z :=
  match o_gap o, o_gap_after o with
  | Some g, Some k => if Z.eqb n k then (g :: a, (n - 3)%Z) else (a, n)
  | _, _ => (a, n)
  end.

Definition continue_ (a : list byte) (n : Z) (c : str) (b : bool) (r : nat) : st + res :=
  inl {| aas := a; ngap := n; codon := c; cs := b; nres := r |}.

(* one iteration of the for loop, cane.py:381-424 *)
Definition step (t : gtab) (o : opts) (s : st) (x : byte) : st + res :=
  let n1   := if is_gap o x then (ngap s + 1)%Z else ngap s in
  let cod1 := if is_gap o x then codon s else codon s ++ [x] in
  let res1 := if is_gap o x then nres s else pred (nres s) in
  let a1 := fst (emit_gap o (aas s) n1) in
  let n2 := snd (emit_gap o (aas s) n1) in
  if Nat.eqb (length cod1) 3 then
    if cs s && negb (can_start t cod1) then inr (Err ENoStart) else
    let aa := aa_of t (o_astop o) cod1 in
    if is_stop t cod1 then
      if o_check_stop o && Nat.leb 3 res1 then inr (Err EStopNotLast) else
      if negb (Nat.leb 3 res1) || negb (o_complete o) then
        inr (Ok (rev (if eff_final_stop o then aa :: a1 else a1)))
      else continue_ (aa :: a1) n2 [] false res1
    else continue_ (aa :: a1) n2 [] false res1
  else continue_ a1 n2 cod1 (cs s) res1.

(* the loop and its else clause (cane.py:425-433): without break, check_stop raises unless the left-over codon is in astops *)
Fixpoint go (t : gtab) (o : opts) (s : st) (l : str) : res :=
  match l with
  | [] => if o_check_stop o && negb (in_set (codon s) (g_astops t)) then Err ENoStop else Ok (rev (aas s))
  | x :: l' => match step t o s x with inl s' => go t o s' l' | inr r => r end
  end.

Definition degap_in (o : opts) (l : str) : str := filter (fun x => negb (is_gap o x)) l.
(* cane.py:372-380 *)
Definition init (o : opts) (l : str) : st :=
  {| aas := []; ngap := 0%Z; codon := []; cs := eff_check_start o; nres := length (degap_in o l) |}.
(* on the string after .replace('U', 'T') *)
Definition translate_t (t : gtab) (o : opts) (l : str) : res := go t o (init o l) l.
(* cane.translate *)
Definition translate (t : gtab) (o : opts) (l : str) : res := translate_t t o (u2t l).

(* ---------------------------------------------------------------- specification side *)
Definition is_letter (b : byte) : bool := has b letters.
Definition is_nt (b : byte) : bool := is_letter b || byte_eqb b cU.
(* cut into triples, dropping an incomplete tail *)
Fixpoint codons (l : str) : list str :=
  match l with
  | a :: b :: d :: r => [a; b; d] :: codons r
  | _ => []
  end.
(* codon-level reading of the property: stop at the first stop codon unless complete; a stop codon is terminal iff it is the last
   complete codon; final_stop decides only whether the terminal stop's symbol is written; check_stop demands that the first stop
   codon is terminal and exists *)
Fixpoint spec_go (t : gtab) (o : opts) (cs : list str) : res :=
  match cs with
  | [] => if o_check_stop o then Err ENoStop else Ok []
  | c :: rest =>
      let last := match rest with [] => true | _ => false end in
      if is_stop t c && o_check_stop o && negb last then Err EStopNotLast
      else if is_stop t c && (last || negb (o_complete o)) then
        Ok (if eff_final_stop o then [aa_of t (o_astop o) c] else [])
      else match spec_go t o rest with Ok r => Ok (aa_of t (o_astop o) c :: r) | Err e => Err e end
  end.
Definition spec_translate (t : gtab) (o : opts) (l : str) : res :=
  match codons l with
  | c :: _ => if eff_check_start o && negb (can_start t c) then Err ENoStart else spec_go t o (codons l)
  | [] => spec_go t o []
  end.

Fixpoint take_nonstop (t : gtab) (cs : list str) : list str :=
  match cs with [] => [] | c :: r => if is_stop t c then [] else c :: take_nonstop t r end.
Fixpoint first_stop (t : gtab) (cs : list str) : option (str * list str) :=   (* the first stop codon and what follows it *)
  match cs with [] => None | c :: r => if is_stop t c then Some (c, r) else first_stop t r end.

Definition last_is_stop (t : gtab) (cs : list str) : bool :=
  match rev cs with c :: _ => is_stop t c | [] => false end.
(* no start check pending, or no complete codon, or the first codon may be a start *)
Definition started (t : gtab) (o : opts) (cs : list str) : bool :=
  negb (eff_check_start o) || match cs with [] => true | c :: _ => can_start t c end.
Definition gapfree (o : opts) (l : str) : bool := forallb (fun x => negb (is_gap o x)) l.

(* the same options with final_stop set explicitly *)
Definition with_final_stop (b : bool) (o : opts) : opts :=
  {| o_complete := o_complete o; o_check_start := o_check_start o; o_check_stop := o_check_stop o; o_final_stop := Some b;
     o_astop := o_astop o; o_gap := o_gap o; o_gap_after := o_gap_after o |}.
(* the symbol of the stop codon at which the translation ended (empty if it ran to the end of the sequence) *)
Fixpoint end_stop (t : gtab) (o : opts) (cs : list str) : list byte :=
  match cs with
  | [] => []
  | c :: rest =>
      let last := match rest with [] => true | _ => false end in
      if is_stop t c && (last || negb (o_complete o)) then [aa_of t (o_astop o) c] else end_stop t o rest
  end.

Definition degap_out (o : opts) (a : str) : str := filter (fun x => negb (is_gap o x)) a.
Definition res_degap (o : opts) (r : res) : res := match r with Ok a => Ok (degap_out o a) | Err e => Err e end.

(* IUPAC reading of an ambiguous codon; [iupac] is the hand-written IUPAC code of C05_Model *)
Definition expand (c : str) : list str :=
  match c with
  | [a; b; d] => flat_map (fun x => flat_map (fun y => map (fun z => [x; y; z]) (iupac d)) (iupac b)) (iupac a)
  | _ => []
  end.
Definition unamb (c : str) : bool := Nat.eqb (length (expand c)) 1.
Definition allsame (l : list byte) : option byte :=
  match l with [] => None | x :: r => if forallb (byte_eqb x) r then Some x else None end.
(* the property's per-codon clause *)
Definition spec_aa (t : gtab) (astop : byte) (c : str) : byte :=
  if unamb c then base_aa t c
  else if existsb (is_stop t) (expand c) then astop
  else match allsame (map (base_aa t) (expand c)) with Some a => a | None => cX end.
(* finite check behind aa_of_spec, independent of astop *)
Definition aa_check (t : gtab) (c : str) : bool :=
  Bool.eqb (in_set c (g_astops t)) (negb (unamb c) && existsb (is_stop t) (expand c))
  && (in_set c (g_astops t) || byte_eqb (base_aa t c) (spec_aa t cX c))
  && (negb (is_stop t c) || unamb c)
  && (negb (unamb c) || match tt_get t c with Some _ => true | None => false end)
  (* "can be a start": some unambiguous reading of the codon is a start codon of the table *)
  && Bool.eqb (can_start t c) (existsb (fun e => in_set e (g_starts t)) (expand c)).
(* the same check with the two long codon sets held in binary tries (C07_Tables.aa_check_fast_ok: equal to aa_check) *)
Definition setN (l : list N) : PositiveSet.t :=
  fold_right (fun n s => PositiveSet.add (N.succ_pos n) s) PositiveSet.empty l.
Definition in_setS (c : str) (s : PositiveSet.t) : bool :=
  match codon_num c with Some n => PositiveSet.mem (N.succ_pos n) s | None => false end.
Definition aa_check_fast (t : gtab) (sa ss : PositiveSet.t) (c : str) : bool :=
  Bool.eqb (in_setS c sa) (negb (unamb c) && existsb (is_stop t) (expand c))
  && (in_setS c sa || byte_eqb (base_aa t c) (spec_aa t cX c))
  && (negb (is_stop t c) || unamb c)
  && (negb (unamb c) || match tt_get t c with Some _ => true | None => false end)
  && Bool.eqb (in_set c (g_starts t) || in_setS c ss) (existsb (fun e => in_set e (g_starts t)) (expand c)).
Definition table_aa_ok (t : gtab) : bool :=
  let sa := setN (g_astops t) in
  let ss := setN (g_astarts t) in
  forallb (fun a => forallb (fun b => forallb (fun d => aa_check_fast t sa ss [a; b; d]) letters) letters) letters.
(* the symbols a table may write *)
Definition aa_symbols : str := bs "ACDEFGHIKLMNPQRSTVWY*"%bs.
Definition tt_symbols_ok (t : gtab) : bool := forallb (fun kv => has (snd kv) aa_symbols) (g_tt t).
(* no amino-acid symbol of the table is the gap symbol, nor is 'X' or astop *)
Definition gap_sym_ok (t : gtab) (o : opts) : bool :=
  match o_gap o with
  | None => true
  | Some g => negb (byte_eqb (o_astop o) g) && negb (byte_eqb cX g) && forallb (fun kv => negb (byte_eqb (snd kv) g)) (g_tt t)
  end.

(* ---- exact placement of the gap symbols (spec side) *)
(* the g-th gap character of the input (g = 1, 2, ...) writes a gap symbol iff g = gap_after + 3j *)
Definition emits (o : opts) (g : Z) : bool :=
  match o_gap o, o_gap_after o with
  | Some _, Some k => Z.leb k g && Z.eqb ((g - k) mod 3) 0
  | _, _ => false
  end.
(* number of gap symbols written for the first g gap characters: 0 below gap_after, then one per three *)
Definition ecount (o : opts) (g : Z) : Z :=
  match o_gap o, o_gap_after o with
  | Some _, Some k => if Z.ltb g k then 0%Z else ((g - k) / 3 + 1)%Z
  | _, _ => 0%Z
  end.
Definition bump (ms : list nat) : list nat := match ms with [] => [1] | m :: r => S m :: r end.
(* marks o g r l: for the rest l of the input, after g gap characters and with r residues in the current codon: per codon
   (current one first; last entry = after the last complete codon) the number of gap symbols written before its symbol *)
Fixpoint marks (o : opts) (g : Z) (r : nat) (l : str) : list nat :=
  match l with
  | [] => [0]
  | x :: l' =>
      if is_gap o x then (if emits o (g + 1) then bump (marks o (g + 1)%Z r l') else marks o (g + 1)%Z r l')
      else if Nat.eqb r 2 then 0 :: marks o g 0 l' else marks o g (S r) l'
  end.
Definition gaps (o : opts) (m : nat) : str := match o_gap o with Some g => repeat g m | None => [] end.
Fixpoint spec_go_g (t : gtab) (o : opts) (cs : list str) (ms : list nat) : res :=
  match cs with
  | [] => if o_check_stop o then Err ENoStop else Ok (gaps o (hd 0 ms))
  | c :: rest =>
      let last := match rest with [] => true | _ => false end in
      if is_stop t c && o_check_stop o && negb last then Err EStopNotLast
      else if is_stop t c && (last || negb (o_complete o)) then
        Ok (gaps o (hd 0 ms) ++ (if eff_final_stop o then [aa_of t (o_astop o) c] else []))
      else match spec_go_g t o rest (tl ms) with
           | Ok r => Ok (gaps o (hd 0 ms) ++ aa_of t (o_astop o) c :: r)
           | Err e => Err e
           end
  end.
Definition spec_translate_g (t : gtab) (o : opts) (l : str) : res :=
  let cs := codons (degap_in o l) in
  if started t o cs then spec_go_g t o cs (marks o 0 0 l) else Err ENoStart.
Definition count_gap (o : opts) (l : str) : Z := Z.of_nat (length (filter (is_gap o) l)).
Definition sum_nat (l : list nat) : nat := fold_right Nat.add 0 l.

(* ---------------------------------------------------------------- wrappers (seq.py: BioSeq.__init__, BioSeq.translate, BioBasket.translate) *)
Inductive stype := NT | AA.
Record bioseq := { b_data : str; b_type : stype }.
(* str.upper() on ASCII (BioSeq.__init__: self.data = str(data).upper()) *)
Definition upper1 (b : byte) : byte :=
  let n := Byte.to_N b in
  if (N.leb 97 n && N.leb n 122)%bool then match Byte.of_N (n - 32) with Some u => u | None => b end else b.
Definition bioseq_new (s : str) : bioseq := {| b_data := map upper1 s; b_type := NT |}.     (* BioSeq(s, type='nt') *)
(* BioSeq.translate: self.data = translate(self.data, ...); self.type = 'aa'; return self  (nothing is assigned when translate raises) *)
Definition bioseq_translate (t : gtab) (o : opts) (q : bioseq) : bioseq + err :=
  match translate t o (b_data q) with
  | Ok a => inl {| b_data := a; b_type := AA |}
  | Err e => inr e
  end.
(* BioBasket.translate: for seq in self: seq.translate(...) -- in place, so the sequences before a failing one stay translated *)
Fixpoint basket_translate (t : gtab) (o : opts) (b : list bioseq) : list bioseq * option err :=
  match b with
  | [] => ([], None)
  | q :: r =>
      match bioseq_translate t o q with
      | inl q' => let (r', e) := basket_translate t o r in (q' :: r', e)
      | inr e => (q :: r, Some e)
      end
  end.

(* ---------------------------------------------------------------- domain of the property *)
Definition gap_after_ok (o : opts) : bool :=
  match o_gap_after o with None => true | Some k => Z.leb 1 k end.
Definition wf_C07 (t : gtab) (o : opts) (l : str) : bool :=
  forallb (fun x => is_nt x || is_gap o x) l
  && match o_gap o with None => true | Some g => negb (is_nt g) end
  && gap_sym_ok t o && gap_after_ok o.

(* ---------------------------------------------------------------- harness entry point *)
Fixpoint lookup_tab (k : N) (l : list (N * gtab)) : option gtab :=
  match l with [] => None | (i, t) :: r => if N.eqb i k then Some t else lookup_tab k r end.
Definition show_res (r : res) : val := match r with Ok a => VS a | Err _ => VE (bs "ValueError"%bs) end.
Definition show_type (y : stype) : val := match y with NT => VS (bs "nt"%bs) | AA => VS (bs "aa"%bs) end.
Definition show_seq (q : bioseq) : val := VL [VS (b_data q); show_type (b_type q)].
(* op 0: cane.translate(str) -> str / ValueError
   op 1: BioSeq(s, type='nt').translate() -> [data, type] / ValueError
   op 2: BioBasket([BioSeq(s), BioSeq(s[3:])]).translate() -> [None | 'ValueError', [[data, type], [data, type]]] (state after the call)
   op 6: cane.translate(BioSeq(s, type='nt')) -> str / ValueError *)
Definition run_C07 (op : N) (tt : N) (o : opts) (s : str) : val :=
  match lookup_tab tt tabs with
  | None => VL [VB false; VE (bs "KeyError"%bs)]
  | Some t =>
      if N.eqb op 0 then VL [VB (wf_C07 t o s); show_res (translate t o s)]
      else if N.eqb op 1 then
        VL [VB (wf_C07 t o (map upper1 s));
            match bioseq_translate t o (bioseq_new s) with inl q => show_seq q | inr _ => VE (bs "ValueError"%bs) end]
      else if N.eqb op 6 then      (* cane.translate(BioSeq(s, type='nt'), ...): str(seq) is the upper-cased data *)
        VL [VB (wf_C07 t o (map upper1 s)); show_res (translate t o (b_data (bioseq_new s)))]
      else
        let (b, e) := basket_translate t o [bioseq_new s; bioseq_new (skipn 3 s)] in
        VL [VB (wf_C07 t o (map upper1 s));
            VL [match e with None => VNone | Some _ => VS (bs "ValueError"%bs) end; VL (map show_seq b)]]
  end.
(* ---------------------------------------------------------------- command line entry point (sugar/scripts.py)
   sugar translate [-tt N | --translation-table N] [-c | --complete] <nucleotide string | sequence file>
   scripts.py:192-194: -tt has type=int, default=1, dest='tt' (argparse: the last occurrence wins); -c is store_true.
   No other option of cane.translate can be given on the command line: they keep the defaults of the signature. *)
Inductive cli_arg := ATt (n : N) | AComplete.
Definition cli_tt (args : list cli_arg) : N :=
  fold_left (fun acc a => match a with ATt n => n | AComplete => acc end) args 1%N.
Definition cli_complete (args : list cli_arg) : bool :=
  existsb (fun a => match a with AComplete => true | ATt _ => false end) args.
(* the defaults of the signature, cane.py:364-366 *)
Definition default_opts (complete : bool) : opts :=
  mk_opts complete None false None "X"%byte (Some "-"%byte) (Some 2%Z).
Definition cli_opts (args : list cli_arg) : opts := default_opts (cli_complete args).

(* str.splitlines() on texts whose only line boundary is "\n" (scripts.py:68) *)
Definition cNL : byte := x0a.
Fixpoint splitlines_aux (cur : str) (l : str) : list str :=
  match l with
  | [] => match cur with [] => [] | _ :: _ => [rev cur] end
  | x :: r => if byte_eqb x cNL then rev cur :: splitlines_aux [] r else splitlines_aux (x :: cur) r
  end.
Definition splitlines (l : str) : list str := splitlines_aux [] l.
(* the other characters str.splitlines() splits at (Latin-1): \n \v \f \r FS GS RS NEL *)
Definition is_linebreak (b : byte) : bool := has b [x0a; x0b; x0c; x0d; x1c; x1d; x1e; x85].
Definition lines_ok (o : opts) : bool :=
  negb (is_linebreak (o_astop o)) && match o_gap o with Some g => negb (is_linebreak g) | None => true end.

(* for x in xs: print(f(x)) -- the first failing element ends the loop with its error *)
Fixpoint map_res (f : str -> res) (ls : list str) : list str + err :=
  match ls with
  | [] => inl []
  | l :: r => match f l with
              | Err e => inr e
              | Ok a => match map_res f r with inl x => inl (a :: x) | inr e => inr e end
              end
  end.
(* scripts.py:66-70: string input, one translation per line *)
Definition script_str (t : gtab) (o : opts) (s : str) : list str + err := map_res (translate t o) (splitlines s).
(* scripts.py:64,77: file input: read() gives a basket, seqs.translate(.. kw) *)
Definition script_recs (t : gtab) (o : opts) (recs : list str) : list bioseq * option err :=
  basket_translate t o (map bioseq_new recs).
Definition opts_ok (t : gtab) (o : opts) : bool :=
  gap_sym_ok t o && gap_after_ok o && match o_gap o with None => true | Some g => negb (is_nt g) end.
Definition wf_script_str (t : gtab) (o : opts) (s : str) : bool :=
  opts_ok t o && lines_ok o && forallb (wf_C07 t o) (splitlines s).
Definition wf_script_recs (t : gtab) (o : opts) (recs : list str) : bool :=
  opts_ok t o && forallb (fun r => wf_C07 t o (map upper1 r)) recs.

(* gcode(tt) looks the table up by str(tt) among the keys of gc.json (data/__init__.py:140): tt may be an int or its decimal string *)
Inductive ttarg := TInt (n : N) | TStr (s : str).
Definition dec_N (n : N) : str := dec_of_Z (Z.of_N n).
Definition tt_key (a : ttarg) : str := match a with TInt n => dec_N n | TStr s => s end.
Fixpoint lookup_key (k : str) (l : list (N * gtab)) : option (N * gtab) :=
  match l with [] => None | (i, t) :: r => if str_eqb (dec_N i) k then Some (i, t) else lookup_key k r end.
Definition gcode_lookup (a : ttarg) : option (N * gtab) := lookup_key (tt_key a) tabs.

Definition show_err (e : option err) : val := match e with None => VNone | Some _ => VS (bs "ValueError"%bs) end.
Definition key_error : val := VE (bs "KeyError"%bs).
Definition show_lines (r : list str + err) : val :=
  match r with inl ls => VL (map VS ls) | inr _ => VE (bs "ValueError"%bs) end.
(* string input through scripts.translate / scripts.run / cli: the printed lines, or an error *)
Definition run_C07_str (tt : N) (o : opts) (s : str) : val :=
  match lookup_tab tt tabs with
  | None => VL [VB false; key_error]
  | Some t => VL [VB (wf_script_str t o s); show_lines (script_str t o s)]
  end.
(* a list of records (file input, or BioBasket(...).translate directly): [None | 'ValueError', states after the call] *)
Definition run_C07_recs (tt : N) (o : opts) (recs : list str) : val :=
  match lookup_tab tt tabs with
  | None => VL [VB false; key_error]
  | Some t => let (b, e) := script_recs t o recs in
              VL [VB (wf_script_recs t o recs); VL [show_err e; VL (map show_seq b)]]
  end.
Definition run_C07_cli_str (args : list cli_arg) (s : str) : val := run_C07_str (cli_tt args) (cli_opts args) s.
Definition run_C07_cli_recs (args : list cli_arg) (recs : list str) : val := run_C07_recs (cli_tt args) (cli_opts args) recs.
(* any single-call entry point with the table named by an int or a str *)
Definition run_C07_key (a : ttarg) (op : N) (o : opts) (s : str) : val :=
  match gcode_lookup a with
  | None => VL [VB false; key_error]
  | Some (k, _) => run_C07 op k o s
  end.

(* ---- specification side of the command line *)
(* the table a command line names: the LAST -tt occurrence, table 1 without one *)
Fixpoint last_tt (args : list cli_arg) : option N :=
  match args with
  | [] => None
  | a :: r => match last_tt r with
              | Some n => Some n
              | None => match a with ATt n => Some n | AComplete => None end
              end
  end.
(* "\n".join(lines) *)
Fixpoint join_nl (ls : list str) : str :=
  match ls with [] => [] | [l] => l | l :: r => l ++ cNL :: join_nl r end.
Definition no_nl (l : str) : bool := forallb (fun x => negb (byte_eqb x cNL)) l.
Definition mk_aa (a : str) : bioseq := {| b_data := a; b_type := AA |}.

(* ---------------------------------------------------------------- warn=True (cane.py:397, 413-426, 433-434, 436-441, 449-457)
   The same loop with the warnings it emits, in order. The result component is proved equal to [translate] (C07_warn_irrelevant). *)
Inductive wkind :=
| WNotStart          (* cane.py:419  'Codon ... is not a start codon' (check_start off) *)
| WMaybeNotStart     (* cane.py:426  'Codon ... possibly is not a start codon' (in astarts only) *)
| WMaybeStop         (* cane.py:434  'Codon ... might be a stop codon' *)
| WStopNotLast       (* cane.py:441  'First stop codon is not at the end of the sequence' *)
| WNoStop            (* cane.py:454  'Last codon ... is not a stop codon' *)
| WMaybeNoStop.      (* cane.py:457  unreachable: the left-over codon has fewer than three letters *)
Record stw := { w_st : st; w_csw : bool (* check_start_warn *); w_ws : list wkind (* reversed *) }.
(* the part of the loop body that runs when a codon is complete (cane.py:412-447): cod1 the codon, res1 the residues that
   follow, a1 / n2 the output and the gap counter after the gap symbol of this round *)
Definition codon_w (t : gtab) (o : opts) (warn : bool) (s : stw) (cod1 : str) (res1 : nat) (a1 : list byte) (n2 : Z)
  : stw + (res * list wkind) :=
  let s0 := w_st s in
  (* 413-421 *)
  let look := w_csw s || cs s0 in
  let nostart := negb (can_start t cod1) in
  if look && nostart && cs s0 then inr (Err ENoStart, rev (w_ws s)) else
  let ws1 := if look && nostart then WNotStart :: w_ws s else w_ws s in
  let csw1 := if look && nostart then false else w_csw s in
  (* 422-426 *)
  let ws2 := if csw1 && negb (in_set cod1 (g_starts t)) then WMaybeNotStart :: ws1 else ws1 in
  (* 427-434 *)
  let aa := aa_of t (o_astop o) cod1 in
  let ws3 := if in_set cod1 (g_astops t) && warn then WMaybeStop :: ws2 else ws2 in
  (* 435-445 *)
  if is_stop t cod1 then
    if (o_check_stop o || warn) && Nat.leb 3 res1 && o_check_stop o then inr (Err EStopNotLast, rev ws3) else
    let ws4 := if (o_check_stop o || warn) && Nat.leb 3 res1 then WStopNotLast :: ws3 else ws3 in
    if negb (Nat.leb 3 res1) || negb (o_complete o) then
      inr (Ok (rev (if eff_final_stop o then aa :: a1 else a1)), rev ws4)
    else inl {| w_st := {| aas := aa :: a1; ngap := n2; codon := []; cs := false; nres := res1 |}; w_csw := false; w_ws := ws4 |}
  else inl {| w_st := {| aas := aa :: a1; ngap := n2; codon := []; cs := false; nres := res1 |}; w_csw := false; w_ws := ws3 |}.
Definition step_w (t : gtab) (o : opts) (warn : bool) (s : stw) (x : byte) : stw + (res * list wkind) :=
  let s0 := w_st s in
  let n1   := if is_gap o x then (ngap s0 + 1)%Z else ngap s0 in
  let cod1 := if is_gap o x then codon s0 else codon s0 ++ [x] in
  let res1 := if is_gap o x then nres s0 else pred (nres s0) in
  let a1 := fst (emit_gap o (aas s0) n1) in
  let n2 := snd (emit_gap o (aas s0) n1) in
  if Nat.eqb (length cod1) 3 then codon_w t o warn s cod1 res1 a1 n2
  else inl {| w_st := {| aas := a1; ngap := n2; codon := cod1; cs := cs s0; nres := res1 |}; w_csw := w_csw s; w_ws := w_ws s |}.
Fixpoint go_w (t : gtab) (o : opts) (warn : bool) (s : stw) (l : str) : res * list wkind :=
  match l with
  | [] =>
      let inast := in_set (codon (w_st s)) (g_astops t) in
      if (o_check_stop o || warn) && negb inast then
        if o_check_stop o then (Err ENoStop, rev (w_ws s)) else (Ok (rev (aas (w_st s))), rev (WNoStop :: w_ws s))
      else if warn && inast then (Ok (rev (aas (w_st s))), rev (WMaybeNoStop :: w_ws s))
      else (Ok (rev (aas (w_st s))), rev (w_ws s))
  | x :: l' => match step_w t o warn s x with inl s' => go_w t o warn s' l' | inr r => r end
  end.
Definition translate_w (t : gtab) (o : opts) (warn : bool) (l : str) : res * list wkind :=
  go_w t o warn {| w_st := init o (u2t l); w_csw := warn; w_ws := [] |} (u2t l).

(* specification of the warnings on gap-free input, codon by codon (what the docstring of warn promises, made exact) *)
Fixpoint spec_warns_go (t : gtab) (o : opts) (warn : bool) (cs : list str) : list wkind :=
  match cs with
  | [] => if warn && negb (o_check_stop o) then [WNoStop] else []
  | c :: rest =>
      let last := match rest with [] => true | _ => false end in
      let ms := if warn && in_set c (g_astops t) then [WMaybeStop] else [] in
      if is_stop t c then
        if negb last && o_check_stop o then ms                                  (* raises here *)
        else let sl := if warn && negb last then [WStopNotLast] else [] in
             if last || negb (o_complete o) then ms ++ sl                       (* the translation ends here *)
             else ms ++ sl ++ spec_warns_go t o warn rest
      else ms ++ spec_warns_go t o warn rest
  end.
Definition spec_warns (t : gtab) (o : opts) (warn : bool) (cs : list str) : list wkind :=
  match cs with
  | [] => spec_warns_go t o warn []
  | c :: _ =>
      if can_start t c then
        (if warn && negb (in_set c (g_starts t)) then [WMaybeNotStart] else []) ++ spec_warns_go t o warn cs
      else if eff_check_start o then []                                         (* raises at once *)
      else (if warn then [WNotStart] else []) ++ spec_warns_go t o warn cs
  end.
Definition wkind_code (w : wkind) : Z :=
  match w with WNotStart => 1 | WMaybeNotStart => 2 | WMaybeStop => 3 | WStopNotLast => 4 | WNoStop => 5 | WMaybeNoStop => 6 end%Z.
(* harness: cane.translate(str, warn=...) with the warnings recorded: [wf, result, number of warnings, kinds] *)
Definition run_C07_warn (tt : N) (o : opts) (warn : bool) (s : str) : val :=
  match lookup_tab tt tabs with
  | None => VL [VB false; key_error]
  | Some t => let (r, ws) := translate_w t o warn s in
              VL [VB (wf_C07 t o s); VL [show_res r; VI (Z.of_nat (length ws)); VZs (map wkind_code ws)]]
  end.

(* ---------------------------------------------------------------- histories: several calls in one process.
   The model is pure, so every step is the model applied to the CURRENT value of the one persistent BioSeq object. *)
Inductive hstep :=
| HCall (tt : N) (o : opts) (s : str)            (* cane.translate(<text>, ...) *)
| HCallSeq (tt : N) (o : opts)                   (* cane.translate(seq, ...): not in place, seq must stay as it is *)
| HSet (s : str)                                 (* seq.data = <text> *)
| HRev                                           (* seq.reverse() *)
| HRepl (a b : byte)                             (* seq.str.replace(a, b) *)
| HTrans (tt : N) (o : opts)                     (* seq.translate(...) in place *)
| HBasket (tt : N) (o : opts) (ms : list (option str))    (* BioBasket([... seq / BioSeq(<text>) ...]).translate(...); None = seq *)
| HNop                                           (* read-only touches of gcode(tt), customising a COPY of it in place: no effect *)
| HCli (args : list cli_arg) (s : str).          (* sugar.scripts.cli(['translate', ...options..., <text>]) *)
(* the loop of BioBasket.translate over members that may be the shared object (None) or fresh objects *)
Fixpoint basket_shared (t : gtab) (o : opts) (q : bioseq) (ms : list (option str))
  : bioseq * list (option bioseq) * option err :=
  match ms with
  | [] => (q, [], None)
  | None :: r =>
      match bioseq_translate t o q with
      | inl q' => let '(q2, l, e) := basket_shared t o q' r in (q2, None :: l, e)
      | inr e => (q, map (option_map bioseq_new) ms, Some e)
      end
  | Some s :: r =>
      match bioseq_translate t o (bioseq_new s) with
      | inl f => let '(q2, l, e) := basket_shared t o q r in (q2, Some f :: l, e)
      | inr e => (q, map (option_map bioseq_new) ms, Some e)
      end
  end.
(* one step: new state, what the driver observes, options in the domain *)
Definition hist_step (q : bioseq) (h : hstep) : bioseq * val * bool :=
  match h with
  | HCall k o s =>
      match lookup_tab k tabs with
      | None => (q, key_error, false)
      | Some t => (q, VL [show_res (translate t o s); show_seq q], opts_ok t o)
      end
  | HCallSeq k o =>
      match lookup_tab k tabs with
      | None => (q, key_error, false)
      | Some t => (q, VL [VS (b_data q); show_res (translate t o (b_data q)); show_seq q], opts_ok t o)
      end
  | HSet s => let q' := {| b_data := s; b_type := b_type q |} in (q', show_seq q', true)
  | HRev => let q' := {| b_data := rev (b_data q); b_type := b_type q |} in (q', show_seq q', true)
  | HRepl a b => let q' := {| b_data := replace1 a b (b_data q); b_type := b_type q |} in (q', show_seq q', true)
  | HTrans k o =>
      match lookup_tab k tabs with
      | None => (q, key_error, false)
      | Some t =>
          match bioseq_translate t o q with
          | inl q' => (q', VL [VS (b_data q); VNone; show_seq q'], opts_ok t o)
          | inr e => (q, VL [VS (b_data q); show_err (Some e); show_seq q], opts_ok t o)
          end
      end
  | HBasket k o ms =>
      match lookup_tab k tabs with
      | None => (q, key_error, false)
      | Some t =>
          let '(q', l, e) := basket_shared t o q ms in
          (q', VL [show_err e; VL (map (fun m => match m with None => show_seq q' | Some f => show_seq f end) l)], opts_ok t o)
      end
  | HNop => (q, VNone, true)
  | HCli args s =>
      match lookup_tab (cli_tt args) tabs with
      | None => (q, key_error, false)
      | Some t => (q, VL [show_lines (script_str t (cli_opts args) s); show_seq q], opts_ok t (cli_opts args))
      end
  end.
Fixpoint hist_run (q : bioseq) (hs : list hstep) : list val * bool :=
  match hs with
  | [] => ([], true)
  | h :: r => let '(q', v, ok) := hist_step q h in let (vs, oks) := hist_run q' r in (v :: vs, ok && oks)
  end.
(* the persistent object is BioSeq(s, type='nt') *)
Definition run_C07_hist (s : str) (hs : list hstep) : val :=
  let (vs, ok) := hist_run (bioseq_new s) hs in VL [VB ok; VL vs].
