(* C12 model, part 2: find_orfs(start=<regex>, stop=<regex>) for ARBITRARY regular expressions of the C13 regex-tree layer
   (C13_Rx: trees, the gap rewriting gapify of cane.py:222-228 incl. 7e33c72 "a character class is one unit", the backtracking
   matcher m_rx, finditer_m). Only the codon locator differs from C12_Model: the pairing loop, the frame arithmetic, the rf forms
   and the per-frame match lists that later passes over the same frame pop from are the same definitions. No proofs here. *)
From Coq Require Import List ZArith NArith Bool.
From Coq.Strings Require Import Byte.
Import ListNotations.
From SV Require Import Text C05_Model.
From SV Require C13_Model C13_Rx.
From SV Require Import C12_Model.
Local Open Scope Z_scope.

(* matchall(<regex>, rf=rf, gap=gap).groupby('rf')[frame], cane.py:222-255 *)
Definition hits_rx (gap : option str) (r : C13_Rx.rx) (s : str) (frame : Z) : list (nat * nat) :=
  let t := strand_str s frame in
  filter (fun m => frame_of_g (gap_set gap) t (fst m) =? frame_key frame)
         (C13_Rx.finditer_m (C13_Rx.m_rx (C13_Rx.eff_rx gap r)) t 0 0).

(* for frame in rf (cane.py:336-360) over given per-frame lists; st = what earlier passes left of the frames visited so far *)
Fixpoint orfs_frames_gen (starts_of stops_of : Z -> list Z) (fs_of last_of : Z -> Z) (ns : nstart) (need_stop : bool)
         (minlen L : Z) (st : list (Z * (list Z * list Z))) (frames : list Z) : result :=
  match frames with
  | [] => ROk []
  | f :: r =>
      let ls := match lookup_st f st with Some p => p | None => (starts_of f, stops_of f) end in
      let p := frame_loop_st (length (fst ls) + length (snd ls) + 1) ns need_stop minlen L f (fs_of f) (last_of f)
                             (fst ls) (snd ls) None in
      app_res (fst p) (orfs_frames_gen starts_of stops_of fs_of last_of ns need_stop minlen L ((f, snd p) :: st) r)
  end.

Definition starts_rx (gap : option str) (r : C13_Rx.rx) (s : str) (f : Z) : list Z := map (fun m => Z.of_nat (fst m)) (hits_rx gap r s f).
Definition stops_rx (gap : option str) (r : C13_Rx.rx) (s : str) (f : Z) : list Z := map (fun m => Z.of_nat (snd m)) (hits_rx gap r s f).

Definition find_orfs_rx (gap : option str) (rs rp : C13_Rx.rx) (rf : rfany) (ns : nstart) (need_stop : bool) (minlen : Z) (s : str) : xresult :=
  match rf with
  | RAbadstr => XErr (bs "AssertionError"%bs)
  | RAnpint _ | RAfloat | RAnone => XErr (bs "TypeError"%bs)
  | RAspec r =>
      xres (orfs_frames_gen (starts_rx gap rs s) (stops_rx gap rp s)
              (fun f => Z.of_nat (frame_start_g (gap_set gap) (strand_data s f) f))
              (fun f => Z.of_nat (last_res_g (gap_set gap) (strand_data s f)))
              ns need_stop minlen (Z.of_nat (length s)) [] (frames_of r))
  end.

(* domain: trees that CPython parses back from their text, not nullable (an empty match is no codon), the gap rewriting of
   the text is the gapified tree (a theorem of C13 inside rx_ok, checked here again), gap strings of C13's domain *)
Definition rx_dom (gap : option str) (r : C13_Rx.rx) : bool :=
  C13_Rx.rx_ok r && negb (C13_Rx.nullable r) &&
  match gap with
  | Some g => str_eqb (C13_Rx.rw g (C13_Rx.show r)) (C13_Rx.show (C13_Rx.gapify g r))
  | None => true
  end.
Definition wf_C12rx (gap : option str) (rs rp : C13_Rx.rx) (rf : rfany) (ns : nstart) (need_stop : bool) (minlen : Z) (s : str) : bool :=
  C13_Model.wf_gap gap && rx_dom gap rs && rx_dom gap rp && forallb in_nt_x s && (0 <=? minlen).
Definition run_C12rx (gap : option str) (rs rp : C13_Rx.rx) (rf : rfany) (ns : N) (need_stop : bool) (minlen : Z) (s : str) : val :=
  VL [VB (wf_C12rx gap rs rp rf (ns_of_N ns) need_stop minlen s);
      VS (C13_Rx.show rs); VS (C13_Rx.show rp);
      val_of_xresult (find_orfs_rx gap rs rp rf (ns_of_N ns) need_stop minlen s)].
