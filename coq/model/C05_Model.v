(* C05 model: complement / reverse / rc of sugar.core.seq (seq.py:486-494, 584-589, 348-355, 336-345).
   The tables come from the regenerated G_codes.v; only the control flow is written by hand. No proofs here. *)
From Coq Require Import List ZArith NArith Bool.
From Coq.Strings Require Import Byte.
Import ListNotations.
From SV Require Import Text G_codes.

Fixpoint lookupN (k : N) (t : list (N * N)) : option N :=
  match t with
  | [] => None
  | (a, b) :: r => if N.eqb a k then Some b else lookupN k r
  end.
Fixpoint lookupB {V} (k : byte) (t : list (byte * V)) : option V :=
  match t with
  | [] => None
  | (a, b) :: r => if byte_eqb a k then Some b else lookupB k r
  end.

(* str.translate(table): unmapped code points are kept *)
Definition trans1 (c : byte) : byte :=
  match lookupN (Byte.to_N c) COMPLEMENT_TRANS with
  | Some n => match Byte.of_N n with Some b => b | None => c end
  | None => c
  end.
Definition py_translate (s : str) : str := map trans1 s.
(* str.replace for single characters *)
Definition replace1 (a b : byte) (s : str) : str := map (fun c => if byte_eqb c a then b else c) s.
Definition has (c : byte) (s : str) : bool := existsb (byte_eqb c) s.

Definition cU : byte := "U"%byte.
Definition cT : byte := "T"%byte.
Definition u2t := replace1 cU cT.
Definition t2u := replace1 cT cU.

(* BioSeq.complement, seq.py:486-494 *)
Definition complement (s : str) : str :=
  if has cU s then t2u (py_translate (u2t s)) else py_translate s.
Definition reverse (s : str) : str := rev s.
(* BioSeq.rc = reverse().complement(), seq.py:348-352 *)
Definition rc (s : str) : str := complement (reverse s).

Definition count (c : byte) (s : str) : nat := length (filter (byte_eqb c) s).
(* numerator and denominator of BioSeq.gc, seq.py:336-345 *)
Definition gc_counts (s : str) : nat * nat :=
  (count "G"%byte s + count "C"%byte s,
   count "G"%byte s + count "C"%byte s + (count "A"%byte s + count "T"%byte s + count "U"%byte s)).

(* basket level: per-sequence map, seq.py:766-772, 876-902 *)
Definition basket_rc (b : list str) : list str := map rc b.
Definition basket_complement (b : list str) : list str := map complement b.

(* ---- specification side: the IUPAC nucleotide code (docstring of sugar/data/__init__.py) ---- *)
Definition iupac (c : byte) : list byte :=
  match c with
  | "A" => ["A"] | "C" => ["C"] | "G" => ["G"] | "T" => ["T"]
  | "R" => ["A"; "G"] | "Y" => ["C"; "T"] | "S" => ["G"; "C"] | "W" => ["A"; "T"]
  | "K" => ["G"; "T"] | "M" => ["A"; "C"]
  | "B" => ["C"; "G"; "T"] | "D" => ["A"; "G"; "T"] | "H" => ["A"; "C"; "T"] | "V" => ["A"; "C"; "G"]
  | "N" => ["A"; "C"; "G"; "T"]
  | "." => ["."] | "-" => ["-"]
  | _ => []
  end%byte.
(* Watson-Crick pairing on the four bases; gap symbols pair with themselves *)
Definition wc (b : byte) : byte :=
  match b with "A" => "T" | "T" => "A" | "C" => "G" | "G" => "C" | x => x end%byte.
Definition alphabet : str := bs "ACGTRYSWKMBDHVN.-"%bs.
Definition in_alpha (c : byte) : bool := has c alphabet.
Definition is_gapsym (c : byte) : bool := byte_eqb c "."%byte || byte_eqb c "-"%byte.
Definition set_eqb (a b : list byte) : bool :=
  forallb (fun x => has x b) a && forallb (fun x => has x a) b.

(* one symbol: complement code denotes the complements of the bases *)
Definition sym_ok (c : byte) : bool :=
  set_eqb (iupac (trans1 c)) (map wc (iupac c))
  && in_alpha (trans1 c)
  && (if is_gapsym c then byte_eqb (trans1 c) c else true).
Definition codes_ok (c : byte) : bool :=
  match lookupB c CODES with Some l => set_eqb l (iupac c) | None => false end.
Definition tables_agree (c : byte) : bool :=
  match lookupB c COMPLEMENT_ALL with
  | Some d => byte_eqb (trans1 c) d
  | None => false
  end.

(* ---- harness entry point ---- *)
Definition run_C05 (op : N) (s : str) : val :=
  match op with
  | 0%N => VS (complement s)
  | 1%N => VS (rc s)
  | 2%N => VS (rev (complement s))
  | 3%N => VS (rc (rc s))
  | 4%N => VL [VI (Z.of_nat (fst (gc_counts s))); VI (Z.of_nat (snd (gc_counts s)))]
  | _ => VS (reverse s)
  end.

(* linear-time evaluation of rc for very long inputs (stdlib rev is quadratic); C05_Lemmas.run_C05_lin_eq proves it equal *)
Definition run_C05_lin (op : N) (s : str) : val :=
  match op with
  | 1%N => VS (complement (rev_append s []))
  | _ => run_C05 op s
  end.
