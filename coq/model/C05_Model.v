(* C05 model: complement / reverse / rc of sugar.core.seq (seq.py:486-494, 584-589, 348-355, 336-345).
   The tables come from the regenerated G_codes.v; only the control flow is written by hand. No proofs here. *)
From Coq Require Import List ZArith NArith Bool.
From Coq.Strings Require Import Byte.
Import ListNotations.
From SV Require Import Text G_codes.

Fixpoint lookupN (k : N) (t : list (N * N)) : option N :=
  match t with
  | [] => None
  | (a, b) :: r => if N.eqb a k then Some b else lookupN k r
  end.
Fixpoint lookupB {V} (k : byte) (t : list (byte * V)) : option V :=
  match t with
  | [] => None
  | (a, b) :: r => if byte_eqb a k then Some b else lookupB k r
  end.

(* str.translate(table): unmapped code points are kept *)
Definition trans_with (t : list (N * N)) (c : byte) : byte :=
  match lookupN (Byte.to_N c) t with
  | Some n => match Byte.of_N n with Some b => b | None => c end
  | None => c
  end.
Definition trans1 (c : byte) : byte := trans_with COMPLEMENT_TRANS c.
Definition py_translate (s : str) : str := map trans1 s.
(* str.replace for single characters *)
Definition replace1 (a b : byte) (s : str) : str := map (fun c => if byte_eqb c a then b else c) s.
Definition has (c : byte) (s : str) : bool := existsb (byte_eqb c) s.

Definition cU : byte := "U"%byte.
Definition cT : byte := "T"%byte.
Definition u2t := replace1 cU cT.
Definition t2u := replace1 cT cU.

(* BioSeq.complement, seq.py:486-494 *)
Definition complement (s : str) : str :=
  if has cU s then t2u (py_translate (u2t s)) else py_translate s.
Definition reverse (s : str) : str := rev s.
(* BioSeq.rc = reverse().complement(), seq.py:348-352 *)
Definition rc (s : str) : str := complement (reverse s).

Definition count (c : byte) (s : str) : nat := length (filter (byte_eqb c) s).
(* numerator and denominator of BioSeq.gc, seq.py:336-345 *)
Definition gc_counts (s : str) : nat * nat :=
  (count "G"%byte s + count "C"%byte s,
   count "G"%byte s + count "C"%byte s + (count "A"%byte s + count "T"%byte s + count "U"%byte s)).

(* basket level: per-sequence map, seq.py:766-772, 876-902 *)
Definition basket_rc (b : list str) : list str := map rc b.
Definition basket_complement (b : list str) : list str := map complement b.

(* ---- specification side: the IUPAC nucleotide code (docstring of sugar/data/__init__.py) ---- *)
Definition iupac (c : byte) : list byte :=
  match c with
  | "A" => ["A"] | "C" => ["C"] | "G" => ["G"] | "T" => ["T"]
  | "R" => ["A"; "G"] | "Y" => ["C"; "T"] | "S" => ["G"; "C"] | "W" => ["A"; "T"]
  | "K" => ["G"; "T"] | "M" => ["A"; "C"]
  | "B" => ["C"; "G"; "T"] | "D" => ["A"; "G"; "T"] | "H" => ["A"; "C"; "T"] | "V" => ["A"; "C"; "G"]
  | "N" => ["A"; "C"; "G"; "T"]
  | "." => ["."] | "-" => ["-"]
  | _ => []
  end%byte.
(* Watson-Crick pairing on the four bases; gap symbols pair with themselves *)
Definition wc (b : byte) : byte :=
  match b with "A" => "T" | "T" => "A" | "C" => "G" | "G" => "C" | x => x end%byte.
Definition alphabet : str := bs "ACGTRYSWKMBDHVN.-"%bs.
Definition in_alpha (c : byte) : bool := has c alphabet.
Definition is_gapsym (c : byte) : bool := byte_eqb c "."%byte || byte_eqb c "-"%byte.
Definition set_eqb (a b : list byte) : bool :=
  forallb (fun x => has x b) a && forallb (fun x => has x a) b.

(* one symbol: complement code denotes the complements of the bases *)
Definition sym_ok (c : byte) : bool :=
  set_eqb (iupac (trans1 c)) (map wc (iupac c))
  && in_alpha (trans1 c)
  && (if is_gapsym c then byte_eqb (trans1 c) c else true).
Definition codes_ok (c : byte) : bool :=
  match lookupB c CODES with Some l => set_eqb l (iupac c) | None => false end.
Definition tables_agree (c : byte) : bool :=
  match lookupB c COMPLEMENT_ALL with
  | Some d => byte_eqb (trans1 c) d
  | None => false
  end.

(* ---- per-symbol view of BioSeq.complement for EVERY byte (seq.py:501-509): the symbol map depends on the whole string only
   through the flag 'U' in self.data ---- *)
Definition cA : byte := "A"%byte.
Definition cc (u : bool) (c : byte) : byte :=
  if u then (let d := trans1 (if byte_eqb c cU then cT else c) in if byte_eqb d cT then cU else d) else trans1 c.
(* 'is complement applied twice the identity on s' (proved to be exactly that in C05_Lemmas.complement_involutive_iff) *)
Definition inv_ok (s : str) : bool := negb (has cU s) || (has cA s && negb (has cT s)).
(* RNA reading of a code: its bases written with U for T; RNA Watson-Crick map *)
Definition t2u1 (c : byte) : byte := if byte_eqb c cT then cU else c.
Definition u2t1 (c : byte) : byte := if byte_eqb c cU then cT else c.
Definition iupac_rna (c : byte) : list byte := map t2u1 (iupac (u2t1 c)).
Definition wc_rna (b : byte) : byte := t2u1 (wc (u2t1 b)).
Definition alphabet_rna : str := bs "ACGURYSWKMBDHVN.-"%bs.
Definition sym_ok_rna (c : byte) : bool :=
  set_eqb (iupac_rna (cc true c)) (map wc_rna (iupac_rna c))
  && has (cc true c) alphabet_rna
  && (if is_gapsym c then byte_eqb (cc true c) c else true).

(* ---- the table construction itself (seq.py:21-24 over sugar/data/__init__.py:54-58) as a function of CODES and COMPLEMENT ---- *)
(* CODES_INV = {frozenset(v): k for k, v in CODES.items()}: a dict keyed by sets; a later entry with an equal key overwrites the value *)
Fixpoint inv_insert (ks : list byte) (k : byte) (t : list (list byte * byte)) : list (list byte * byte) :=
  match t with
  | [] => [(ks, k)]
  | (a, b) :: r => if set_eqb a ks then (a, k) :: r else (a, b) :: inv_insert ks k r
  end.
Definition derive_inv (codes : list (byte * list byte)) : list (list byte * byte) :=
  fold_left (fun t kv => inv_insert (snd kv) (fst kv) t) codes [].
Fixpoint lookupS (ks : list byte) (t : list (list byte * byte)) : option byte :=
  match t with
  | [] => None
  | (a, b) :: r => if set_eqb a ks then Some b else lookupS ks r
  end.
Fixpoint mapM {A B} (f : A -> option B) (l : list A) : option (list B) :=
  match l with
  | [] => Some []
  | x :: r => match f x, mapM f r with Some y, Some ys => Some (y :: ys) | _, _ => None end
  end.
(* COMPLEMENT_ALL = {c: CODES_INV[frozenset(COMPLEMENT[nt] for nt in nts)] for c, nts in CODES.items()}; a KeyError is None *)
Definition derive_entry (compl : list (byte * byte)) (inv : list (list byte * byte)) (kv : byte * list byte) : option (byte * byte) :=
  match mapM (fun nt => lookupB nt compl) (snd kv) with
  | Some l => match lookupS l inv with Some d => Some (fst kv, d) | None => None end
  | None => None
  end.
Definition derive_all (codes : list (byte * list byte)) (compl : list (byte * byte)) : option (list (byte * byte)) :=
  mapM (derive_entry compl (derive_inv codes)) codes.
(* COMPLEMENT_TRANS = str.maketrans(COMPLEMENT_ALL): code point -> replacement *)
Definition derive_trans (all : list (byte * byte)) : list (N * N) :=
  map (fun kv => (Byte.to_N (fst kv), Byte.to_N (snd kv))) all.

(* the regenerated CODES entry of a symbol, as the harness reads it from sugar.data *)
Definition run_C05_codes (c : byte) : val :=
  match lookupB c CODES with Some l => VS l | None => VNone end.

(* harness entry point for the derivation on any CODES-like table (the real statements of seq.py are executed on the same table) *)
Definition run_C05_derive (codes : list (byte * str)) (compl : list (byte * byte)) : val :=
  match derive_all codes compl with
  | Some d => VL (map (fun kv => VL [VS [fst kv]; VS [snd kv]]) d)
  | None => VE (bs "KeyError"%bs)
  end.

(* ---- BioSeq.__init__ (seq.py:221-223): data = str(data).upper(); Latin-1 str.upper / str.lower of CPython ---- *)
Definition nb (c : byte) : N := Byte.to_N c.
Definition shift (c : byte) (n : N) : byte := match Byte.of_N n with Some b => b | None => c end.
Definition upper1 (c : byte) : list byte :=
  let n := nb c in
  if ((97 <=? n) && (n <=? 122))%N || (((224 <=? n) && (n <=? 254))%N && negb (n =? 247)%N) then [shift c (n - 32)]
  else if (n =? 223)%N then ["S"%byte; "S"%byte] else [c].
(* 0xB5 and 0xFF have upper-case forms outside Latin-1 (U+039C, U+0178): outside the domain of the byte model *)
Definition upper_ok (c : byte) : bool := negb (nb c =? 181)%N && negb (nb c =? 255)%N.
Definition construct (s : str) : str := flat_map upper1 s.
Definition lower1 (c : byte) : byte :=
  let n := nb c in
  if ((65 <=? n) && (n <=? 90))%N || (((192 <=? n) && (n <=? 222))%N && negb (n =? 215)%N) then shift c (n + 32) else c.
Definition py_lower (s : str) : str := map lower1 s.

(* ---- objects: a heap of sequence objects (cells, in creation order) and a basket = list of handles; the same object may be
   listed twice. In-place methods replace the cell's data and return the receiver (seq.py:356-364, 501-509, 599-605, 781-788,
   894-900, 914-920); copy() allocates (seq.py:517-521) ---- *)
Record st := mkst { heap : list str; bask : list nat }.
Definition cell (h : list str) (i : nat) : str := nth i h [].
Fixpoint upd (h : list str) (i : nat) (v : str) : list str :=
  match h, i with
  | [], _ => []
  | _ :: r, O => v :: r
  | x :: r, S j => x :: upd r j v
  end.
Definition on_cell (f : str -> str) (i : nat) (h : list str) : list str := upd h i (f (cell h i)).
(* for seq in self: seq.method() *)
Definition on_basket (f : str -> str) (b : list nat) (h : list str) : list str := fold_left (fun h i => on_cell f i h) b h.
Fixpoint set_nth (l : list nat) (p : nat) (v : nat) : list nat :=
  match l, p with
  | [], _ => []
  | _ :: r, O => v :: r
  | x :: r, S j => x :: set_nth r j v
  end.
(* per-sequence methods: what happens to the residues *)
Definition seq_fun (opc : N) (arg : str) : option (str -> str) :=
  match opc with
  | 0%N => Some complement
  | 1%N => Some reverse
  | 2%N => Some rc                       (* rc() *)
  | 3%N => Some rc                       (* rc(update_fts=True): same residues *)
  | 8%N => Some py_translate             (* .str.translate(COMPLEMENT_TRANS): the table alone, no U handling *)
  | 9%N => Some t2u                      (* .str.replace('T', 'U') *)
  | 10%N => Some u2t                     (* .str.replace('U', 'T') *)
  | 12%N => Some py_lower                (* .str.lower() *)
  | 13%N => Some (fun _ => arg)          (* .data = arg *)
  | 15%N => Some (fun s => s ++ arg)     (* += arg (no upper-casing) *)
  | _ => None
  end.
Definition basket_fun (opc : N) : option (str -> str) :=
  match opc with
  | 5%N => Some complement | 6%N => Some reverse | 7%N => Some rc | 17%N => Some rc (* rc(update_fts=True) *)
  | 11%N => Some py_translate (* basket.str.translate(COMPLEMENT_TRANS) *)
  | _ => None
  end.
Definition step (s : st) (o : N * nat * str) : st :=
  let '(opc, p, arg) := o in
  let i := nth p (bask s) 0 in
  match opc with
  | 4%N => mkst (heap s ++ [cell (heap s) i]) (set_nth (bask s) p (length (heap s)))        (* basket[p] = basket[p].copy() *)
  | 14%N => mkst (heap s) (bask s ++ [i])                                                   (* basket.append(basket[p]): alias *)
  | 16%N => mkst (heap s ++ [construct arg]) (bask s ++ [length (heap s)])                  (* basket.append(BioSeq(arg)) *)
  | 18%N => mkst (on_basket rc (skipn p (bask s)) (heap s)) (bask s)                       (* basket[p:].rc(): another basket object over the same sequence objects *)
  | 19%N => mkst (on_basket complement (firstn (S p) (bask s)) (heap s)) (bask s)           (* basket[:p+1].complement() *)
  | _ => match basket_fun opc with
         | Some f => mkst (on_basket f (bask s) (heap s)) (bask s)
         | None => match seq_fun opc arg with
                   | Some f => mkst (on_cell f i (heap s)) (bask s)
                   | None => s
                   end
         end
  end.
Fixpoint trace (s : st) (ops : list (N * nat * str)) : list st :=
  match ops with
  | [] => []
  | o :: r => let s' := step s o in s' :: trace s' r
  end.
Definition run_ops (s : st) (ops : list (N * nat * str)) : st := fold_left step ops s.
Definition op_ok (nb0 : nat) (o : N * nat * str) : bool :=
  let '(opc, p, arg) := o in
  Nat.ltb p nb0 && N.ltb opc 20 && (if N.eqb opc 16 then forallb upper_ok arg else true).
(* initial sequences: (true, s) = BioSeq(s) through the constructor, (false, s) = data assigned as it is *)
Definition init_cell (m : bool * str) : str := if fst m then construct (snd m) else snd m.
Definition init_st (ini : list (bool * str)) : st := mkst (map init_cell ini) (seq 0 (length ini)).
Definition wf_hist (ini : list (bool * str)) (ops : list (N * nat * str)) : bool :=
  negb (Nat.eqb (length ini) 0)
  && forallb (fun m : bool * str => if fst m then forallb upper_ok (snd m) else true) ini
  && forallb (op_ok (length ini)) ops.
Definition show_st (s : st) : val := VL [VL (map VS (heap s)); VL (map (fun i => VI (Z.of_nat i)) (bask s))].
Definition run_C05_hist (ini : list (bool * str)) (ops : list (N * nat * str)) : val :=
  VL [VB (wf_hist ini ops); VL (map show_st (trace (init_st ini) ops))].

(* ---- harness entry point ---- *)
Definition run_C05 (op : N) (s : str) : val :=
  match op with
  | 0%N => VS (complement s)
  | 1%N => VS (rc s)
  | 2%N => VS (rev (complement s))
  | 3%N => VS (rc (rc s))
  | 4%N => VL [VI (Z.of_nat (fst (gc_counts s))); VI (Z.of_nat (snd (gc_counts s)))]
  | _ => VS (reverse s)
  end.

(* linear-time evaluation of rc for very long inputs (stdlib rev is quadratic); C05_Lemmas.run_C05_lin_eq proves it equal *)
Definition run_C05_lin (op : N) (s : str) : val :=
  match op with
  | 0%N => run_C05 0%N s
  | 1%N => VS (complement (rev_append s []))
  | 2%N => VS (rev_append (complement s) [])
  | 3%N => VS (complement (rev_append (complement (rev_append s [])) []))
  | 4%N => run_C05 4%N s
  | _ => VS (rev_append s [])
  end.
