(* C08 model: Location / LocationTuple / Feature / FeatureList geometry of sugar.core.fts
   (fts.py:19-156 Defect, Strand, Location; 159-256 LocationTuple; 390-400 Feature.rc; 705-780 loc_range, slice, rc).
   Flag values come from the regenerated G_flags.v; only the control flow is written by hand. No proofs here. *)
From Coq Require Import List ZArith NArith Bool.
From Coq.Strings Require Import Byte.
Import ListNotations.
From SV Require Import Text G_flags.
Local Open Scope Z_scope.

(* ---------------------------------------------------------------- values *)
(* Location: start, stop, strand (the one-character value of the StrEnum), defect bit set, metadata (opaque tag) *)
Record loc := mkLoc { lstart : Z; lstop : Z; lstrand : byte; ldefect : N; lmeta : Z }.
(* Feature: its LocationTuple and its metadata (opaque tag; `type` lives in the metadata) *)
Record feature := mkFt { flocs : list loc; fmeta : Z }.
(* what the harness feeds: the arguments of Location(start, stop, strand, defect, meta) *)
Definition rawloc := (Z * Z * byte * N * Z)%type.

Fixpoint all_some {A} (l : list (option A)) : option (list A) :=
  match l with
  | [] => Some []
  | None :: _ => None
  | Some x :: r => match all_some r with Some r' => Some (x :: r') | None => None end
  end.

(* ---------------------------------------------------------------- Strand, fts.py:63-77 *)
Definition cPlus : byte := "+"%byte.
Definition cMinus : byte := "-"%byte.
(* Strand(v): v must be the value of a member *)
Definition is_strand (c : byte) : bool :=
  byte_eqb c S_FORWARD || byte_eqb c S_REVERSE || byte_eqb c S_NONE || byte_eqb c S_UNKNOWN.
(* Strand._reverse, fts.py:76-77: Strand({'+': '-', '-': '+'}.get(self, self)) -- the literals, not the members *)
Definition strand_reverse (c : byte) : byte :=
  if byte_eqb c cPlus then cMinus else if byte_eqb c cMinus then cPlus else c.

(* ---------------------------------------------------------------- Defect, fts.py:19-60 *)
Fixpoint popcount_pos (p : positive) : nat :=
  match p with xH => 1 | xO q => popcount_pos q | xI q => S (popcount_pos q) end.
(* len(flag) = number of set bits *)
Definition popcount (n : N) : nat := match n with N0 => 0%nat | Npos p => popcount_pos p end.
Definition mask_MISS : N := N.lor D_MISS_LEFT D_MISS_RIGHT.
Definition mask_BEYOND : N := N.lor D_BEYOND_LEFT D_BEYOND_RIGHT.
Definition mask_UNKNOWN : N := N.lor D_UNKNOWN_LEFT D_UNKNOWN_RIGHT.
(* one `if len(mask & self) == 1: defect ^= mask`; the test reads self, the xor accumulates *)
Definition flip_pair (m self acc : N) : N :=
  if Nat.eqb (popcount (N.land m self)) 1 then N.lxor acc m else acc.
(* Defect._reverse, fts.py:52-60 *)
Definition defect_reverse (d : N) : N :=
  flip_pair mask_UNKNOWN d (flip_pair mask_BEYOND d (flip_pair mask_MISS d d)).
Definition has_flag (d m : N) : bool := negb (N.eqb (N.land d m) 0).

(* ---------------------------------------------------------------- Location, fts.py:80-156 *)
(* Location.__init__, fts.py:84-93: start >= stop raises; Strand(strand) raises for a non-member *)
Definition mk_location (a b : Z) (s : byte) (d : N) (m : Z) : option loc :=
  if a >=? b then None else if is_strand s then Some (mkLoc a b s d m) else None.
Definition mk_raw (r : rawloc) : option loc :=
  match r with (a, b, s, d, m) => mk_location a b s d m end.
(* Location._reverse, fts.py:151-156 *)
Definition loc_reverse (L : Z) (l : loc) : option loc :=
  mk_location (L - lstop l) (L - lstart l) (strand_reverse (lstrand l)) (defect_reverse (ldefect l)) (lmeta l).

(* ---------------------------------------------------------------- LocationTuple, fts.py:159-256 *)
(* sorted(..., key=...) is stable; sorted(..., reverse=True) keeps the original order of equal keys as well *)
Fixpoint insert_by (le : loc -> loc -> bool) (x : loc) (l : list loc) : list loc :=
  match l with
  | [] => [x]
  | y :: r => if le x y then x :: l else y :: insert_by le x r
  end.
Definition sort_by (le : loc -> loc -> bool) (l : list loc) : list loc := fold_right (insert_by le) [] l.
Definition le_start (x y : loc) : bool := lstart x <=? lstart y.   (* key=loc.start *)
Definition ge_stop (x y : loc) : bool := lstop y <=? lstop x.      (* key=loc.stop, reverse=True *)
Definition same_strand (l0 : loc) (l : loc) : bool := byte_eqb (lstrand l) (lstrand l0).
Definition order_of (s : byte) : loc -> loc -> bool := if byte_eqb s cMinus then ge_stop else le_start.
(* LocationTuple.__new__(locs), fts.py:163-189, for a list of Location instances *)
Definition mk_loctuple (ls : list loc) : option (list loc) :=
  match ls with
  | [] => None                                               (* fts.py:170-171 *)
  | l0 :: _ =>
      if forallb (same_strand l0) ls                         (* fts.py:181-184 *)
      then Some (sort_by (order_of (lstrand l0)) ls)         (* fts.py:185-188 *)
      else None
  end.
(* LocationTuple.range, fts.py:191-202 *)
Definition range (t : list loc) : Z * Z :=
  match t with
  | [] => (0, 0)
  | l0 :: r => (fold_left Z.min (map lstart r) (lstart l0), fold_left Z.max (map lstop r) (lstop l0))
  end.
(* __lt__, __le__, __gt__, __ge__, overlaps: fts.py:204-253 *)
Definition lt_lt (t u : list loc) : bool :=
  let '(s, e) := range t in let '(s2, e2) := range u in (s <? s2) || ((s =? s2) && (e <? e2)).
Definition lt_le (t u : list loc) : bool :=
  let '(s, e) := range t in let '(s2, e2) := range u in (s <? s2) || ((s =? s2) && (e <=? e2)).
Definition lt_gt (t u : list loc) : bool :=
  let '(s, e) := range t in let '(s2, e2) := range u in (s >? s2) || ((s =? s2) && (e >? e2)).
Definition lt_ge (t u : list loc) : bool :=
  let '(s, e) := range t in let '(s2, e2) := range u in (s >? s2) || ((s =? s2) && (e >=? e2)).
Definition lt_overlaps (t u : list loc) : bool :=
  let '(s, e) := range t in let '(s2, e2) := range u in (s <? e2) && (e >? s2).
(* LocationTuple._reverse, fts.py:255-256 *)
Definition loctuple_reverse (L : Z) (t : list loc) : option (list loc) :=
  match all_some (map (loc_reverse L) t) with Some ls => mk_loctuple ls | None => None end.

(* ---------------------------------------------------------------- Feature, fts.py:281-299, 390-400 *)
(* Feature(type, locs=[Location(...), ...], meta=...) : the Locations are built first, then the LocationTuple *)
Definition mk_feature (raws : list rawloc) (m : Z) : option feature :=
  match all_some (map mk_raw raws) with
  | Some ls => match mk_loctuple ls with Some t => Some (mkFt t m) | None => None end
  | None => None
  end.
(* locs setter, fts.py:296-298 *)
Definition set_locs (f : feature) (ls : list loc) : option feature :=
  match mk_loctuple ls with Some t => Some (mkFt t (fmeta f)) | None => None end.
(* Feature.rc, fts.py:390-400: self.locs = self.locs._reverse(seqlen) (the setter builds a LocationTuple again) *)
Definition feature_rc (L : Z) (f : feature) : option feature :=
  match loctuple_reverse L (flocs f) with Some t => set_locs f t | None => None end.

(* ---------------------------------------------------------------- FeatureList, fts.py:705-780 *)
(* FeatureList.rc, fts.py:770-780 *)
Definition fts_rc (L : Z) (fts : list feature) : option (list feature) := all_some (map (feature_rc L) fts).
(* sys.maxsize of a 64-bit CPython (asserted by the harness driver) *)
Definition maxsize : Z := 9223372036854775807.
(* FeatureList.loc_range, fts.py:705-722 *)
Definition loc_range (fts : list feature) : Z * Z :=
  fold_left (fun acc f =>
    fold_left (fun acc l =>
      (if lstart l <? fst acc then lstart l else fst acc, if lstop l >? snd acc then lstop l else snd acc))
      (flocs f) acc) fts (maxsize, - maxsize).

Inductive sres := Drop | Keep (l : loc) | Raise.
(* body of the inner loop of FeatureList.slice, fts.py:746-761; the test is
   `if max(loc.start, start) < min(loc.stop, stop):` since the fix of the empty-window defect (F26) *)
Definition slice_loc (a b r : Z) (l : loc) : sres :=
  if Z.max (lstart l) a <? Z.min (lstop l) b then
    let d := ldefect l in
    let d := if lstart l <? a then N.lor d D_MISS_LEFT else d in
    let d := if lstop l >? b then N.lor d D_MISS_RIGHT else d in
    match mk_location (Z.max a (lstart l) - r) (Z.min b (lstop l) - r) (lstrand l) d (lmeta l) with
    | Some l' => Keep l'
    | None => Raise
    end
  else Drop.
Fixpoint slice_locs (a b r : Z) (ls : list loc) : option (list loc) :=
  match ls with
  | [] => Some []
  | l :: rest =>
      match slice_loc a b r l with
      | Drop => slice_locs a b r rest
      | Raise => None
      | Keep l' => match slice_locs a b r rest with Some k => Some (l' :: k) | None => None end
      end
  end.
(* one iteration of the outer loop, fts.py:744-767: None = raised, Some None = feature not kept *)
Definition slice_ft (a b r : Z) (f : feature) : option (option feature) :=
  match slice_locs a b r (flocs f) with
  | None => None
  | Some [] => Some None
  | Some ls => match mk_loctuple ls with Some t => Some (Some (mkFt t (fmeta f))) | None => None end
  end.
Fixpoint fts_slice (a b r : Z) (fts : list feature) : option (list feature) :=
  match fts with
  | [] => Some []
  | f :: rest =>
      match slice_ft a b r f with
      | None => None
      | Some o =>
          match fts_slice a b r rest with
          | None => None
          | Some k => Some (match o with Some g => g :: k | None => k end)
          end
      end
  end.
Definition bound (o : option Z) (dflt : Z) : Z := match o with Some z => z | None => dflt end.
(* FeatureList.slice(start, stop, rel), fts.py:733-768 *)
Definition slice (start stop : option Z) (rel : Z) (fts : list feature) : option (list feature) :=
  fts_slice (bound start (- maxsize)) (bound stop maxsize) rel fts.

(* ---------------------------------------------------------------- specification side *)
(* the invariant of a LocationTuple: non-empty, valid locations, one strand, ordered 5'->3' *)
Definition loc_ok (l : loc) : bool := (lstart l <? lstop l) && is_strand (lstrand l).
Fixpoint sorted_by (le : loc -> loc -> bool) (l : list loc) : bool :=
  match l with
  | x :: (y :: _) as r => le x y && sorted_by le r
  | _ => true
  end.
Definition inv_locs (t : list loc) : bool :=
  match t with
  | [] => false
  | l0 :: _ => forallb loc_ok t && forallb (same_strand l0) t && sorted_by (order_of (lstrand l0)) t
  end.
Definition wf_ft (f : feature) : bool := inv_locs (flocs f).
Definition wf_fts (fts : list feature) : bool := forallb wf_ft fts.

(* what slicing should do to one location of [x,y) for the window [a,b) and shift r *)
(* the part of [x,y) inside the window [a,b) is [max x a, min y b): kept iff that is not empty *)
Definition overlaps_win (a b : Z) (l : loc) : bool := Z.max (lstart l) a <? Z.min (lstop l) b.
Definition clip (a b r : Z) (l : loc) : loc :=
  mkLoc (Z.max a (lstart l) - r) (Z.min b (lstop l) - r) (lstrand l)
        (N.lor (N.lor (ldefect l) (if lstart l <? a then D_MISS_LEFT else 0%N)) (if lstop l >? b then D_MISS_RIGHT else 0%N))
        (lmeta l).
Definition spec_slice_ft (a b r : Z) (f : feature) : list feature :=
  match filter (overlaps_win a b) (flocs f) with
  | [] => []
  | k => [mkFt (map (clip a b r) k) (fmeta f)]
  end.
Definition spec_slice (a b r : Z) (fts : list feature) : list feature := flat_map (spec_slice_ft a b r) fts.
(* mirror image of one location on a sequence of length L *)
Definition mirror (L : Z) (l : loc) : loc :=
  mkLoc (L - lstop l) (L - lstart l) (strand_reverse (lstrand l)) (defect_reverse (ldefect l)) (lmeta l).
Definition hd_strand (t : list loc) : byte := match t with [] => S_NONE | l0 :: _ => lstrand l0 end.
(* mirrored locations, put in 5'->3' order of the mirrored strand (stable) *)
Definition spec_rc_locs (L : Z) (t : list loc) : list loc :=
  sort_by (order_of (strand_reverse (hd_strand t))) (map (mirror L) t).
Definition spec_rc_ft (L : Z) (f : feature) : feature := mkFt (spec_rc_locs L (flocs f)) (fmeta f).
Definition stranded (t : list loc) : bool :=
  match t with [] => false | l0 :: _ => byte_eqb (lstrand l0) cPlus || byte_eqb (lstrand l0) cMinus end.
(* OPEN FINDING F31 rc_tie_order: on a feature without strand ('.' or '?') two locations with the same start
   and increasing stop are exchanged by rc().rc(); this is the guard that excludes exactly that region *)
Definition le_start_ge_stop (x y : loc) : bool :=
  (lstart x <? lstart y) || ((lstart x =? lstart y) && (lstop y <=? lstop x)).
Definition tie_ok (t : list loc) : bool := stranded t || sorted_by le_start_ge_stop t.
Definition coords_in (B : Z) (fts : list feature) : bool :=
  forallb (fun f => forallb (fun l => (- B <? lstart l) && (lstop l <? B)) (flocs f)) fts.
Definition ranges_lt (p q : Z * Z) : bool := (fst p <? fst q) || ((fst p =? fst q) && (snd p <? snd q)).
Definition ranges_eq (p q : Z * Z) : bool := (fst p =? fst q) && (snd p =? snd q).

(* ---------------------------------------------------------------- harness entry points *)
Inductive op :=
| OSlice (a b : option Z) (r : Z)       (* fts = fts.slice(a, b, rel=r) *)
| ORc (L : Z)                           (* fts.rc(seqlen=L) *)
| OFtRc (i : nat) (L : Z)               (* fts[i].rc(seqlen=L) *)
| OSetLocs (i : nat) (raws : list rawloc)    (* fts[i].locs = [Location(...), ...] *)
| OShareLocs (i j : nat)                (* fts[i].locs = fts[j].locs  (the Location objects become shared) *)
| OQSlice (a b : option Z) (r : Z) (mut : option Z)
                                        (* q = fts.slice(a, b, rel=r) observed, fts unchanged; with mut = Some L the RESULT is
                                           then mirrored in place (q.rc(L)) and observed again *)
| OQCmp (i j : nat)                     (* comparisons between fts[i].locs and fts[j].locs observed *)
| OSort (rev : bool).                   (* fts.sort(reverse=rev): default ordering by position *)

(* FeatureList.sort() without keys, fts.py:782-803 -> cane._sorted: sorted(features, reverse=rev) with Feature.__lt__
   (fts.py:365-373; all features of a case have the same seqid), i.e. a stable sort by LocationTuple.__lt__ *)
Definition ft_before (rev : bool) (x y : feature) : bool :=
  (* does y have to stay in front of x?  no: x is put before the first y that is not strictly ahead of it *)
  if rev then lt_lt (flocs x) (flocs y) else lt_lt (flocs y) (flocs x).
Fixpoint insert_ft (rev : bool) (x : feature) (l : list feature) : list feature :=
  match l with
  | [] => [x]
  | y :: r => if ft_before rev x y then y :: insert_ft rev x r else x :: l
  end.
Definition sort_fts (rev : bool) (l : list feature) : list feature := fold_right (insert_ft rev) [] l.

Fixpoint update_nth {A} (i : nat) (f : A -> option A) (l : list A) : option (list A) :=
  match l, i with
  | [], _ => Some []
  | x :: r, O => match f x with Some y => Some (y :: r) | None => None end
  | x :: r, S j => match update_nth j f r with Some r' => Some (x :: r') | None => None end
  end.

Definition apply_op (o : op) (st : list feature) : option (list feature) :=
  match o with
  | OSlice a b r => slice a b r st
  | ORc L => fts_rc L st
  | OFtRc i L => update_nth i (feature_rc L) st
  | OSetLocs i raws =>
      match all_some (map mk_raw raws) with
      | Some ls => update_nth i (fun f => set_locs f ls) st
      | None => None
      end
  | OShareLocs i j =>
      match nth_error st j with
      | Some fj => update_nth i (fun f => set_locs f (flocs fj)) st
      | None => Some st
      end
  | OQSlice _ _ _ _ => Some st
  | OQCmp _ _ => Some st
  | OSort rev => Some (sort_fts rev st)
  end.

Definition B62 : Z := 4611686018427387904.   (* 2^62 *)
Definition num_ok (z : Z) : bool := (- B62 <? z) && (z <? B62).
Definition raw_ok (r : rawloc) : bool :=
  match r with (a, b, s, d, m) => num_ok a && num_ok b end.
(* domain of one operation in the current state: an unbounded window side needs the current coordinates inside the
   box |x| < 2^62 (the code substitutes +-sys.maxsize); empty and inverted windows are inside the domain *)
Definition op_ok (o : op) (st : list feature) : bool :=
  match o with
  | OSlice a b r =>
      match a, b with Some _, Some _ => true | _, _ => coords_in B62 st end
  | OQSlice a b r mut =>
      match a, b with Some _, Some _ => true | _, _ => coords_in B62 st end
  | OShareLocs _ _ => true
  | OQCmp _ _ => true
  | OSort _ => true
  | ORc L => true
  | OFtRc i L => true
  | OSetLocs i raws => forallb raw_ok raws
  end.

Fixpoint run_ops (ops : list op) (st : list feature) (ok : bool) : bool * option (list feature) :=
  match ops with
  | [] => (ok, Some st)
  | o :: rest =>
      let ok' := ok && op_ok o st in
      match apply_op o st with
      | Some st' => run_ops rest st' ok'
      | None => (ok', None)
      end
  end.

Definition build (fs : list (list rawloc * Z)) : option (list feature) :=
  all_some (map (fun p => mk_feature (fst p) (snd p)) fs).

(* domain predicate of the history cases: decided by the model while it runs *)
Definition wf_C08 (fs : list (list rawloc * Z)) (ops : list op) : bool :=
  forallb (fun p => forallb raw_ok (fst p)) fs &&
  match build fs with
  | Some st => fst (run_ops ops st true)
  | None => true     (* a rejected construction is in the domain: the expected result is ValueError *)
  end.

Definition v_loc (l : loc) : val :=
  VL [VI (lstart l); VI (lstop l); VS [lstrand l]; VI (Z.of_N (ldefect l)); VI (lmeta l)].
Definition v_ft (f : feature) : val := VL [VL (map v_loc (flocs f)); VI (fmeta f)].
Definition v_fts (fts : list feature) : val := VL (map v_ft fts).
Definition vErr : val := VE (bs "ValueError"%bs).

Definition v_cmp (t u : list loc) : val :=
  VL [VB (lt_lt t u); VB (lt_le t u); VB (lt_gt t u); VB (lt_ge t u); VB (lt_overlaps t u);
      VI (fst (range t)); VI (snd (range t)); VI (fst (range u)); VI (snd (range u))].
(* what the driver records after each operation: the whole current list (state-changing operations) or the queried value *)
Definition observe (o : op) (st st' : list feature) : val :=
  match o with
  | OQSlice a b r mut =>
      match slice a b r st with
      | None => vErr
      | Some k =>
          match mut with
          | None => v_fts k
          | Some L => match fts_rc L k with Some k' => VL [v_fts k; v_fts k'] | None => vErr end
          end
      end
  | OQCmp i j =>
      match nth_error st i, nth_error st j with
      | Some fi, Some fj => v_cmp (flocs fi) (flocs fj)
      | _, _ => VNone
      end
  | _ => v_fts st'
  end.
Fixpoint run_log (ops : list op) (st : list feature) : list val :=
  match ops with
  | [] => []
  | o :: rest =>
      match apply_op o st with
      | Some st' => observe o st st' :: run_log rest st'
      | None => [vErr]
      end
  end.

(* history: build the features, apply the operations, report the log, the final list and its loc_range *)
Definition run_C08 (fs : list (list rawloc * Z)) (ops : list op) : val :=
  VL [VB (wf_C08 fs ops);
      match build fs with
      | None => vErr
      | Some st =>
          match snd (run_ops ops st true) with
          | None => vErr
          | Some st' => VL [VL (run_log ops st); v_fts st'; VI (fst (loc_range st')); VI (snd (loc_range st'))]
          end
      end].

(* rc twice with the same length. The region of the open finding F31 (rc_tie_order, guard tie_ok of the theorems) is
   inside the domain: the oracle fails there and the harness reports it as KNOWN-FINDING *)
Definition run_C08_rcrc (fs : list (list rawloc * Z)) (L : Z) : val :=
  match build fs with
  | None => VL [VB (forallb (fun p => forallb raw_ok (fst p)) fs); vErr]
  | Some st =>
      VL [VB (forallb (fun p => forallb raw_ok (fst p)) fs && num_ok L);
          match fts_rc L st with
          | None => vErr
          | Some st1 => match fts_rc L st1 with None => vErr | Some st2 => VL [v_fts st; v_fts st1; v_fts st2] end
          end]
  end.

(* comparisons of two LocationTuples *)
Definition run_C08_cmp (r1 r2 : list rawloc) : val :=
  let okd := forallb raw_ok r1 && forallb raw_ok r2 in
  match all_some (map mk_raw r1), all_some (map mk_raw r2) with
  | Some l1, Some l2 =>
      match mk_loctuple l1, mk_loctuple l2 with
      | Some t, Some u =>
          VL [VB okd; v_cmp t u]
      | _, _ => VL [VB okd; vErr]
      end
  | _, _ => VL [VB okd; vErr]
  end.

(* argument checking of the constructors and comparisons (fts.py:164-178, 209-210, 217-218, 225-226, 233-234, 252-253, 282-283, 387-388) *)
Definition vTypeErr : val := VE (bs "TypeError"%bs).
Definition sTypeErr : val := VS (bs "TypeError"%bs).
Definition run_C08_api (v : N) (raws : list rawloc) : val :=
  VL [VB (forallb raw_ok raws);
      match v with
      | 0%N => vErr            (* LocationTuple(locs, start=..., stop=...): one of locs or start/stop *)
      | 1%N => vErr            (* LocationTuple(): no location specified *)
      | 2%N =>                 (* LocationTuple([(start, stop, strand, defect), ...]): plain tuples are converted, any failure is a TypeError *)
          match raws with
          | [] => vErr
          | _ => match all_some (map mk_raw raws) with
                 | None => vTypeErr
                 | Some ls => match mk_loctuple ls with Some t => VL (map v_loc t) | None => vErr end
                 end
          end
      | 3%N =>                 (* comparisons with something that is not a LocationTuple / Feature raise TypeError *)
          match all_some (map mk_raw raws) with
          | None => vErr
          | Some ls => match mk_loctuple ls with
                       | None => vErr
                       | Some t => VL [sTypeErr; sTypeErr; sTypeErr; sTypeErr; sTypeErr; sTypeErr; VB (lt_overlaps t t); VB (lt_overlaps t t)]
                       end
          end
      | _ =>                   (* Feature(locs=[...]) without type and metadata *)
          match mk_feature raws 0 with Some f => VL (map v_loc (flocs f)) | None => vErr end
      end].

(* ---------------------------------------------------------------- composition laws (round 6) *)
(* window of fts.slice(a1, b1, rel=r1).slice(a2, b2, rel=r2) read in the coordinates of fts: the second window is given in the
   coordinates of the first result, i.e. shifted by r1 *)
Definition win_lo (a1 a2 r1 : Z) : Z := Z.max a1 (a2 + r1).
Definition win_hi (b1 b2 r1 : Z) : Z := Z.min b1 (b2 + r1).
Definition obind {A B} (o : option A) (f : A -> option B) : option B := match o with Some x => f x | None => None end.
Definition v_ofts (o : option (list feature)) : val := match o with Some k => v_fts k | None => vErr end.
(* four observations on one list: slice twice | the single slice with the intersected window and the summed shift |
   slice then rc(L') | rc(L) then slice with the mirrored window [L-b, L-a) and shift L-L'-r *)
Definition run_C08_law (fs : list (list rawloc * Z)) (s1 e1 : option Z) (r1 : Z) (s2 e2 : option Z) (r2 L L' : Z) : val :=
  let a1 := bound s1 (- maxsize) in let b1 := bound e1 maxsize in
  let a2 := bound s2 (- maxsize) in let b2 := bound e2 maxsize in
  VL [VB (forallb (fun p => forallb raw_ok (fst p)) fs && num_ok r1 && num_ok r2 && num_ok L && num_ok L' &&
          num_ok (bound s1 0) && num_ok (bound e1 0) && num_ok (bound s2 0) && num_ok (bound e2 0));
      match build fs with
      | None => vErr
      | Some st =>
          VL [v_ofts (obind (slice s1 e1 r1 st) (slice s2 e2 r2));
              v_ofts (slice (Some (win_lo a1 a2 r1)) (Some (win_hi b1 b2 r1)) (r1 + r2) st);
              v_ofts (obind (slice s1 e1 r1 st) (fts_rc L'));
              v_ofts (obind (fts_rc L st) (slice (Some (L - b1)) (Some (L - a1)) (L - L' - r1)))]
      end].

(* ---------------------------------------------------------------- operand types of the comparisons (round 6) *)
(* what can stand on either side of <, <=, >, >= and as the argument of overlaps() *)
Inductive operand :=
| OpTuple (t : list loc)                      (* a LocationTuple *)
| OpFeat (sid : option str) (t : list loc)    (* a Feature: meta.seqid (None when absent) and its locs *)
| OpLoc                                       (* a Location: defines no ordering *)
| OpPlain                                     (* a plain tuple: the base class of LocationTuple *)
| OpOther.                                    (* int, str, None: unrelated to the classes of fts.py *)
Inductive cmpop := CLt | CLe | CGt | CGe.
(* result of one rich-comparison METHOD call: a bool, an exception raised inside the method, or NotImplemented *)
Inductive cres := CVal (b : bool) | CRaise | CNotImpl.
Definition swap_op (o : cmpop) : cmpop := match o with CLt => CGt | CLe => CGe | CGt => CLt | CGe => CLe end.
Definition tuple_cmp (o : cmpop) (t u : list loc) : bool :=
  match o with CLt => lt_lt t u | CLe => lt_le t u | CGt => lt_gt t u | CGe => lt_ge t u end.
(* str < str of CPython on Latin-1 text: lexicographic by code point, a proper prefix is smaller *)
Fixpoint str_ltb (s t : str) : bool :=
  match s, t with
  | _, [] => false
  | [], _ :: _ => true
  | c :: s', d :: t' => if N.ltb (Byte.to_N c) (Byte.to_N d) then true else if byte_eqb c d then str_ltb s' t' else false
  end.
Definition seqid_eq (a b : option str) : bool :=
  match a, b with None, None => true | Some x, Some y => str_eqb x y | _, _ => false end.
(* x.__op__(y) as written in fts.py: LocationTuple.__lt__/__le__/__gt__/__ge__ (204-234) raise for every other type;
   Feature defines __lt__ only (365-373: seqids first when they differ, then the locs; a LocationTuple operand is accepted);
   Location, tuple (for a non-tuple operand), int/str/None inherit methods that answer NotImplemented *)
Definition method (o : cmpop) (x y : operand) : cres :=
  match x with
  | OpTuple t => match y with OpTuple u => CVal (tuple_cmp o t u) | _ => CRaise end
  | OpFeat sx t =>
      match o with
      | CLt =>
          match y with
          | OpFeat sy u =>
              if seqid_eq sx sy then CVal (lt_lt t u)
              else match sx, sy with Some p, Some q => CVal (str_ltb p q) | _, _ => CRaise end   (* None < 'chr1' raises *)
          | OpTuple u => CVal (lt_lt t u)
          | _ => CRaise
          end
      | _ => CNotImpl
      end
  | OpLoc | OpPlain | OpOther => CNotImpl
  end.
(* CPython's binary rich comparison (Objects/object.c do_richcompare): the reflected method of the right operand is tried
   first when its type is a proper subclass of the left operand's type, otherwise after a NotImplemented answer; two
   NotImplemented answers make a TypeError for the ordering operators *)
Definition py_cmp (o : cmpop) (x y : operand) : cres :=
  let fwd := method o x y in
  let bwd := method (swap_op o) y x in
  let right_first := match x, y with OpPlain, OpTuple _ => true | _, _ => false end in
  let r := if right_first then match bwd with CNotImpl => fwd | _ => bwd end
           else match fwd with CNotImpl => bwd | _ => fwd end in
  match r with CNotImpl => CRaise | _ => r end.
(* x.overlaps(y), fts.py:244-253 and 379-388; None: x has no such method *)
Definition overlaps_call (x y : operand) : option cres :=
  match x with
  | OpTuple t => Some (match y with OpTuple u => CVal (lt_overlaps t u) | _ => CRaise end)
  | OpFeat _ t => Some (match y with OpFeat _ u => CVal (lt_overlaps t u) | OpTuple u => CVal (lt_overlaps t u) | _ => CRaise end)
  | _ => None
  end.
Definition locs_of (x : operand) : option (list loc) :=
  match x with OpTuple t => Some t | OpFeat _ t => Some t | _ => None end.
(* the accepted operand combinations, as a table *)
Definition cmp_accepts (o : cmpop) (x y : operand) : bool :=
  match x, y with
  | OpTuple _, OpTuple _ => true
  | OpFeat _ _, OpTuple _ => match o with CLt => true | _ => false end
  | OpFeat sx _, OpFeat sy _ =>
      match o with
      | CLt | CGt => seqid_eq sx sy || match sx, sy with Some _, Some _ => true | _, _ => false end
      | _ => false
      end
  | _, _ => false
  end.

(* harness side: operand kind codes 0 LocationTuple, 1 Feature without seqid, 2 Feature seqid 'a', 3 Feature seqid 'B',
   4 Feature seqid 'ab', 5 Location, 6 plain tuple, 7.. int / str / None *)
Definition mk_operand (k : N) (t : list loc) : operand :=
  match k with
  | 0%N => OpTuple t
  | 1%N => OpFeat None t
  | 2%N => OpFeat (Some [x61]) t
  | 3%N => OpFeat (Some [x42]) t
  | 4%N => OpFeat (Some [x61; x62]) t
  | 5%N => OpLoc
  | 6%N => OpPlain
  | _ => OpOther
  end.
Definition v_cres (r : cres) : val := match r with CVal b => VB b | _ => sTypeErr end.
Definition ops_domain (x y : operand) : bool :=
  match locs_of x, locs_of y with None, None => false | _, _ => true end.
Definition run_C08_ops (kx ky : N) (r1 r2 : list rawloc) : val :=
  let okd := forallb raw_ok r1 && forallb raw_ok r2 in
  match all_some (map mk_raw r1), all_some (map mk_raw r2) with
  | Some l1, Some l2 =>
      match mk_loctuple l1, mk_loctuple l2 with
      | Some t, Some u =>
          let x := mk_operand kx t in let y := mk_operand ky u in
          VL [VB (okd && ops_domain x y);
              VL [v_cres (py_cmp CLt x y); v_cres (py_cmp CLe x y); v_cres (py_cmp CGt x y); v_cres (py_cmp CGe x y);
                  match overlaps_call x y with Some r => v_cres r | None => VNone end;
                  match overlaps_call y x with Some r => v_cres r | None => VNone end]]
      | _, _ => VL [VB okd; vErr]
      end
  | _, _ => VL [VB okd; vErr]
  end.

(* ---------------------------------------------------------------- Location(start, stop): kinds of coordinate values (round 6) *)
(* fts.py:84-86 checks `start >= stop` and nothing else: every orderable number is taken as it is. Values are represented
   by twice their value so that half-integral floats are exact. *)
Inductive coord :=
| KInt (z : Z)        (* int *)
| KBool (b : bool)    (* bool: an int subclass, False = 0, True = 1 *)
| KNp (z : Z)         (* numpy.int64 *)
| KHalf (z : Z)       (* the float z / 2 *)
| KNone.              (* None: not orderable *)
Definition twice (c : coord) : option Z :=
  match c with
  | KInt z => Some (2 * z) | KNp z => Some (2 * z) | KBool b => Some (if b then 2 else 0) | KHalf z => Some z | KNone => None
  end.
Definition int_value (c : coord) : option Z :=
  match c with
  | KInt z => Some z | KNp z => Some z | KBool b => Some (if b then 1 else 0)
  | KHalf z => if Z.even z then Some (z / 2) else None
  | KNone => None
  end.
Inductive lres := LAccept (a2 b2 : Z) | LValueError | LTypeError.
Definition location_args (a b : coord) : lres :=
  match twice a, twice b with
  | Some x, Some y => if x >=? y then LValueError else LAccept x y
  | _, _ => LTypeError          (* `None >= 3` raises TypeError before anything is stored *)
  end.
Definition coord_ok (c : coord) : bool :=
  match c with KInt z => num_ok z | KNp z => num_ok z | KHalf z => num_ok z | _ => true end.
Definition run_C08_args (a b : coord) : val :=
  VL [VB (coord_ok a && coord_ok b);
      match location_args a b with
      | LAccept x y => VL [VI x; VI y]
      | LValueError => vErr
      | LTypeError => vTypeErr
      end].
