(* C04 model: BioSeq as its residue string, BioBasket as a list of them (sugar/core/seq.py).
   CPython's subscripting is in lib/C04_PySlice.v; here only sugar's control flow. No proofs in this file. *)
From Coq Require Import List ZArith NArith Bool.
From Coq.Strings Require Import Byte.
Import ListNotations.
From SV Require Import Text C04_PySlice.
Local Open Scope Z_scope.

(* ---- characters ---- *)
Definition is_lower (c : byte) : bool := (N.leb 97 (Byte.to_N c) && N.leb (Byte.to_N c) 122)%N.
Definition is_ascii (c : byte) : bool := N.ltb (Byte.to_N c) 128.
(* str.upper() on ASCII code points (the domain predicate excludes the rest) *)
Definition ascii_upper (c : byte) : byte :=
  if is_lower c then match Byte.of_N (Byte.to_N c - 32) with Some b => b | None => c end else c.
Definition py_upper (s : str) : str := map ascii_upper s.

(* ---- BioSeq: residue string + id (the only metadata observable here) ---- *)
Record bioseq := mkseq { data : str; sid : str }.
Definition set_data (s : bioseq) (d : str) : bioseq := mkseq d (sid s).

(* BioSeq.__init__, seq.py:213-235: self.data = str(data).upper() *)
Definition new_seq (d id : str) : bioseq := mkseq (py_upper d) id.
(* __len__, seq.py:261 *)
Definition seq_len (s : bioseq) : Z := Z.of_nat (length (data s)).
(* __eq__, seq.py:250-253 *)
Definition seq_eq_str (s : bioseq) (t : str) : bool := str_eqb (data s) t.
Definition seq_eq_seq (s t : bioseq) : bool := str_eqb (data s) (data t) && str_eqb (sid s) (sid t).
(* __eq__ against an arbitrary Python object (rendered as a [val]): only a str can be equal, and then by
   exact (case-sensitive) comparison of the characters; None, numbers, tuples, lists, bytes, object() are unequal *)
Definition seq_eq_val (s : bioseq) (o : val) : bool :=
  match o with VS t => str_eqb (data s) t | _ => false end.
(* list.__contains__ / count / index / == over the basket elements (UserList delegates to the list of BioSeq) *)
Definition basket_contains (b : list bioseq) (o : val) : bool := existsb (fun s => seq_eq_val s o) b.
Definition basket_count (b : list bioseq) (o : val) : nat := length (filter (fun s => seq_eq_val s o) b).
Fixpoint basket_index (b : list bioseq) (o : val) (k : Z) : option Z :=
  match b with
  | [] => None                                      (* ValueError *)
  | s :: r => if seq_eq_val s o then Some k else basket_index r o (k + 1)
  end.
Fixpoint basket_eq_list (b : list bioseq) (os : list val) : bool :=
  match b, os with
  | [], [] => true
  | s :: r, o :: os' => seq_eq_val s o && basket_eq_list r os'
  | _, _ => false
  end.
(* __add__, seq.py:269-272: self.__class__(self.data + str(other), meta=self.meta) *)
Definition seq_add (s : bioseq) (other : str) : bioseq := new_seq (data s ++ other) (sid s).
(* __radd__, seq.py:280-281 *)
Definition seq_radd (s : bioseq) (other : str) : bioseq := new_seq (other ++ data s) (sid s).
(* __iadd__, seq.py:274-278: no constructor call, hence no upper() *)
Definition seq_iadd (s : bioseq) (other : str) : bioseq := set_data s (data s ++ other).

(* __setitem__, seq.py:264-267: l = list(self.data); l[index] = str(value); self.data = ''.join(l) *)
Definition chars (d : str) : list str := map (fun c => [c]) d.
Definition seq_setitem (s : bioseq) (ix : index) (v : str) : res bioseq :=
  let l := chars (data s) in
  match (match ix with
         | IInt i => setitem_int l i v
         | ISlice sl => setslice l sl (chars v)
         end) with
  | Ok l' => Ok (set_data s (concat l'))
  | Err e => Err e
  end.

(* _getitem, int/slice path, seq.py:463-478 *)
Definition in_gap (g : str) (c : byte) : bool := existsb (byte_eqb c) g.
(* nogaps = [i for i, nt in enumerate(self.data) if nt not in gap], seq.py:466 *)
Fixpoint nogaps_from (g : str) (off : Z) (d : str) : list Z :=
  match d with
  | [] => []
  | c :: r => if in_gap g c then nogaps_from g (off + 1) r else off :: nogaps_from g (off + 1) r
  end.
Definition nogaps (g d : str) : list Z := nogaps_from g 0 d.
(* adj, seq.py:467-473 *)
Definition adj (ng : list Z) (len : Z) (i : option Z) : option Z :=
  match i with
  | None => None
  | Some i =>
      let n := Z.of_nat (length ng) in
      let i := if i <? 0 then Z.max (i + n) 0 else i in
      Some (if i <? n then nth (Z.to_nat i) ng len else len)
  end.
Definition adjust_index (gap : option str) (d : str) (ix : index) : res index :=
  match gap with
  | None => Ok ix
  | Some g =>
      let ng := nogaps g d in
      match ix with
      | IInt i => match getitem ng i with Ok k => Ok (IInt k) | Err e => Err e end   (* nogaps[index] *)
      | ISlice sl => Ok (ISlice (mkslice (adj ng (Z.of_nat (length d)) (sl_start sl))
                                         (adj ng (Z.of_nat (length d)) (sl_stop sl)) (sl_step sl)))
      end
  end.
Definition seq_getitem (gap : option str) (s : bioseq) (ix : index) : res bioseq :=
  match adjust_index gap (data s) ix with
  | Err e => Err e
  | Ok ix' =>
      match pyget (data s) ix' with                     (* self.data[index] *)
      | Ok d => Ok (new_seq d (sid s))                  (* self.__class__(..., meta=self.meta) *)
      | Err e => Err e
      end
  end.

(* the same subscript on a plain residue string: columns selected by the adjusted index (no constructor) *)
Definition str_getitem (gap : option str) (d : str) (ix : index) : res str :=
  match adjust_index gap d ix with
  | Err e => Err e
  | Ok ix' => pyget d ix'
  end.

(* ---- the .str namespace, parametrically in the wrapped str method (seq.py:36-191) ---- *)
Section StrNamespace.
  Variables Arg R : Type.
  Variable m_t : str -> Arg -> str.       (* a transforming method: center, lower, replace, strip, ... *)
  Variable m_q : str -> Arg -> R.         (* a query method: count, find, split, startswith, ... *)
  (* self.__parent.data = self.__parent.data.m(args); return self.__parent *)
  Definition str_transform (s : bioseq) (a : Arg) : bioseq := set_data s (m_t (data s) a).
  (* return self.__parent.data.m(args) *)
  Definition str_query (s : bioseq) (a : Arg) : R := m_q (data s) a.
  (* _BioBasketStr.__getattr__, seq.py:177-191: results = [getattr(seq.str, name)(...) for seq in parent] *)
  Definition basket_str_transform (b : list bioseq) (a : Arg) : list bioseq := map (fun s => str_transform s a) b.
  Definition basket_str_query (b : list bioseq) (a : Arg) : list R := map (fun s => str_query s a) b.
End StrNamespace.
(* The basket namespace returns the basket itself for the names listed at seq.py:183-187 and the list of
   per-sequence results otherwise; the list contains 'remove_prefix', which is not a method name, so
   removeprefix/removesuffix return the list of (updated) sequences. Both outcomes are allowed by the property;
   the harness records which one each method takes (evidence: basket_returns_self / basket_returns_list). *)

(* ---- BioBasket (seq.py:833-873) ---- *)
Definition basket := list bioseq.
Fixpoint mapM {A B} (f : A -> res B) (l : list A) : res (list B) :=
  match l with
  | [] => Ok []
  | x :: r => match f x with
              | Err e => Err e
              | Ok y => match mapM f r with Ok ys => Ok (y :: ys) | Err e => Err e end
              end
  end.
(* isinstance(i, int): self.data[i] *)
Definition basket_get_int (b : basket) (i : Z) : res bioseq := getitem b i.
(* isinstance(i, slice): self.__class__(self.data[i], meta=self.meta) *)
Definition basket_get_slice (b : basket) (sl : pyslice) : res basket := getslice b sl.
(* (int, j): self.data[i]._getitem(j, **kw) *)
Definition basket_get_ij (gap : option str) (b : basket) (i : Z) (j : index) : res bioseq :=
  match getitem b i with Ok s => seq_getitem gap s j | Err e => Err e end.
(* (slice, j): [seq._getitem(j, **kw) for seq in self.data[i]] *)
Definition basket_get_slj (gap : option str) (b : basket) (sl : pyslice) (j : index) : res basket :=
  match getslice b sl with Ok ss => mapM (fun s => seq_getitem gap s j) ss | Err e => Err e end.

(* __setitem__, first branch: value = BioSeq(value) resp. [BioSeq(v) for v in value]; self.data[i] = value *)
Definition basket_set_int (b : basket) (i : Z) (v : str) : res basket := setitem_int b i (new_seq v []).
Definition basket_set_slice (b : basket) (sl : pyslice) (vs : list str) : res basket :=
  setslice b sl (map (fun v => new_seq v []) vs).
(* __setitem__, (slice, j): for seq in self[i]: seq[j] = value  -- the selected objects are updated in place *)
Fixpoint upd_positions (b : basket) (ps : list nat) (j : index) (v : str) : res basket :=
  match ps with
  | [] => Ok b
  | p :: r =>
      match nth_error b p with
      | None => Err IndexError
      | Some s => match seq_setitem s j v with
                  | Err e => Err e
                  | Ok s' => upd_positions (set_nth b p s') r j v
                  end
      end
  end.
Definition basket_set_slj (b : basket) (sl : pyslice) (j : index) (v : str) : res basket :=
  match getslice (seq 0 (length b)) sl with
  | Ok ps => upd_positions b ps j v
  | Err e => Err e
  end.
(* __setitem__, (int, j): self.data[i][j] = value  -- the selected object is updated in place *)
Definition basket_set_ij (b : basket) (i : Z) (j : index) (v : str) : res basket :=
  match getitem b i with
  | Err e => Err e
  | Ok s => match seq_setitem s j v with
            | Err e => Err e
            | Ok s' => setitem_int b i s'
            end
  end.

(* ---- counts (seq.py:335-345, 910-936) ---- *)
Definition count (c : byte) (s : str) : nat := length (filter (byte_eqb c) s).
(* gc: numerator and denominator of GC / (GC + AT) *)
Definition gc_counts (s : str) : nat * nat :=
  (count "G"%byte s + count "C"%byte s,
   count "G"%byte s + count "C"%byte s + (count "A"%byte s + count "T"%byte s + count "U"%byte s))%nat.
(* collections.Counter as a finite map byte -> nat (absent = 0); Counter + Counter adds pointwise *)
Definition counter := byte -> nat.
Definition counter_of (s : str) : counter := fun c => count c s.
Definition counter_add (a b : counter) : counter := fun c => (a c + b c)%nat.
(* reduce(operator.add, counters): TypeError on an empty list *)
Definition countall (b : basket) : res counter :=
  match b with
  | [] => Err TypeError
  | s :: r => Ok (fold_left counter_add (map (fun x => counter_of (data x)) r) (counter_of (data s)))
  end.
Definition all_bytes : list byte :=
  flat_map (fun n => match Byte.of_N n with Some b => [b] | None => [] end) (map N.of_nat (seq 0 256)).
Definition counter_items (k : counter) : list (byte * nat) :=
  filter (fun p => negb (Nat.eqb (snd p) 0)) (map (fun c => (c, k c)) all_bytes).
Definition counter_total (k : counter) : nat := fold_left Nat.add (map snd (counter_items k)) 0%nat.

(* removal of gap characters: the specification side of gap-aware slicing *)
Definition degap (g d : str) : str := filter (fun c => negb (in_gap g c)) d.
Definition no_lower (s : str) : bool := forallb (fun c => negb (is_lower c)) s.
Definition all_ascii (s : str) : bool := forallb is_ascii s.

(* ---- histories: several calls on the same objects.  The model is pure: every step is the model applied to the
   CURRENT value; objects that the code creates (BioSeq(value), slices, +) are new values, objects it keeps
   (basket elements) are updated in place. ---- *)
(* BioSeq.reverse, seq.py:591-596 *)
Definition seq_reverse (s : bioseq) : bioseq := set_data s (rev (data s)).
(* str.translate with a {ord(c): c'} table; unmapped characters are kept *)
Fixpoint lookup_byte (c : byte) (m : list (byte * byte)) : byte :=
  match m with
  | [] => c
  | (a, b) :: r => if byte_eqb a c then b else lookup_byte c r
  end.
Definition trans_map (d : str) (m : list (byte * byte)) : str := map (fun c => lookup_byte c m) d.
Definition seq_trans (s : bioseq) (m : list (byte * byte)) : bioseq := str_transform _ trans_map s m.

Definition show_exc (e : exc) : val :=
  match e with
  | IndexError => VE (bs "IndexError"%bs)
  | ValueError => VE (bs "ValueError"%bs)
  | TypeError => VE (bs "TypeError"%bs)
  end.
Definition show_res {A} (f : A -> val) (r : res A) : val := match r with Ok x => f x | Err e => show_exc e end.
Definition show_seq (s : bioseq) : val := VL [VS (data s); VS (sid s)].
Definition show_data (s : bioseq) : val := VS (data s).
Definition show_basket (b : basket) : val := VL (map show_seq b).
Definition show_gc (d : str) : val := let g := gc_counts d in VL [VI (Z.of_nat (fst g)); VI (Z.of_nat (snd g))].
Definition show_counter (k : counter) : val :=
  VL [VL (map (fun p => VL [VS [fst p]; VI (Z.of_nat (snd p))]) (counter_items k)); VI (Z.of_nat (counter_total k))].

Inductive hstep :=
| HGet (gap : option str) (ix : index)       (* seq.sl(gap=gap)[ix] / seq[ix] *)
| HGetIn (gap : option str) (ix : index)     (* seq.sl(inplace=True, gap=gap)[ix]: self.data = subseq.data, seq.py:488-489 *)
| HSet (ix : index) (v : str)                (* seq[ix] = v *)
| HIadd (t : str)                            (* seq += t *)
| HData (d : str)                            (* seq.data = d *)
| HReverse                                   (* seq.reverse() *)
| HTrans (m : list (byte * byte))            (* seq.str.translate(table) *)
| HAdd (t : str) | HRadd (t : str)           (* seq + t, t + seq: new objects *)
| HLen | HEq (t : str) | HGc
| HOther (d : str) (gap : option str) (ix : index).   (* the same call on another sequence with the same id *)

Definition upd {A} (s : bioseq) (f : A -> val) (r : res A) (g : A -> bioseq) : bioseq * val :=
  match r with Ok x => (g x, f x) | Err e => (s, show_exc e) end.
Definition hstep_run (s : bioseq) (h : hstep) : bioseq * val :=
  match h with
  | HGet gap ix => (s, show_res show_seq (seq_getitem gap s ix))
  | HGetIn gap ix => upd s show_seq (seq_getitem gap s ix) (fun r => set_data s (data r))
  | HSet ix v => upd s (fun _ => VNone) (seq_setitem s ix v) (fun x => x)
  | HIadd t => (seq_iadd s t, VNone)
  | HData d => (set_data s d, VNone)
  | HReverse => (seq_reverse s, VNone)
  | HTrans m => (seq_trans s m, VNone)
  | HAdd t => (s, show_seq (seq_add s t))
  | HRadd t => (s, show_seq (seq_radd s t))
  | HLen => (s, VI (seq_len s))
  | HEq t => (s, VB (seq_eq_str s t))
  | HGc => (s, show_gc (data s))
  | HOther d gap ix => (s, show_res show_seq (seq_getitem gap (new_seq d (sid s)) ix))
  end.
Fixpoint hist_run (s : bioseq) (hs : list hstep) : list val :=
  match hs with
  | [] => []
  | h :: r => let p := hstep_run s h in VL [snd p; show_seq (fst p)] :: hist_run (fst p) r
  end.

(* for seq in self[i]: seq[j] = value, keeping the sequences already assigned when a later one raises *)
Fixpoint upd_positions_st (b : basket) (ps : list nat) (j : index) (v : str) : basket * option exc :=
  match ps with
  | [] => (b, None)
  | p :: r =>
      match nth_error b p with
      | None => (b, Some IndexError)
      | Some s => match seq_setitem s j v with
                  | Err e => (b, Some e)
                  | Ok s' => upd_positions_st (set_nth b p s') r j v
                  end
      end
  end.

Inductive bstep :=
| BHGetI (i : Z) | BHGetSl (sl : pyslice)
| BHGetIJ (gap : option str) (i : Z) (j : index) | BHGetSlJ (gap : option str) (sl : pyslice) (j : index)
| BHSetI (i : Z) (v : str)                    (* b[i] = 'str' *)
| BHSetCopy (i k : Z)                         (* b[i] = b[k] : BioSeq(value) is a new object *)
| BHSetX (i : Z)                              (* b[i] = x for the outside sequence x *)
| BHSetSl (sl : pyslice) (vs : list str)
| BHSetSlJ (sl : pyslice) (j : index) (v : str)
| BHSetIJ (i : Z) (j : index) (v : str)
| BHXSet (ix : index) (v : str) | BHXReverse | BHXTrans (m : list (byte * byte))   (* in-place edits of x *)
| BHRowReverse (i : Z)                        (* b[i].reverse(): b[i] IS the element *)
| BHUpperAll                                  (* b.str.upper() *)
| BHCount.

Definition bupd {A} (st : basket * bioseq) (r : res A) (g : A -> basket * bioseq) : (basket * bioseq) * val :=
  match r with Ok x => (g x, VNone) | Err e => (st, show_exc e) end.
Definition bstep_run (st : basket * bioseq) (h : bstep) : (basket * bioseq) * val :=
  let b := fst st in let x := snd st in
  match h with
  | BHGetI i => (st, show_res show_seq (basket_get_int b i))
  | BHGetSl sl => (st, show_res show_basket (basket_get_slice b sl))
  | BHGetIJ gap i j => (st, show_res show_seq (basket_get_ij gap b i j))
  | BHGetSlJ gap sl j => (st, show_res show_basket (basket_get_slj gap b sl j))
  | BHSetI i v => bupd st (basket_set_int b i v) (fun b' => (b', x))
  | BHSetCopy i k =>
      match getitem b k with
      | Err e => (st, show_exc e)
      | Ok s => bupd st (setitem_int b i (new_seq (data s) (sid s))) (fun b' => (b', x))
      end
  | BHSetX i => bupd st (setitem_int b i (new_seq (data x) (sid x))) (fun b' => (b', x))
  | BHSetSl sl vs => bupd st (basket_set_slice b sl vs) (fun b' => (b', x))
  | BHSetSlJ sl j v =>
      match getslice (seq 0 (length b)) sl with
      | Err e => (st, show_exc e)
      | Ok ps => let r := upd_positions_st b ps j v in
                 ((fst r, x), match snd r with None => VNone | Some e => show_exc e end)
      end
  | BHSetIJ i j v => bupd st (basket_set_ij b i j v) (fun b' => (b', x))
  | BHXSet ix v => bupd st (seq_setitem x ix v) (fun x' => (b, x'))
  | BHXReverse => ((b, seq_reverse x), VNone)
  | BHXTrans m => ((b, seq_trans x m), VNone)
  | BHRowReverse i =>
      match getitem b i with
      | Err e => (st, show_exc e)
      | Ok s => bupd st (setitem_int b i (seq_reverse s)) (fun b' => (b', x))
      end
  | BHUpperAll => ((basket_str_transform unit (fun d _ => py_upper d) b tt, x), VNone)
  | BHCount => (st, show_res show_counter (countall b))
  end.
Fixpoint bhist_run (st : basket * bioseq) (hs : list bstep) : list val :=
  match hs with
  | [] => []
  | h :: r => let p := bstep_run st h in
              VL [snd p; show_basket (fst (fst p)); show_seq (snd (fst p))] :: bhist_run (fst p) r
  end.

Definition trans_ok (m : list (byte * byte)) : bool :=
  forallb (fun p => is_ascii (fst p) && is_ascii (snd p) && negb (is_lower (snd p))) m.
Definition okstr (s : str) : bool := all_ascii s && no_lower s.
Definition opt_okstr (g : option str) : bool := match g with None => true | Some g => all_ascii g end.
(* round 7: gap-aware subscripts with any step are inside the correspondence (modelled as they are) *)
Definition gap_ix_ok (gap : option str) (ix : index) : bool := true.
(* steps inside the correspondence: ASCII (single-sequence histories: lower case and every gap-aware step included) *)
Definition hstep_wf (h : hstep) : bool :=
  match h with
  | HGet gap ix | HGetIn gap ix => opt_okstr gap && gap_ix_ok gap ix
  | HSet _ v | HIadd v | HData v | HAdd v | HRadd v => all_ascii v     (* round 7: lower case allowed (constructor in the model) *)
  | HEq t => all_ascii t
  | HTrans m => forallb (fun p => is_ascii (fst p) && is_ascii (snd p)) m
  | HOther d gap ix => all_ascii d && opt_okstr gap && gap_ix_ok gap ix
  | HReverse | HLen | HGc => true
  end.
Definition bstep_wf (h : bstep) : bool :=
  match h with
  | BHGetIJ gap _ j | BHGetSlJ gap _ j => opt_okstr gap && gap_ix_ok gap j
  | BHSetI _ v => all_ascii v
  | BHSetSl _ vs => forallb all_ascii vs
  | BHSetSlJ _ _ v | BHSetIJ _ _ v | BHXSet _ v => okstr v
  | BHXTrans m => trans_ok m
  | _ => true
  end.

(* ======================================================================================================
   Round 6: the .str methods that have pure list semantics, object stores with duplicates, feature-type lookup.
   ====================================================================================================== *)

(* ---- str methods on ASCII code points (Objects/unicodeobject.c, Objects/stringlib/{find,count,replace}.h) ---- *)
Definition is_upper (c : byte) : bool := (N.leb 65 (Byte.to_N c) && N.leb (Byte.to_N c) 90)%N.
Definition ascii_lower (c : byte) : byte :=
  if is_upper c then match Byte.of_N (Byte.to_N c + 32) with Some b => b | None => c end else c.
Definition ascii_swap (c : byte) : byte := if is_upper c then ascii_lower c else ascii_upper c.
Definition py_lower (s : str) : str := map ascii_lower s.
Definition py_swapcase (s : str) : str := map ascii_swap s.
(* str.isupper: no lower-case character and at least one cased one; islower dually *)
Definition py_isupper (s : str) : bool := forallb (fun c => negb (is_lower c)) s && existsb is_upper s.
Definition py_islower (s : str) : bool := forallb (fun c => negb (is_upper c)) s && existsb is_lower s.

(* ADJUST_INDICES(start, end, len) of unicodeobject.c; None = the defaults 0 / sys.maxsize of the wrappers *)
Definition adj_start (len : Z) (a : option Z) : Z :=
  match a with None => 0 | Some a => if a <? 0 then Z.max (a + len) 0 else a end.
Definition adj_end (len : Z) (b : option Z) : Z :=
  match b with None => len | Some b => if b >? len then len else if b <? 0 then Z.max (b + len) 0 else b end.
(* the part s[start:end] a search method looks at, with its offset; None when end < start (nothing is ever found) *)
Definition window (s : str) (a b : option Z) : option (Z * str) :=
  let n := Z.of_nat (length s) in
  let st := adj_start n a in let en := adj_end n b in
  if en - st <? 0 then None else Some (st, firstn (Z.to_nat (en - st)) (skipn (Z.to_nat st) s)).

Fixpoint prefixb (p w : str) : bool :=
  match p, w with
  | [], _ => true
  | a :: p', b :: w' => byte_eqb a b && prefixb p' w'
  | _ :: _, [] => false
  end.
(* leftmost / rightmost position at which sub starts *)
Fixpoint find_in (sub w : str) : option nat :=
  match w with
  | [] => if prefixb sub [] then Some O else None
  | _ :: r => if prefixb sub w then Some O else option_map S (find_in sub r)
  end.
Fixpoint rfind_in (sub w : str) : option nat :=
  match w with
  | [] => if prefixb sub [] then Some O else None
  | _ :: r => match rfind_in sub r with
              | Some i => Some (S i)
              | None => if prefixb sub w then Some O else None
              end
  end.
(* non-overlapping occurrences from the left; [skip] residues still belong to the occurrence just counted *)
Fixpoint count_in (sub w : str) (skip : nat) : nat :=
  match w with
  | [] => O
  | _ :: r => match skip with
              | S k => count_in sub r k
              | O => if prefixb sub w then S (count_in sub r (length sub - 1)) else count_in sub r O
              end
  end.
Definition py_find (s sub : str) (a b : option Z) : Z :=
  match window s a b with
  | None => -1
  | Some (st, w) => match find_in sub w with Some i => st + Z.of_nat i | None => -1 end
  end.
Definition py_rfind (s sub : str) (a b : option Z) : Z :=
  match window s a b with
  | None => -1
  | Some (st, w) => match rfind_in sub w with Some i => st + Z.of_nat i | None => -1 end
  end.
(* index / rindex: ValueError instead of -1 *)
Definition py_index (s sub : str) (a b : option Z) : res Z :=
  let r := py_find s sub a b in if r <? 0 then Err ValueError else Ok r.
Definition py_rindex (s sub : str) (a b : option Z) : res Z :=
  let r := py_rfind s sub a b in if r <? 0 then Err ValueError else Ok r.
Definition py_count (s sub : str) (a b : option Z) : Z :=
  match window s a b with
  | None => 0
  | Some (_, w) => match sub with
                   | [] => Z.of_nat (length w) + 1
                   | _ => Z.of_nat (count_in sub w O)
                   end
  end.
(* tailmatch *)
Definition py_startswith (s p : str) (a b : option Z) : bool :=
  match window s a b with None => false | Some (_, w) => prefixb p w end.
Definition py_endswith (s p : str) (a b : option Z) : bool :=
  match window s a b with None => false | Some (_, w) => prefixb (rev p) (rev w) end.

(* replace(old, new, count): leftmost non-overlapping occurrences, at most count of them (count < 0: all) *)
Fixpoint replace_in (old new w : str) (skip : nat) (lim : option nat) : str :=
  match w with
  | [] => []
  | c :: r =>
      match skip with
      | S k => replace_in old new r k lim
      | O => match lim with
             | Some O => c :: r
             | _ => if prefixb old (c :: r)
                    then new ++ replace_in old new r (length old - 1) (option_map pred lim)
                    else c :: replace_in old new r O lim
             end
      end
  end.
(* empty old: new is put before every character and at the end *)
Fixpoint replace_empty (new w : str) (lim : option nat) : str :=
  match lim with
  | Some O => w
  | _ => new ++ match w with [] => [] | c :: r => c :: replace_empty new r (option_map pred lim) end
  end.
Definition lim_of (cnt : option Z) : option nat :=
  match cnt with None => None | Some z => if z <? 0 then None else Some (Z.to_nat z) end.
Definition py_replace (s old new : str) (cnt : option Z) : str :=
  match old with
  | [] => replace_empty new s (lim_of cnt)
  | _ => replace_in old new s O (lim_of cnt)
  end.

(* strip family; chars None = white space (ASCII part of Py_UNICODE_ISSPACE) *)
Definition ws : str := [x09; x0a; x0b; x0c; x0d; x1c; x1d; x1e; x1f; x20].
Definition strip_set (chars : option str) (c : byte) : bool :=
  existsb (byte_eqb c) (match chars with None => ws | Some cs => cs end).
Fixpoint dropwhile (f : byte -> bool) (s : str) : str :=
  match s with [] => [] | c :: r => if f c then dropwhile f r else c :: r end.
Definition py_lstrip (s : str) (chars : option str) : str := dropwhile (strip_set chars) s.
Definition py_rstrip (s : str) (chars : option str) : str := rev (dropwhile (strip_set chars) (rev s)).
Definition py_strip (s : str) (chars : option str) : str := py_rstrip (py_lstrip s chars) chars.

(* ljust / rjust / center (unicode_center: left = marg/2 + (marg & width & 1)) *)
Definition fill_of (f : option byte) : byte := match f with None => x20 | Some c => c end.
Definition pad (left right : Z) (f : byte) (s : str) : str :=
  repeat f (Z.to_nat left) ++ s ++ repeat f (Z.to_nat right).
Definition py_ljust (s : str) (w : Z) (f : option byte) : str :=
  let m := w - Z.of_nat (length s) in if m <=? 0 then s else pad 0 m (fill_of f) s.
Definition py_rjust (s : str) (w : Z) (f : option byte) : str :=
  let m := w - Z.of_nat (length s) in if m <=? 0 then s else pad m 0 (fill_of f) s.
Definition py_center (s : str) (w : Z) (f : option byte) : str :=
  let m := w - Z.of_nat (length s) in
  if m <=? 0 then s else
  let left := m / 2 + (if Z.odd m && Z.odd w then 1 else 0) in pad left (m - left) (fill_of f) s.


(* ---- round 7: the remaining methods of the namespace as list functions on ASCII ---- *)
(* removeprefix / removesuffix (unicode_removeprefix_impl: tailmatch over the whole string) *)
Definition py_removeprefix (s p : str) : str := if prefixb p s then skipn (length p) s else s.
Definition py_removesuffix (s p : str) : str :=
  if prefixb (rev p) (rev s) then firstn (length s - length p) s else s.
(* isalpha: non-empty and letters only; isascii: every code point below 128 (true for the empty string) *)
Definition is_alpha (c : byte) : bool := is_upper c || is_lower c.
Definition py_isalpha (s : str) : bool := negb (Nat.eqb (length s) 0) && forallb is_alpha s.
Definition py_isascii (s : str) : bool := forallb is_ascii s.
(* encode with utf-8 / ascii / latin-1 (strict): on ASCII code points the bytes are the code points *)
Definition py_encode (s : str) : str := s.

(* the current piece is the head of the result *)
Definition cons_head (c : byte) (l : list str) : list str :=
  match l with h :: t => (c :: h) :: t | [] => [[c]] end.
Definition is_ws (c : byte) : bool := existsb (byte_eqb c) ws.
(* split() / split(None, maxsplit), stringlib split_whitespace: runs of white space separate, none at the ends;
   when maxsplit pieces have been started the rest (after leading white space) is the last piece as it is *)
Fixpoint split_ws_go (w : str) (inword : bool) (lim : option nat) : list str :=
  match w with
  | [] => if inword then [[]] else []
  | c :: r =>
      if inword then (if is_ws c then [] :: split_ws_go r false lim else cons_head c (split_ws_go r true lim))
      else if is_ws c then split_ws_go r false lim
      else match lim with
           | Some O => [c :: r]
           | _ => cons_head c (split_ws_go r true (option_map pred lim))
           end
  end.
(* split(sep, maxsplit), sep non-empty: leftmost non-overlapping occurrences, at most maxsplit of them *)
Fixpoint split_sep_go (sep w : str) (skip : nat) (lim : option nat) : list str :=
  match w with
  | [] => [[]]
  | c :: r =>
      match skip with
      | S k => split_sep_go sep r k lim
      | O => match lim with
             | Some O => [c :: r]
             | _ => if prefixb sep w then [] :: split_sep_go sep r (length sep - 1) (option_map pred lim)
                    else cons_head c (split_sep_go sep r O lim)
             end
      end
  end.
Definition py_split (s : str) (sep : option str) (ms : option Z) : res (list str) :=
  match sep with
  | None => Ok (split_ws_go s false (lim_of ms))
  | Some [] => Err ValueError                                  (* empty separator *)
  | Some sp => Ok (split_sep_go sp s O (lim_of ms))
  end.
(* rsplit: the same scan from the right end *)
Definition py_rsplit (s : str) (sep : option str) (ms : option Z) : res (list str) :=
  match py_split (rev s) (option_map (@rev byte) sep) ms with
  | Ok l => Ok (rev (map (@rev byte) l))
  | Err e => Err e
  end.
(* splitlines(keepends): \n \r \r\n \v \f \x1c \x1d \x1e end a line (ASCII part of Py_UNICODE_ISLINEBREAK);
   no empty last line *)
Definition is_linebreak (c : byte) : bool := existsb (byte_eqb c) [x0a; x0b; x0c; x0d; x1c; x1d; x1e].
Fixpoint splitlines_go (w : str) (keep started : bool) : list str :=
  match w with
  | [] => if started then [[]] else []
  | c :: r =>
      if is_linebreak c then
        match r with
        | d :: r' => if byte_eqb c x0d && byte_eqb d x0a
                     then (if keep then [c; d] else []) :: splitlines_go r' keep false
                     else (if keep then [c] else []) :: splitlines_go r keep false
        | [] => (if keep then [c] else []) :: splitlines_go r keep false
        end
      else cons_head c (splitlines_go r keep true)
  end.
Definition py_splitlines (s : str) (keep : bool) : list str := splitlines_go s keep false.
(* the inverse direction: str.join *)
Fixpoint join (sep : str) (l : list str) : str :=
  match l with [] => [] | [x] => x | x :: r => x ++ sep ++ join sep r end.

(* str.maketrans(x, y[, z]) (unicode_maketrans): {ord(x[i]): ord(y[i])} filled left to right (a later duplicate key
   overwrites), then {ord(c): None for c in z} (overwrites again); ValueError when len(x) != len(y).
   As an association list read first-match: the z entries, then the (x, y) pairs from the right. *)
Definition py_maketrans (x y z : str) : res (list (byte * option byte)) :=
  if Nat.eqb (length x) (length y)
  then Ok (map (fun c => (c, None)) z ++ rev (combine x (map (@Some byte) y)))
  else Err ValueError.
Fixpoint lookup_tbl (c : byte) (m : list (byte * option byte)) : option (option byte) :=
  match m with
  | [] => None
  | (a, b) :: r => if byte_eqb a c then Some b else lookup_tbl c r
  end.
(* str.translate with such a table: None deletes, unmapped characters are kept *)
Definition translate_tbl (d : str) (m : list (byte * option byte)) : str :=
  flat_map (fun c => match lookup_tbl c m with Some (Some b) => [b] | Some None => [] | None => [c] end) d.
Definition nonws (c : byte) : bool := negb (is_ws c).
Definition nonlb (c : byte) : bool := negb (is_linebreak c).
(* startswith / endswith with a tuple of candidates *)
Definition py_startswith_any (s : str) (ps : list str) (a b : option Z) : bool := existsb (fun p => py_startswith s p a b) ps.
Definition py_endswith_any (s : str) (ps : list str) (a b : option Z) : bool := existsb (fun p => py_endswith s p a b) ps.

(* ---- edits and queries of ONE sequence: the code path (seq_edit / seq_query) and the plain-str reading ---- *)
Inductive edit :=
| ESet (ix : index) (v : str)                 (* seq[ix] = v *)
| EIadd (t : str)                             (* seq += t *)
| EData (d : str)                             (* seq.data = d *)
| EReverse                                    (* seq.reverse() *)
| ETrans (m : list (byte * byte))             (* seq.str.translate(table) *)
| ELower | EUpper | ESwapcase                 (* seq.str.lower() ... *)
| EReplace (old new : str) (cnt : option Z)
| ECenter (w : Z) (f : option byte) | ELjust (w : Z) (f : option byte) | ERjust (w : Z) (f : option byte)
| EStrip (chars : option str) | ELstrip (chars : option str) | ERstrip (chars : option str)
| ERemoveprefix (p : str) | ERemovesuffix (p : str)
| ETransMk (x y z : str).                     (* seq.str.translate(seq.str.maketrans(x, y, z)) *)

(* the str method behind a transforming .str wrapper *)
Definition edit_method (e : edit) (d : str) : str :=
  match e with
  | ETrans m => trans_map d m
  | ELower => py_lower d | EUpper => py_upper d | ESwapcase => py_swapcase d
  | EReplace old new cnt => py_replace d old new cnt
  | ECenter w f => py_center d w f | ELjust w f => py_ljust d w f | ERjust w f => py_rjust d w f
  | EStrip cs => py_strip d cs | ELstrip cs => py_lstrip d cs | ERstrip cs => py_rstrip d cs
  | ERemoveprefix p => py_removeprefix d p | ERemovesuffix p => py_removesuffix d p
  | _ => d
  end.
(* what the code does (seq.py:264-278, 36-175, 591-596) *)
Definition seq_edit (e : edit) (s : bioseq) : res bioseq :=
  match e with
  | ESet ix v => seq_setitem s ix v
  | EIadd t => Ok (seq_iadd s t)
  | EData d => Ok (set_data s d)
  | EReverse => Ok (seq_reverse s)
  | ETransMk x y z =>                             (* the table is built first: ValueError leaves the sequence alone *)
      match py_maketrans x y z with
      | Err x => Err x
      | Ok t => Ok (str_transform _ translate_tbl s t)
      end
  | _ => Ok (str_transform unit (fun d _ => edit_method e d) s tt)
  end.
(* the same edit on a plain Python str / list *)
Definition str_edit (e : edit) (d : str) : res str :=
  match e with
  | ESet (IInt i) v =>
      match getitem d i with
      | Err x => Err x
      | Ok _ => let p := Z.to_nat (if i <? 0 then i + Z.of_nat (length d) else i) in
                Ok (firstn p d ++ v ++ skipn (S p) d)
      end
  | ESet (ISlice sl) v => setslice d sl v
  | EIadd t => Ok (d ++ t)
  | EData d' => Ok d'
  | EReverse => Ok (rev d)
  | ETransMk x y z => match py_maketrans x y z with Err x => Err x | Ok t => Ok (translate_tbl d t) end
  | _ => Ok (edit_method e d)
  end.

Inductive query :=
| QLen | QEq (t : str)
| QCount (sub : str) (a b : option Z) | QFind (sub : str) (a b : option Z) | QRfind (sub : str) (a b : option Z)
| QIndex (sub : str) (a b : option Z) | QRindex (sub : str) (a b : option Z)
| QStartswith (p : str) (a b : option Z) | QEndswith (p : str) (a b : option Z)
| QIsupper | QIslower | QGc | QCountall
| QIsalpha | QIsascii | QEncode
| QSplit (sep : option str) (ms : option Z) | QRsplit (sep : option str) (ms : option Z) | QSplitlines (keep : bool)
| QStartswithAny (ps : list str) (a b : option Z) | QEndswithAny (ps : list str) (a b : option Z).

Definition show_strs (l : list str) : val := VL (map VS l).
Definition show_zres (r : res Z) : val := match r with Ok z => VI z | Err e => show_exc e end.
(* the str method behind a query .str wrapper *)
Definition query_method (q : query) (d : str) : val :=
  match q with
  | QCount sub a b => VI (py_count d sub a b)
  | QFind sub a b => VI (py_find d sub a b)
  | QRfind sub a b => VI (py_rfind d sub a b)
  | QIndex sub a b => show_zres (py_index d sub a b)
  | QRindex sub a b => show_zres (py_rindex d sub a b)
  | QStartswith p a b => VB (py_startswith d p a b)
  | QEndswith p a b => VB (py_endswith d p a b)
  | QIsupper => VB (py_isupper d)
  | QIslower => VB (py_islower d)
  | QIsalpha => VB (py_isalpha d) | QIsascii => VB (py_isascii d) | QEncode => VS (py_encode d)
  | QSplit sep ms => show_res show_strs (py_split d sep ms)
  | QRsplit sep ms => show_res show_strs (py_rsplit d sep ms)
  | QSplitlines keep => show_strs (py_splitlines d keep)
  | QStartswithAny ps a b => VB (py_startswith_any d ps a b)
  | QEndswithAny ps a b => VB (py_endswith_any d ps a b)
  | _ => VNone
  end.
(* BioSeq.gc, seq.py:336-345: the five letter counts go through self.str.count *)
Definition seq_gc_counts (s : bioseq) : Z * Z :=
  let cnt c := str_query unit Z (fun d _ => py_count d [c] None None) s tt in
  let GC := cnt "G"%byte + cnt "C"%byte in
  let AT := cnt "A"%byte + cnt "T"%byte + cnt "U"%byte in (GC, GC + AT).
Definition seq_query (q : query) (s : bioseq) : val :=
  match q with
  | QLen => VI (seq_len s)
  | QEq t => VB (seq_eq_str s t)
  | QGc => let g := seq_gc_counts s in VL [VI (fst g); VI (snd g)]
  | QCountall => show_res show_counter (countall [s])          (* BioSeq.countall: BioBasket([self]).countall() *)
  | _ => str_query unit val (fun d _ => query_method q d) s tt
  end.
(* the same question asked of a plain Python str *)
Definition str_query_run (q : query) (d : str) : val :=
  match q with
  | QLen => VI (Z.of_nat (length d))
  | QEq t => VB (str_eqb d t)
  | QGc => show_gc d
  | QCountall => show_counter (counter_of d)
  | _ => query_method q d
  end.

(* ---- an object store: BioSeq objects addressed by handle; duplicates are appended ---- *)
Definition store := list bioseq.
Inductive dstep :=
| DDup (k : nat)                   (* copy.copy / copy.deepcopy / seq.copy() / pickle round trip / basket.copy()[k] *)
| DEdit (k : nat) (e : edit)
| DQuery (k : nat) (q : query)
| DEqObj (k j : nat)               (* obj_k == obj_j *)
| DAllEdit (e : edit)              (* through BioBasket(all objects): seqs[:, ix] = v, seqs.str.m(...), seqs.reverse() *)
| DCountall                        (* BioBasket(all objects).countall() *)
| DSlice (k : nat) (gap : option str) (ix : index)   (* obj_k[ix] / obj_k.sl(gap=gap)[ix]: the NEW object (made by the
                                      constructor, so upper-cased) is appended to the store *)
| DSliceIn (k : nat) (gap : option str) (ix : index)    (* obj_k.sl(inplace=True, gap=gap)[ix]: new object appended AND
                                      obj_k.data = subseq.data *)
| DAdd (k : nat) (t : str) | DRadd (k : nat) (t : str). (* obj_k + t, t + obj_k: the NEW object (constructor: upper-cased as a
                                      whole, lower case of obj_k included) is appended *)

(* for seq in basket: edit(seq) -- earlier sequences stay edited when a later one raises *)
Fixpoint edit_all (e : edit) (b : store) : store * option exc :=
  match b with
  | [] => ([], None)
  | s :: r => match seq_edit e s with
              | Err x => (s :: r, Some x)
              | Ok s' => let p := edit_all e r in (s' :: fst p, snd p)
              end
  end.
Definition dstep_run (st : store) (h : dstep) : store * val :=
  match h with
  | DDup k => match nth_error st k with
              | Some s => (st ++ [s], VNone)
              | None => (st, show_exc IndexError)
              end
  | DEdit k e => match nth_error st k with
                 | None => (st, show_exc IndexError)
                 | Some s => match seq_edit e s with
                             | Ok s' => (set_nth st k s', VNone)
                             | Err x => (st, show_exc x)
                             end
                 end
  | DQuery k q => match nth_error st k with
                  | None => (st, show_exc IndexError)
                  | Some s => (st, seq_query q s)
                  end
  | DEqObj k j => match nth_error st k, nth_error st j with
                  | Some s, Some t => (st, VB (seq_eq_seq s t))
                  | _, _ => (st, show_exc IndexError)
                  end
  | DAllEdit e => let p := edit_all e st in (fst p, match snd p with None => VNone | Some x => show_exc x end)
  | DCountall => (st, show_res show_counter (countall st))
  | DSlice k gap ix => match nth_error st k with
                       | None => (st, show_exc IndexError)
                       | Some s => match seq_getitem gap s ix with
                                   | Ok r => (st ++ [r], show_seq r)
                                   | Err x => (st, show_exc x)
                                   end
                       end
  | DSliceIn k gap ix => match nth_error st k with
                         | None => (st, show_exc IndexError)
                         | Some s => match seq_getitem gap s ix with
                                     | Ok r => (set_nth st k (set_data s (data r)) ++ [r], show_seq r)
                                     | Err x => (st, show_exc x)
                                     end
                         end
  | DAdd k t => match nth_error st k with
                | Some s => (st ++ [seq_add s t], show_seq (seq_add s t))
                | None => (st, show_exc IndexError)
                end
  | DRadd k t => match nth_error st k with
                 | Some s => (st ++ [seq_radd s t], show_seq (seq_radd s t))
                 | None => (st, show_exc IndexError)
                 end
  end.
Fixpoint store_run (st : store) (hs : list dstep) : list val :=
  match hs with
  | [] => []
  | h :: r => let p := dstep_run st h in VL [snd p; show_basket (fst p)] :: store_run (fst p) r
  end.
Definition store_final (st : store) (hs : list dstep) : store := fold_left (fun s h => fst (dstep_run s h)) hs st.

(* the same history on a plain list of Python strs *)
Fixpoint str_edit_all (e : edit) (ds : list str) : list str * option exc :=
  match ds with
  | [] => ([], None)
  | d :: r => match str_edit e d with
              | Err x => (d :: r, Some x)
              | Ok d' => let p := str_edit_all e r in (d' :: fst p, snd p)
              end
  end.
Definition strs_step (ds : list str) (h : dstep) : list str :=
  match h with
  | DDup k => match nth_error ds k with Some d => ds ++ [d] | None => ds end
  | DEdit k e => match nth_error ds k with
                 | Some d => match str_edit e d with Ok d' => set_nth ds k d' | Err _ => ds end
                 | None => ds
                 end
  | DAllEdit e => fst (str_edit_all e ds)
  | DSlice k gap ix => match nth_error ds k with
                       | Some d => match str_getitem gap d ix with Ok r => ds ++ [py_upper r] | Err _ => ds end
                       | None => ds
                       end
  | DSliceIn k gap ix => match nth_error ds k with
                         | Some d => match str_getitem gap d ix with
                                     | Ok r => set_nth ds k (py_upper r) ++ [py_upper r]
                                     | Err _ => ds
                                     end
                         | None => ds
                         end
  | DAdd k t => match nth_error ds k with Some d => ds ++ [py_upper (d ++ t)] | None => ds end
  | DRadd k t => match nth_error ds k with Some d => ds ++ [py_upper (t ++ d)] | None => ds end
  | _ => ds
  end.
Definition ids_step (ids : list str) (h : dstep) : list str :=
  match h with
  | DDup k | DAdd k _ | DRadd k _ => match nth_error ids k with Some i => ids ++ [i] | None => ids end
  | _ => ids
  end.
(* slices carry the id of their source (the meta object is shared); whether a slice step succeeds depends on the residues *)
Definition ids_step_d (ds ids : list str) (h : dstep) : list str :=
  match h with
  | DSlice k gap ix | DSliceIn k gap ix =>
      match nth_error ds k, nth_error ids k with
      | Some d, Some i => match str_getitem gap d ix with Ok _ => ids ++ [i] | Err _ => ids end
      | _, _ => ids
      end
  | _ => ids_step ids h
  end.
Definition pair_step (p : list str * list str) (h : dstep) : list str * list str :=
  (strs_step (fst p) h, ids_step_d (fst p) (snd p) h).
(* does step h (possibly) change the object with handle j? *)
Definition edits (h : dstep) (j : nat) : bool :=
  match h with DEdit k _ | DSliceIn k _ _ => Nat.eqb k j | DAllEdit _ => true | _ => false end.

Definition edit_wf (e : edit) : bool :=
  match e with
  | ESet _ v | EIadd v | EData v => all_ascii v
  | ETrans m => forallb (fun p => is_ascii (fst p) && is_ascii (snd p)) m
  | EReplace a b _ => all_ascii a && all_ascii b
  | ECenter _ f | ELjust _ f | ERjust _ f => is_ascii (fill_of f)
  | EStrip cs | ELstrip cs | ERstrip cs => opt_okstr cs
  | ERemoveprefix p | ERemovesuffix p => all_ascii p
  | ETransMk x y z => all_ascii x && all_ascii y && all_ascii z
  | _ => true
  end.
(* edits that exist at basket level: seqs[:, ix] = v, seqs.str.<transforming method>, seqs.reverse() *)
Definition edit_basket_ok (e : edit) : bool := match e with EIadd _ | EData _ => false | _ => true end.
Definition query_wf (q : query) : bool :=
  match q with
  | QEq t | QCount t _ _ | QFind t _ _ | QRfind t _ _ | QIndex t _ _ | QRindex t _ _
  | QStartswith t _ _ | QEndswith t _ _ => all_ascii t
  | QSplit sep _ | QRsplit sep _ => opt_okstr sep
  | QStartswithAny ps _ _ | QEndswithAny ps _ _ => forallb all_ascii ps
  | _ => true
  end.
Definition dstep_wf (h : dstep) : bool :=
  match h with
  | DEdit _ e => edit_wf e
  | DAllEdit e => edit_wf e && edit_basket_ok e
  | DQuery _ q => query_wf q
  | DSlice _ gap _ | DSliceIn _ gap _ => opt_okstr gap
  | DAdd _ t | DRadd _ t => all_ascii t
  | _ => true
  end.

(* ---- seq['type']: FeatureList.get (sugar/core/fts.py:632-647) resolves the name, then the residues of that
   feature's location are selected (seq.py:451-460, _slice_locs with one forward location) ---- *)
Definition lower_eq (a b : str) : bool := str_eqb (py_lower a) (py_lower b).
Fixpoint ft_get (fts : list (option str * (Z * Z))) (name : str) : option (Z * Z) :=
  match fts with
  | [] => None
  | (None, _) :: r => ft_get r name                         (* if ft.type is None: continue *)
  | (Some t, loc) :: r => if lower_eq t name then Some loc else ft_get r name
  end.
Definition seq_getitem_type (gap : option str) (s : bioseq) (fts : list (option str * (Z * Z))) (name : str) : res bioseq :=
  match ft_get fts name with
  | None => Err ValueError                                  (* Feature of type ... not found *)
  | Some (a, b) => match seq_getitem gap s (ISlice (mkslice (Some a) (Some b) None)) with
                   | Ok r => Ok (new_seq (data r) (sid s))  (* BioSeq(''.join(sub_seqs), meta=self.meta.copy()) *)
                   | Err e => Err e
                   end
  end.
Definition ft_wf (f : option str * (Z * Z)) : bool :=
  (match fst f with None => true | Some t => all_ascii t end) && (0 <=? fst (snd f)) && (fst (snd f) <? snd (snd f)).

(* "gap-aware slicing selects the same residues as slicing the degapped string", as a proposition about one call *)
Definition gap_slice_same_residues (g : str) (s : bioseq) (sl : pyslice) : Prop :=
  exists r, seq_getitem (Some g) s (ISlice sl) = Ok r /\ pyget (degap g (data s)) (ISlice sl) = Ok (degap g (data r)).

(* bounds of gap-aware slices that stay clear of the clamp in adj (seq.py:479-480: max(i + len(nogaps), 0)) *)
Definition bound_ok (len : Z) (step : option Z) (o : option Z) : Prop :=
  match o with None => True | Some i => match step with None => True | Some k => 0 < k end \/ - len <= i end.
Definition rev_bound_ok (n : Z) (o : option Z) : Prop := match o with None => True | Some i => - n <= i end.

(* ---- harness ---- *)
Inductive op :=
| OLen (s : str)
| OEq (s t : str)
| OEqSeq (s sid t tid : str)
| OGet (raw : bool) (s : str) (gap : option str) (ixs : list index)
| OBox (s : str) (gap : option str) (starts stops steps : list (option Z))
| OAdd (s t : str) | ORadd (s t : str) | OIadd (s t : str)
| OSet (s : str) (ix : index) (v : str)
| OGc (s : str)
| OCount (b : list str)
| BGetI (b : list str) (i : Z)
| BGetSl (b : list str) (sl : pyslice)
| BGetIJ (b : list str) (gap : option str) (i : Z) (j : index)
| BGetSlJ (b : list str) (gap : option str) (sl : pyslice) (j : index)
| BSetI (b : list str) (i : Z) (v : str)
| BSetSl (b : list str) (sl : pyslice) (vs : list str)
| BSetSlJ (b : list str) (sl : pyslice) (j : index) (v : str)
| BSetIJ (b : list str) (i : Z) (j : index) (v : str)
| OEqVal (s : str) (o : val)
| BEqVal (b : list str) (o : val) (os : list val)
| OHist (s : str) (hs : list hstep)
| BHist (b : list str) (x : str) (hs : list bstep)
| OStore (ss : list str) (hs : list dstep)
| OFt (s : str) (gap : option str) (fts : list (option str * (Z * Z))) (name : str)
| BFt (b : list str) (gap : option str) (fts : list (option str * (Z * Z))) (name : str)
| OStrBox (d t : str) (bounds : list (option Z))
| OStrQ (d : str) (qs : list query) (es : list edit).

Definition ix_contig (ix : index) : bool := match ix with IInt _ => true | ISlice s => contiguous s end.
Definition step_contig (o : option Z) : bool := match o with None => true | Some k => k =? 1 end.
Definition opt_ascii (g : option str) : bool := match g with None => true | Some g => all_ascii g end.

(* Domain of the correspondence.  ASCII only (str.upper is modelled on ASCII).  Round 7: gap-aware subscripts with
   any step and slices of sequences that hold lower case are inside (modelled as the code is: columns between the
   adjusted bounds, result upper-cased by the constructor); + and right-+ only with an operand without lower-case
   letters; letter counts only for a non-empty basket. *)
Definition val_ascii (o : val) : bool := match o with VS t => all_ascii t | _ => true end.
Definition wf_C04 (o : op) : bool :=
  match o with
  | OLen s | OGc s => all_ascii s
  | OEq s t => all_ascii s && all_ascii t
  | OEqSeq s a t b => all_ascii s && all_ascii t
  | OGet raw s gap ixs =>
      all_ascii s && opt_ascii gap
  | OBox s gap _ _ steps =>
      all_ascii s && opt_ascii gap
  | OAdd s t | ORadd s t => all_ascii s && all_ascii t && no_lower t
  | OIadd s t => all_ascii s && all_ascii t
  | OSet s _ v => all_ascii s && all_ascii v
  | OCount b => forallb all_ascii b && negb (Nat.eqb (length b) 0)
  | BGetI b _ | BGetSl b _ => forallb all_ascii b
  | BGetIJ b gap _ j | BGetSlJ b gap _ j =>
      forallb all_ascii b && opt_ascii gap
  | BSetI b _ v => forallb all_ascii b && all_ascii v
  | BSetSl b _ vs => forallb all_ascii b && forallb all_ascii vs
  | BSetSlJ b _ _ v | BSetIJ b _ _ v => forallb all_ascii b && all_ascii v
  | OEqVal s o => all_ascii s && val_ascii o
  | BEqVal b o os => forallb all_ascii b && val_ascii o && forallb val_ascii os
  | OHist s hs => all_ascii s && forallb hstep_wf hs
  | BHist b x hs => forallb all_ascii b && all_ascii x && forallb bstep_wf hs
  | OStore ss hs => forallb all_ascii ss && forallb dstep_wf hs
  | OFt s gap fts name => all_ascii s && opt_ascii gap && forallb ft_wf fts && all_ascii name
  | BFt b gap fts name => forallb all_ascii b && opt_ascii gap && forallb ft_wf fts && all_ascii name
  | OStrBox d t _ => all_ascii d && all_ascii t
  | OStrQ d qs es => all_ascii d && forallb query_wf qs && forallb edit_wf es
  end.

Definition idx_id (k : nat) : str := "s"%byte :: dec_of_nat k.
(* the harness builds BioBasket([BioSeq(d, id='s<k>') ...]) *)
Definition mk_basket (l : list str) : basket :=
  map (fun p => new_seq (snd p) (idx_id (fst p))) (combine (seq 0 (length l)) l).
Definition mk (raw : bool) (s : str) : bioseq := if raw then mkseq s (bs "x"%bs) else new_seq s (bs "x"%bs).
Definition slices_of (a : option Z) (stops steps : list (option Z)) : list (list pyslice) :=
  map (fun b => map (fun c => mkslice a b c) steps) stops.

(* the harness builds [BioSeq(d, id='o<k>') ...] *)
Definition mk_store (l : list str) : store :=
  map (fun p => new_seq (snd p) ("o"%byte :: dec_of_nat (fst p))) (combine (seq 0 (length l)) l).

Definition run_op (o : op) : val :=
  match o with
  | OLen s => VI (seq_len (mk false s))
  | OEq s t => VB (seq_eq_str (mk false s) t)
  | OEqSeq s a t b => VB (seq_eq_seq (new_seq s a) (new_seq t b))
  | OGet raw s gap ixs => VL (map (fun ix => show_res show_seq (seq_getitem gap (mk raw s) ix)) ixs)
  | OBox s gap starts stops steps =>
      VL (map (fun a => VL (map (fun row => VL (map (fun sl => show_res show_data (seq_getitem gap (mk false s) (ISlice sl))) row))
                                (slices_of a stops steps))) starts)
  | OAdd s t => show_seq (seq_add (mk false s) t)
  | ORadd s t => show_seq (seq_radd (mk false s) t)
  | OIadd s t => show_seq (seq_iadd (mk false s) t)
  | OSet s ix v => show_res show_seq (seq_setitem (mk false s) ix v)
  | OGc s => show_gc (data (mk false s))
  | OCount b => show_res show_counter (countall (mk_basket b))
  | BGetI b i => show_res show_seq (basket_get_int (mk_basket b) i)
  | BGetSl b sl => show_res show_basket (basket_get_slice (mk_basket b) sl)
  | BGetIJ b gap i j => show_res show_seq (basket_get_ij gap (mk_basket b) i j)
  | BGetSlJ b gap sl j => show_res show_basket (basket_get_slj gap (mk_basket b) sl j)
  | BSetI b i v => show_res show_basket (basket_set_int (mk_basket b) i v)
  | BSetSl b sl vs => show_res show_basket (basket_set_slice (mk_basket b) sl vs)
  | BSetSlJ b sl j v => show_res show_basket (basket_set_slj (mk_basket b) sl j v)
  | BSetIJ b i j v => show_res show_basket (basket_set_ij (mk_basket b) i j v)
  | OEqVal s o => let e := seq_eq_val (mk false s) o in VL [VB e; VB (negb e); VB e]
  | BEqVal b o os =>
      let bb := mk_basket b in
      VL [VB (basket_contains bb o); VI (Z.of_nat (basket_count bb o));
          match basket_index bb o 0 with Some k => VI k | None => VE (bs "ValueError"%bs) end;
          VB (basket_eq_list bb os)]
  | OHist s hs => VL (hist_run (mk false s) hs)
  | BHist b x hs => VL (bhist_run (mk_basket b, mk false x) hs)
  | OStore ss hs => VL (store_run (mk_store ss) hs)
  | OFt s gap fts name => show_res show_seq (seq_getitem_type gap (mk false s) fts name)
  | BFt b gap fts name => show_res show_basket (mapM (fun x => seq_getitem_type gap x fts name) (mk_basket b))
  | OStrBox d t bounds =>
      (* seq.data = d; every (start, end) pair for the seven search methods of seq.str *)
      let s := mkseq d (bs "x"%bs) in
      VL (map (fun mk : str -> option Z -> option Z -> query =>
                 VL (map (fun a => VL (map (fun b => seq_query (mk t a b) s) bounds)) bounds))
              [QCount; QEndswith; QFind; QIndex; QRfind; QRindex; QStartswith])
  | OStrQ d qs es =>
      (* seq.data = d; every query, then every edit on a fresh such sequence *)
      let s := mkseq d (bs "x"%bs) in
      VL [VL (map (fun q => seq_query q s) qs); VL (map (fun e => show_res show_seq (seq_edit e s)) es)]
  end.

Definition run_C04 (o : op) : val := VL [VB (wf_C04 o); run_op o].

(* ---- exact rational readings of the float-valued results (the harness compares the integer pairs and
   recomputes the one IEEE division in the driver) ---- *)
From Coq Require QArith.
(* gc, seq.py:336-345: GC / (GC + AT) if GC + AT > 0 else 0 *)
Definition gc_fraction (s : str) : QArith_base.Q :=
  let g := gc_counts s in
  if Nat.eqb (snd g) 0 then QArith_base.Qmake 0 1 else QArith_base.Qmake (Z.of_nat (fst g)) (Pos.of_nat (snd g)).
(* countall(rtype='prob'), seq.py:929-931: {k: v / s for k, v in counter.items()} with s = counter.total() *)
Definition prob_of (k : counter) (c : byte) : QArith_base.Q :=
  QArith_base.Qmake (Z.of_nat (k c)) (Pos.of_nat (counter_total k)).
