(* C17: comparison of the output of the convert.py model (C17_Convert) with a regenerated table of gc.json
   (C17_Model.table: codons as base-15 numbers over G_gc_ids.letters). Boolean checks only, no proofs. *)
From Coq Require Import List ZArith NArith Bool.
From Coq.Strings Require Import Byte.
Import ListNotations.
From SV Require Import Text C17_Model C17_Convert G_gc_ids.
Open Scope N_scope.

Fixpoint index_b (b : byte) (l : str) (i : N) : option N :=
  match l with [] => None | x :: r => if byte_eqb b x then Some i else index_b b r (i + 1) end.
Definition codon_num (c : str) : option N :=
  match c with
  | [a; b; d] => match index_b a letters 0, index_b b letters 0, index_b d letters 0 with
                 | Some x, Some y, Some z => Some (225 * x + 15 * y + z)
                 | _, _, _ => None
                 end
  | _ => None
  end.
(* 3375 = "not a codon over the 15 letters": never equal to a codon number of a checked table (in_range) *)
Definition cnum (c : str) : N := match codon_num c with Some n => n | None => 3375 end.

Fixpoint listN_eqb (a b : list N) : bool :=
  match a, b with [], [] => true | x :: a', y :: b' => (x =? y) && listN_eqb a' b' | _, _ => false end.
Fixpoint nodupN (l : list N) : bool := match l with [] => true | x :: r => negb (memN x r) && nodupN r end.
(* equal as sets, same number of elements *)
Definition setN_eqb (a b : list N) : bool :=
  (length a =? length b)%nat && forallb (fun x => memN x b) a && forallb (fun x => memN x a) b.
Definition pair_eqb (x y : N * byte) : bool := (fst x =? fst y) && byte_eqb (snd x) (snd y).
Fixpoint tt_eqb (a b : list (N * byte)) : bool :=
  match a, b with [], [] => true | x :: a', y :: b' => pair_eqb x y && tt_eqb a' b' | _, _ => false end.
Definition tt_seteq (a b : list (N * byte)) : bool :=
  (length a =? length b)%nat && forallb (fun x => existsb (pair_eqb x) b) a && forallb (fun x => existsb (pair_eqb x) a) b.
Fixpoint ttinv_eqb (a b : list (byte * list N)) : bool :=
  match a, b with
  | [], [] => true
  | x :: a', y :: b' => byte_eqb (fst x) (fst y) && listN_eqb (snd x) (snd y) && ttinv_eqb a' b'
  | _, _ => false
  end.

(* the dict/list fields whose order is fixed by the script are compared in order; the three that are filled while
   iterating over the Python set all_codes (ambiguous part of tt, astarts, astops) as sets *)
Definition gc_json_eqb (g : gc) (t : table) (aa sc : str) : bool :=
  let mtt := map (fun ca : str * byte => (cnum (fst ca), snd ca)) (g_tt g) in
  (g_id g =? t_id t) && str_eqb (g_name g) (t_name t) && str_eqb (g_aa g) aa && str_eqb (g_sc g) sc
  && tt_eqb (firstn 64 mtt) (firstn 64 (t_tt t)) && tt_seteq (skipn 64 mtt) (skipn 64 (t_tt t))
  && ttinv_eqb (map (fun acs : byte * list str => (fst acs, map cnum (snd acs))) (g_ttinv g)) (t_ttinv t)
  && listN_eqb (map cnum (g_starts g)) (t_starts t) && listN_eqb (map cnum (g_stops g)) (t_stops t)
  && setN_eqb (map cnum (g_astarts g)) (t_astarts t) && setN_eqb (map cnum (g_astops g)) (t_astops t).

(* the pos-th generate_gc call of the script run on [text] has this table's id and produces this table *)
Definition conv_ok (codes : list (byte * str)) (text : str) (pos : nat) (t : table) (aa sc : str) : bool :=
  match emitted (lines_of text []) st0 with
  | inr es => match nth_error es pos with
              | Some en => (e_id en =? t_key t)
                           && match generate_gc codes en with inr g => gc_json_eqb g t aa sc | inl _ => false end
              | None => false
              end
  | inl _ => false
  end.
Definition emitted_ids_check (text : str) (ids : list N) : bool :=
  match emitted (lines_of text []) st0 with
  | inr es => listN_eqb (map e_id es) ids && nodupN ids
  | inl _ => false
  end.
