(* C16 model: collection operations of sugar (filter / sort / groupby / get / select / todict / set operators /
   attaching features to a basket).  Sources: sugar/core/cane.py:13-105, sugar/core/fts.py:358-373,466-505,632-699,
   778-830, sugar/core/seq.py:250-259,661-770,1006-1116.  No proofs here.
   Elements (Feature or BioSeq) are immutable values carrying the position [eidx] they had in the input, which is
   how the harness identifies objects (Python identity); [eidx] takes no part in element equality. *)
From Coq Require Import List ZArith NArith Bool.
From Coq.Strings Require Import Byte.
Import ListNotations.
From SV Require Import Text G_c16 G_c16_ops C16_StableSort.

(* ---------------------------------------------------------------- metadata values *)
(* a metadata value: None, an int or a str (Latin-1) *)
Inductive pv := PNone | PInt (z : Z) | PStr (s : str).
(* value of a filter condition: a scalar or a list/tuple of scalars *)
Inductive fval := FV (v : pv) | FL (l : list pv).

(* Python ==  on None/int/str *)
Definition pv_eqb (a b : pv) : bool :=
  match a, b with
  | PNone, PNone => true
  | PInt x, PInt y => Z.eqb x y
  | PStr x, PStr y => str_eqb x y
  | _, _ => false
  end.
Definition bz (c : byte) : Z := Z.of_N (Byte.to_N c).
(* str < str : lexicographic by code point *)
Fixpoint str_ltb (a b : str) : bool :=
  match a, b with
  | _, [] => false
  | [], _ :: _ => true
  | x :: a', y :: b' => if Z.ltb (bz x) (bz y) then true else if Z.ltb (bz y) (bz x) then false else str_ltb a' b'
  end.
(* Python <  where it is defined (int/int, str/str); extended to a total strict order None < int < str elsewhere.
   The extension is never observed inside wf_C16 (Python raises TypeError there). *)
Definition pv_ltb (a b : pv) : bool :=
  match a, b with
  | PNone, PNone => false
  | PNone, _ => true
  | PInt _, PNone => false
  | PInt x, PInt y => Z.ltb x y
  | PInt _, PStr _ => true
  | PStr x, PStr y => str_ltb x y
  | PStr _, _ => false
  end.
Definition is_int (v : pv) := match v with PInt _ => true | _ => false end.
Definition is_pstr (v : pv) := match v with PStr _ => true | _ => false end.
(* values on which Python's < never raises: all int or all str *)
Definition comparable (l : list pv) : bool := forallb is_int l || forallb is_pstr l.
(* ... or all equal (Feature.__lt__ compares seqids with != first, fts.py:366-367) *)
Definition all_eq (l : list pv) : bool := match l with [] => true | a :: r => forallb (pv_eqb a) r end.

(* str.lower() on Latin-1 code points *)
Definition lower1 (c : byte) : byte :=
  let n := Byte.to_N c in
  if ((65 <=? n) && (n <=? 90) || (192 <=? n) && (n <=? 222) && negb (n =? 215))%N
  then match Byte.of_N (n + 32) with Some b => b | None => c end else c.
Definition lower (s : str) : str := map lower1 s.
Fixpoint is_prefix (a b : str) : bool :=
  match a, b with
  | [], _ => true
  | x :: a', y :: b' => byte_eqb x y && is_prefix a' b'
  | _ :: _, [] => false
  end.
(* a in b for two str *)
Fixpoint is_infix (a b : str) : bool :=
  is_prefix a b || match b with [] => false | _ :: b' => is_infix a b' end.

(* ---------------------------------------------------------------- elements *)
(* elocs: the (start, stop) pairs in the order LocationTuple stores them; eminus: all locations on the '-' strand *)
Record elem := mkE { eidx : nat; efeat : bool; edata : str; elocs : list (Z * Z); emeta : list (str * pv); eminus : bool }.
(* short constructors for the case files *)
Definition kv (k : str) (v : pv) : str * pv := (k, v).
Definition Ft (i : nat) (locs : list (Z * Z)) (m : list (str * pv)) : elem := mkE i true [] locs m false.
Definition Fm (i : nat) (locs : list (Z * Z)) (m : list (str * pv)) : elem := mkE i true [] locs m true.
Definition Sq (i : nat) (d : str) (m : list (str * pv)) : elem := mkE i false d [] m false.

Fixpoint assoc {V} (k : str) (m : list (str * V)) : option V :=
  match m with
  | [] => None
  | (a, v) :: r => if str_eqb a k then Some v else assoc k r
  end.
(* getattr(obj.meta, key, None) / meta.get(key), cane.py:20-21,96-97; fts.py:303,311,319,327 *)
Definition mget (k : str) (x : elem) : pv := match assoc k (emeta x) with Some v => v | None => PNone end.
Definition k_type : str := bs "type"%bs.
Definition k_id : str := bs "id"%bs.
Definition k_seqid : str := bs "seqid"%bs.
Definition k_len : str := bs "len"%bs.

(* LocationTuple.range, fts.py:201-211; Feature.__len__ fts.py:373-375; BioSeq.__len__ seq.py:261 *)
Definition rng (x : elem) : Z * Z :=
  match elocs x with
  | [] => (0, 0)%Z
  | (a, b) :: r => (fold_left Z.min (map fst r) a, fold_left Z.max (map snd r) b)
  end.
Definition elen (x : elem) : Z :=
  if efeat x then (snd (rng x) - fst (rng x))%Z else Z.of_nat (length (edata x)).

(* dict equality of two metas (Mapping.__eq__): same size, every key of a bound in b to an equal value *)
Definition meta_eqb (a b : list (str * pv)) : bool :=
  Nat.eqb (length a) (length b) &&
  forallb (fun kvp => match assoc (fst kvp) b with Some v => pv_eqb (snd kvp) v | None => false end) a.
Fixpoint locs_eqb (a b : list (Z * Z)) : bool :=
  match a, b with
  | [], [] => true
  | (s, e) :: a', (s', e') :: b' => Z.eqb s s' && Z.eqb e e' && locs_eqb a' b'
  | _, _ => false
  end.
(* Feature.__eq__ fts.py:358-363 (type is part of meta); BioSeq.__eq__ seq.py:250-253 *)
Definition elem_eqb (x y : elem) : bool :=
  Bool.eqb (efeat x) (efeat y) && str_eqb (edata x) (edata y) && locs_eqb (elocs x) (elocs y)
  && meta_eqb (emeta x) (emeta y) && Bool.eqb (eminus x) (eminus y).      (* Location.__eq__ compares the strand, fts.py:96-104 *)
(* x in l  (list.__contains__ : identity or ==) *)
Definition mem (x : elem) (l : list elem) : bool := existsb (elem_eqb x) l.

(* LocationTuple.__lt__ fts.py:213-217 *)
Definition rng_ltb (x y : elem) : bool :=
  let (s, e) := rng x in let (s2, e2) := rng y in Z.ltb s s2 || (Z.eqb s s2 && Z.ltb e e2).
(* meta.get('id', '') seq.py:257 *)
Definition id_or_empty (x : elem) : pv := match assoc k_id (emeta x) with Some v => v | None => PStr [] end.
(* Feature.__lt__ fts.py:365-369 ; BioSeq.__lt__ seq.py:255-257 *)
Definition elem_ltb (x y : elem) : bool :=
  match efeat x, efeat y with
  | true, true =>
      if negb (pv_eqb (mget k_seqid x) (mget k_seqid y)) then pv_ltb (mget k_seqid x) (mget k_seqid y)
      else rng_ltb x y
  | false, false => pv_ltb (id_or_empty x) (id_or_empty y)
  | false, true => true       (* Python raises TypeError between a BioSeq and a Feature; outside wf_C16 (elems_ok) *)
  | true, false => false
  end.

(* ---------------------------------------------------------------- keys (cane.py:13-25) *)
(* 'name' | len | None | callables handed in by the caller (any callable is accepted, cane.py:19-23); the harness uses this
   closed family: lambda o: -len(o) | lambda o: 0 | lambda o: o.meta.get(k).lower() | lambda o: o.meta.get(k, v) *)
Inductive key := KMeta (k : str) | KLen | KDefault | KNegLen | KConst | KLowerMeta (k : str) | KMetaOr (k : str) (v : pv)
  | KLoc | KLocs.     (* lambda ft: ft.loc | lambda ft: ft.locs : Location / LocationTuple objects as group keys (groupby only) *)
Inductive keyspec := KsStr (s : str) | KsOne (k : key) | KsTuple (l : list key).
Definition is_ws (c : byte) : bool :=
  match c with x20 | x09 | x0a | x0b | x0c | x0d | x1c | x1d | x1e | x1f | x85 | xa0 => true | _ => false end.
(* str.split() *)
Fixpoint split_ws_aux (s : str) (cur : str) : list str :=
  match s with
  | [] => match cur with [] => [] | _ => [rev cur] end
  | c :: r => if is_ws c then match cur with [] => split_ws_aux r [] | _ => rev cur :: split_ws_aux r [] end
              else split_ws_aux r (c :: cur)
  end.
Definition split_ws (s : str) : list str := split_ws_aux s [].
Definition keyfuncs (ks : keyspec) : list key :=
  match ks with
  | KsStr s => map KMeta (split_ws s)
  | KsOne k => [k]
  | KsTuple l => l
  end.
(* Location.__eq__ / __hash__ (fts.py:99-110) identify a location by start, stop, strand (defect and location metadata are
   the defaults on every element of the model); the harness renders such a key as text: strand, then start:stop joined by ',' *)
Definition enc_loc (l : Z * Z) : str := dec_of_Z (fst l) ++ ":"%byte :: dec_of_Z (snd l).
Fixpoint enc_locs (l : list (Z * Z)) : str :=
  match l with
  | [] => []
  | [a] => enc_loc a
  | a :: r => enc_loc a ++ ","%byte :: enc_locs r
  end.
Definition strand_ch (x : elem) : byte := if eminus x then "-"%byte else "+"%byte.
Definition keyval (k : key) (x : elem) : pv :=
  match k with
  | KMeta s => mget s x
  | KLen => PInt (elen x)
  | KDefault => PNone
  | KNegLen => PInt (- elen x)
  | KConst => PInt 0
  | KLowerMeta s => match mget s x with PStr t => PStr (lower t) | v => v end     (* non-str: AttributeError, outside key_dom *)
  | KMetaOr s v => match assoc s (emeta x) with Some w => w | None => v end
  | KLoc => PStr (strand_ch x :: match elocs x with a :: _ => enc_loc a | [] => [] end)
  | KLocs => PStr (strand_ch x :: enc_locs (elocs x))
  end.

(* ---------------------------------------------------------------- _sorted (cane.py:48-64) *)
(* the order sorted(key=k) sorts by: x goes before y unless key(y) < key(x) *)
Definition key_le (k : key) (x y : elem) : bool :=
  match k with
  | KDefault => negb (elem_ltb y x)
  | _ => negb (pv_ltb (keyval k y) (keyval k x))
  end.
Definition dir (reverse : bool) (le : elem -> elem -> bool) : elem -> elem -> bool :=
  if reverse then flip_le le else le.
(* sorted(objs, key=k, reverse=r): stable; with reverse, descending and still stable *)
Definition py_sorted (reverse : bool) (k : key) (objs : list elem) : list elem := isort (dir reverse (key_le k)) objs.
(* for keyfunc in keyfuncs[::-1]: objs = sorted(objs, key=keyfunc, reverse=reverse) *)
Definition sorted_by (kfs : list key) (reverse : bool) (objs : list elem) : list elem :=
  fold_left (fun o k => py_sorted reverse k o) (rev kfs) objs.
Definition m_sort (ks : keyspec) (reverse : bool) (objs : list elem) : list elem :=
  sorted_by (keyfuncs ks) reverse objs.

(* ---------------------------------------------------------------- _filter (cane.py:67-105) *)
Inductive res (A : Type) := Ok (a : A) | Err (e : str).
Arguments Ok {A} a. Arguments Err {A} e.
Definition eTypeError : str := bs "TypeError"%bs.
Definition eAttributeError : str := bs "AttributeError"%bs.
Definition eValueError : str := bs "ValueError"%bs.
Definition eIndexError : str := bs "IndexError"%bs.

(* kw.rsplit('_', 1): (text before the last '_', text after it); None when there is no '_' *)
Fixpoint rsplit_us (s : str) : option (str * str) :=
  match s with
  | [] => None
  | c :: r =>
      match rsplit_us r with
      | Some (a, b) => Some (c :: a, b)
      | None => if byte_eqb c "_"%byte then Some ([], r) else None
      end
  end.
Inductive fop := OLt | OLe | OEq | ONe | OGe | OGt | OIn | OLowerin | OLowereq | OContains.
(* the operator table: regenerated on every run by probing cane._filter with every documented operator name
   (tools/gens/c16.py -> gen/G_c16_ops.v gives name -> number of the semantics it shows); C16_op_table_documented pins it *)
Definition fop_of_code (n : N) : option fop :=
  match n with
  | 0 => Some OLt | 1 => Some OLe | 2 => Some OEq | 3 => Some ONe | 4 => Some OGe | 5 => Some OGt
  | 6 => Some OIn | 7 => Some OLowerin | 8 => Some OLowereq | 9 => Some OContains | _ => None
  end%N.
Definition op_table : list (str * fop) :=
  flat_map (fun p => match fop_of_code (snd p) with Some o => [(fst p, o)] | None => [] end) filter_op_codes.
Definition op_table_documented : list (str * fop) :=
  [ (bs "max"%bs, OLe); (bs "min"%bs, OGe); (bs "in"%bs, OIn); (bs "lowerin"%bs, OLowerin); (bs "lowereq"%bs, OLowereq);
    (bs "lt"%bs, OLt); (bs "le"%bs, OLe); (bs "eq"%bs, OEq); (bs "ne"%bs, ONe); (bs "ge"%bs, OGe); (bs "gt"%bs, OGt);
    (bs "contains"%bs, OContains) ].
(* ordering comparisons raise TypeError unless int/int or str/str *)
Definition cmp_op (f : bool -> bool -> bool) (a : pv) (v : fval) : res bool :=
  match v with
  | FV b => if (is_int a && is_int b) || (is_pstr a && is_pstr b) then Ok (f (pv_ltb a b) (pv_eqb a b)) else Err eTypeError
  | FL _ => Err eTypeError
  end.
Definition eq_op (a : pv) (v : fval) : bool := match v with FV b => pv_eqb a b | FL _ => false end.
(* a in v *)
Definition in_op (a : pv) (v : fval) : res bool :=
  match v with
  | FL l => Ok (existsb (pv_eqb a) l)
  | FV (PStr s) => match a with PStr t => Ok (is_infix t s) | _ => Err eTypeError end
  | FV _ => Err eTypeError
  end.
Definition apply_op (o : fop) (a : pv) (v : fval) : res bool :=
  match o with
  | OLt => cmp_op (fun lt eq => lt) a v
  | OLe => cmp_op (fun lt eq => lt || eq) a v
  | OGt => cmp_op (fun lt eq => negb (lt || eq)) a v
  | OGe => cmp_op (fun lt eq => negb lt) a v
  | OEq => Ok (eq_op a v)
  | ONe => Ok (negb (eq_op a v))
  | OIn => in_op a v
  | OLowerin => match a with PStr t => in_op (PStr (lower t)) v | _ => Err eAttributeError end
  | OLowereq => match a with PStr t => Ok (eq_op (PStr (lower t)) v) | _ => Err eAttributeError end
  | OContains => match a with
                 | PStr s => match v with FV (PStr t) => Ok (is_infix t s) | _ => Err eTypeError end
                 | _ => Err eTypeError
                 end
  end.
(* getv, cane.py:95-97 *)
Definition getv (key : str) (x : elem) : pv := if str_eqb key k_len then PInt (elen x) else mget key x.
Fixpoint filter_m (f : elem -> res bool) (l : list elem) : res (list elem) :=
  match l with
  | [] => Ok []
  | x :: r => match f x with
              | Err e => Err e
              | Ok b => match filter_m f r with
                        | Err e => Err e
                        | Ok r' => Ok (if b then x :: r' else r')
                        end
              end
  end.
Definition cond := (str * fval)%type.
Definition parse_cond (c : cond) : res (str * fop) :=
  match rsplit_us (fst c) with
  | None => Err eValueError
  | Some (key, kop) => match assoc kop op_table with Some o => Ok (key, o) | None => Err eAttributeError end
  end.
Definition cond_eval (c : cond) (x : elem) : res bool :=
  match parse_cond c with
  | Ok (key, o) => apply_op o (getv key x) (snd c)
  | Err e => Err e
  end.
(* for kw, value in kwargs.items(): objs = [obj for obj in objs if filt(obj)] *)
Fixpoint m_filter (conds : list cond) (objs : list elem) : res (list elem) :=
  match conds with
  | [] => Ok objs
  | c :: r => match parse_cond c with
              | Err e => Err e
              | Ok _ => match filter_m (cond_eval c) objs with
                        | Err e => Err e
                        | Ok l => m_filter r l
                        end
              end
  end.
(* FeatureList.filter / BioBasket.filter (fts.py:804-830, seq.py:1090-1116): (returned list, receiver afterwards) *)
Definition m_filter_method (inplace : bool) (conds : list cond) (objs : list elem) : res (list elem * list elem) :=
  match m_filter conds objs with
  | Err e => Err e
  | Ok l => Ok (l, if inplace then l else objs)
  end.

(* ---------------------------------------------------------------- _groupby (cane.py:28-45) *)
Inductive gtree := GLeaf (l : list elem) | GNode (kids : list (pv * gtree)).
Definition gempty (ks : list pv) : gtree := match ks with [] => GLeaf [] | _ => GNode [] end.
(* d.setdefault(k, mk) then apply f to the entry *)
Fixpoint upd_kids (f : gtree -> gtree) (mk : gtree) (k : pv) (kids : list (pv * gtree)) : list (pv * gtree) :=
  match kids with
  | [] => [(k, f mk)]
  | (k', t) :: r => if pv_eqb k' k then (k', f t) :: r else (k', t) :: upd_kids f mk k r
  end.
Fixpoint ginsert (ks : list pv) (x : elem) (t : gtree) : gtree :=
  match ks with
  | [] => match t with GLeaf l => GLeaf (l ++ [x]) | GNode _ => t end
  | k :: ks' => match t with
                | GNode kids => GNode (upd_kids (ginsert ks' x) (gempty ks') k kids)
                | GLeaf _ => t
                end
  end.
Definition keypath (kfs : list key) (x : elem) : list pv := map (fun k => keyval k x) kfs.
Definition group_by (kfs : list key) (objs : list elem) : gtree :=
  fold_left (fun t x => ginsert (keypath kfs x) x t) objs (GNode []).
Definition has_default (kfs : list key) : bool := existsb (fun k => match k with KDefault => true | _ => false end) kfs.
Definition m_groupby (ks : keyspec) (objs : list elem) : res gtree :=
  let kfs := keyfuncs ks in
  match objs with
  | [] => Ok (GNode [])
  | _ => match kfs with
         | [] => Err eIndexError                                  (* keyfuncs[-1] *)
         | _ => if has_default kfs then Err eTypeError            (* None(obj) *)
                else Ok (group_by kfs objs)
         end
  end.
Fixpoint pv_assoc {V} (k : pv) (m : list (pv * V)) : option V :=
  match m with
  | [] => None
  | (a, v) :: r => if pv_eqb a k then Some v else pv_assoc k r
  end.
(* the group stored under a key path *)
Fixpoint glookup (p : list pv) (t : gtree) : list elem :=
  match p, t with
  | [], GLeaf l => l
  | k :: p', GNode kids => match pv_assoc k kids with Some t' => glookup p' t' | None => [] end
  | _, _ => []
  end.

(* ---------------------------------------------------------------- get / select / todict (fts.py:632-673; seq.py:1006-1016) *)
Inductive targ := TOne (s : str) | TMany (l : list str).
Definition type_matches (t : targ) (x : elem) : res bool :=
  match mget k_type x with
  | PNone => Ok false                                               (* if ft.type is None: continue *)
  | PStr s => match t with
              | TOne u => Ok (str_eqb (lower s) (lower u))
              | TMany l => Ok (existsb (str_eqb (lower s)) (map lower l))
              end
  | PInt _ => Err eAttributeError                                   (* int has no .lower() *)
  end.
Definition m_select (t : targ) (fts : list elem) : res (list elem) := filter_m (type_matches t) fts.
(* get returns at the first match: errors behind it are never reached *)
Fixpoint m_get (t : targ) (fts : list elem) : res (option elem) :=
  match fts with
  | [] => Ok None
  | x :: r => match type_matches t x with
              | Err e => Err e
              | Ok true => Ok (Some x)
              | Ok false => m_get t r
              end
  end.
Fixpoint dict_set {V} (k : pv) (v : V) (d : list (pv * V)) : list (pv * V) :=
  match d with
  | [] => [(k, v)]
  | (a, w) :: r => if pv_eqb a k then (a, v) :: r else (a, w) :: dict_set k v r
  end.
(* {x.id: x for x in self} *)
Definition m_todict (objs : list elem) : list (pv * elem) :=
  fold_left (fun d x => dict_set (mget k_id x) x d) objs [].

(* ---------------------------------------------------------------- set operators (fts.py:466-505, seq.py:666-705) *)
Definition op_and (a b : list elem) : list elem := filter (fun x => mem x b) a.
Definition op_or (a b : list elem) : list elem := a ++ filter (fun x => negb (mem x a)) b.
Definition op_sub (a b : list elem) : list elem := filter (fun x => negb (mem x b)) a.
Definition op_xor (a b : list elem) : list elem := op_sub (op_or a b) (op_and a b).
(* [a] is the left operand of the Python expression, [b] the right one.
   0-3: a & b, a | b, a - b, a ^ b with a a collection;  4-7: the same expressions with a a plain list, which
   dispatches to b.__rand__(a) = b & a, b.__ror__(a) = b | a, b.__rsub__(a) = cls(a) - b, b.__rxor__(a) = b ^ a;
   8-11: a &= b, a |= b, a -= b, a ^= b (the receiver's new content). *)
Definition m_setop (code : N) (a b : list elem) : list elem :=
  match code with
  | 0 | 8 => op_and a b
  | 1 | 9 => op_or a b
  | 2 | 10 => op_sub a b
  | 3 | 11 => op_xor a b
  | 4 => op_and b a
  | 5 => op_or b a
  | 6 => op_sub a b
  | _ => op_xor b a
  end%N.

(* ---------------------------------------------------------------- basket.fts = fs / basket.add_fts(fs) (seq.py:743-770) *)
(* FeatureList(value).groupby('seqid') as an insertion-ordered dict *)
Fixpoint dict_append (k : pv) (x : elem) (d : list (pv * list elem)) : list (pv * list elem) :=
  match d with
  | [] => [(k, [x])]
  | (a, l) :: r => if pv_eqb a k then (a, l ++ [x]) :: r else (a, l) :: dict_append k x r
  end.
Definition group1 (fs : list elem) : list (pv * list elem) :=
  fold_left (fun d x => dict_append (mget k_seqid x) x d) fs [].
Fixpoint dict_pop {V} (k : pv) (d : list (pv * V)) : list (pv * V) :=
  match d with
  | [] => []
  | (a, v) :: r => if pv_eqb a k then r else (a, v) :: dict_pop k r
  end.
(* FeatureList.sort() with default keys on a sequence's features (seq.py:766) *)
Definition default_sort (fs : list elem) : list elem := m_sort (KsOne KDefault) false fs.
(* for seq in self: if seq.id in fts: seq.fts = [seq.fts +] fts.pop(seq.id) [; seq.fts.sort()] *)
Fixpoint attach_loop (f : list elem -> list elem -> list elem) (u : list elem -> list elem)
  (seqs : list (pv * list elem)) (d : list (pv * list elem)) : list (list elem) * list (pv * list elem) :=
  match seqs with
  | [] => ([], d)
  | (sid, old) :: r =>
      match pv_assoc sid d with
      | Some g => let (rs, d') := attach_loop f u r (dict_pop sid d) in (f old g :: rs, d')
      | None => let (rs, d') := attach_loop f u r d in (u old :: rs, d')
      end
  end.
Definition attach_new (add : bool) (old g : list elem) : list elem := if add then default_sort (old ++ g) else g.
(* leftover groups only feed a warning: ', '.join(str(k) for k in fts.keys()) never raises (seq.py:749-752,767-770),
   so features whose seqid matches no sequence (in particular features without a seqid) simply stay unattached *)
Definition m_attach (add : bool) (seqs : list (pv * list elem)) (fs : list elem) : list (list elem) :=
  fst (attach_loop (attach_new add) (fun old => old) seqs (group1 fs)).

(* BioBasket.fts (getter, seq.py:741-749): the features of all sequences, sequence after sequence *)
Definition m_basket_fts (ls : list (list elem)) : list elem := concat ls.
(* BioSeq.add_fts (seq.py:332-341): self.fts = self.fts + FeatureList(fts); self.fts.sort() - every given feature, whatever its seqid *)
Definition m_seq_add_fts (old fs : list elem) : list elem := default_sort (old ++ fs).

(* ---------------------------------------------------------------- domain *)
(* names that getattr(meta, name, None) resolves to methods of Attr/Meta/MutableMapping instead of None (open finding
   F20 region: instance __dict__ storage shadows mapping methods, meta.py:46-57) *)
Definition reserved_names : list str := meta_reserved_names.       (* regenerated from dir(Meta): gen/G_c16.v *)
Definition starts_us (s : str) : bool := match s with c :: _ => byte_eqb c "_"%byte | [] => true end.
Definition key_name_ok (s : str) : bool := negb (starts_us s) && negb (existsb (str_eqb s) reserved_names).
Fixpoint nodup_keys {V} (m : list (str * V)) : bool :=
  match m with
  | [] => true
  | (k, _) :: r => match assoc k r with Some _ => false | None => nodup_keys r end
  end.
Definition loc_ok (l : Z * Z) : bool := Z.ltb (fst l) (snd l).
(* '-' strand: LocationTuple.__new__ stores the locations by descending stop (fts.py:190-191) *)
Fixpoint locs_sorted_minus (l : list (Z * Z)) : bool :=
  match l with
  | a :: ((b :: _) as r) => Z.leb (snd b) (snd a) && locs_sorted_minus r
  | _ => true
  end.
Fixpoint locs_sorted (l : list (Z * Z)) : bool :=
  match l with
  | a :: ((b :: _) as r) => Z.leb (fst a) (fst b) && locs_sorted r
  | _ => true
  end.
(* a well-formed element: meta is a dict with non-reserved keys; a feature has >= 1 location start < stop, listed in
   start order (LocationTuple.__new__ sorts them, C08), no residue data; a sequence has an id entry and no locations *)
Definition elem_ok (feat : bool) (x : elem) : bool :=
  Bool.eqb (efeat x) feat && nodup_keys (emeta x) && forallb (fun kvp => key_name_ok (fst kvp)) (emeta x) &&
  (if feat then match elocs x with [] => false | _ => true end && forallb loc_ok (elocs x)
                && (if eminus x then locs_sorted_minus (elocs x) else locs_sorted (elocs x))
                && match edata x with [] => true | _ => false end
   else match elocs x with [] => true | _ => false end && negb (eminus x)
        && match assoc k_id (emeta x) with Some _ => true | None => false end).
Definition kind_of (l : list elem) : bool := match l with x :: _ => efeat x | [] => true end.
Definition elems_ok (l : list elem) : bool := forallb (elem_ok (kind_of l)) l.
Definition key_ok (k : key) : bool :=
  match k with KMeta s | KLowerMeta s | KMetaOr s _ => key_name_ok s | _ => true end.
(* the callable lambda o: o.meta.get(k).lower() raises AttributeError on a value that is no str; sorted() and _groupby call
   the key function on every element, also of a one-element collection *)
Definition key_dom (objs : list elem) (k : key) : bool :=
  match k with
  | KLowerMeta s => forallb (fun x => is_pstr (mget s x)) objs
  | KLoc | KLocs => forallb efeat objs                 (* a BioSeq has no .loc: AttributeError *)
  | _ => true
  end.
Definition is_lockey (k : key) : bool := match k with KLoc | KLocs => true | _ => false end.
(* sort key whose values Python can order: all int or all str; default key: Feature.__lt__ / BioSeq.__lt__ *)
Definition sort_key_ok (objs : list elem) (k : key) : bool :=
  key_ok k && key_dom objs k && negb (is_lockey k) && (Nat.leb (length objs) 1 ||
  match k with
  | KDefault => if kind_of objs then comparable (map (mget k_seqid) objs) || all_eq (map (mget k_seqid) objs)
                else comparable (map id_or_empty objs)
  | _ => comparable (map (keyval k) objs)
  end).
Definition is_ok {A} (r : res A) : bool := match r with Ok _ => true | Err _ => false end.
Definition cond_ok (objs : list elem) (c : cond) : bool :=
  match parse_cond c with
  | Ok (key, _) => key_name_ok key && forallb (fun x => is_ok (cond_eval c x)) objs
  | Err _ => false
  end.
Definition type_ok (x : elem) : bool := negb (is_int (mget k_type x)).

Inductive req :=
| RFilter (inplace : bool) (objs : list elem) (conds : list cond)
| RSort (objs : list elem) (ks : keyspec) (reverse : bool)
| RGroup (objs : list elem) (ks : keyspec)
| RSelect (fts : list elem) (t : targ)
| RGet (fts : list elem) (t : targ)
| RTodict (objs : list elem)
| RSetop (code : N) (a b : list elem)
| RAttach (add : bool) (seqs : list (pv * list elem)) (fs : list elem).

Definition attach_ok (add : bool) (seqs : list (pv * list elem)) (fs : list elem) : bool :=
  forallb (elem_ok true) fs && forallb (fun s => forallb (elem_ok true) (snd s)) seqs &&
  (* add_fts re-sorts with Feature.__lt__: the seqids of the features of every sequence that receives some must be orderable *)
  (negb add || forallb (fun fl => Nat.leb (length fl) 1 || comparable (map (mget k_seqid) fl) || all_eq (map (mget k_seqid) fl))
                 (fst (attach_loop (fun old g => old ++ g) (fun _ => []) seqs (group1 fs)))).

Definition wf_C16 (r : req) : bool :=
  match r with
  | RFilter _ objs conds => elems_ok objs && nodup_keys conds && forallb (cond_ok objs) conds
  | RSort objs ks _ => elems_ok objs && forallb (sort_key_ok objs) (keyfuncs ks)
  | RGroup objs ks => elems_ok objs && forallb key_ok (keyfuncs ks) && forallb (key_dom objs) (keyfuncs ks)
                      && is_ok (m_groupby ks objs)
  | RSelect fts _ | RGet fts _ => forallb (elem_ok true) fts && forallb type_ok fts
  | RTodict objs => elems_ok objs
  | RSetop code a b => elems_ok (a ++ b) && N.ltb code 12
  | RAttach add seqs fs => attach_ok add seqs fs
  end.

(* ---------------------------------------------------------------- harness entry point *)
Definition vpv (v : pv) : val := match v with PNone => VNone | PInt z => VI z | PStr s => VS s end.
Definition vidx (l : list elem) : val := VL (map (fun x => VI (Z.of_nat (eidx x))) l).
Fixpoint vtree (t : gtree) : val :=
  match t with
  | GLeaf l => vidx l
  | GNode kids => VL (map (fun kt => VL [vpv (fst kt); vtree (snd kt)]) kids)
  end.
Definition vres {A} (f : A -> val) (r : res A) : val := match r with Ok a => f a | Err e => VE e end.
Definition result (r : req) : val :=
  match r with
  | RFilter inplace objs conds => vres (fun p => VL [vidx (fst p); vidx (snd p)]) (m_filter_method inplace conds objs)
  | RSort objs ks reverse => vidx (m_sort ks reverse objs)
  | RGroup objs ks => vres vtree (m_groupby ks objs)
  | RSelect fts t => vres vidx (m_select t fts)
  | RGet fts t => vres (VOpt (fun x => VI (Z.of_nat (eidx x)))) (m_get t fts)
  | RTodict objs => VL (map (fun kx => VL [vpv (fst kx); VI (Z.of_nat (eidx (snd kx)))]) (m_todict objs))
  | RSetop code a b => vidx (m_setop code a b)
  | RAttach add seqs fs => VL (map vidx (m_attach add seqs fs))
  end.
Definition run_C16 (r : req) : val := VL [VB (wf_C16 r); result r].

(* ---------------------------------------------------------------- histories (state-independence stream) *)
(* Several calls on ONE collection object.  The model is pure: the expected outcome of a step is the model applied to the
   CURRENT value; only in-place steps change it.  The driver additionally mutates every not-in-place result and checks
   that neither the receiver, nor the other operand, nor earlier results change. *)
Inductive hstep :=
| HFilter (inplace : bool) (conds : list cond)
| HSort (ks : keyspec) (reverse : bool)
| HGroup (ks : keyspec)
| HSelect (t : targ)
| HGet (t : targ)
| HTodict
| HSetop (code : N) (b : list elem)         (* codes 4-7: b is the plain-list LEFT operand, the collection the right one *)
| HReverse                                   (* cur.data.reverse() *)
| HSetItem (j i : nat)                       (* cur.data[j] = cur.data[i] : the same object twice in the collection *)
| HSetMeta (j : nat) (k : str) (v : pv)
| HTouch.                                    (* read-only use of the collection: str(), reading location metadata *)     (* cur.data[j].meta[k] = v *)
Definition step_req (s : hstep) (cur : list elem) : option req :=
  match s with
  | HFilter inplace conds => Some (RFilter inplace cur conds)
  | HSort ks r => Some (RSort cur ks r)
  | HGroup ks => Some (RGroup cur ks)
  | HSelect t => Some (RSelect cur t)
  | HGet t => Some (RGet cur t)
  | HTodict => Some (RTodict cur)
  | HSetop code b => Some (if (N.leb 4 code && N.ltb code 8)%bool then RSetop code b cur else RSetop code cur b)
  | _ => None
  end.
Fixpoint set_nth {A} (j : nat) (x : A) (l : list A) : list A :=
  match l, j with
  | [], _ => []
  | _ :: r, O => x :: r
  | y :: r, S j' => y :: set_nth j' x r
  end.
Fixpoint meta_set (k : str) (v : pv) (m : list (str * pv)) : list (str * pv) :=
  match m with
  | [] => [(k, v)]
  | (a, w) :: r => if str_eqb a k then (a, v) :: r else (a, w) :: meta_set k v r
  end.
Definition with_meta (x : elem) (m : list (str * pv)) : elem := mkE (eidx x) (efeat x) (edata x) (elocs x) m (eminus x).
(* an edit of one object is seen through every position holding that object (same eidx) *)
Definition edit_meta (i : nat) (k : str) (v : pv) (l : list elem) : list elem :=
  map (fun x => if Nat.eqb (eidx x) i then with_meta x (meta_set k v (emeta x)) else x) l.
Definition step_next (s : hstep) (cur : list elem) : list elem :=
  match s with
  | HFilter true conds => match m_filter conds cur with Ok l => l | Err _ => cur end
  | HSort ks r => m_sort ks r cur
  | HSetop code b => if N.leb 8 code then m_setop code cur b else cur
  | HReverse => rev cur
  | HSetItem j i => match nth_error cur i with Some x => set_nth j x cur | None => cur end
  | HSetMeta j k v => match nth_error cur j with Some x => edit_meta (eidx x) k v cur | None => cur end
  | _ => cur
  end.
Definition step_wf (s : hstep) (cur : list elem) : bool :=
  match step_req s cur with
  | Some r => wf_C16 r
  | None => match s with
            | HSetItem j i => Nat.ltb j (length cur) && Nat.ltb i (length cur)
            | HSetMeta j k _ => Nat.ltb j (length cur) && key_name_ok k
            | _ => true
            end
  end.
Fixpoint hist_wf (steps : list hstep) (cur : list elem) : bool :=
  match steps with
  | [] => true
  | s :: r => step_wf s cur && hist_wf r (step_next s cur)
  end.
Definition is_verr (v : val) : bool := match v with VE _ => true | _ => false end.
(* per step: [outcome of the call; content of the collection afterwards]; a raising step ends the history *)
Fixpoint hist_vals (steps : list hstep) (cur : list elem) : list val :=
  match steps with
  | [] => []
  | s :: r =>
      let v := match step_req s cur with Some q => result q | None => VNone end in
      if is_verr v then [v]
      else VL [v; vidx (step_next s cur)] :: hist_vals r (step_next s cur)
  end.
Definition run_C16_hist (objs : list elem) (steps : list hstep) : val :=
  VL [VB (elems_ok objs && hist_wf steps objs); VL (hist_vals steps objs)].

(* basket.fts = fs1; basket.add_fts(fs2); ... on ONE basket *)
Fixpoint hattach_vals (seqs : list (pv * list elem)) (steps : list (bool * list elem)) : list val :=
  match steps with
  | [] => []
  | (add, fs) :: r =>
      let rs := m_attach add seqs fs in
      VL (map vidx rs) :: hattach_vals (combine (map fst seqs) rs) r
  end.
Fixpoint hattach_wf (seqs : list (pv * list elem)) (steps : list (bool * list elem)) : bool :=
  match steps with
  | [] => true
  | (add, fs) :: r => attach_ok add seqs fs && hattach_wf (combine (map fst seqs) (m_attach add seqs fs)) r
  end.
Definition run_C16_hattach (seqs : list (pv * list elem)) (steps : list (bool * list elem)) : val :=
  VL [VB (hattach_wf seqs steps); VL (hattach_vals seqs steps)].

(* ---------------------------------------------------------------- specification side (used by the theorems) *)
(* truth value of one condition on one element (false where Python would raise; inside wf_C16 it never does) *)
Definition holds (c : cond) (x : elem) : bool := match cond_eval c x with Ok b => b | Err _ => false end.
Definition holds_all (conds : list cond) (x : elem) : bool := forallb (fun c => holds c x) conds.
(* the order a key tuple induces: lexicographic, each key ascending (descending with reverse) *)
Definition lexle (kfs : list key) (reverse : bool) : elem -> elem -> bool :=
  fold_right (fun k acc => lex (dir reverse (key_le k)) acc) le_true kfs.
Fixpoint path_eqb (p q : list pv) : bool :=
  match p, q with
  | [], [] => true
  | a :: p', b :: q' => pv_eqb a b && path_eqb p' q'
  | _, _ => false
  end.
Definition matches (t : targ) (x : elem) : bool := match type_matches t x with Ok b => b | Err _ => false end.
Definition nonempty {A} (l : list A) : bool := match l with [] => false | _ => true end.
(* basket.fts = fs / basket.add_fts(fs): the first sequence with a given id receives the features whose seqid equals it,
   in order (add_fts: appended to its old features and re-sorted with the default feature order); all others keep theirs *)
Fixpoint attach_spec (add : bool) (seen : list pv) (seqs : list (pv * list elem)) (fs : list elem) : list (list elem) :=
  match seqs with
  | [] => []
  | (sid, old) :: r =>
      let mine := filter (fun f => pv_eqb (mget k_seqid f) sid) fs in
      (if negb (existsb (pv_eqb sid) seen) && nonempty mine then attach_new add old mine else old)
      :: attach_spec add (sid :: seen) r fs
  end.
(* groupby, completely: keys of every level in order of first occurrence, below each key the grouping of the elements
   carrying it by the remaining keys, at the bottom the elements themselves in input order *)
Definition add_key (acc : list pv) (v : pv) : list pv := if existsb (pv_eqb v) acc then acc else acc ++ [v].
Definition first_occ (l : list pv) : list pv := fold_left add_key l [].
Fixpoint spec_tree (kfs : list key) (objs : list elem) : gtree :=
  match kfs with
  | [] => GLeaf objs
  | k :: kfs' =>
      GNode (map (fun v => (v, spec_tree kfs' (filter (fun x => pv_eqb (keyval k x) v) objs)))
                 (first_occ (map (keyval k) objs)))
  end.
(* the groups of a groupby result read off in the order of the nested dicts *)
Fixpoint leaves (t : gtree) : list elem :=
  match t with
  | GLeaf l => l
  | GNode kids => flat_map (fun kt => leaves (snd kt)) kids
  end.
(* todict: the last element carrying an id *)
Definition last_with (k : pv) (objs : list elem) : option elem :=
  fold_left (fun acc x => if pv_eqb (mget k_id x) k then Some x else acc) objs None.
(* elements whose metadata is a dict (no repeated key) *)
Definition meta_ok (x : elem) : bool := nodup_keys (emeta x).

(* ---------------------------------------------------------------- round 7: collection kinds and the PLACE of a key *)
(* The three collections that hand their elements to the shared helpers, and where those look a str key up:
   FeatureList / BioBasket pass attr='meta' (fts.py:696,802, seq.py:1084,1103; _filter's default attr='meta', fts.py:829,
   seq.py:1129): getattr(getattr(obj, 'meta'), key, None).  BioMatchList.groupby passes no attr (cane.py:157):
   getattr(obj, key, None) - an instance attribute of the BioMatch (rf, seqid, lenseq, whatever the caller set), else an
   attribute of the wrapped re.Match (BioMatch.__getattr__, cane.py:133-134), else None.  A callable key is applied to the object
   itself, whatever the collection (cane.py:19-23).  The getter is built anew by every call (cane.py:19-24): no state. *)
Inductive ckind := CFl | CBb | CMl.                 (* FeatureList | BioBasket | BioMatchList *)
Inductive xop := XSort | XGroup | XFilter.
(* an object with BOTH places: xe = the Feature / BioSeq (metadata, locations, residues; for a BioMatch: eidx only, plus the
   .meta attribute a caller may have set), xinst = instance attributes besides meta, xwrap = attributes of the wrapped re.Match *)
Record xobj := mkX { xe : elem; xinst : list (str * pv); xwrap : list (str * pv) }.
Inductive place := PlMeta (s : str) | PlAttr (s : str) | PlLen | PlCall (k : key).
Definition attr_is_meta (K : ckind) : bool := match K with CMl => false | _ => true end.
(* BioMatchList has groupby (and its alias d) only; its sort is list.sort of UserList, it has no filter *)
Definition supported (K : ckind) (op : xop) : bool := match K, op with CMl, XGroup => true | CMl, _ => false | _, _ => true end.
(* the decision table: key of sort / groupby *)
Definition place_of_key (K : ckind) (k : key) : place :=
  match k with
  | KMeta s => if attr_is_meta K then PlMeta s else PlAttr s
  | _ => PlCall k
  end.
(* ... and the key part of a filter condition key_op=value (getv, cane.py:95-97; attr is always 'meta') *)
Definition place_of_cond (s : str) : place := if str_eqb s k_len then PlLen else PlMeta s.
Definition opt_or {A} (a : option A) (b : option A) : option A := match a with Some _ => a | None => b end.
(* getattr(obj, s, None): instance attribute, else attribute of the wrapped match, else None *)
Definition getattr_none (s : str) (o : xobj) : pv :=
  match opt_or (assoc s (xinst o)) (assoc s (xwrap o)) with Some v => v | None => PNone end.
(* what the helpers see of an object: its metadata (attr='meta') or the finite map of its attributes (no attr) *)
Definition xview (K : ckind) (o : xobj) : elem :=
  if attr_is_meta K then xe o else mkE (eidx (xe o)) false [] [] (xinst o ++ xwrap o) false.
(* the value at a place; the callables of the harness read where the collection's str keys live:
   o.meta.get(k, v) on a Feature / BioSeq, getattr(o, k, v) on a BioMatch *)
Definition place_val (K : ckind) (p : place) (o : xobj) : pv :=
  match p with
  | PlMeta s => mget s (xe o)
  | PlAttr s => getattr_none s o
  | PlLen => PInt (elen (xe o))
  | PlCall k => keyval k (xview K o)
  end.
Definition xkeyval (K : ckind) (k : key) (o : xobj) : pv := place_val K (place_of_key K k) o.
(* the three helpers on a collection of kind K: the shared helper run on what it sees of each object *)
Definition x_groupby (K : ckind) (ks : keyspec) (objs : list xobj) : res gtree := m_groupby ks (map (xview K) objs).
Definition x_sort (K : ckind) (ks : keyspec) (reverse : bool) (objs : list xobj) : list elem := m_sort ks reverse (map (xview K) objs).
Definition x_filter (K : ckind) (conds : list cond) (objs : list xobj) : res (list elem) := m_filter conds (map (xview K) objs).

(* histories across collection kinds: every step carries its own operands (the model is a pure function of them) *)
Inductive xstep :=
| XsGroup (K : ckind) (objs : list xobj) (ks : keyspec)
| XsSort (K : ckind) (objs : list xobj) (ks : keyspec) (reverse : bool)
| XsFilter (K : ckind) (objs : list xobj) (conds : list cond).
Definition xstep_req (s : xstep) : req :=
  match s with
  | XsGroup K objs ks => RGroup (map (xview K) objs) ks
  | XsSort K objs ks r => RSort (map (xview K) objs) ks r
  | XsFilter K objs conds => RFilter false (map (xview K) objs) conds
  end.
(* attribute names of BioMatch / re.Match whose values are no None/int/str (methods, the pattern, the text): outside the domain *)
Definition match_nondata_names : list str :=
  [bs "span"%bs; bs "start"%bs; bs "end"%bs; bs "group"%bs; bs "groups"%bs; bs "groupdict"%bs; bs "expand"%bs; bs "re"%bs;
   bs "string"%bs; bs "regs"%bs; bs "meta"%bs].
Definition attr_name_ok (s : str) : bool := key_name_ok s && negb (existsb (str_eqb s) match_nondata_names).
Definition attrs_ok (m : list (str * pv)) : bool := nodup_keys m && forallb (fun kvp => attr_name_ok (fst kvp)) m.
Definition xobj_ok (K : ckind) (o : xobj) : bool :=
  attrs_ok (xinst o) && attrs_ok (xwrap o) &&
  match K with CFl => elem_ok true (xe o) | CBb => elem_ok false (xe o) | CMl => nodup_keys (emeta (xe o)) end.
(* keys a BioMatchList can be grouped by inside the domain: attribute names and the callables that read attributes *)
Definition ml_key_ok (k : key) : bool :=
  match k with
  | KMeta s | KLowerMeta s | KMetaOr s _ => attr_name_ok s
  | KConst => true
  | _ => false
  end.
Definition xstep_wf (s : xstep) : bool :=
  match s with
  | XsGroup CMl objs ks =>
      forallb (xobj_ok CMl) objs && forallb ml_key_ok (keyfuncs ks) && forallb (key_dom (map (xview CMl) objs)) (keyfuncs ks)
      && is_ok (x_groupby CMl ks objs)
  | XsGroup K objs _ => forallb (xobj_ok K) objs && wf_C16 (xstep_req s)
  | XsSort K objs _ _ => supported K XSort && forallb (xobj_ok K) objs && wf_C16 (xstep_req s)
  | XsFilter K objs _ => supported K XFilter && forallb (xobj_ok K) objs && wf_C16 (xstep_req s)
  end.
Definition run_C16_xhist (steps : list xstep) : val :=
  VL [VB (forallb xstep_wf steps); VL (map (fun s => result (xstep_req s)) steps)].
